/-
  Property C02, convergence part, continued — boundary kinds and terms not covered by
  PyFV.Props.C02Conv (which treats `−u'' = f` with Dirichlet data on both sides).

  Part 1: Robin / Neumann data on the low side (`a u'(0) + b u(0) = c` in the code's convention:
          the relation is applied in the positive coordinate direction), Dirichlet on the high
          side.  Sign condition `a ≤ 0 ≤ b`, not both zero (pure Neumann `b = 0` included):
          the continuous problem is uniquely solvable (`robin_continuous_unique`), the ghost
          coefficient is positive and dominates the cell coefficient (`robin_ghost_coefficients`:
          M-matrix after ghost elimination), the ghost-cell Robin row is second-order consistent
          at the boundary FACE (`robin_row_consistent`), and every field satisfying the model's
          rows obeys `|x_c − u(x_c)| ≤ (M4 L²/24 + 5 M3 L/4 + M2) h²` for every `N ≥ 2`
          (`poisson_robin_converges`, `…_solves`); discrete existence and uniqueness.

  Smoothness as in C02Conv: `u` is `ContDiff ℝ 4` on the line, the bounds `M2`, `M3`, `M4` on the
  second, third and fourth derivative are required on `[0, L]` only, and `u` is never evaluated
  outside `[0, L]` in the convergence theorems (the reference value in the ghost cell is the
  Taylor polynomial `ghostT` about the boundary point).
-/
import PyFV.Lemmas.TaylorBC
import PyFV.Props.C02Conv

set_option linter.unusedSectionVars false

namespace PyFV.C02ConvBC
open PyFV Set PyFV.C02Conv

/-! ## Part 1 — Robin / Neumann data on the low side -/

/-- **Sign condition ⇒ M-matrix after ghost elimination.**  For `a ≤ 0 ≤ b`, not both zero, and
    every `h > 0` the ghost coefficient `G = −a/h + b/2` of the model's low Robin row is positive
    and dominates the cell coefficient `C = a/h + b/2`: `|C| ≤ G`.  Hence the eliminated ghost
    value is `x₀ = c/G − (C/G) x₁` with `|C/G| ≤ 1`, and the first row becomes
    `((2 + C/G) x₁ − x₂)/h² = f₁ + c/(G h²)` with diagonal `1 ≤ 2 + C/G ≤ 3` and off-diagonal `−1`
    (`robin_row_eliminated`): a weakly diagonally dominant Z-row. -/
theorem robin_ghost_coefficients {α : Type} [Field α] [LinearOrder α] [IsStrictOrderedRing α]
    (a b h : α) (hh : 0 < h) (ha : a ≤ 0) (hb : 0 ≤ b) (hab : a < 0 ∨ 0 < b) :
    0 < -(a / h) + b / 2 ∧ |a / h + b / 2| ≤ -(a / h) + b / 2 ∧
      1 ≤ 2 + (a / h + b / 2) / (-(a / h) + b / 2) ∧
      2 + (a / h + b / 2) / (-(a / h) + b / 2) ≤ 3 := by
  have h1 : 0 ≤ -(a / h) := by rw [← neg_div]; exact div_nonneg (by linarith) hh.le
  have h2 : 0 ≤ b / 2 := by positivity
  have hG : 0 < -(a / h) + b / 2 := by
    rcases hab with h' | h'
    · have : 0 < -(a / h) := by rw [← neg_div]; exact div_pos (by linarith) hh
      linarith
    · have : 0 < b / 2 := by positivity
      linarith
  have habs : |a / h + b / 2| ≤ -(a / h) + b / 2 := by
    rw [abs_le]; constructor <;> linarith
  refine ⟨hG, habs, ?_, ?_⟩
  · have : -1 ≤ (a / h + b / 2) / (-(a / h) + b / 2) := by
      rw [le_div_iff₀ hG]; linarith [(abs_le.1 habs).1]
    linarith
  · have : (a / h + b / 2) / (-(a / h) + b / 2) ≤ 1 := by
      rw [div_le_iff₀ hG]; linarith [(abs_le.1 habs).2]
    linarith

/-- the first interior row after elimination of the ghost unknown through `G x₀ + C x₁ = c` -/
theorem robin_row_eliminated {α : Type} [Field α] [LinearOrder α] [IsStrictOrderedRing α]
    (G C c h x0 x1 x2 : α) (hG : G ≠ 0) (hh : h ≠ 0) (hrel : G * x0 + C * x1 = c) :
    -((x2 - 2 * x1 + x0) / h ^ 2) = ((2 + C / G) * x1 - x2) / h ^ 2 - c / (G * h ^ 2) := by
  rw [← hrel]
  field_simp
  ring

/-- the same for the model's coefficients on the uniform mesh: `loGhostCoef > 0` and
    `|loCellCoef| ≤ loGhostCoef` -/
theorem robinLoBC_ghost_dominant {α : Type} [Field α] [LinearOrder α] [IsStrictOrderedRing α]
    {M : Mesh α} {N : ℕ} {L : α} (hM : IsUniform1D M N L) (hN : 1 ≤ N) (hL : 0 < L)
    (a b c uR : α) (ha : a ≤ 0) (hb : 0 ≤ b) (hab : a < 0 ∨ 0 < b) (cc : Idx) :
    0 < loGhostCoef M (robinLoBC a b c uR) .x cc ∧
      |loCellCoef M (robinLoBC a b c uR) .x cc| ≤ loGhostCoef M (robinLoBC a b c uR) .x cc := by
  have hNpos : (0 : α) < N := by exact_mod_cast (by omega : 0 < N)
  have hh : 0 < L / (N : α) := div_pos hL hNpos
  rw [loGhostCoef_robinLoBC hM, loCellCoef_robinLoBC hM]
  obtain ⟨h1, h2, _⟩ := robin_ghost_coefficients a b (L / N) hh ha hb hab
  exact ⟨h1, h2⟩

/-- the sign condition is needed: with `a > 0`, `b > 0` (`a = 1`, `b = 2`, `h = 1`) the ghost
    coefficient vanishes and the model's ghost value is undefined, whatever the field -/
theorem robin_wrong_sign_counterexample (c uR : ℝ) (φ : CellFld ℝ) :
    ghostLo (uniMesh 2 (2 : ℝ)) (robinLoBC 1 2 c uR) φ .x (1, 1, 1) = none := by
  have hper : (robinLoBC (1 : ℝ) 2 c uR).periodicDir .x = false := rfl
  rw [ghostLo_nonper hper, sdiv_eq_none, loGhostCoef_robinLoBC (uniMesh_isUniform 2 (2 : ℝ))]
  norm_num

/-- **Well-posedness of the continuous problem** under the sign condition: the homogeneous
    problem `u'' = 0` on `[0, L]`, `a u'(0) + b u(0) = 0`, `u(L) = 0` has only the zero solution -/
theorem robin_continuous_unique (a b L : ℝ) (hL : 0 < L) (ha : a ≤ 0) (hb : 0 ≤ b)
    (hab : a < 0 ∨ 0 < b) (u : ℝ → ℝ) (hu : ContDiff ℝ 2 u)
    (h0 : ∀ y ∈ Icc 0 L, deriv (deriv u) y = 0)
    (hlo : a * deriv u 0 + b * u 0 = 0) (hhi : u L = 0) :
    ∀ y ∈ Icc 0 L, u y = 0 := by
  have h0mem : (0 : ℝ) ∈ Icc 0 L := ⟨le_refl _, hL.le⟩
  have aff : ∀ y ∈ Icc 0 L, u y = u 0 + y * deriv u 0 := by
    intro y hy
    have := taylor2_bound hu 0 y 0 (fun z hz => by
      rw [h0 z (uIcc_subset_Icc h0mem (by rw [zero_add]; exact hy) hz)]; simp)
    rw [zero_add] at this
    have h1 : |u y - (u 0 + y * deriv u 0)| ≤ 0 := by linarith
    have := abs_nonpos_iff.1 h1
    linarith
  have hLL := aff L ⟨hL.le, le_refl _⟩
  rw [hhi] at hLL
  have hne : a - b * L < 0 := by
    rcases hab with h | h
    · have : 0 ≤ b * L := by positivity
      linarith
    · have : 0 < b * L := by positivity
      linarith
  have hd : deriv u 0 = 0 := by
    have : (a - b * L) * deriv u 0 = 0 := by
      have : u 0 = -(L * deriv u 0) := by linarith
      rw [this] at hlo
      linarith
    rcases mul_eq_zero.1 this with h | h
    · linarith
    · exact h
  intro y hy
  rw [aff y hy, hd]
  have : u 0 = 0 := by rw [hd] at hLL; linarith
  rw [this]; ring

/-- … and fails without it: for `a = 1`, `b = 1`, `L = 1` (`a = b L > 0`) the non-zero function
    `u(y) = y − 1` solves the homogeneous problem -/
theorem robin_continuous_wrong_sign_counterexample :
    ∃ u : ℝ → ℝ, ContDiff ℝ 2 u ∧ (∀ y, deriv (deriv u) y = 0) ∧
      (1 : ℝ) * deriv u 0 + 1 * u 0 = 0 ∧ u 1 = 0 ∧ u 0 ≠ 0 := by
  refine ⟨fun y => y - 1, by fun_prop, ?_, ?_, by norm_num, by norm_num⟩
  · intro y
    have : deriv (fun y : ℝ => y - 1) = fun _ => 1 := by funext z; simp
    rw [this]; simp
  · have : deriv (fun y : ℝ => y - 1) = fun _ => 1 := by funext z; simp
    rw [this]; norm_num

/-- **Consistency of the ghost-cell Robin row** at a boundary face `xf` (ghost centre `xf − h/2`,
    adjacent cell centre `xf + h/2`): the centred difference across the face and the two-point
    average are both second-order at the FACE, so for `u ∈ C³`
    `|a (u₁ − u₀)/h + b (u₀ + u₁)/2 − (a u'(xf) + b u(xf))| ≤ (|a| M3/24 + |b| M2/8) h²`
    (`u₀`, `u₁` the exact solution at the ghost and the cell centre; any signs of `a`, `b`). -/
theorem robin_row_consistent {u : ℝ → ℝ} (hu : ContDiff ℝ 3 u) (a b M2 M3 xf h : ℝ) (hh : 0 < h)
    (hb2 : ∀ y ∈ Icc (xf - h / 2) (xf + h / 2), |deriv (deriv u) y| ≤ M2)
    (hb3 : ∀ y ∈ Icc (xf - h / 2) (xf + h / 2), |iteratedDeriv 3 u y| ≤ M3) :
    |a * ((u (xf + h / 2) - u (xf - h / 2)) / h) + b * ((u (xf - h / 2) + u (xf + h / 2)) / 2)
        - (a * deriv u xf + b * u xf)| ≤ (|a| * M3 / 24 + |b| * M2 / 8) * h ^ 2 := by
  have G := central_gradient_error hu (xf - h / 2) (xf + h / 2) M3 hb3 (xf - h / 2) h hh
    (le_refl _) (by linarith)
  have A := linear_mean_error (hu.of_le (by norm_num)) (xf - h / 2) (xf + h / 2) M2 hb2
    (xf - h / 2) h hh (le_refl _) (by linarith)
  rw [show xf - h / 2 + h = xf + h / 2 by ring, show xf - h / 2 + h / 2 = xf by ring] at G A
  have key : a * ((u (xf + h / 2) - u (xf - h / 2)) / h)
        + b * ((u (xf - h / 2) + u (xf + h / 2)) / 2) - (a * deriv u xf + b * u xf)
      = a * ((u (xf + h / 2) - u (xf - h / 2)) / h - deriv u xf)
        + b * ((u (xf + h / 2) + u (xf - h / 2)) / 2 - u xf) := by ring
  rw [key]
  calc _ ≤ _ := abs_add_le _ _
    _ ≤ |a| * (M3 * h ^ 2 / 24) + |b| * (M2 * h ^ 2 / 8) := by
        rw [abs_mul, abs_mul]
        exact add_le_add (mul_le_mul_of_nonneg_left G (abs_nonneg _))
          (mul_le_mul_of_nonneg_left A (abs_nonneg _))
    _ = _ := by ring

/-- **Consistency of the model's low Robin boundary row** (`boundaryConditionsTerm`): applied to
    the exact solution sampled at the ghost centre `−h/2` and the first cell centre `h/2`, the row
    of the low ghost cell is satisfied up to `(|a| M3/24 + |b| M2/8) h²` -/
theorem bcRowLo_robin_consistent {M : Mesh ℝ} {N : ℕ} {L : ℝ} (hM : IsUniform1D M N L)
    (hN : 1 ≤ N) (hL : 0 < L) {u : ℝ → ℝ} (hu : ContDiff ℝ 3 u) (a b uR M2 M3 : ℝ)
    (hb2 : ∀ y ∈ Icc (-(L / N) / 2) (L / N / 2), |deriv (deriv u) y| ≤ M2)
    (hb3 : ∀ y ∈ Icc (-(L / N) / 2) (L / N / 2), |iteratedDeriv 3 u y| ≤ M3)
    (φ : CellFld ℝ) (hφ0 : φ (0, 1, 1) = u (M.ax.cen 0)) (hφ1 : φ (1, 1, 1) = u (M.ax.cen 1)) :
    |(bcRowLo M (robinLoBC a b (a * deriv u 0 + b * u 0) uR) .x (1, 1, 1)).app φ
        - (bcRowLo M (robinLoBC a b (a * deriv u 0 + b * u 0) uR) .x (1, 1, 1)).rhs|
      ≤ (|a| * M3 / 24 + |b| * M2 / 8) * (L / N) ^ 2 := by
  have hNpos : (0 : ℝ) < N := by exact_mod_cast (by omega : 0 < N)
  have hh : 0 < L / (N : ℝ) := div_pos hL hNpos
  have hper : (robinLoBC a b (a * deriv u 0 + b * u 0) uR).periodicDir .x = false := rfl
  have hc : ((robinLoBC a b (a * deriv u 0 + b * u 0) uR).lo .x).c (1, 1, 1)
      = a * deriv u 0 + b * u 0 := rfl
  rw [bcRowLo_nonper hper, Row.app_two, loGhostCoef_robinLoBC hM, loCellCoef_robinLoBC hM]
  simp only [hc, Idx.set, hφ0, hφ1, hM.ax]
  have e0 : (mkAxisNL N L).cen 0 = 0 - L / N / 2 := by simp only [mkAxisNL, Nat.cast_zero]; ring
  have e1 : (mkAxisNL N L).cen 1 = 0 + L / N / 2 := by rw [cenNL_one]; ring
  rw [e0, e1]
  have R := robin_row_consistent hu a b M2 M3 0 (L / N) hh
    (fun y hy => hb2 y ⟨by linarith [hy.1], by linarith [hy.2]⟩)
    (fun y hy => hb3 y ⟨by linarith [hy.1], by linarith [hy.2]⟩)
  have key : -(a / (L / N) + b / 2) * u (0 + L / N / 2)
        + -(-(a / (L / N)) + b / 2) * u (0 - L / N / 2) - -(a * deriv u 0 + b * u 0)
      = -(a * ((u (0 + L / N / 2) - u (0 - L / N / 2)) / (L / N))
          + b * ((u (0 - L / N / 2) + u (0 + L / N / 2)) / 2) - (a * deriv u 0 + b * u 0)) := by
    field_simp
    ring
  rw [key, abs_neg]
  exact R

/-- **Convergence on the ghosted line, Robin at the low end.**  `u ∈ C⁴`, `−u'' = f` on `[0, L]`,
    bounds `M2`, `M3`, `M4` on the second, third, fourth derivative on `[0, L]`; `a ≤ 0 ≤ b`, not
    both zero; `xs` satisfies the `N ≥ 2` interior rows, the model's low Robin ghost relation
    `a (xs₁ − xs₀)/h + b (xs₀ + xs₁)/2 = a u'(0) + b u(0)` (written with the ghost and cell
    coefficients) and the Dirichlet ghost relation at the high end.  Then
    `|xs_i − u(x_i)| ≤ (M4 L²/24 + 5 M3 L/4 + M2) h²` in every cell. -/
theorem poisson_robin_converges_line (N : ℕ) (hN : 2 ≤ N) (L : ℝ) (hL : 0 < L) (a b : ℝ)
    (ha : a ≤ 0) (hb : 0 ≤ b) (hab : a < 0 ∨ 0 < b)
    (u f : ℝ → ℝ) (hu : ContDiff ℝ 4 u) (M2 M3 M4 : ℝ)
    (hf : ∀ y ∈ Icc 0 L, -(deriv (deriv u) y) = f y)
    (h2 : ∀ y ∈ Icc 0 L, |deriv (deriv u) y| ≤ M2)
    (h3 : ∀ y ∈ Icc 0 L, |iteratedDeriv 3 u y| ≤ M3)
    (h4 : ∀ y ∈ Icc 0 L, |iteratedDeriv 4 u y| ≤ M4)
    (xs : ℕ → ℝ)
    (hrow : ∀ i, 1 ≤ i → i ≤ N →
      -((xs (i + 1) - 2 * xs i + xs (i - 1)) / (L / N) ^ 2) = f ((mkAxisNL N L).cen i))
    (hlo : (-(a / (L / N)) + b / 2) * xs 0 + (a / (L / N) + b / 2) * xs 1
      = a * deriv u 0 + b * u 0)
    (hhi : xs (N + 1) = 2 * u L - xs N) :
    ∀ i, 1 ≤ i → i ≤ N →
      |xs i - u ((mkAxisNL N L).cen i)|
        ≤ (M4 * L ^ 2 / 24 + 5 * M3 * L / 4 + M2) * (L / N) ^ 2 := by
  have hNpos : (0 : ℝ) < N := by exact_mod_cast (by omega : 0 < N)
  have hN2 : (2 : ℝ) ≤ N := by exact_mod_cast hN
  have hh : 0 < L / (N : ℝ) := div_pos hL hNpos
  have hp : 0 < (L / (N : ℝ)) ^ 2 := pow_pos hh 2
  have hhL : L / (N : ℝ) ≤ L / 2 := div_le_div_of_nonneg_left hL.le (by norm_num) hN2
  have h0mem : (0 : ℝ) ∈ Icc 0 L := ⟨le_refl _, hL.le⟩
  have hM2 : 0 ≤ M2 := le_trans (abs_nonneg _) (h2 0 h0mem)
  have hM3 : 0 ≤ M3 := le_trans (abs_nonneg _) (h3 0 h0mem)
  have hM4 : 0 ≤ M4 := le_trans (abs_nonneg _) (h4 0 h0mem)
  have hu2 : ContDiff ℝ 2 u := hu.of_le (by norm_num)
  have hu3 : ContDiff ℝ 3 u := hu.of_le (by norm_num)
  have hdd : ∀ i, 1 ≤ i → i ≤ N → deriv (deriv u) ((mkAxisNL N L).cen i)
      = (xs (i + 1) - 2 * xs i + xs (i - 1)) / (L / N) ^ 2 := by
    intro i h1 hN'
    have a := hrow i h1 hN'
    have b := hf _ (cenNL_mem N L hL i h1 hN')
    linarith
  -- the three boundary Taylor estimates
  have D1 := ghostT_grad hu3 L M3 h3 (L / N) hh (by linarith)
  have D2 := ghostT_mean hu3 L M2 M3 h2 h3 (L / N) hh (by linarith)
  have D3 := ghostT_row hu3 L M3 h3 (L / N) hh (by linarith)
  have hres := robin_error_of_truncation N hN L hL a b ha hb hab
    (M4 * (L / N) ^ 2 / 12) (53 / 48 * M3 * (L / N)) (7 * M2 / 4)
    (M3 * (L / N) ^ 2 / 48) (M2 * (L / N) ^ 2 / 8 + M3 * (L / N) ^ 3 / 96)
    (by positivity) (by positivity) (by positivity)
    (fun j => xs j - refR N L u j)
    (fun j => (refR N L u (j + 1) - 2 * refR N L u j + refR N L u (j - 1)) / (L / N) ^ 2
      - deriv (deriv u) ((mkAxisNL N L).cen j))
    (-(a * ((u (L / N / 2) - ghostT u (L / N)) / (L / N) - deriv u 0)
      + b * ((u (L / N / 2) + ghostT u (L / N)) / 2 - u 0)))
    (by
      intro j h1 hN'
      show -((xs (j + 1) - refR N L u (j + 1)) - 2 * (xs j - refR N L u j)
          + (xs (j - 1) - refR N L u (j - 1))) / (L / N) ^ 2 = _
      rw [hdd j h1 hN']; ring)
    (by
      show (-(a / (L / N)) + b / 2) * (xs 0 - refR N L u 0)
        + (a / (L / N) + b / 2) * (xs 1 - refR N L u 1) = _
      rw [refR_zero, refR_pos N L u 1 (le_refl _), refSol_interior N L u 1 (by omega) (by omega),
        cenNL_one]
      have e : (-(a / (L / N)) + b / 2) * (xs 0 - ghostT u (L / N))
          + (a / (L / N) + b / 2) * (xs 1 - u (L / N / 2))
          = ((-(a / (L / N)) + b / 2) * xs 0 + (a / (L / N) + b / 2) * xs 1)
            - (a * ((u (L / N / 2) - ghostT u (L / N)) / (L / N))
              + b * ((u (L / N / 2) + ghostT u (L / N)) / 2)) := by
        field_simp
        ring
      rw [e, hlo]; ring)
    (by
      show xs (N + 1) - refR N L u (N + 1) = -(xs N - refR N L u N)
      rw [refR_pos N L u (N + 1) (by omega), refR_pos N L u N (by omega), refSol_last,
        refSol_interior N L u N (by omega) (by omega), hhi]; ring)
    (by
      rw [abs_neg]
      calc _ ≤ _ := abs_add_le _ _
        _ ≤ |a| * (M3 * (L / N) ^ 2 / 48)
            + |b| * (M2 * (L / N) ^ 2 / 8 + M3 * (L / N) ^ 3 / 96) := by
            rw [abs_mul, abs_mul]
            exact add_le_add (mul_le_mul_of_nonneg_left D1 (abs_nonneg _))
              (mul_le_mul_of_nonneg_left D2 (abs_nonneg _))
        _ = _ := by rw [abs_of_nonpos ha, abs_of_nonneg hb])
    (fun j hj2 hjN => by
      show |(refR N L u (j + 1) - 2 * refR N L u j + refR N L u (j - 1)) / (L / N) ^ 2
        - deriv (deriv u) ((mkAxisNL N L).cen j)| ≤ _
      rw [refR_pos N L u (j + 1) (by omega), refR_pos N L u j (by omega),
        refR_pos N L u (j - 1) (by omega)]
      exact reference_truncation_interior N L hL hu M4 h4 j hj2 hjN)
    (by
      show |(refR N L u (1 + 1) - 2 * refR N L u 1 + refR N L u (1 - 1)) / (L / N) ^ 2
        - deriv (deriv u) ((mkAxisNL N L).cen 1)| ≤ _
      rw [show 1 - 1 = 0 from rfl, refR_zero, refR_pos N L u (1 + 1) (by omega),
        refR_pos N L u 1 (by omega), refSol_interior N L u (1 + 1) (by omega) (by omega),
        refSol_interior N L u 1 (by omega) (by omega), cenNL_succ, cenNL_one,
        show L / N / 2 + L / N = 3 * (L / N) / 2 by ring]
      exact D3)
    (by
      show |(refR N L u (N + 1) - 2 * refR N L u N + refR N L u (N - 1)) / (L / N) ^ 2
        - deriv (deriv u) ((mkAxisNL N L).cen N)| ≤ _
      rw [refR_pos N L u (N + 1) (by omega), refR_pos N L u N (by omega),
        refR_pos N L u (N - 1) (by omega)]
      exact reference_truncation_boundary N hN L hL hu2 M2 h2 N (Or.inr rfl))
  intro i hi1 hiN
  have := hres i hi1 hiN
  rw [refR_pos N L u i hi1, refSol_interior N L u i hi1 hiN] at this
  refine le_trans this ?_
  have hh3 : M3 * (L / N) ^ 3 ≤ M3 * (L * (L / N) ^ 2) := by
    apply mul_le_mul_of_nonneg_left _ hM3
    have : (L / (N : ℝ)) ^ 3 = (L / N) * (L / N) ^ 2 := by ring
    rw [this]
    exact mul_le_mul_of_nonneg_right (by linarith) hp.le
  have hpos : 0 ≤ M3 * (L * (L / N) ^ 2) := by positivity
  nlinarith

/-- **Main theorem (C02, convergence, Robin / Neumann on the low side).**  `M` is the uniform 1-D
    Cartesian mesh with `N ≥ 2` cells on `[0, L]` (`h = L/N`); `a ≤ 0 ≤ b`, not both zero;
    `u ∈ C⁴` solves `−u'' = f` on `[0, L]` with `|u''| ≤ M2`, `|u'''| ≤ M3`, `|u⁗| ≤ M4` there.
    Let `x` be ANY ghosted field satisfying the model's discrete equations for the term list
    `[-diffusionTerm(1), constantSourceTerm(f(x_c))]`: the accumulated interior row
    (`sumRow`/`sumRhs`) in every cell `1..N`, the model's Robin ghost value `ghostLo` for
    `a ∂φ + b φ = a u'(0) + b u(0)` in the low ghost cell and the Dirichlet ghost value `ghostHi`
    (`φ = u(L)`) in the high one.  Then in every cell
    `|x_c − u(x_c)| ≤ (M4 L²/24 + 5 M3 L/4 + M2) · h²`. -/
theorem poisson_robin_converges {M : Mesh ℝ} {N : ℕ} {L : ℝ} (hM : IsUniform1D M N L)
    (hN : 2 ≤ N) (hL : 0 < L) (a b : ℝ) (ha : a ≤ 0) (hb : 0 ≤ b) (hab : a < 0 ∨ 0 < b)
    (u f : ℝ → ℝ) (hu : ContDiff ℝ 4 u) (M2 M3 M4 : ℝ)
    (hf : ∀ y ∈ Icc 0 L, -(deriv (deriv u) y) = f y)
    (h2 : ∀ y ∈ Icc 0 L, |deriv (deriv u) y| ≤ M2)
    (h3 : ∀ y ∈ Icc 0 L, |iteratedDeriv 3 u y| ≤ M3)
    (h4 : ∀ y ∈ Icc 0 L, |iteratedDeriv 4 u y| ≤ M4)
    (x : CellFld ℝ)
    (hrow : ∀ i, 1 ≤ i → i ≤ N →
      (sumRow (poissonTerms M f) (i, 1, 1)).app x (i, 1, 1) = sumRhs (poissonTerms M f) (i, 1, 1))
    (hlo : ghostLo M (robinLoBC a b (a * deriv u 0 + b * u 0) (u L)) x .x (1, 1, 1)
      = some (x (0, 1, 1)))
    (hhi : ghostHi M (robinLoBC a b (a * deriv u 0 + b * u 0) (u L)) x .x (N, 1, 1)
      = some (x (N + 1, 1, 1))) :
    ∀ i, 1 ≤ i → i ≤ N →
      |x (i, 1, 1) - u (M.ax.cen i)|
        ≤ (M4 * L ^ 2 / 24 + 5 * M3 * L / 4 + M2) * (L / N) ^ 2 := by
  rw [hM.ax]
  refine poisson_robin_converges_line N hN L hL a b ha hb hab u f hu M2 M3 M4 hf h2 h3 h4
    (fun i => x (i, 1, 1)) ?_ ?_ ?_
  · intro i h1 hN'
    have := hrow i h1 hN'
    rw [sumRow_poissonTerms_app, sumRhs_poissonTerms, diffusionRow_uniform1D_app hM (by omega) hL,
      hM.ax] at this
    exact this
  · exact ((ghostLo_robinLoBC_iff hM a b _ (u L) x (1, 1, 1) (x (0, 1, 1))).1 hlo).2
  · rw [ghostHi_robinLoBC] at hhi
    exact (Option.some.inj hhi).symm

/-- the same for a solution of the linear system `solvePDE` assembles (interior rows and the
    boundary rows of `boundaryConditionsTerm`), i.e. `Solves` of the model -/
theorem poisson_robin_converges_solves {M : Mesh ℝ} {N : ℕ} {L : ℝ} (hM : IsUniform1D M N L)
    (hN : 2 ≤ N) (hL : 0 < L) (a b : ℝ) (ha : a ≤ 0) (hb : 0 ≤ b) (hab : a < 0 ∨ 0 < b)
    (u f : ℝ → ℝ) (hu : ContDiff ℝ 4 u) (M2 M3 M4 : ℝ)
    (hf : ∀ y ∈ Icc 0 L, -(deriv (deriv u) y) = f y)
    (h2 : ∀ y ∈ Icc 0 L, |deriv (deriv u) y| ≤ M2)
    (h3 : ∀ y ∈ Icc 0 L, |iteratedDeriv 3 u y| ≤ M3)
    (h4 : ∀ y ∈ Icc 0 L, |iteratedDeriv 4 u y| ≤ M4)
    (x : CellFld ℝ)
    (hx : Solves M (robinLoBC a b (a * deriv u 0 + b * u 0) (u L)) (poissonTerms M f) x) :
    ∀ i, 1 ≤ i → i ≤ N →
      |x (i, 1, 1) - u (M.ax.cen i)|
        ≤ (M4 * L ^ 2 / 24 + 5 * M3 * L / 4 + M2) * (L / N) ^ 2 := by
  have hn : M.n .x = N := by simp [Mesh.n, Mesh.axis, hM.ax, mkAxisNL]
  have c1 := mem_cells_uniform1D hM 1 (by omega) (by omega)
  have cN := mem_cells_uniform1D hM N (by omega) (le_refl _)
  have hNpos : (0 : ℝ) < N := by exact_mod_cast (by omega : 0 < N)
  have hG := (robin_ghost_coefficients a b (L / N) (div_pos hL hNpos) ha hb hab).1
  refine poisson_robin_converges hM hN hL a b ha hb hab u f hu M2 M3 M4 hf h2 h3 h4 x
    (fun i h1 hN' => hx.interior_row (mem_cells_uniform1D hM i h1 hN')) ?_ ?_
  · have hb' := hx.bcLo c1 (Kind.active_x _) rfl
    exact (ghostLo_robinLoBC_iff hM a b _ (u L) x (1, 1, 1) (x (0, 1, 1))).2
      ⟨ne_of_gt hG, bcRowLo_robinLoBC hM a b _ (u L) x hb'⟩
  · have hb' := hx.bcHi cN (Kind.active_x _) (by rw [hn]; rfl)
    have := bcRowHi_dirichlet M _ .x (N, 1, 1) x rfl ⟨rfl, rfl⟩ hb'
    rw [hn] at this
    rw [ghostHi_robinLoBC]
    exact congrArg some this.symm

/-- **Uniqueness of the discrete Robin–Dirichlet solution** (every `N`, every right-hand side and
    data): ghost coefficient `G > 0` and `G + C = b ≥ 0` suffice -/
theorem robin_discrete_unique (N : ℕ) (h : ℝ) (hh : 0 < h) (G C c gR : ℝ) (hG : 0 < G)
    (hGC : 0 ≤ G + C) (rhs xs ys : ℕ → ℝ)
    (hx : ∀ i, 1 ≤ i → i ≤ N → -((xs (i + 1) - 2 * xs i + xs (i - 1)) / h ^ 2) = rhs i)
    (hy : ∀ i, 1 ≤ i → i ≤ N → -((ys (i + 1) - 2 * ys i + ys (i - 1)) / h ^ 2) = rhs i)
    (hx0 : G * xs 0 + C * xs 1 = c) (hxN : xs (N + 1) = 2 * gR - xs N)
    (hy0 : G * ys 0 + C * ys 1 = c) (hyN : ys (N + 1) = 2 * gR - ys N) :
    ∀ i, 1 ≤ i → i ≤ N → xs i = ys i := by
  intro i hi1 hiN
  have := robin_error_bound N h hh G C 0 hG hGC (fun j => xs j - ys j) (fun _ => 0) (fun _ => 0)
    (by
      intro j h1 hN'
      have a := hx j h1 hN'
      have b := hy j h1 hN'
      show -(xs (j + 1) - ys (j + 1) - 2 * (xs j - ys j) + (xs (j - 1) - ys (j - 1))) / h ^ 2 = 0
      have : -(xs (j + 1) - ys (j + 1) - 2 * (xs j - ys j) + (xs (j - 1) - ys (j - 1))) / h ^ 2
          = -((xs (j + 1) - 2 * xs j + xs (j - 1)) / h ^ 2)
            - -((ys (j + 1) - 2 * ys j + ys (j - 1)) / h ^ 2) := by ring
      rw [this, a, b, sub_self])
    (by intro j _ _; simp)
    (by show G * (xs 0 - ys 0) + C * (xs 1 - ys 1) = 0; linarith)
    (by show xs (N + 1) - ys (N + 1) = -(xs N - ys N); rw [hxN, hyN]; ring)
    (by simp) (by simp) i hi1 hiN
  have h0 : |xs i - ys i| ≤ 0 := this
  have := abs_nonpos_iff.1 h0
  linarith

/-- **Existence of the discrete Robin–Dirichlet solution** for every `N ≥ 1` (shooting) -/
theorem robin_discrete_exists (N : ℕ) (hN : 1 ≤ N) (h : ℝ) (hh : 0 < h) (G C c gR : ℝ)
    (hG : 0 < G) (hGC : 0 ≤ G + C) (rhs : ℕ → ℝ) :
    ∃ xs : ℕ → ℝ,
      (∀ i, 1 ≤ i → i ≤ N → -((xs (i + 1) - 2 * xs i + xs (i - 1)) / h ^ 2) = rhs i) ∧
      G * xs 0 + C * xs 1 = c ∧ xs (N + 1) = 2 * gR - xs N :=
  ⟨discreteSolR N G C c gR h rhs, discreteSolR_spec N hN G C c gR h hh hG hGC rhs⟩

/-- … and on the model's mesh: under the sign condition, for every `N ≥ 1`, every source and
    data there is a ghosted field satisfying the model's interior rows and ghost relations (the
    hypotheses of `poisson_robin_converges`) -/
theorem poisson_robin_model_solution_exists {M : Mesh ℝ} {N : ℕ} {L : ℝ}
    (hM : IsUniform1D M N L) (hN : 1 ≤ N) (hL : 0 < L) (a b : ℝ) (ha : a ≤ 0) (hb : 0 ≤ b)
    (hab : a < 0 ∨ 0 < b) (f : ℝ → ℝ) (c gR : ℝ) :
    ∃ x : CellFld ℝ,
      (∀ i, 1 ≤ i → i ≤ N →
        (sumRow (poissonTerms M f) (i, 1, 1)).app x (i, 1, 1)
          = sumRhs (poissonTerms M f) (i, 1, 1)) ∧
      ghostLo M (robinLoBC a b c gR) x .x (1, 1, 1) = some (x (0, 1, 1)) ∧
      ghostHi M (robinLoBC a b c gR) x .x (N, 1, 1) = some (x (N + 1, 1, 1)) := by
  have hNpos : (0 : ℝ) < N := by exact_mod_cast (by omega : 0 < N)
  have hh : 0 < L / (N : ℝ) := div_pos hL hNpos
  have hG := (robin_ghost_coefficients a b (L / N) hh ha hb hab).1
  obtain ⟨xs, hr, hl, hhi⟩ := robin_discrete_exists N hN (L / N) hh (-(a / (L / N)) + b / 2)
    (a / (L / N) + b / 2) c gR hG
    (by have : -(a / (L / N)) + b / 2 + (a / (L / N) + b / 2) = b := by ring
        rw [this]; exact hb)
    (fun i => f ((mkAxisNL N L).cen i))
  refine ⟨fun cc => xs cc.1, ?_, ?_, ?_⟩
  · intro i h1 hN'
    rw [sumRow_poissonTerms_app, sumRhs_poissonTerms, diffusionRow_uniform1D_app hM hN hL, hM.ax]
    exact hr i h1 hN'
  · exact (ghostLo_robinLoBC_iff hM a b c gR _ (1, 1, 1) _).2 ⟨ne_of_gt hG, hl⟩
  · rw [ghostHi_robinLoBC]
    exact congrArg some hhi.symm

/-! ### Non-vacuity (Part 1) -/

/-- `robin_row_consistent` with a concrete function: `u = x⁴` at the face `xf = 0`, any `a`, `b`,
    `0 < h ≤ 2` (`|u''| = 12 y² ≤ 12`, `|u'''| = 24 |y| ≤ 24` on `[−1, 1]`) -/
example (a b h : ℝ) (hh : 0 < h) (hh2 : h ≤ 2) :
    |a * (((0 + h / 2) ^ 4 - (0 - h / 2) ^ 4) / h) + b * (((0 - h / 2) ^ 4 + (0 + h / 2) ^ 4) / 2)
        - (a * (4 * (0 : ℝ) ^ 3) + b * (0 : ℝ) ^ 4)| ≤ (|a| * 24 / 24 + |b| * 12 / 8) * h ^ 2 := by
  have hy : ∀ y ∈ Icc ((0 : ℝ) - h / 2) (0 + h / 2), |y| ≤ 1 := fun y hy => by
    rw [abs_le]; constructor <;> linarith [hy.1, hy.2]
  have := robin_row_consistent (quartic_contDiff.of_le (by norm_num)) a b 12 24 0 h hh
    (fun y hy' => by
      rw [quartic_deriv2, abs_of_nonneg (by positivity)]
      have : y ^ 2 ≤ 1 := by
        have := hy y hy'
        rw [← sq_abs]; nlinarith [abs_nonneg y]
      linarith)
    (fun y hy' => by
      rw [quartic_d3', abs_mul, abs_of_pos (by norm_num : (0 : ℝ) < 24)]
      have := hy y hy'
      linarith)
  rwa [quartic_deriv1] at this

/-- the analytic hypotheses of `poisson_robin_converges` are satisfiable for every `L`:
    `u = x⁴`, `f = −12x²`, `M2 = 12 L²`, `M3 = 24 L`, `M4 = 24`; the Robin datum is
    `a u'(0) + b u(0) = 0` -/
example (L : ℝ) (a b : ℝ) :
    ContDiff ℝ 4 (fun t : ℝ => t ^ 4) ∧
    (∀ y ∈ Icc 0 L, -(deriv (deriv (fun t : ℝ => t ^ 4)) y) = (fun t => -(12 * t ^ 2)) y) ∧
    (∀ y ∈ Icc 0 L, |deriv (deriv (fun t : ℝ => t ^ 4)) y| ≤ 12 * L ^ 2) ∧
    (∀ y ∈ Icc 0 L, |iteratedDeriv 3 (fun t : ℝ => t ^ 4) y| ≤ 24 * L) ∧
    (∀ y ∈ Icc 0 L, |iteratedDeriv 4 (fun t : ℝ => t ^ 4) y| ≤ 24) ∧
    a * deriv (fun t : ℝ => t ^ 4) 0 + b * (fun t : ℝ => t ^ 4) 0 = 0 := by
  refine ⟨quartic_contDiff, fun y _ => by rw [quartic_deriv2], fun y hy => ?_, fun y hy => ?_,
    fun y _ => ?_, ?_⟩
  · rw [quartic_deriv2, abs_of_nonneg (by positivity)]
    have : y ^ 2 ≤ L ^ 2 := pow_le_pow_left₀ hy.1 hy.2 2
    linarith
  · rw [quartic_d3', abs_of_nonneg (by linarith [hy.1])]
    linarith [hy.2]
  · rw [quartic_deriv4]; norm_num
  · rw [quartic_deriv1]; norm_num

/-- **Non-vacuity for every `N ≥ 2` and every admissible Robin pair** (`a ≤ 0 ≤ b`, not both zero;
    `b = 0` is the pure Neumann condition `u'(0) = 0`): with `u = x⁴` on `[0, 1]` a field
    satisfying all hypotheses of `poisson_robin_converges` exists on `uniMesh N 1`, and it obeys
    the `O(h²)` bound with `K = 24/24 + 5·24/4 + 12 = 43` -/
example (N : ℕ) (hN : 2 ≤ N) (a b : ℝ) (ha : a ≤ 0) (hb : 0 ≤ b) (hab : a < 0 ∨ 0 < b) :
    ∃ x : CellFld ℝ,
      (∀ i, 1 ≤ i → i ≤ N →
        (sumRow (poissonTerms (uniMesh N (1 : ℝ)) (fun t => -(12 * t ^ 2))) (i, 1, 1)).app x
            (i, 1, 1)
          = sumRhs (poissonTerms (uniMesh N (1 : ℝ)) (fun t => -(12 * t ^ 2))) (i, 1, 1)) ∧
      ghostLo (uniMesh N (1 : ℝ)) (robinLoBC a b 0 1) x .x (1, 1, 1) = some (x (0, 1, 1)) ∧
      ghostHi (uniMesh N (1 : ℝ)) (robinLoBC a b 0 1) x .x (N, 1, 1) = some (x (N + 1, 1, 1)) ∧
      (∀ i, 1 ≤ i → i ≤ N →
        |x (i, 1, 1) - ((uniMesh N (1 : ℝ)).ax.cen i) ^ 4| ≤ 43 * (1 / N) ^ 2) := by
  obtain ⟨x, hr, hl, hh⟩ := poisson_robin_model_solution_exists (uniMesh_isUniform N (1 : ℝ))
    (by omega) one_pos a b ha hb hab (fun t => -(12 * t ^ 2)) 0 1
  refine ⟨x, hr, hl, hh, ?_⟩
  have hc : a * deriv (fun t : ℝ => t ^ 4) 0 + b * (fun t : ℝ => t ^ 4) 0 = 0 := by
    rw [quartic_deriv1]; norm_num
  have := poisson_robin_converges (uniMesh_isUniform N 1) hN one_pos a b ha hb hab
    (fun t => t ^ 4) (fun t => -(12 * t ^ 2)) quartic_contDiff 12 24 24
    (fun y _ => by rw [quartic_deriv2])
    (fun y hy => by
      rw [quartic_deriv2, abs_of_nonneg (by positivity)]
      have : y ^ 2 ≤ 1 ^ 2 := pow_le_pow_left₀ hy.1 hy.2 2
      linarith)
    (fun y hy => by
      rw [quartic_d3', abs_of_nonneg (by linarith [hy.1])]
      linarith [hy.2])
    (fun y _ => by rw [quartic_deriv4]; norm_num) x hr
    (by rw [hc, one_pow]; exact hl) (by rw [hc, one_pow]; exact hh)
  intro i h1 hN'
  have := this i h1 hN'
  norm_num at this ⊢
  exact this

/-- **The discrete solution exists and the `Solves` form applies to it** (`N = 2`, `L = 1`,
    `u = x⁴`, Robin `−u'(0) + u(0) = 0`): `robinSol` solves the system the model assembles
    (interior rows and both boundary rows), hence its cell values are within `43·(1/2)²` of
    `u(x_c)` -/
example :
    Solves (uniMesh 2 (1 : ℝ)) (robinLoBC (-1) 1 0 1)
      (poissonTerms (uniMesh 2 (1 : ℝ)) (fun t => -(12 * t ^ 2))) robinSol ∧
    ∀ i, 1 ≤ i → i ≤ 2 →
      |robinSol (i, 1, 1) - ((uniMesh 2 (1 : ℝ)).ax.cen i) ^ 4| ≤ 43 * (1 / (2 : ℕ)) ^ 2 := by
  refine ⟨robinSol_solves, ?_⟩
  have e : robinLoBC (-1 : ℝ) 1 ((-1) * deriv (fun t : ℝ => t ^ 4) 0 + 1 * (fun t : ℝ => t ^ 4) 0)
      ((fun t : ℝ => t ^ 4) 1) = robinLoBC (-1) 1 0 1 := by
    rw [quartic_deriv1]; norm_num
  have hx := robinSol_solves
  rw [← e] at hx
  have := poisson_robin_converges_solves (uniMesh_isUniform 2 1) (le_refl 2) one_pos (-1) 1
    (by norm_num) (by norm_num) (Or.inl (by norm_num))
    (fun t => t ^ 4) (fun t => -(12 * t ^ 2)) quartic_contDiff 12 24 24
    (fun y _ => by rw [quartic_deriv2])
    (fun y hy => by
      rw [quartic_deriv2, abs_of_nonneg (by positivity)]
      have : y ^ 2 ≤ 1 ^ 2 := pow_le_pow_left₀ hy.1 hy.2 2
      linarith)
    (fun y hy => by
      rw [quartic_d3', abs_of_nonneg (by linarith [hy.1])]
      linarith [hy.2])
    (fun y _ => by rw [quartic_deriv4]; norm_num) robinSol hx
  intro i h1 hN'
  have := this i h1 hN'
  norm_num at this ⊢
  exact this

end PyFV.C02ConvBC
