/-
  PyFV.Props.GenEqBCUtil — the boundary-condition convenience API of `boundary.py`, REGENERATED FROM THE PYTHON SOURCE by
  the translator T-bcu (harness/translate/tbcu.py → PyFV/Gen/BCUtilGen.lean, rewritten on every run):

  1. generated = specification (PyFV/Model/BCUtil.lean, written from the docstrings)
       untranslated_eq                       nothing in the scope of T-bcu (11 items) was left untranslated
       getter_table_eq, setter_table_eq      property `k` reads / stores into the private array `_k` (`self._k[:] = val`)
       init_table_eq, init_params_eq, default_periodic_eq      `BoundaryFace(a, b, c, periodic=False)`
       defaultNoFlux_eq, fixedValue_eq, fixedGradient_eq, newtonCooling_eq      all arguments, both flags
       fixedGradient_default_eq, fixedGradient_default_call, newtonCooling_default_eq,
       newtonCooling_forward, newtonCooling_reverse, periodic_unchanged
       base_wiring_eq, wiring_eq, ndims_eq   the six faces reach the attribute of their own name
       defaultBCs1D_eq, defaultBCs2D_eq, defaultBCs3D_eq, factory_table_eq, BoundaryConditions_eq
                                             class table = `Kind.dim`-based dispatch; a = 1, b = 0, c = 0, not periodic
       default_shapes_eq, default_shapes_cross_section, default_shape_left_c_2D
                                             shapes = cross-section shapes; the one deviation (`left.c` in 2-D has a
                                             leading 1-axis) is stated, not hidden
  2. property-level consequences, for every mesh `M` (every grid class), every direction `d`, both sides, any interior
     field `φ`, with the model's `ghostHi` / `ghostLo` and the face replaced by the GENERATED method's result:
       fixedValue_face_average_hi|lo         the ghost exists and (ghost + adjacent cell)/2 = value
       fixedGradient_quotient_hi|lo          scale ≠ 0: the ghost exists and the normal difference quotient in the
                                             POSITIVE coordinate direction, metric factor included, = gradientvalue
       fixedGradient_scale_independent_hi|lo the ghost value is the same for every non-zero scale
       newtonCooling_relation_hi|lo          k·quotient + h_eff·average = h_eff·T_ext whenever the divisor ≠ 0
       newtonCooling_needs_divisor           … and where it is 0 the model says `none` (concrete instances)
       defaultNoFlux_ghost_eq_cell_hi|lo, defaultBCs_ghost_eq_cell, defaultBCs_withGhosts_hi|lo
                                             zero normal gradient: ghost = adjacent interior cell on every grid
       defaultBCs_inactive_none              (why `d` must be active there)
       fixedValue_then_fixedGradient, fixedValue_after_newtonCooling (+ `_ghost` forms): the later call overrides fully
  3. non-vacuity `example`s on `Examples.mesh k`.

  Hypotheses.  `hp : ¬ bc.periodicDir d = true`: the axis is not periodic (none of the four methods touches the flag,
  so this is the same before and after the call).  `hM : M.WF`, `hc : M.interior c` only where the metric distance
  `lineM M d c · dx` must be non-zero (fixedGradient, defaultNoFlux, defaults); fixedValue needs nothing (its divisor
  is 1/2) and newtonCooling takes its divisor as the hypothesis, as requested.  `hd : M.kind.active d = true` only for
  the default boundary conditions (the sides a lower-dimensional grid does not have hold EMPTY arrays).  Value arguments
  are fields `Idx → α`; a Python scalar is the constant field.
-/
import PyFV.Gen.BCUtilGen
import PyFV.Lemmas.BCUtilLemmas
import PyFV.Props.GenEqBC
import PyFV.Props.Examples
import Mathlib.Tactic.Ring
import Mathlib.Tactic.FieldSimp
import Mathlib.Tactic.NormNum
import Mathlib.Tactic.Linarith

set_option linter.unusedSectionVars false
set_option linter.unusedVariables false
set_option linter.unusedSimpArgs false

namespace PyFV.GenEqBCUtil
open PyFV PyFV.BCUtil PyFV.Gen

variable {α : Type} [Field α] [LinearOrder α] [IsStrictOrderedRing α]

/-! ## 1. generated = specification -/

/-- nothing in the scope of T-bcu (accessors, `BoundaryFace.__init__`, four methods, `BoundaryConditionsBase.__init__`,
    three constructors, the factory) was left untranslated -/
theorem untranslated_eq : BCUtilGen.untranslated = [] := rfl

/-- the getter of `a`/`b`/`c` returns the private array of the same letter -/
theorem getter_table_eq : BCUtilGen.getter_table = [("a", "_a"), ("b", "_b"), ("c", "_c")] := rfl

/-- the setter of `a`/`b`/`c` is a broadcast store into the private array of the same letter -/
theorem setter_table_eq : BCUtilGen.setter_table = [("a", "_a"), ("b", "_b"), ("c", "_c")] := rfl

theorem init_table_eq :
    BCUtilGen.init_table = [("_a", "a"), ("_b", "b"), ("_c", "c"), ("_periodic", "periodic")] := rfl

theorem init_params_eq : BCUtilGen.init_params = ["a", "b", "c", "periodic"] := rfl

/-- `BoundaryFace(a, b, c)` is not periodic -/
theorem default_periodic_eq : BCUtilGen.BoundaryFace_default_periodic = false := rfl

/-- "Equivalent to a = 1.0; b = 0.0; c = 0.0" -/
theorem defaultNoFlux_eq (f : BFace α) : BCUtilGen.defaultNoFlux f = noFluxSpec f := rfl

/-- "Equivalent to a = 0.0; b = 1.0; c = value" -/
theorem fixedValue_eq (f : BFace α) (value : Idx → α) :
    BCUtilGen.fixedValue f value = fixedValueSpec f value := rfl

/-- "a = scale_coeffs; b = 0.0; c = scale_coeffs*gradientvalue" -/
theorem fixedGradient_eq (f : BFace α) (gradientvalue scale_coeffs : Idx → α) :
    BCUtilGen.fixedGradient f gradientvalue scale_coeffs = fixedGradientSpec f gradientvalue scale_coeffs := rfl

/-- the default of `scale_coeffs` is 1.0 -/
theorem fixedGradient_default_eq :
    (BCUtilGen.fixedGradient_default_scale_coeffs : Idx → α) = scaleCoeffsDefaultSpec := rfl

/-- "which defaults to a = 1.0; b = 0.0; c = gradientvalue" -/
theorem fixedGradient_default_call (f : BFace α) (gradientvalue : Idx → α) :
    BCUtilGen.fixedGradient f gradientvalue BCUtilGen.fixedGradient_default_scale_coeffs
      = ⟨fun _ => 1, fun _ => 0, gradientvalue, f.periodic⟩ := by
  simp [BCUtilGen.fixedGradient, BCUtilGen.fixedGradient_default_scale_coeffs]

/-- "a = k; b = h_eff; c = h_eff*T_ext, where h_eff = -h if reverse_direction else h" (both values of the flag) -/
theorem newtonCooling_eq (f : BFace α) (k h T_ext : Idx → α) (reverse_direction : Bool) :
    BCUtilGen.newtonCooling f k h T_ext reverse_direction
      = newtonCoolingSpec f k h T_ext reverse_direction := rfl

theorem newtonCooling_default_eq :
    BCUtilGen.newtonCooling_default_reverse_direction = reverseDirectionDefaultSpec := rfl

theorem newtonCooling_forward (f : BFace α) (k h T_ext : Idx → α) :
    BCUtilGen.newtonCooling f k h T_ext false = ⟨k, h, fun i => h i * T_ext i, f.periodic⟩ := rfl

theorem newtonCooling_reverse (f : BFace α) (k h T_ext : Idx → α) :
    BCUtilGen.newtonCooling f k h T_ext true
      = ⟨k, fun i => -(h i), fun i => -(h i) * T_ext i, f.periodic⟩ := rfl

/-- none of the four methods touches the `periodic` flag -/
theorem periodic_unchanged (f : BFace α) (v g s k h T : Idx → α) (r : Bool) :
    (BCUtilGen.defaultNoFlux f).periodic = f.periodic ∧
    (BCUtilGen.fixedValue f v).periodic = f.periodic ∧
    (BCUtilGen.fixedGradient f g s).periodic = f.periodic ∧
    (BCUtilGen.newtonCooling f k h T r).periodic = f.periodic := ⟨rfl, rfl, rfl, rfl⟩

/-- `BoundaryConditionsBase.__init__(self, mesh, left, right, bottom, top, back, front)` stores its k-th face
    parameter under the k-th side attribute -/
theorem base_wiring_eq :
    BCUtilGen.base_wiring
      = [(.left, 1), (.right, 2), (.bottom, 3), (.top, 4), (.back, 5), (.front, 6)] := rfl

/-- in each constructor the local variable `left` reaches the attribute `left`, … (bottom and top have equal default
    content, so a swap would be invisible in the values: it is caught here) -/
theorem wiring_eq :
    BCUtilGen.wiring1D = wiringSpec ∧ BCUtilGen.wiring2D = wiringSpec ∧ BCUtilGen.wiring3D = wiringSpec :=
  ⟨rfl, rfl, rfl⟩

/-- the n-D constructor unpacks n extents of `mesh.dims` -/
theorem ndims_eq : BCUtilGen.ndims1D = 1 ∧ BCUtilGen.ndims2D = 2 ∧ BCUtilGen.ndims3D = 3 := ⟨rfl, rfl, rfl⟩

theorem defaultBCs1D_eq : (BCUtilGen.defaultBCs1D : BCs α) = defaultBCsSpec 1 := by
  unfold BCUtilGen.defaultBCs1D defaultBCsSpec
  congr 1 <;> funext d <;> cases d <;> rfl

theorem defaultBCs2D_eq : (BCUtilGen.defaultBCs2D : BCs α) = defaultBCsSpec 2 := by
  unfold BCUtilGen.defaultBCs2D defaultBCsSpec
  congr 1 <;> funext d <;> cases d <;> rfl

theorem defaultBCs3D_eq : (BCUtilGen.defaultBCs3D : BCs α) = defaultBCsSpec 3 := by
  unfold BCUtilGen.defaultBCs3D defaultBCsSpec
  congr 1 <;> funext d <;> cases d <;> rfl

/-- the class table of the factory is the dispatch on `Kind.dim`: the three 1-D classes get `BoundaryConditions1D`,
    the three 2-D classes `BoundaryConditions2D`, the three 3-D classes `BoundaryConditions3D` -/
theorem factory_table_eq (k : Kind) : BCUtilGen.factory_table.lookup k = some (ctorNameSpec k) := by
  cases k <;> rfl

/-- the object the factory returns: "no flux", non-periodic faces on every side the grid has -/
theorem BoundaryConditions_eq (k : Kind) :
    (BCUtilGen.BoundaryConditions k : BCs α) = defaultBCsSpec k.dim := by
  cases k
  · exact defaultBCs1D_eq
  · exact defaultBCs1D_eq
  · exact defaultBCs1D_eq
  · exact defaultBCs2D_eq
  · exact defaultBCs2D_eq
  · exact defaultBCs2D_eq
  · exact defaultBCs3D_eq
  · exact defaultBCs3D_eq
  · exact defaultBCs3D_eq

/-- the default faces of the active directions -/
theorem BoundaryConditions_active (k : Kind) (d : Dir) (hd : k.active d = true) :
    (BCUtilGen.BoundaryConditions k : BCs α).lo d = noFluxFace ∧
    (BCUtilGen.BoundaryConditions k : BCs α).hi d = noFluxFace := by
  rw [BoundaryConditions_eq]
  simp only [defaultBCsSpec, dimActive_dim, hd, if_true, and_self]

/-- … and of the directions the grid does not have: empty arrays -/
theorem BoundaryConditions_inactive (k : Kind) (d : Dir) (hd : k.active d = false) :
    (BCUtilGen.BoundaryConditions k : BCs α).lo d = emptyFace ∧
    (BCUtilGen.BoundaryConditions k : BCs α).hi d = emptyFace := by
  rw [BoundaryConditions_eq]
  simp [defaultBCsSpec, dimActive_dim, hd]

/-- no axis is periodic by default -/
theorem BoundaryConditions_not_periodic (k : Kind) (d : Dir) :
    (BCUtilGen.BoundaryConditions k : BCs α).periodicDir d = false := by
  cases k <;> cases d <;> rfl

/-- the shape table, as written in the source -/
theorem default_shapes_eq (k : Kind) (s : Side) (q : Coef3) :
    BCUtilGen.shapes k s q = defaultShapeSpec k.dim s q := by
  cases k <;> cases s <;> cases q <;> rfl

/-- every default array has the cross-section shape of its side — (Ny,) / (Ny, Nz) for left and right, (Nx,) / (Nx, Nz)
    for bottom and top, (Nx, Ny) for back and front, (1,) in 1-D, empty for the sides the grid does not have — except
    `left.c` of the 2-D constructor -/
theorem default_shapes_cross_section (k : Kind) (s : Side) (q : Coef3)
    (h : ¬ (k.dim = 2 ∧ s = .left ∧ q = .c)) :
    BCUtilGen.shapes k s q = crossShape k.dim s := by
  rw [default_shapes_eq, defaultShapeSpec, if_neg h]

/-- `left.c = np.zeros((1, Ny))`: the cross-section shape `(Ny,)` with one extra leading axis of length 1 -/
theorem default_shape_left_c_2D (k : Kind) (hk : k.dim = 2) :
    BCUtilGen.shapes k .left .c = .lit 1 :: crossShape 2 .left ∧ crossShape 2 Side.left = [.ny] := by
  rw [default_shapes_eq, defaultShapeSpec, hk]
  exact ⟨rfl, rfl⟩

/-! ## 2. property-level consequences -/

/-! ### fixedValue: the reported boundary value is exactly `value` -/

theorem fixedValue_face_average_hi (M : Mesh α) (bc : BCs α) (φ : CellFld α) (d : Dir) (c : Idx)
    (v : Idx → α) (hp : ¬ bc.periodicDir d = true) :
    ∃ g, ghostHi M (setHi bc d (BCUtilGen.fixedValue (bc.hi d) v)) φ d c = some g ∧
      (g + φ c) / 2 = v c := by
  have hp' : (setHi bc d (BCUtilGen.fixedValue (bc.hi d) v)).periodicDir d = false := by
    rw [periodicDir_setHi_keep bc d (BCUtilGen.fixedValue (bc.hi d) v) rfl]; exact periodicDir_false_of_not hp
  obtain ⟨g, hg, hr⟩ := ghostHi_setHi_robin M bc φ d c _ hp'
    (show (0 : α) / (lineM M d c * (M.axis d).DX (M.n d + 1)) + 1 / 2 ≠ 0 by rw [zero_div, zero_add]; norm_num)
  refine ⟨g, hg, ?_⟩
  have hr' : (0 : α) * ((g - φ c) / (lineM M d c * (M.axis d).DX (M.n d + 1))) + 1 * ((g + φ c) / 2) = v c := hr
  rw [zero_mul, zero_add, one_mul] at hr'
  exact hr'

theorem fixedValue_face_average_lo (M : Mesh α) (bc : BCs α) (φ : CellFld α) (d : Dir) (c : Idx)
    (v : Idx → α) (hp : ¬ bc.periodicDir d = true) :
    ∃ g, ghostLo M (setLo bc d (BCUtilGen.fixedValue (bc.lo d) v)) φ d c = some g ∧
      (g + φ c) / 2 = v c := by
  have hp' : (setLo bc d (BCUtilGen.fixedValue (bc.lo d) v)).periodicDir d = false := by
    rw [periodicDir_setLo_keep bc d (BCUtilGen.fixedValue (bc.lo d) v) rfl]; exact periodicDir_false_of_not hp
  obtain ⟨g, hg, hr⟩ := ghostLo_setLo_robin M bc φ d c _ hp'
    (show -((0 : α) / (lineM M d c * (M.axis d).DX 0)) + 1 / 2 ≠ 0 by rw [zero_div, neg_zero, zero_add]; norm_num)
  refine ⟨g, hg, ?_⟩
  have hr' : (0 : α) * ((φ c - g) / (lineM M d c * (M.axis d).DX 0)) + 1 * ((g + φ c) / 2) = v c := hr
  rw [zero_mul, zero_add, one_mul] at hr'
  exact hr'

/-- both sides at once, and the explicit ghost value `2·value − φ_c` -/
theorem fixedValue_face_average (M : Mesh α) (bc : BCs α) (φ : CellFld α) (d : Dir) (c : Idx)
    (v : Idx → α) (hp : ¬ bc.periodicDir d = true) :
    ghostHi M (setHi bc d (BCUtilGen.fixedValue (bc.hi d) v)) φ d c = some (2 * v c - φ c) ∧
    ghostLo M (setLo bc d (BCUtilGen.fixedValue (bc.lo d) v)) φ d c = some (2 * v c - φ c) := by
  obtain ⟨g, hg, hr⟩ := fixedValue_face_average_hi M bc φ d c v hp
  obtain ⟨g', hg', hr'⟩ := fixedValue_face_average_lo M bc φ d c v hp
  have e : g = 2 * v c - φ c := by linarith
  have e' : g' = 2 * v c - φ c := by linarith
  rw [hg, hg', e, e']
  exact ⟨rfl, rfl⟩

/-! ### fixedGradient: the normal difference quotient is exactly `gradientvalue`, whatever the scale -/

theorem fixedGradient_quotient_hi (M : Mesh α) (hM : M.WF) (bc : BCs α) (φ : CellFld α) (d : Dir) (c : Idx)
    (hc : M.interior c) (g s : Idx → α) (hs : s c ≠ 0) (hp : ¬ bc.periodicDir d = true) :
    ∃ gh, ghostHi M (setHi bc d (BCUtilGen.fixedGradient (bc.hi d) g s)) φ d c = some gh ∧
      (gh - φ c) / (lineM M d c * (M.axis d).DX (M.n d + 1)) = g c := by
  have hD : lineM M d c * (M.axis d).DX (M.n d + 1) ≠ 0 := ne_of_gt (mdx_pos_hi hM d hc)
  have hp' : (setHi bc d (BCUtilGen.fixedGradient (bc.hi d) g s)).periodicDir d = false := by
    rw [periodicDir_setHi_keep bc d (BCUtilGen.fixedGradient (bc.hi d) g s) rfl]; exact periodicDir_false_of_not hp
  obtain ⟨gh, hg, hr⟩ := ghostHi_setHi_robin M bc φ d c _ hp'
    (show s c / (lineM M d c * (M.axis d).DX (M.n d + 1)) + 0 / 2 ≠ 0 by
      rw [zero_div, add_zero]; exact div_ne_zero hs hD)
  refine ⟨gh, hg, ?_⟩
  have hr' : s c * ((gh - φ c) / (lineM M d c * (M.axis d).DX (M.n d + 1))) + 0 * ((gh + φ c) / 2)
      = s c * g c := hr
  rw [zero_mul, add_zero] at hr'
  exact mul_left_cancel₀ hs hr'

theorem fixedGradient_quotient_lo (M : Mesh α) (hM : M.WF) (bc : BCs α) (φ : CellFld α) (d : Dir) (c : Idx)
    (hc : M.interior c) (g s : Idx → α) (hs : s c ≠ 0) (hp : ¬ bc.periodicDir d = true) :
    ∃ gl, ghostLo M (setLo bc d (BCUtilGen.fixedGradient (bc.lo d) g s)) φ d c = some gl ∧
      (φ c - gl) / (lineM M d c * (M.axis d).DX 0) = g c := by
  have hD : lineM M d c * (M.axis d).DX 0 ≠ 0 := ne_of_gt (mdx_pos_lo hM d hc)
  have hp' : (setLo bc d (BCUtilGen.fixedGradient (bc.lo d) g s)).periodicDir d = false := by
    rw [periodicDir_setLo_keep bc d (BCUtilGen.fixedGradient (bc.lo d) g s) rfl]; exact periodicDir_false_of_not hp
  obtain ⟨gl, hg, hr⟩ := ghostLo_setLo_robin M bc φ d c _ hp'
    (show -(s c / (lineM M d c * (M.axis d).DX 0)) + 0 / 2 ≠ 0 by
      rw [zero_div, add_zero, neg_ne_zero]; exact div_ne_zero hs hD)
  refine ⟨gl, hg, ?_⟩
  have hr' : s c * ((φ c - gl) / (lineM M d c * (M.axis d).DX 0)) + 0 * ((gl + φ c) / 2)
      = s c * g c := hr
  rw [zero_mul, add_zero] at hr'
  exact mul_left_cancel₀ hs hr'

/-- "Scales the Neumann BC coefficient by a constant factor, giving the same gradient": the ghost value itself is
    `φ_c + gradientvalue·m·dx` for every non-zero scale, in particular the one of the default scale 1 -/
theorem fixedGradient_scale_independent_hi (M : Mesh α) (hM : M.WF) (bc : BCs α) (φ : CellFld α) (d : Dir)
    (c : Idx) (hc : M.interior c) (g s : Idx → α) (hs : s c ≠ 0) (hp : ¬ bc.periodicDir d = true) :
    ghostHi M (setHi bc d (BCUtilGen.fixedGradient (bc.hi d) g s)) φ d c
      = some (φ c + g c * (lineM M d c * (M.axis d).DX (M.n d + 1))) ∧
    ghostHi M (setHi bc d (BCUtilGen.fixedGradient (bc.hi d) g s)) φ d c
      = ghostHi M (setHi bc d (BCUtilGen.fixedGradient (bc.hi d) g
          BCUtilGen.fixedGradient_default_scale_coeffs)) φ d c := by
  have hD : lineM M d c * (M.axis d).DX (M.n d + 1) ≠ 0 := ne_of_gt (mdx_pos_hi hM d hc)
  have key : ∀ s' : Idx → α, s' c ≠ 0 →
      ghostHi M (setHi bc d (BCUtilGen.fixedGradient (bc.hi d) g s')) φ d c
        = some (φ c + g c * (lineM M d c * (M.axis d).DX (M.n d + 1))) := by
    intro s' hs'
    obtain ⟨gh, hg, hq⟩ := fixedGradient_quotient_hi M hM bc φ d c hc g s' hs' hp
    rw [hg]
    congr 1
    rw [div_eq_iff hD] at hq
    linarith
  refine ⟨key s hs, ?_⟩
  rw [key s hs, key _ (by simp [BCUtilGen.fixedGradient_default_scale_coeffs])]

theorem fixedGradient_scale_independent_lo (M : Mesh α) (hM : M.WF) (bc : BCs α) (φ : CellFld α) (d : Dir)
    (c : Idx) (hc : M.interior c) (g s : Idx → α) (hs : s c ≠ 0) (hp : ¬ bc.periodicDir d = true) :
    ghostLo M (setLo bc d (BCUtilGen.fixedGradient (bc.lo d) g s)) φ d c
      = some (φ c - g c * (lineM M d c * (M.axis d).DX 0)) ∧
    ghostLo M (setLo bc d (BCUtilGen.fixedGradient (bc.lo d) g s)) φ d c
      = ghostLo M (setLo bc d (BCUtilGen.fixedGradient (bc.lo d) g
          BCUtilGen.fixedGradient_default_scale_coeffs)) φ d c := by
  have hD : lineM M d c * (M.axis d).DX 0 ≠ 0 := ne_of_gt (mdx_pos_lo hM d hc)
  have key : ∀ s' : Idx → α, s' c ≠ 0 →
      ghostLo M (setLo bc d (BCUtilGen.fixedGradient (bc.lo d) g s')) φ d c
        = some (φ c - g c * (lineM M d c * (M.axis d).DX 0)) := by
    intro s' hs'
    obtain ⟨gl, hg, hq⟩ := fixedGradient_quotient_lo M hM bc φ d c hc g s' hs' hp
    rw [hg]
    congr 1
    rw [div_eq_iff hD] at hq
    linarith
  refine ⟨key s hs, ?_⟩
  rw [key s hs, key _ (by simp [BCUtilGen.fixedGradient_default_scale_coeffs])]

/-! ### newtonCooling: the Robin relation `k·∂φ + h_eff·φ = h_eff·T_ext` -/

theorem newtonCooling_relation_hi (M : Mesh α) (bc : BCs α) (φ : CellFld α) (d : Dir) (c : Idx)
    (k h T : Idx → α) (r : Bool) (hp : ¬ bc.periodicDir d = true)
    (hdiv : k c / (lineM M d c * (M.axis d).DX (M.n d + 1)) + hEff r h c / 2 ≠ 0) :
    ∃ g, ghostHi M (setHi bc d (BCUtilGen.newtonCooling (bc.hi d) k h T r)) φ d c = some g ∧
      k c * ((g - φ c) / (lineM M d c * (M.axis d).DX (M.n d + 1))) + hEff r h c * ((g + φ c) / 2)
        = hEff r h c * T c := by
  have hp' : (setHi bc d (BCUtilGen.newtonCooling (bc.hi d) k h T r)).periodicDir d = false := by
    rw [periodicDir_setHi_keep bc d (BCUtilGen.newtonCooling (bc.hi d) k h T r) rfl]; exact periodicDir_false_of_not hp
  exact ghostHi_setHi_robin M bc φ d c (BCUtilGen.newtonCooling (bc.hi d) k h T r) hp' hdiv

theorem newtonCooling_relation_lo (M : Mesh α) (bc : BCs α) (φ : CellFld α) (d : Dir) (c : Idx)
    (k h T : Idx → α) (r : Bool) (hp : ¬ bc.periodicDir d = true)
    (hdiv : -(k c / (lineM M d c * (M.axis d).DX 0)) + hEff r h c / 2 ≠ 0) :
    ∃ g, ghostLo M (setLo bc d (BCUtilGen.newtonCooling (bc.lo d) k h T r)) φ d c = some g ∧
      k c * ((φ c - g) / (lineM M d c * (M.axis d).DX 0)) + hEff r h c * ((g + φ c) / 2)
        = hEff r h c * T c := by
  have hp' : (setLo bc d (BCUtilGen.newtonCooling (bc.lo d) k h T r)).periodicDir d = false := by
    rw [periodicDir_setLo_keep bc d (BCUtilGen.newtonCooling (bc.lo d) k h T r) rfl]; exact periodicDir_false_of_not hp
  exact ghostLo_setLo_robin M bc φ d c (BCUtilGen.newtonCooling (bc.lo d) k h T r) hp' hdiv

/-- the divisor hypothesis cannot be dropped: where `±k/(m·dx) + h_eff/2 = 0` the model reports no ghost value -/
theorem newtonCooling_divisor_zero_none (M : Mesh α) (bc : BCs α) (φ : CellFld α) (d : Dir) (c : Idx)
    (k h T : Idx → α) (r : Bool) (hp : ¬ bc.periodicDir d = true) :
    (k c / (lineM M d c * (M.axis d).DX (M.n d + 1)) + hEff r h c / 2 = 0 →
      ghostHi M (setHi bc d (BCUtilGen.newtonCooling (bc.hi d) k h T r)) φ d c = none) ∧
    (-(k c / (lineM M d c * (M.axis d).DX 0)) + hEff r h c / 2 = 0 →
      ghostLo M (setLo bc d (BCUtilGen.newtonCooling (bc.lo d) k h T r)) φ d c = none) := by
  have hp1 : (setHi bc d (BCUtilGen.newtonCooling (bc.hi d) k h T r)).periodicDir d = false := by
    rw [periodicDir_setHi_keep bc d (BCUtilGen.newtonCooling (bc.hi d) k h T r) rfl]; exact periodicDir_false_of_not hp
  have hp2 : (setLo bc d (BCUtilGen.newtonCooling (bc.lo d) k h T r)).periodicDir d = false := by
    rw [periodicDir_setLo_keep bc d (BCUtilGen.newtonCooling (bc.lo d) k h T r) rfl]; exact periodicDir_false_of_not hp
  exact ⟨fun h0 => ghostHi_setHi_none M bc φ d c _ hp1 h0, fun h0 => ghostLo_setLo_none M bc φ d c _ hp2 h0⟩

/-- concrete instances on every example mesh (`dx_end = 3`, `dx_1 = 1` along x, metric factor 1):
    high side, `k = 3`, `h = −2`, forward: `3/3 + (−2)/2 = 0`; the same with `h = 2` and `reverse_direction=True`;
    low side, `k = 1`, `h = 2`, forward (the orientation the docstring warns about): `−1/1 + 2/2 = 0` -/
theorem newtonCooling_needs_divisor (kd : Kind) (φ : CellFld ℚ) (T : Idx → ℚ) :
    ghostHi (Examples.mesh kd) (setHi BCEx.robin .x
      (BCUtilGen.newtonCooling (BCEx.robin.hi .x) (fun _ => 3) (fun _ => -2) T false)) φ .x (3, 1, 1) = none ∧
    ghostHi (Examples.mesh kd) (setHi BCEx.robin .x
      (BCUtilGen.newtonCooling (BCEx.robin.hi .x) (fun _ => 3) (fun _ => 2) T true)) φ .x (3, 1, 1) = none ∧
    ghostLo (Examples.mesh kd) (setLo BCEx.robin .x
      (BCUtilGen.newtonCooling (BCEx.robin.lo .x) (fun _ => 1) (fun _ => 2) T false)) φ .x (1, 1, 1) = none := by
  have hp : ¬ BCEx.robin.periodicDir .x = true := by decide
  refine ⟨(newtonCooling_divisor_zero_none _ _ _ _ _ _ _ _ _ hp).1 ?_,
          (newtonCooling_divisor_zero_none _ _ _ _ _ _ _ _ _ hp).1 ?_,
          (newtonCooling_divisor_zero_none _ _ _ _ _ _ _ _ _ hp).2 ?_⟩
  · rw [lineM_x, BCEx.mesh_n_x, BCEx.mesh_DX_x, BCEx.ax3_DX4]; norm_num [hEff]
  · rw [lineM_x, BCEx.mesh_n_x, BCEx.mesh_DX_x, BCEx.ax3_DX4]; norm_num [hEff]
  · rw [lineM_x, BCEx.mesh_DX_x, BCEx.ax3_DX0]; norm_num [hEff]

/-! ### defaultNoFlux and the default boundary conditions: zero normal gradient -/

theorem defaultNoFlux_ghost_eq_cell_hi (M : Mesh α) (hM : M.WF) (bc : BCs α) (φ : CellFld α) (d : Dir)
    (c : Idx) (hc : M.interior c) (hp : ¬ bc.periodicDir d = true) :
    ghostHi M (setHi bc d (BCUtilGen.defaultNoFlux (bc.hi d))) φ d c = some (φ c) := by
  have hp' : (setHi bc d (BCUtilGen.defaultNoFlux (bc.hi d))).periodicDir d = false := by
    rw [periodicDir_setHi_keep bc d (BCUtilGen.defaultNoFlux (bc.hi d)) rfl]; exact periodicDir_false_of_not hp
  apply ghostHi_noflux M _ φ d c hp' _ _ _ (ne_of_gt (mdx_pos_hi hM d hc)) <;> rw [setHi_hi] <;> rfl

theorem defaultNoFlux_ghost_eq_cell_lo (M : Mesh α) (hM : M.WF) (bc : BCs α) (φ : CellFld α) (d : Dir)
    (c : Idx) (hc : M.interior c) (hp : ¬ bc.periodicDir d = true) :
    ghostLo M (setLo bc d (BCUtilGen.defaultNoFlux (bc.lo d))) φ d c = some (φ c) := by
  have hp' : (setLo bc d (BCUtilGen.defaultNoFlux (bc.lo d))).periodicDir d = false := by
    rw [periodicDir_setLo_keep bc d (BCUtilGen.defaultNoFlux (bc.lo d)) rfl]; exact periodicDir_false_of_not hp
  apply ghostLo_noflux M _ φ d c hp' _ _ _ (ne_of_gt (mdx_pos_lo hM d hc)) <;> rw [setLo_lo] <;> rfl

theorem defaultNoFlux_ghost_eq_cell (M : Mesh α) (hM : M.WF) (bc : BCs α) (φ : CellFld α) (d : Dir)
    (c : Idx) (hc : M.interior c) (hp : ¬ bc.periodicDir d = true) :
    ghostHi M (setHi bc d (BCUtilGen.defaultNoFlux (bc.hi d))) φ d c = some (φ c) ∧
    ghostLo M (setLo bc d (BCUtilGen.defaultNoFlux (bc.lo d))) φ d c = some (φ c) :=
  ⟨defaultNoFlux_ghost_eq_cell_hi M hM bc φ d c hc hp, defaultNoFlux_ghost_eq_cell_lo M hM bc φ d c hc hp⟩

/-- with the boundary conditions `BoundaryConditions(mesh)` creates, on every grid class, in every direction the grid
    has and on both sides: the ghost value of a grid line equals its adjacent interior cell -/
theorem defaultBCs_ghost_eq_cell (M : Mesh α) (hM : M.WF) (φ : CellFld α) (d : Dir) (c : Idx)
    (hd : M.kind.active d = true) (hc : M.interior c) :
    ghostHi M (BCUtilGen.BoundaryConditions M.kind) φ d c = some (φ c) ∧
    ghostLo M (BCUtilGen.BoundaryConditions M.kind) φ d c = some (φ c) := by
  obtain ⟨hlo, hhi⟩ := BoundaryConditions_active (α := α) M.kind d hd
  have hp := BoundaryConditions_not_periodic (α := α) M.kind d
  constructor
  · apply ghostHi_noflux M _ φ d c hp _ _ _ (ne_of_gt (mdx_pos_hi hM d hc)) <;> rw [hhi] <;> rfl
  · apply ghostLo_noflux M _ φ d c hp _ _ _ (ne_of_gt (mdx_pos_lo hM d hc)) <;> rw [hlo] <;> rfl

/-- … as entries of the ghosted array `cellValuesWithBoundaries` returns: every face-ghost cell beyond the high end -/
theorem defaultBCs_withGhosts_hi (M : Mesh α) (hM : M.WF) (φ : CellFld α) (d : Dir) (c : Idx)
    (hd : M.kind.active d = true) (hc : M.interior c) (he : c.get d = M.n d) :
    withGhosts M (BCUtilGen.BoundaryConditions M.kind) φ (c.set d (M.n d + 1)) = some (φ c) := by
  rw [GenEqBC.withGhosts_hi M _ φ d c hc hd he]
  exact (defaultBCs_ghost_eq_cell M hM φ d c hd hc).1

/-- … and before the low end -/
theorem defaultBCs_withGhosts_lo (M : Mesh α) (hM : M.WF) (φ : CellFld α) (d : Dir) (c : Idx)
    (hd : M.kind.active d = true) (hc : M.interior c) (he : c.get d = 1) :
    withGhosts M (BCUtilGen.BoundaryConditions M.kind) φ (c.set d 0) = some (φ c) := by
  rw [GenEqBC.withGhosts_lo M _ φ d c hc hd he]
  exact (defaultBCs_ghost_eq_cell M hM φ d c hd hc).2

/-- `hd` is needed: along a direction the grid does not have the default faces hold empty arrays (content
    `noEntries`), for which the model has no ghost value -/
theorem defaultBCs_inactive_none (M : Mesh α) (φ : CellFld α) (d : Dir) (c : Idx)
    (hd : M.kind.active d = false) :
    ghostHi M (BCUtilGen.BoundaryConditions M.kind) φ d c = none ∧
    ghostLo M (BCUtilGen.BoundaryConditions M.kind) φ d c = none := by
  obtain ⟨hlo, hhi⟩ := BoundaryConditions_inactive (α := α) M.kind d hd
  have hp := BoundaryConditions_not_periodic (α := α) M.kind d
  rw [ghostHi_nonper hp, ghostLo_nonper hp, sdiv_eq_none, sdiv_eq_none]
  simp [hiGhostCoef, loGhostCoef, hlo, hhi, emptyFace, noEntries]

/-! ### a later call overrides an earlier one completely -/

/-- no residue of `b = 1` (nor of anything else) after `fixedValue` followed by `fixedGradient` -/
theorem fixedValue_then_fixedGradient (f : BFace α) (v g s : Idx → α) :
    BCUtilGen.fixedGradient (BCUtilGen.fixedValue f v) g s = BCUtilGen.fixedGradient f g s := rfl

/-- no residue of `a = k`, `b = h_eff` after `newtonCooling` followed by `fixedValue` -/
theorem fixedValue_after_newtonCooling (f : BFace α) (k h T v : Idx → α) (r : Bool) :
    BCUtilGen.fixedValue (BCUtilGen.newtonCooling f k h T r) v = BCUtilGen.fixedValue f v := rfl

/-- each method overrides each: the result never depends on the coefficients before the call -/
theorem methods_forget_previous (f f' : BFace α) (hper : f.periodic = f'.periodic) (v g s k h T : Idx → α)
    (r : Bool) :
    BCUtilGen.defaultNoFlux f = BCUtilGen.defaultNoFlux f' ∧
    BCUtilGen.fixedValue f v = BCUtilGen.fixedValue f' v ∧
    BCUtilGen.fixedGradient f g s = BCUtilGen.fixedGradient f' g s ∧
    BCUtilGen.newtonCooling f k h T r = BCUtilGen.newtonCooling f' k h T r := by
  simp [BCUtilGen.defaultNoFlux, BCUtilGen.fixedValue, BCUtilGen.fixedGradient, BCUtilGen.newtonCooling, hper]

/-- property form: after `fixedValue(v)` then `fixedGradient(g, s)` the difference quotient is `g` (not a mixture
    with the Dirichlet condition) -/
theorem fixedValue_then_fixedGradient_ghost (M : Mesh α) (hM : M.WF) (bc : BCs α) (φ : CellFld α) (d : Dir)
    (c : Idx) (hc : M.interior c) (v g s : Idx → α) (hs : s c ≠ 0) (hp : ¬ bc.periodicDir d = true) :
    ∃ gh, ghostHi M (setHi bc d (BCUtilGen.fixedGradient (BCUtilGen.fixedValue (bc.hi d) v) g s)) φ d c
        = some gh ∧
      (gh - φ c) / (lineM M d c * (M.axis d).DX (M.n d + 1)) = g c := by
  rw [fixedValue_then_fixedGradient]
  exact fixedGradient_quotient_hi M hM bc φ d c hc g s hs hp

/-- property form: after `newtonCooling(…)` then `fixedValue(v)` the face average is `v` -/
theorem fixedValue_after_newtonCooling_ghost (M : Mesh α) (bc : BCs α) (φ : CellFld α) (d : Dir) (c : Idx)
    (k h T v : Idx → α) (r : Bool) (hp : ¬ bc.periodicDir d = true) :
    ∃ g, ghostHi M (setHi bc d (BCUtilGen.fixedValue (BCUtilGen.newtonCooling (bc.hi d) k h T r) v)) φ d c
        = some g ∧ (g + φ c) / 2 = v c := by
  rw [fixedValue_after_newtonCooling]
  exact fixedValue_face_average_hi M bc φ d c v hp

/-! ## 3. non-vacuity on the concrete meshes -/

/-- `BCEx.robin` has no periodic axis -/
theorem robin_not_periodic (d : Dir) : ¬ BCEx.robin.periodicDir d = true := by
  cases d <;> decide

/-- the hypotheses of `fixedGradient_quotient_hi|lo` are met on every example mesh, in every direction
    (well-formed, interior cell, non-zero scale 2, non-periodic axis) … -/
example (k : Kind) (d : Dir) (φ : CellFld ℚ) :
    ∃ gh, ghostHi (Examples.mesh k) (setHi BCEx.robin d
        (BCUtilGen.fixedGradient (BCEx.robin.hi d) (fun _ => 5) (fun _ => 2))) φ d (1, 1, 1) = some gh ∧
      (gh - φ (1, 1, 1)) / (lineM (Examples.mesh k) d (1, 1, 1)
        * ((Examples.mesh k).axis d).DX ((Examples.mesh k).n d + 1)) = 5 :=
  fixedGradient_quotient_hi _ (Examples.mesh_WF k) _ φ d _ (Examples.interior_111 k) _ _
    (by norm_num) (robin_not_periodic d)

example (k : Kind) (d : Dir) (φ : CellFld ℚ) :
    ∃ gl, ghostLo (Examples.mesh k) (setLo BCEx.robin d
        (BCUtilGen.fixedGradient (BCEx.robin.lo d) (fun _ => 5) (fun _ => 2))) φ d (1, 1, 1) = some gl ∧
      (φ (1, 1, 1) - gl) / (lineM (Examples.mesh k) d (1, 1, 1)
        * ((Examples.mesh k).axis d).DX 0) = 5 :=
  fixedGradient_quotient_lo _ (Examples.mesh_WF k) _ φ d _ (Examples.interior_111 k) _ _
    (by norm_num) (robin_not_periodic d)

/-- … and the conclusion is about a real number: gradient 5 across the high x face (`dx_end = 3`) of the ramp
    `φ = i` puts `3 + 5·3 = 18` into the ghost cell, for scale 2 as for scale −7 -/
example (k : Kind) :
    ghostHi (Examples.mesh k) (setHi BCEx.robin .x
        (BCUtilGen.fixedGradient (BCEx.robin.hi .x) (fun _ => 5) (fun _ => 2))) BCEx.ramp .x (3, 1, 1) = some 18 ∧
    ghostHi (Examples.mesh k) (setHi BCEx.robin .x
        (BCUtilGen.fixedGradient (BCEx.robin.hi .x) (fun _ => 5) (fun _ => -7))) BCEx.ramp .x (3, 1, 1) = some 18 := by
  have hint : (Examples.mesh k).interior (3, 1, 1) := by
    obtain ⟨h1, h2, h3, h4, h5, h6⟩ := Examples.interior_111 k
    exact ⟨by norm_num, by norm_num [Examples.mesh, Examples.ax3, mkAxisFaces], h3, h4, h5, h6⟩
  constructor
  · rw [(fixedGradient_scale_independent_hi _ (Examples.mesh_WF k) _ _ .x _ hint _ _ (by norm_num)
      (robin_not_periodic .x)).1, lineM_x, BCEx.mesh_n_x, BCEx.mesh_DX_x, BCEx.ax3_DX4]
    norm_num [BCEx.ramp]
  · rw [(fixedGradient_scale_independent_hi _ (Examples.mesh_WF k) _ _ .x _ hint _ _ (by norm_num)
      (robin_not_periodic .x)).1, lineM_x, BCEx.mesh_n_x, BCEx.mesh_DX_x, BCEx.ax3_DX4]
    norm_num [BCEx.ramp]

/-- fixedValue 5 on the high x face of the ramp: ghost `2·5 − 3 = 7`, face average `(7 + 3)/2 = 5` -/
example (k : Kind) :
    ghostHi (Examples.mesh k) (setHi BCEx.robin .x
        (BCUtilGen.fixedValue (BCEx.robin.hi .x) (fun _ => 5))) BCEx.ramp .x (3, 1, 1) = some 7 := by
  rw [(fixedValue_face_average _ _ _ .x _ _ (robin_not_periodic .x)).1]
  norm_num [BCEx.ramp]

/-- newtonCooling with `k = 1`, `h = 2`, `T_ext = 10` on the high x face: divisor `1/3 + 1 = 4/3 ≠ 0`, the relation
    holds for the reported ghost; on the low face with `reverse_direction=True`: divisor `−1 − 1 = −2 ≠ 0` -/
example (kd : Kind) (φ : CellFld ℚ) :
    (∃ g, ghostHi (Examples.mesh kd) (setHi BCEx.robin .x
        (BCUtilGen.newtonCooling (BCEx.robin.hi .x) (fun _ => 1) (fun _ => 2) (fun _ => 10) false)) φ .x (3, 1, 1)
          = some g ∧
      (1 : ℚ) * ((g - φ (3, 1, 1)) / (lineM (Examples.mesh kd) .x (3, 1, 1)
          * ((Examples.mesh kd).axis .x).DX ((Examples.mesh kd).n .x + 1)))
        + hEff false (fun _ => (2 : ℚ)) (3, 1, 1) * ((g + φ (3, 1, 1)) / 2)
        = hEff false (fun _ => (2 : ℚ)) (3, 1, 1) * 10) ∧
    (∃ g, ghostLo (Examples.mesh kd) (setLo BCEx.robin .x
        (BCUtilGen.newtonCooling (BCEx.robin.lo .x) (fun _ => 1) (fun _ => 2) (fun _ => 10) true)) φ .x (1, 1, 1)
          = some g ∧
      (1 : ℚ) * ((φ (1, 1, 1) - g) / (lineM (Examples.mesh kd) .x (1, 1, 1)
          * ((Examples.mesh kd).axis .x).DX 0))
        + hEff true (fun _ => (2 : ℚ)) (1, 1, 1) * ((g + φ (1, 1, 1)) / 2)
        = hEff true (fun _ => (2 : ℚ)) (1, 1, 1) * 10) := by
  constructor
  · apply newtonCooling_relation_hi _ _ _ _ _ _ _ _ _ (robin_not_periodic .x)
    rw [lineM_x, BCEx.mesh_n_x, BCEx.mesh_DX_x, BCEx.ax3_DX4]; norm_num [hEff]
  · apply newtonCooling_relation_lo _ _ _ _ _ _ _ _ _ (robin_not_periodic .x)
    rw [lineM_x, BCEx.mesh_DX_x, BCEx.ax3_DX0]; norm_num [hEff]

/-- default boundary conditions on every example mesh: along x both ghosts copy their neighbour; the hypotheses of
    `defaultBCs_ghost_eq_cell` (well-formed, active direction, interior cell) are met -/
example (k : Kind) (φ : CellFld ℚ) :
    ghostHi (Examples.mesh k) (BCUtilGen.BoundaryConditions (Examples.mesh k).kind) φ .x (1, 1, 1)
      = some (φ (1, 1, 1)) ∧
    ghostLo (Examples.mesh k) (BCUtilGen.BoundaryConditions (Examples.mesh k).kind) φ .x (1, 1, 1)
      = some (φ (1, 1, 1)) :=
  defaultBCs_ghost_eq_cell _ (Examples.mesh_WF k) φ .x _ rfl (Examples.interior_111 k)

/-- … along z on the 3-D classes, and there is no value along z on a 2-D class -/
example (φ : CellFld ℚ) :
    ghostHi (Examples.mesh .sph3) (BCUtilGen.BoundaryConditions (Examples.mesh .sph3).kind) φ .z (1, 1, 1)
      = some (φ (1, 1, 1)) ∧
    ghostHi (Examples.mesh .pol2) (BCUtilGen.BoundaryConditions (Examples.mesh .pol2).kind) φ .z (1, 1, 1)
      = none :=
  ⟨(defaultBCs_ghost_eq_cell _ (Examples.mesh_WF _) φ .z _ rfl (Examples.interior_111 _)).1,
   (defaultBCs_inactive_none _ φ .z _ rfl).1⟩

/-- defaultNoFlux after a Robin face restores the copy -/
example (k : Kind) (d : Dir) (φ : CellFld ℚ) :
    ghostHi (Examples.mesh k) (setHi BCEx.robin d (BCUtilGen.defaultNoFlux (BCEx.robin.hi d))) φ d (1, 1, 1)
      = some (φ (1, 1, 1)) :=
  defaultNoFlux_ghost_eq_cell_hi _ (Examples.mesh_WF k) _ φ d _ (Examples.interior_111 k) (robin_not_periodic d)

/-- the deviation recorded in the shape table is real: `left.c` of a 2-D grid is `(1, Ny)`, `right.c` is `(Ny,)` -/
example : BCUtilGen.shapes .cart2 .left .c = [.lit 1, .ny] ∧ BCUtilGen.shapes .cart2 .right .c = [.ny] :=
  ⟨rfl, rfl⟩

end PyFV.GenEqBCUtil
