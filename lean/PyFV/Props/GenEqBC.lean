/-
  PyFV.Props.GenEqBC — the ghost-cell formulas and the boundary rows REGENERATED FROM THE PYTHON SOURCE by the
  translator T-bc (harness/translate/tbc.py → PyFV/Gen/BCGen.lean, rewritten on every run) are EQUAL to the
  hand-written model of `boundary.py` (PyFV/Model/BC.lean: `ghostHi`, `ghostLo`, `withGhosts`, `bcRowHi`,
  `bcRowLo`, `bcRow`, `cornerScale`, `radialPeriodicRejected`).

  For every family F ∈ {1D, 2D, Polar2D, 3D, Cylindrical3D, Spherical3D}, every side S of the grid and the
  0-based cross position (i, j, k) of a ghost cell of that side (`c` = the adjacent interior cell, model
  numbering = position + 1, missing directions of 1-D / 2-D grids = cell 1):

    ghost_F_S_nonper_eq         ghostHi|ghostLo M bc φ d c = some (Gen.BCGen.ghost_F_S_nonper M bc φ …)
                                on the non-periodic branch, where the ghost coefficient of the model is ≠ 0
    ghost_F_S_nonper_den_eq     the divisor of the Python formula IS that ghost coefficient (hiGhostCoef|loGhostCoef)
    ghost_F_S_nonper_undefined  where the divisor vanishes the model reports `none`; the Python code divides a
                                float array by zero there: the ghost value becomes ±inf (numerator ≠ 0) or nan
                                (numerator = 0) with a RuntimeWarning, no exception
    ghost_F_S_per_eq            on the periodic branch: the wrapped interior value
    ghost_F_<axis>_nonper_guard_eq   the `if` test is `!bc.periodicDir d` (else-branch ⇔ one of the two flags)
    ghost_F_interior_eq, ghost_F_fill_eq   interior copied, edge / corner cells keep the np.zeros value
    bcrow_F_S_nonper_eq         Gen.BCGen.bcrow_F_S_nonper M bc … = bcRowHi|bcRowLo M bc d c  (equality of `Row`s:
                                same columns in the same order, same coefficients, same right-hand side)
    bcrow_F_S_per_eq            same on the periodic branch (four entries, ratio dx_end/dx_1 on the high side)
    bcrow_F_S_cell_eq           the row written is the ghost cell `c.set d (n+1)` | `c.set d 0`
    bcrow_F_<axis>_{nonper,per}_guard_eq   the `if` / `elif` tests are `!bc.periodicDir d` / `bc.periodicDir d`
                                (so exactly one of the two branches runs)
    bcrow_F_corner_*            the decoupled corner / edge rows carry `cornerScale`
  and globally
    bcrow_raises_iff            the periodic branch raises exactly for (radial class, axis x) = `radialPeriodicRejected`
    dispatch_*_eq               grid class ↦ function: the 1-D function serves Grid1D, CylindricalGrid1D and
                                SphericalGrid1D, the 2-D function Grid2D and CylindricalGrid2D, the others one class
    withGhosts_hi|lo, bcRow_hi|lo   the per-side statements are statements about `withGhosts` / `bcRow`
    untranslated_eq             nothing in the scope of T-bc (14 functions) was left untranslated

  Hypotheses.  `hk` = the grid classes the dispatcher sends to the function (it fixes the metric factor `lineM`:
  1 on Cartesian sides, r on θ-sides, r·sin θ on the φ-sides of the spherical grid).  The left / right sides need
  no `hk`: along x no grid class rescales distances (`lineM_x`), the formulas hold on every mesh.  `hp` = which branch of the
  test on the periodic flags runs.  The ghost values need `h0` (ghost coefficient ≠ 0) because the model's value is
  `none` otherwise; the rows need nothing else: coefficients agree as field expressions (`x / 0 = 0` included), no
  bound on i, j, k and no well-formedness is used.  For well-formed meshes and `a ≥ 0`, `b > 0` (high side;
  `a ≤ 0` on the low side) `h0` holds (`example`s at the end).
  A change of an index, a sign, a metric factor, a side or a slot counter in the Python source changes the generated
  definition or makes the translator refuse the function, and the theorem below no longer compiles.
-/
import PyFV.Gen.BCGen
import PyFV.Lemmas.BCLemmas
import PyFV.Props.Examples
import PyFV.Lemmas.GenEqTac
import Mathlib.Tactic.Ring
import Mathlib.Tactic.FieldSimp
import Mathlib.Tactic.NormNum

set_option linter.unusedSectionVars false
set_option linter.unusedSimpArgs false
set_option linter.unusedVariables false
set_option linter.unnecessarySeqFocus false
set_option linter.unusedTactic false
set_option linter.unreachableTactic false

namespace PyFV.GenEqBC
open PyFV

variable {α : Type} [Field α] [LinearOrder α] [IsStrictOrderedRing α]

/-- nothing in the scope of T-bc (6 ghost functions, 6 row builders, 2 dispatchers) was left untranslated -/
theorem untranslated_eq : Gen.BCGen.untranslated = [] := rfl

/-! ### the per-side model functions are the whole-array model at the ghost cells -/

/-- the ghost cell beyond the high end of an active direction carries `ghostHi` of its grid line -/
theorem withGhosts_hi (M : Mesh α) (bc : BCs α) (φ : CellFld α) (d : Dir) (c : Idx)
    (h : M.interior c) (hd : M.kind.active d = true) (hc : c.get d = M.n d) :
    withGhosts M bc φ (c.set d (M.n d + 1)) = ghostHi M bc φ d c := by
  obtain ⟨h1, h2⟩ := ghostCell_hi h hd
  unfold withGhosts
  rw [h1]
  simp only [h2]
  cases d <;> simp [Idx.get, Idx.set, Mesh.n, Mesh.axis] at hc ⊢ <;> rw [← hc]

/-- the ghost cell before the low end of an active direction carries `ghostLo` of its grid line -/
theorem withGhosts_lo (M : Mesh α) (bc : BCs α) (φ : CellFld α) (d : Dir) (c : Idx)
    (h : M.interior c) (hd : M.kind.active d = true) (hc : c.get d = 1) :
    withGhosts M bc φ (c.set d 0) = ghostLo M bc φ d c := by
  obtain ⟨h1, h2⟩ := ghostCell_lo h hd
  unfold withGhosts
  rw [h1]
  simp only [h2]
  cases d <;> simp [Idx.get, Idx.set] at hc ⊢ <;> rw [← hc]

theorem bcRow_hi (M : Mesh α) (bc : BCs α) (d : Dir) (c : Idx)
    (h : M.interior c) (hd : M.kind.active d = true) (hc : c.get d = M.n d) :
    bcRow M bc (c.set d (M.n d + 1)) = bcRowHi M bc d c := by
  obtain ⟨h1, h2⟩ := ghostCell_hi h hd
  unfold bcRow
  rw [h1]
  simp only [h2]
  cases d <;> simp [Idx.get, Idx.set, Mesh.n, Mesh.axis] at hc ⊢ <;> rw [← hc]

theorem bcRow_lo (M : Mesh α) (bc : BCs α) (d : Dir) (c : Idx)
    (h : M.interior c) (hd : M.kind.active d = true) (hc : c.get d = 1) :
    bcRow M bc (c.set d 0) = bcRowLo M bc d c := by
  obtain ⟨h1, h2⟩ := ghostCell_lo h hd
  unfold bcRow
  rw [h1]
  simp only [h2]
  cases d <;> simp [Idx.get, Idx.set] at hc ⊢ <;> rw [← hc]


/-! ### family 1D: `cellValuesWithBoundaries1D`, `boundaryConditionsTerm1D` (grid classes cart1, cyl1, sph1) -/

theorem ghost_1D_interior_eq (M : Mesh α) (bc : BCs α) (φ : CellFld α) (i : ℕ)
    (h : M.interior (i+1, 1, 1)) :
    withGhosts M bc φ (i+1, 1, 1) = some (Gen.BCGen.ghost_1D_interior φ i) := by
  unfold withGhosts; rw [outCount_of_interior h]; rfl

theorem ghost_1D_x_nonper_guard_eq (bc : BCs α) :
    Gen.BCGen.ghost_1D_x_nonper_guard bc = (!bc.periodicDir .x) := by
  simp only [Gen.BCGen.ghost_1D_x_nonper_guard, BCs.periodicDir] <;>
  cases (bc.lo .x).periodic <;> cases (bc.hi .x).periodic <;> rfl

theorem bcrow_1D_x_nonper_guard_eq (bc : BCs α) :
    Gen.BCGen.bcrow_1D_x_nonper_guard bc = (!bc.periodicDir .x) := by
  simp only [Gen.BCGen.bcrow_1D_x_nonper_guard, BCs.periodicDir] <;>
  cases (bc.lo .x).periodic <;> cases (bc.hi .x).periodic <;> rfl

theorem bcrow_1D_x_per_guard_eq (bc : BCs α) :
    Gen.BCGen.bcrow_1D_x_per_guard bc = (bc.periodicDir .x) := by
  simp only [Gen.BCGen.bcrow_1D_x_per_guard, BCs.periodicDir] <;>
  cases (bc.lo .x).periodic <;> cases (bc.hi .x).periodic <;> rfl

theorem ghost_1D_right_nonper_den_eq (M : Mesh α) (bc : BCs α) :
    Gen.BCGen.ghost_1D_right_nonper_den M bc = hiGhostCoef M bc .x (M.ax.n, 1, 1) := by
  simp only [Gen.BCGen.ghost_1D_right_nonper_den, hiGhostCoef, hiCellCoef, lineM_x, Mesh.axis, Mesh.n] <;> geq_ring

theorem ghost_1D_right_nonper_eq (M : Mesh α) (bc : BCs α) (φ : CellFld α)
    (hp : bc.periodicDir .x = false) (h0 : hiGhostCoef M bc .x (M.ax.n, 1, 1) ≠ 0) :
    ghostHi M bc φ .x (M.ax.n, 1, 1) = some (Gen.BCGen.ghost_1D_right_nonper M bc φ) := by
  rw [ghostHi_nonper hp, sdiv_of_ne h0]
  simp only [Gen.BCGen.ghost_1D_right_nonper, hiGhostCoef, hiCellCoef, lineM_x, Mesh.axis, Mesh.n]
  first | (congr 2 <;> geq_ring) | (congr 1 <;> geq_ring)

theorem ghost_1D_right_nonper_undefined (M : Mesh α) (bc : BCs α) (φ : CellFld α)
    (hp : bc.periodicDir .x = false) (h0 : Gen.BCGen.ghost_1D_right_nonper_den M bc = 0) :
    ghostHi M bc φ .x (M.ax.n, 1, 1) = none := by
  rw [ghostHi_nonper hp, sdiv_eq_none, ← ghost_1D_right_nonper_den_eq M bc]; exact h0

theorem ghost_1D_right_per_eq (M : Mesh α) (bc : BCs α) (φ : CellFld α)
    (hp : bc.periodicDir .x = true) :
    ghostHi M bc φ .x (M.ax.n, 1, 1) = some (Gen.BCGen.ghost_1D_right_per M bc φ) := by
  rw [ghostHi_per hp]; rfl

theorem bcrow_1D_right_cell_eq (M : Mesh α) :
    Gen.BCGen.bcrow_1D_right_cell M = Idx.set (M.ax.n, 1, 1) .x (M.n .x + 1) := rfl

theorem bcrow_1D_right_nonper_eq (M : Mesh α) (bc : BCs α)
    (hp : bc.periodicDir .x = false) :
    Gen.BCGen.bcrow_1D_right_nonper M bc = bcRowHi M bc .x (M.ax.n, 1, 1) := by
  rw [bcRowHi_nonper hp]
  simp only [Gen.BCGen.bcrow_1D_right_nonper, hiGhostCoef, hiCellCoef, lineM_x, Mesh.axis, Mesh.n,
    Idx.set, Row.mk.injEq, List.cons.injEq, Prod.mk.injEq, and_true, true_and]
  try (and_intros <;> geq_ring)

theorem bcrow_1D_right_per_eq (M : Mesh α) (bc : BCs α)
    (hp : bc.periodicDir .x = true) :
    Gen.BCGen.bcrow_1D_right_per M bc = bcRowHi M bc .x (M.ax.n, 1, 1) := by
  rw [bcRowHi_per hp]
  simp only [Gen.BCGen.bcrow_1D_right_per, Mesh.axis, Mesh.n,
    Idx.set, Row.mk.injEq, List.cons.injEq, Prod.mk.injEq, and_true, true_and]
  try (and_intros <;> geq_ring)

theorem ghost_1D_left_nonper_den_eq (M : Mesh α) (bc : BCs α) :
    Gen.BCGen.ghost_1D_left_nonper_den M bc = loGhostCoef M bc .x (1, 1, 1) := by
  simp only [Gen.BCGen.ghost_1D_left_nonper_den, loGhostCoef, loCellCoef, lineM_x, Mesh.axis, Mesh.n] <;> geq_ring

theorem ghost_1D_left_nonper_eq (M : Mesh α) (bc : BCs α) (φ : CellFld α)
    (hp : bc.periodicDir .x = false) (h0 : loGhostCoef M bc .x (1, 1, 1) ≠ 0) :
    ghostLo M bc φ .x (1, 1, 1) = some (Gen.BCGen.ghost_1D_left_nonper M bc φ) := by
  rw [ghostLo_nonper hp, sdiv_of_ne h0]
  simp only [Gen.BCGen.ghost_1D_left_nonper, loGhostCoef, loCellCoef, lineM_x, Mesh.axis, Mesh.n]
  first | (congr 2 <;> geq_ring) | (congr 1 <;> geq_ring)

theorem ghost_1D_left_nonper_undefined (M : Mesh α) (bc : BCs α) (φ : CellFld α)
    (hp : bc.periodicDir .x = false) (h0 : Gen.BCGen.ghost_1D_left_nonper_den M bc = 0) :
    ghostLo M bc φ .x (1, 1, 1) = none := by
  rw [ghostLo_nonper hp, sdiv_eq_none, ← ghost_1D_left_nonper_den_eq M bc]; exact h0

theorem ghost_1D_left_per_eq (M : Mesh α) (bc : BCs α) (φ : CellFld α)
    (hp : bc.periodicDir .x = true) :
    ghostLo M bc φ .x (1, 1, 1) = some (Gen.BCGen.ghost_1D_left_per M bc φ) := by
  rw [ghostLo_per hp]; rfl

theorem bcrow_1D_left_cell_eq (M : Mesh α) :
    Gen.BCGen.bcrow_1D_left_cell M = Idx.set (1, 1, 1) .x (0) := rfl

theorem bcrow_1D_left_nonper_eq (M : Mesh α) (bc : BCs α)
    (hp : bc.periodicDir .x = false) :
    Gen.BCGen.bcrow_1D_left_nonper M bc = bcRowLo M bc .x (1, 1, 1) := by
  rw [bcRowLo_nonper hp]
  simp only [Gen.BCGen.bcrow_1D_left_nonper, loGhostCoef, loCellCoef, lineM_x, Mesh.axis, Mesh.n,
    Idx.set, Row.mk.injEq, List.cons.injEq, Prod.mk.injEq, and_true, true_and]
  try (and_intros <;> geq_ring)

theorem bcrow_1D_left_per_eq (M : Mesh α) (bc : BCs α)
    (hp : bc.periodicDir .x = true) :
    Gen.BCGen.bcrow_1D_left_per M bc = bcRowLo M bc .x (1, 1, 1) := by
  rw [bcRowLo_per hp]
  simp only [Gen.BCGen.bcrow_1D_left_per, Mesh.axis, Mesh.n,
    Idx.set, Row.mk.injEq, List.cons.injEq, Prod.mk.injEq, and_true, true_and]
  try (and_intros <;> geq_ring)


/-! ### family 2D: `cellValuesWithBoundaries2D`, `boundaryConditionsTerm2D` (grid classes cart2, cyl2) -/

theorem ghost_2D_interior_eq (M : Mesh α) (bc : BCs α) (φ : CellFld α) (i j : ℕ)
    (h : M.interior (i+1, j+1, 1)) :
    withGhosts M bc φ (i+1, j+1, 1) = some (Gen.BCGen.ghost_2D_interior φ i j) := by
  unfold withGhosts; rw [outCount_of_interior h]; rfl

theorem ghost_2D_fill_eq (M : Mesh α) (bc : BCs α) (φ : CellFld α) (c : Idx) (h : 2 ≤ M.outCount c) :
    withGhosts M bc φ c = some (Gen.BCGen.ghost_2D_fill) := by
  obtain ⟨k, hk⟩ : ∃ k, M.outCount c = k + 2 := ⟨M.outCount c - 2, by omega⟩
  unfold withGhosts; rw [hk]; rfl

theorem ghost_2D_x_nonper_guard_eq (bc : BCs α) :
    Gen.BCGen.ghost_2D_x_nonper_guard bc = (!bc.periodicDir .x) := by
  simp only [Gen.BCGen.ghost_2D_x_nonper_guard, BCs.periodicDir] <;>
  cases (bc.lo .x).periodic <;> cases (bc.hi .x).periodic <;> rfl

theorem bcrow_2D_x_nonper_guard_eq (bc : BCs α) :
    Gen.BCGen.bcrow_2D_x_nonper_guard bc = (!bc.periodicDir .x) := by
  simp only [Gen.BCGen.bcrow_2D_x_nonper_guard, BCs.periodicDir] <;>
  cases (bc.lo .x).periodic <;> cases (bc.hi .x).periodic <;> rfl

theorem bcrow_2D_x_per_guard_eq (bc : BCs α) :
    Gen.BCGen.bcrow_2D_x_per_guard bc = (bc.periodicDir .x) := by
  simp only [Gen.BCGen.bcrow_2D_x_per_guard, BCs.periodicDir] <;>
  cases (bc.lo .x).periodic <;> cases (bc.hi .x).periodic <;> rfl

theorem ghost_2D_y_nonper_guard_eq (bc : BCs α) :
    Gen.BCGen.ghost_2D_y_nonper_guard bc = (!bc.periodicDir .y) := by
  simp only [Gen.BCGen.ghost_2D_y_nonper_guard, BCs.periodicDir] <;>
  cases (bc.lo .y).periodic <;> cases (bc.hi .y).periodic <;> rfl

theorem bcrow_2D_y_nonper_guard_eq (bc : BCs α) :
    Gen.BCGen.bcrow_2D_y_nonper_guard bc = (!bc.periodicDir .y) := by
  simp only [Gen.BCGen.bcrow_2D_y_nonper_guard, BCs.periodicDir] <;>
  cases (bc.lo .y).periodic <;> cases (bc.hi .y).periodic <;> rfl

theorem bcrow_2D_y_per_guard_eq (bc : BCs α) :
    Gen.BCGen.bcrow_2D_y_per_guard bc = (bc.periodicDir .y) := by
  simp only [Gen.BCGen.bcrow_2D_y_per_guard, BCs.periodicDir] <;>
  cases (bc.lo .y).periodic <;> cases (bc.hi .y).periodic <;> rfl

theorem ghost_2D_right_nonper_den_eq (M : Mesh α) (bc : BCs α) (j : ℕ) :
    Gen.BCGen.ghost_2D_right_nonper_den M bc j = hiGhostCoef M bc .x (M.ax.n, j+1, 1) := by
  simp only [Gen.BCGen.ghost_2D_right_nonper_den, hiGhostCoef, hiCellCoef, lineM_x, Mesh.axis, Mesh.n] <;> geq_ring

theorem ghost_2D_right_nonper_eq (M : Mesh α) (bc : BCs α) (φ : CellFld α) (j : ℕ)
    (hp : bc.periodicDir .x = false) (h0 : hiGhostCoef M bc .x (M.ax.n, j+1, 1) ≠ 0) :
    ghostHi M bc φ .x (M.ax.n, j+1, 1) = some (Gen.BCGen.ghost_2D_right_nonper M bc φ j) := by
  rw [ghostHi_nonper hp, sdiv_of_ne h0]
  simp only [Gen.BCGen.ghost_2D_right_nonper, hiGhostCoef, hiCellCoef, lineM_x, Mesh.axis, Mesh.n]
  first | (congr 2 <;> geq_ring) | (congr 1 <;> geq_ring)

theorem ghost_2D_right_nonper_undefined (M : Mesh α) (bc : BCs α) (φ : CellFld α) (j : ℕ)
    (hp : bc.periodicDir .x = false) (h0 : Gen.BCGen.ghost_2D_right_nonper_den M bc j = 0) :
    ghostHi M bc φ .x (M.ax.n, j+1, 1) = none := by
  rw [ghostHi_nonper hp, sdiv_eq_none, ← ghost_2D_right_nonper_den_eq M bc j]; exact h0

theorem ghost_2D_right_per_eq (M : Mesh α) (bc : BCs α) (φ : CellFld α) (j : ℕ)
    (hp : bc.periodicDir .x = true) :
    ghostHi M bc φ .x (M.ax.n, j+1, 1) = some (Gen.BCGen.ghost_2D_right_per M bc φ j) := by
  rw [ghostHi_per hp]; rfl

theorem bcrow_2D_right_cell_eq (M : Mesh α) (j : ℕ) :
    Gen.BCGen.bcrow_2D_right_cell M j = Idx.set (M.ax.n, j+1, 1) .x (M.n .x + 1) := rfl

theorem bcrow_2D_right_nonper_eq (M : Mesh α) (bc : BCs α) (j : ℕ)
    (hp : bc.periodicDir .x = false) :
    Gen.BCGen.bcrow_2D_right_nonper M bc j = bcRowHi M bc .x (M.ax.n, j+1, 1) := by
  rw [bcRowHi_nonper hp]
  simp only [Gen.BCGen.bcrow_2D_right_nonper, hiGhostCoef, hiCellCoef, lineM_x, Mesh.axis, Mesh.n,
    Idx.set, Row.mk.injEq, List.cons.injEq, Prod.mk.injEq, and_true, true_and]
  try (and_intros <;> geq_ring)

theorem bcrow_2D_right_per_eq (M : Mesh α) (bc : BCs α) (j : ℕ)
    (hp : bc.periodicDir .x = true) :
    Gen.BCGen.bcrow_2D_right_per M bc j = bcRowHi M bc .x (M.ax.n, j+1, 1) := by
  rw [bcRowHi_per hp]
  simp only [Gen.BCGen.bcrow_2D_right_per, Mesh.axis, Mesh.n,
    Idx.set, Row.mk.injEq, List.cons.injEq, Prod.mk.injEq, and_true, true_and]
  try (and_intros <;> geq_ring)

theorem ghost_2D_left_nonper_den_eq (M : Mesh α) (bc : BCs α) (j : ℕ) :
    Gen.BCGen.ghost_2D_left_nonper_den M bc j = loGhostCoef M bc .x (1, j+1, 1) := by
  simp only [Gen.BCGen.ghost_2D_left_nonper_den, loGhostCoef, loCellCoef, lineM_x, Mesh.axis, Mesh.n] <;> geq_ring

theorem ghost_2D_left_nonper_eq (M : Mesh α) (bc : BCs α) (φ : CellFld α) (j : ℕ)
    (hp : bc.periodicDir .x = false) (h0 : loGhostCoef M bc .x (1, j+1, 1) ≠ 0) :
    ghostLo M bc φ .x (1, j+1, 1) = some (Gen.BCGen.ghost_2D_left_nonper M bc φ j) := by
  rw [ghostLo_nonper hp, sdiv_of_ne h0]
  simp only [Gen.BCGen.ghost_2D_left_nonper, loGhostCoef, loCellCoef, lineM_x, Mesh.axis, Mesh.n]
  first | (congr 2 <;> geq_ring) | (congr 1 <;> geq_ring)

theorem ghost_2D_left_nonper_undefined (M : Mesh α) (bc : BCs α) (φ : CellFld α) (j : ℕ)
    (hp : bc.periodicDir .x = false) (h0 : Gen.BCGen.ghost_2D_left_nonper_den M bc j = 0) :
    ghostLo M bc φ .x (1, j+1, 1) = none := by
  rw [ghostLo_nonper hp, sdiv_eq_none, ← ghost_2D_left_nonper_den_eq M bc j]; exact h0

theorem ghost_2D_left_per_eq (M : Mesh α) (bc : BCs α) (φ : CellFld α) (j : ℕ)
    (hp : bc.periodicDir .x = true) :
    ghostLo M bc φ .x (1, j+1, 1) = some (Gen.BCGen.ghost_2D_left_per M bc φ j) := by
  rw [ghostLo_per hp]; rfl

theorem bcrow_2D_left_cell_eq (M : Mesh α) (j : ℕ) :
    Gen.BCGen.bcrow_2D_left_cell M j = Idx.set (1, j+1, 1) .x (0) := rfl

theorem bcrow_2D_left_nonper_eq (M : Mesh α) (bc : BCs α) (j : ℕ)
    (hp : bc.periodicDir .x = false) :
    Gen.BCGen.bcrow_2D_left_nonper M bc j = bcRowLo M bc .x (1, j+1, 1) := by
  rw [bcRowLo_nonper hp]
  simp only [Gen.BCGen.bcrow_2D_left_nonper, loGhostCoef, loCellCoef, lineM_x, Mesh.axis, Mesh.n,
    Idx.set, Row.mk.injEq, List.cons.injEq, Prod.mk.injEq, and_true, true_and]
  try (and_intros <;> geq_ring)

theorem bcrow_2D_left_per_eq (M : Mesh α) (bc : BCs α) (j : ℕ)
    (hp : bc.periodicDir .x = true) :
    Gen.BCGen.bcrow_2D_left_per M bc j = bcRowLo M bc .x (1, j+1, 1) := by
  rw [bcRowLo_per hp]
  simp only [Gen.BCGen.bcrow_2D_left_per, Mesh.axis, Mesh.n,
    Idx.set, Row.mk.injEq, List.cons.injEq, Prod.mk.injEq, and_true, true_and]
  try (and_intros <;> geq_ring)

theorem ghost_2D_top_nonper_den_eq (M : Mesh α) (hk : M.kind = .cart2 ∨ M.kind = .cyl2) (bc : BCs α) (i : ℕ) :
    Gen.BCGen.ghost_2D_top_nonper_den M bc i = hiGhostCoef M bc .y (i+1, M.ay.n, 1) := by
  rcases hk with hk | hk <;>
  · simp only [Gen.BCGen.ghost_2D_top_nonper_den, hiGhostCoef, hiCellCoef, lineM, hk, Mesh.axis, Mesh.n] <;> geq_ring

theorem ghost_2D_top_nonper_eq (M : Mesh α) (hk : M.kind = .cart2 ∨ M.kind = .cyl2) (bc : BCs α) (φ : CellFld α) (i : ℕ)
    (hp : bc.periodicDir .y = false) (h0 : hiGhostCoef M bc .y (i+1, M.ay.n, 1) ≠ 0) :
    ghostHi M bc φ .y (i+1, M.ay.n, 1) = some (Gen.BCGen.ghost_2D_top_nonper M bc φ i) := by
  rw [ghostHi_nonper hp, sdiv_of_ne h0]
  rcases hk with hk | hk <;>
  · simp only [Gen.BCGen.ghost_2D_top_nonper, hiGhostCoef, hiCellCoef, lineM, hk, Mesh.axis, Mesh.n]
    first | (congr 2 <;> geq_ring) | (congr 1 <;> geq_ring)

theorem ghost_2D_top_nonper_undefined (M : Mesh α) (hk : M.kind = .cart2 ∨ M.kind = .cyl2) (bc : BCs α) (φ : CellFld α) (i : ℕ)
    (hp : bc.periodicDir .y = false) (h0 : Gen.BCGen.ghost_2D_top_nonper_den M bc i = 0) :
    ghostHi M bc φ .y (i+1, M.ay.n, 1) = none := by
  rw [ghostHi_nonper hp, sdiv_eq_none, ← ghost_2D_top_nonper_den_eq M hk bc i]; exact h0

theorem ghost_2D_top_per_eq (M : Mesh α) (bc : BCs α) (φ : CellFld α) (i : ℕ)
    (hp : bc.periodicDir .y = true) :
    ghostHi M bc φ .y (i+1, M.ay.n, 1) = some (Gen.BCGen.ghost_2D_top_per M bc φ i) := by
  rw [ghostHi_per hp]; rfl

theorem bcrow_2D_top_cell_eq (M : Mesh α) (i : ℕ) :
    Gen.BCGen.bcrow_2D_top_cell M i = Idx.set (i+1, M.ay.n, 1) .y (M.n .y + 1) := rfl

theorem bcrow_2D_top_nonper_eq (M : Mesh α) (hk : M.kind = .cart2 ∨ M.kind = .cyl2) (bc : BCs α) (i : ℕ)
    (hp : bc.periodicDir .y = false) :
    Gen.BCGen.bcrow_2D_top_nonper M bc i = bcRowHi M bc .y (i+1, M.ay.n, 1) := by
  rw [bcRowHi_nonper hp]
  rcases hk with hk | hk <;>
  · simp only [Gen.BCGen.bcrow_2D_top_nonper, hiGhostCoef, hiCellCoef, lineM, hk, Mesh.axis, Mesh.n,
      Idx.set, Row.mk.injEq, List.cons.injEq, Prod.mk.injEq, and_true, true_and]
    try (and_intros <;> geq_ring)

theorem bcrow_2D_top_per_eq (M : Mesh α) (bc : BCs α) (i : ℕ)
    (hp : bc.periodicDir .y = true) :
    Gen.BCGen.bcrow_2D_top_per M bc i = bcRowHi M bc .y (i+1, M.ay.n, 1) := by
  rw [bcRowHi_per hp]
  simp only [Gen.BCGen.bcrow_2D_top_per, Mesh.axis, Mesh.n,
    Idx.set, Row.mk.injEq, List.cons.injEq, Prod.mk.injEq, and_true, true_and]
  try (and_intros <;> geq_ring)

theorem ghost_2D_bottom_nonper_den_eq (M : Mesh α) (hk : M.kind = .cart2 ∨ M.kind = .cyl2) (bc : BCs α) (i : ℕ) :
    Gen.BCGen.ghost_2D_bottom_nonper_den M bc i = loGhostCoef M bc .y (i+1, 1, 1) := by
  rcases hk with hk | hk <;>
  · simp only [Gen.BCGen.ghost_2D_bottom_nonper_den, loGhostCoef, loCellCoef, lineM, hk, Mesh.axis, Mesh.n] <;> geq_ring

theorem ghost_2D_bottom_nonper_eq (M : Mesh α) (hk : M.kind = .cart2 ∨ M.kind = .cyl2) (bc : BCs α) (φ : CellFld α) (i : ℕ)
    (hp : bc.periodicDir .y = false) (h0 : loGhostCoef M bc .y (i+1, 1, 1) ≠ 0) :
    ghostLo M bc φ .y (i+1, 1, 1) = some (Gen.BCGen.ghost_2D_bottom_nonper M bc φ i) := by
  rw [ghostLo_nonper hp, sdiv_of_ne h0]
  rcases hk with hk | hk <;>
  · simp only [Gen.BCGen.ghost_2D_bottom_nonper, loGhostCoef, loCellCoef, lineM, hk, Mesh.axis, Mesh.n]
    first | (congr 2 <;> geq_ring) | (congr 1 <;> geq_ring)

theorem ghost_2D_bottom_nonper_undefined (M : Mesh α) (hk : M.kind = .cart2 ∨ M.kind = .cyl2) (bc : BCs α) (φ : CellFld α) (i : ℕ)
    (hp : bc.periodicDir .y = false) (h0 : Gen.BCGen.ghost_2D_bottom_nonper_den M bc i = 0) :
    ghostLo M bc φ .y (i+1, 1, 1) = none := by
  rw [ghostLo_nonper hp, sdiv_eq_none, ← ghost_2D_bottom_nonper_den_eq M hk bc i]; exact h0

theorem ghost_2D_bottom_per_eq (M : Mesh α) (bc : BCs α) (φ : CellFld α) (i : ℕ)
    (hp : bc.periodicDir .y = true) :
    ghostLo M bc φ .y (i+1, 1, 1) = some (Gen.BCGen.ghost_2D_bottom_per M bc φ i) := by
  rw [ghostLo_per hp]; rfl

theorem bcrow_2D_bottom_cell_eq (M : Mesh α) (i : ℕ) :
    Gen.BCGen.bcrow_2D_bottom_cell M i = Idx.set (i+1, 1, 1) .y (0) := rfl

theorem bcrow_2D_bottom_nonper_eq (M : Mesh α) (hk : M.kind = .cart2 ∨ M.kind = .cyl2) (bc : BCs α) (i : ℕ)
    (hp : bc.periodicDir .y = false) :
    Gen.BCGen.bcrow_2D_bottom_nonper M bc i = bcRowLo M bc .y (i+1, 1, 1) := by
  rw [bcRowLo_nonper hp]
  rcases hk with hk | hk <;>
  · simp only [Gen.BCGen.bcrow_2D_bottom_nonper, loGhostCoef, loCellCoef, lineM, hk, Mesh.axis, Mesh.n,
      Idx.set, Row.mk.injEq, List.cons.injEq, Prod.mk.injEq, and_true, true_and]
    try (and_intros <;> geq_ring)

theorem bcrow_2D_bottom_per_eq (M : Mesh α) (bc : BCs α) (i : ℕ)
    (hp : bc.periodicDir .y = true) :
    Gen.BCGen.bcrow_2D_bottom_per M bc i = bcRowLo M bc .y (i+1, 1, 1) := by
  rw [bcRowLo_per hp]
  simp only [Gen.BCGen.bcrow_2D_bottom_per, Mesh.axis, Mesh.n,
    Idx.set, Row.mk.injEq, List.cons.injEq, Prod.mk.injEq, and_true, true_and]
  try (and_intros <;> geq_ring)

/-- the diagonal of the four corner rows, `np.max(top.b/2 + top.a/dy_end)`, is the model's `cornerScale` -/
theorem bcrow_2D_corner_eq (M : Mesh α) (hk : M.kind = .cart2 ∨ M.kind = .cyl2) (bc : BCs α) :
    cornerScale M bc = maxOver (fun i => Gen.BCGen.bcrow_2D_corner_maxterm M bc (i - 1)) M.ax.n := by
  have key : ∀ (f g : ℕ → α), (∀ i, 1 ≤ i → f i = g i) → ∀ n, maxOver f n = maxOver g n := by
    intro f g hfg n
    induction n using Nat.strongRecOn with
    | _ n ih =>
      match n with
      | 0 => exact hfg 1 (le_refl _)
      | 1 => exact hfg 1 (le_refl _)
      | (k+2) =>
        simp only [maxOver]
        rw [ih (k+1) (by omega), hfg (k+2) (by omega)]
  have hd : M.kind.dim = 2 := by
    rcases hk with hk | hk <;> (rw [hk]; rfl)
  unfold cornerScale
  rw [if_pos hd]
  apply key
  intro i hi
  have e : i - 1 + 1 = i := by omega
  simp only [Gen.BCGen.bcrow_2D_corner_maxterm, e]


/-! ### family Polar2D: `cellValuesWithBoundariesPolar2D`, `boundaryConditionsTermPolar2D` (grid classes pol2) -/

theorem ghost_Polar2D_interior_eq (M : Mesh α) (bc : BCs α) (φ : CellFld α) (i j : ℕ)
    (h : M.interior (i+1, j+1, 1)) :
    withGhosts M bc φ (i+1, j+1, 1) = some (Gen.BCGen.ghost_Polar2D_interior φ i j) := by
  unfold withGhosts; rw [outCount_of_interior h]; rfl

theorem ghost_Polar2D_fill_eq (M : Mesh α) (bc : BCs α) (φ : CellFld α) (c : Idx) (h : 2 ≤ M.outCount c) :
    withGhosts M bc φ c = some (Gen.BCGen.ghost_Polar2D_fill) := by
  obtain ⟨k, hk⟩ : ∃ k, M.outCount c = k + 2 := ⟨M.outCount c - 2, by omega⟩
  unfold withGhosts; rw [hk]; rfl

theorem ghost_Polar2D_x_nonper_guard_eq (bc : BCs α) :
    Gen.BCGen.ghost_Polar2D_x_nonper_guard bc = (!bc.periodicDir .x) := by
  simp only [Gen.BCGen.ghost_Polar2D_x_nonper_guard, BCs.periodicDir] <;>
  cases (bc.lo .x).periodic <;> cases (bc.hi .x).periodic <;> rfl

theorem bcrow_Polar2D_x_nonper_guard_eq (bc : BCs α) :
    Gen.BCGen.bcrow_Polar2D_x_nonper_guard bc = (!bc.periodicDir .x) := by
  simp only [Gen.BCGen.bcrow_Polar2D_x_nonper_guard, BCs.periodicDir] <;>
  cases (bc.lo .x).periodic <;> cases (bc.hi .x).periodic <;> rfl

theorem bcrow_Polar2D_x_per_guard_eq (bc : BCs α) :
    Gen.BCGen.bcrow_Polar2D_x_per_guard bc = (bc.periodicDir .x) := by
  simp only [Gen.BCGen.bcrow_Polar2D_x_per_guard, BCs.periodicDir] <;>
  cases (bc.lo .x).periodic <;> cases (bc.hi .x).periodic <;> rfl

theorem ghost_Polar2D_y_nonper_guard_eq (bc : BCs α) :
    Gen.BCGen.ghost_Polar2D_y_nonper_guard bc = (!bc.periodicDir .y) := by
  simp only [Gen.BCGen.ghost_Polar2D_y_nonper_guard, BCs.periodicDir] <;>
  cases (bc.lo .y).periodic <;> cases (bc.hi .y).periodic <;> rfl

theorem bcrow_Polar2D_y_nonper_guard_eq (bc : BCs α) :
    Gen.BCGen.bcrow_Polar2D_y_nonper_guard bc = (!bc.periodicDir .y) := by
  simp only [Gen.BCGen.bcrow_Polar2D_y_nonper_guard, BCs.periodicDir] <;>
  cases (bc.lo .y).periodic <;> cases (bc.hi .y).periodic <;> rfl

theorem bcrow_Polar2D_y_per_guard_eq (bc : BCs α) :
    Gen.BCGen.bcrow_Polar2D_y_per_guard bc = (bc.periodicDir .y) := by
  simp only [Gen.BCGen.bcrow_Polar2D_y_per_guard, BCs.periodicDir] <;>
  cases (bc.lo .y).periodic <;> cases (bc.hi .y).periodic <;> rfl

theorem ghost_Polar2D_right_nonper_den_eq (M : Mesh α) (bc : BCs α) (j : ℕ) :
    Gen.BCGen.ghost_Polar2D_right_nonper_den M bc j = hiGhostCoef M bc .x (M.ax.n, j+1, 1) := by
  simp only [Gen.BCGen.ghost_Polar2D_right_nonper_den, hiGhostCoef, hiCellCoef, lineM_x, Mesh.axis, Mesh.n] <;> geq_ring

theorem ghost_Polar2D_right_nonper_eq (M : Mesh α) (bc : BCs α) (φ : CellFld α) (j : ℕ)
    (hp : bc.periodicDir .x = false) (h0 : hiGhostCoef M bc .x (M.ax.n, j+1, 1) ≠ 0) :
    ghostHi M bc φ .x (M.ax.n, j+1, 1) = some (Gen.BCGen.ghost_Polar2D_right_nonper M bc φ j) := by
  rw [ghostHi_nonper hp, sdiv_of_ne h0]
  simp only [Gen.BCGen.ghost_Polar2D_right_nonper, hiGhostCoef, hiCellCoef, lineM_x, Mesh.axis, Mesh.n]
  first | (congr 2 <;> geq_ring) | (congr 1 <;> geq_ring)

theorem ghost_Polar2D_right_nonper_undefined (M : Mesh α) (bc : BCs α) (φ : CellFld α) (j : ℕ)
    (hp : bc.periodicDir .x = false) (h0 : Gen.BCGen.ghost_Polar2D_right_nonper_den M bc j = 0) :
    ghostHi M bc φ .x (M.ax.n, j+1, 1) = none := by
  rw [ghostHi_nonper hp, sdiv_eq_none, ← ghost_Polar2D_right_nonper_den_eq M bc j]; exact h0

theorem ghost_Polar2D_right_per_eq (M : Mesh α) (bc : BCs α) (φ : CellFld α) (j : ℕ)
    (hp : bc.periodicDir .x = true) :
    ghostHi M bc φ .x (M.ax.n, j+1, 1) = some (Gen.BCGen.ghost_Polar2D_right_per M bc φ j) := by
  rw [ghostHi_per hp]; rfl

theorem bcrow_Polar2D_right_cell_eq (M : Mesh α) (j : ℕ) :
    Gen.BCGen.bcrow_Polar2D_right_cell M j = Idx.set (M.ax.n, j+1, 1) .x (M.n .x + 1) := rfl

theorem bcrow_Polar2D_right_nonper_eq (M : Mesh α) (bc : BCs α) (j : ℕ)
    (hp : bc.periodicDir .x = false) :
    Gen.BCGen.bcrow_Polar2D_right_nonper M bc j = bcRowHi M bc .x (M.ax.n, j+1, 1) := by
  rw [bcRowHi_nonper hp]
  simp only [Gen.BCGen.bcrow_Polar2D_right_nonper, hiGhostCoef, hiCellCoef, lineM_x, Mesh.axis, Mesh.n,
    Idx.set, Row.mk.injEq, List.cons.injEq, Prod.mk.injEq, and_true, true_and]
  try (and_intros <;> geq_ring)

theorem ghost_Polar2D_left_nonper_den_eq (M : Mesh α) (bc : BCs α) (j : ℕ) :
    Gen.BCGen.ghost_Polar2D_left_nonper_den M bc j = loGhostCoef M bc .x (1, j+1, 1) := by
  simp only [Gen.BCGen.ghost_Polar2D_left_nonper_den, loGhostCoef, loCellCoef, lineM_x, Mesh.axis, Mesh.n] <;> geq_ring

theorem ghost_Polar2D_left_nonper_eq (M : Mesh α) (bc : BCs α) (φ : CellFld α) (j : ℕ)
    (hp : bc.periodicDir .x = false) (h0 : loGhostCoef M bc .x (1, j+1, 1) ≠ 0) :
    ghostLo M bc φ .x (1, j+1, 1) = some (Gen.BCGen.ghost_Polar2D_left_nonper M bc φ j) := by
  rw [ghostLo_nonper hp, sdiv_of_ne h0]
  simp only [Gen.BCGen.ghost_Polar2D_left_nonper, loGhostCoef, loCellCoef, lineM_x, Mesh.axis, Mesh.n]
  first | (congr 2 <;> geq_ring) | (congr 1 <;> geq_ring)

theorem ghost_Polar2D_left_nonper_undefined (M : Mesh α) (bc : BCs α) (φ : CellFld α) (j : ℕ)
    (hp : bc.periodicDir .x = false) (h0 : Gen.BCGen.ghost_Polar2D_left_nonper_den M bc j = 0) :
    ghostLo M bc φ .x (1, j+1, 1) = none := by
  rw [ghostLo_nonper hp, sdiv_eq_none, ← ghost_Polar2D_left_nonper_den_eq M bc j]; exact h0

theorem ghost_Polar2D_left_per_eq (M : Mesh α) (bc : BCs α) (φ : CellFld α) (j : ℕ)
    (hp : bc.periodicDir .x = true) :
    ghostLo M bc φ .x (1, j+1, 1) = some (Gen.BCGen.ghost_Polar2D_left_per M bc φ j) := by
  rw [ghostLo_per hp]; rfl

theorem bcrow_Polar2D_left_cell_eq (M : Mesh α) (j : ℕ) :
    Gen.BCGen.bcrow_Polar2D_left_cell M j = Idx.set (1, j+1, 1) .x (0) := rfl

theorem bcrow_Polar2D_left_nonper_eq (M : Mesh α) (bc : BCs α) (j : ℕ)
    (hp : bc.periodicDir .x = false) :
    Gen.BCGen.bcrow_Polar2D_left_nonper M bc j = bcRowLo M bc .x (1, j+1, 1) := by
  rw [bcRowLo_nonper hp]
  simp only [Gen.BCGen.bcrow_Polar2D_left_nonper, loGhostCoef, loCellCoef, lineM_x, Mesh.axis, Mesh.n,
    Idx.set, Row.mk.injEq, List.cons.injEq, Prod.mk.injEq, and_true, true_and]
  try (and_intros <;> geq_ring)

theorem ghost_Polar2D_top_nonper_den_eq (M : Mesh α) (hk : M.kind = .pol2) (bc : BCs α) (i : ℕ) :
    Gen.BCGen.ghost_Polar2D_top_nonper_den M bc i = hiGhostCoef M bc .y (i+1, M.ay.n, 1) := by
  simp only [Gen.BCGen.ghost_Polar2D_top_nonper_den, hiGhostCoef, hiCellCoef, lineM, hk, Mesh.axis, Mesh.n] <;> geq_ring

theorem ghost_Polar2D_top_nonper_eq (M : Mesh α) (hk : M.kind = .pol2) (bc : BCs α) (φ : CellFld α) (i : ℕ)
    (hp : bc.periodicDir .y = false) (h0 : hiGhostCoef M bc .y (i+1, M.ay.n, 1) ≠ 0) :
    ghostHi M bc φ .y (i+1, M.ay.n, 1) = some (Gen.BCGen.ghost_Polar2D_top_nonper M bc φ i) := by
  rw [ghostHi_nonper hp, sdiv_of_ne h0]
  simp only [Gen.BCGen.ghost_Polar2D_top_nonper, hiGhostCoef, hiCellCoef, lineM, hk, Mesh.axis, Mesh.n]
  first | (congr 2 <;> geq_ring) | (congr 1 <;> geq_ring)

theorem ghost_Polar2D_top_nonper_undefined (M : Mesh α) (hk : M.kind = .pol2) (bc : BCs α) (φ : CellFld α) (i : ℕ)
    (hp : bc.periodicDir .y = false) (h0 : Gen.BCGen.ghost_Polar2D_top_nonper_den M bc i = 0) :
    ghostHi M bc φ .y (i+1, M.ay.n, 1) = none := by
  rw [ghostHi_nonper hp, sdiv_eq_none, ← ghost_Polar2D_top_nonper_den_eq M hk bc i]; exact h0

theorem ghost_Polar2D_top_per_eq (M : Mesh α) (bc : BCs α) (φ : CellFld α) (i : ℕ)
    (hp : bc.periodicDir .y = true) :
    ghostHi M bc φ .y (i+1, M.ay.n, 1) = some (Gen.BCGen.ghost_Polar2D_top_per M bc φ i) := by
  rw [ghostHi_per hp]; rfl

theorem bcrow_Polar2D_top_cell_eq (M : Mesh α) (i : ℕ) :
    Gen.BCGen.bcrow_Polar2D_top_cell M i = Idx.set (i+1, M.ay.n, 1) .y (M.n .y + 1) := rfl

theorem bcrow_Polar2D_top_nonper_eq (M : Mesh α) (hk : M.kind = .pol2) (bc : BCs α) (i : ℕ)
    (hp : bc.periodicDir .y = false) :
    Gen.BCGen.bcrow_Polar2D_top_nonper M bc i = bcRowHi M bc .y (i+1, M.ay.n, 1) := by
  rw [bcRowHi_nonper hp]
  simp only [Gen.BCGen.bcrow_Polar2D_top_nonper, hiGhostCoef, hiCellCoef, lineM, hk, Mesh.axis, Mesh.n,
    Idx.set, Row.mk.injEq, List.cons.injEq, Prod.mk.injEq, and_true, true_and]
  try (and_intros <;> geq_ring)

theorem bcrow_Polar2D_top_per_eq (M : Mesh α) (bc : BCs α) (i : ℕ)
    (hp : bc.periodicDir .y = true) :
    Gen.BCGen.bcrow_Polar2D_top_per M bc i = bcRowHi M bc .y (i+1, M.ay.n, 1) := by
  rw [bcRowHi_per hp]
  simp only [Gen.BCGen.bcrow_Polar2D_top_per, Mesh.axis, Mesh.n,
    Idx.set, Row.mk.injEq, List.cons.injEq, Prod.mk.injEq, and_true, true_and]
  try (and_intros <;> geq_ring)

theorem ghost_Polar2D_bottom_nonper_den_eq (M : Mesh α) (hk : M.kind = .pol2) (bc : BCs α) (i : ℕ) :
    Gen.BCGen.ghost_Polar2D_bottom_nonper_den M bc i = loGhostCoef M bc .y (i+1, 1, 1) := by
  simp only [Gen.BCGen.ghost_Polar2D_bottom_nonper_den, loGhostCoef, loCellCoef, lineM, hk, Mesh.axis, Mesh.n] <;> geq_ring

theorem ghost_Polar2D_bottom_nonper_eq (M : Mesh α) (hk : M.kind = .pol2) (bc : BCs α) (φ : CellFld α) (i : ℕ)
    (hp : bc.periodicDir .y = false) (h0 : loGhostCoef M bc .y (i+1, 1, 1) ≠ 0) :
    ghostLo M bc φ .y (i+1, 1, 1) = some (Gen.BCGen.ghost_Polar2D_bottom_nonper M bc φ i) := by
  rw [ghostLo_nonper hp, sdiv_of_ne h0]
  simp only [Gen.BCGen.ghost_Polar2D_bottom_nonper, loGhostCoef, loCellCoef, lineM, hk, Mesh.axis, Mesh.n]
  first | (congr 2 <;> geq_ring) | (congr 1 <;> geq_ring)

theorem ghost_Polar2D_bottom_nonper_undefined (M : Mesh α) (hk : M.kind = .pol2) (bc : BCs α) (φ : CellFld α) (i : ℕ)
    (hp : bc.periodicDir .y = false) (h0 : Gen.BCGen.ghost_Polar2D_bottom_nonper_den M bc i = 0) :
    ghostLo M bc φ .y (i+1, 1, 1) = none := by
  rw [ghostLo_nonper hp, sdiv_eq_none, ← ghost_Polar2D_bottom_nonper_den_eq M hk bc i]; exact h0

theorem ghost_Polar2D_bottom_per_eq (M : Mesh α) (bc : BCs α) (φ : CellFld α) (i : ℕ)
    (hp : bc.periodicDir .y = true) :
    ghostLo M bc φ .y (i+1, 1, 1) = some (Gen.BCGen.ghost_Polar2D_bottom_per M bc φ i) := by
  rw [ghostLo_per hp]; rfl

theorem bcrow_Polar2D_bottom_cell_eq (M : Mesh α) (i : ℕ) :
    Gen.BCGen.bcrow_Polar2D_bottom_cell M i = Idx.set (i+1, 1, 1) .y (0) := rfl

theorem bcrow_Polar2D_bottom_nonper_eq (M : Mesh α) (hk : M.kind = .pol2) (bc : BCs α) (i : ℕ)
    (hp : bc.periodicDir .y = false) :
    Gen.BCGen.bcrow_Polar2D_bottom_nonper M bc i = bcRowLo M bc .y (i+1, 1, 1) := by
  rw [bcRowLo_nonper hp]
  simp only [Gen.BCGen.bcrow_Polar2D_bottom_nonper, loGhostCoef, loCellCoef, lineM, hk, Mesh.axis, Mesh.n,
    Idx.set, Row.mk.injEq, List.cons.injEq, Prod.mk.injEq, and_true, true_and]
  try (and_intros <;> geq_ring)

theorem bcrow_Polar2D_bottom_per_eq (M : Mesh α) (bc : BCs α) (i : ℕ)
    (hp : bc.periodicDir .y = true) :
    Gen.BCGen.bcrow_Polar2D_bottom_per M bc i = bcRowLo M bc .y (i+1, 1, 1) := by
  rw [bcRowLo_per hp]
  simp only [Gen.BCGen.bcrow_Polar2D_bottom_per, Mesh.axis, Mesh.n,
    Idx.set, Row.mk.injEq, List.cons.injEq, Prod.mk.injEq, and_true, true_and]
  try (and_intros <;> geq_ring)

/-- the diagonal of the four corner rows, `np.max(top.b/2 + top.a/dy_end)`, is the model's `cornerScale` -/
theorem bcrow_Polar2D_corner_eq (M : Mesh α) (hk : M.kind = .pol2) (bc : BCs α) :
    cornerScale M bc = maxOver (fun i => Gen.BCGen.bcrow_Polar2D_corner_maxterm M bc (i - 1)) M.ax.n := by
  have key : ∀ (f g : ℕ → α), (∀ i, 1 ≤ i → f i = g i) → ∀ n, maxOver f n = maxOver g n := by
    intro f g hfg n
    induction n using Nat.strongRecOn with
    | _ n ih =>
      match n with
      | 0 => exact hfg 1 (le_refl _)
      | 1 => exact hfg 1 (le_refl _)
      | (k+2) =>
        simp only [maxOver]
        rw [ih (k+1) (by omega), hfg (k+2) (by omega)]
  have hd : M.kind.dim = 2 := by
    rw [hk]; rfl
  unfold cornerScale
  rw [if_pos hd]
  apply key
  intro i hi
  have e : i - 1 + 1 = i := by omega
  simp only [Gen.BCGen.bcrow_Polar2D_corner_maxterm, e]


/-! ### family 3D: `cellValuesWithBoundaries3D`, `boundaryConditionsTerm3D` (grid classes cart3) -/

theorem ghost_3D_interior_eq (M : Mesh α) (bc : BCs α) (φ : CellFld α) (i j k : ℕ)
    (h : M.interior (i+1, j+1, k+1)) :
    withGhosts M bc φ (i+1, j+1, k+1) = some (Gen.BCGen.ghost_3D_interior φ i j k) := by
  unfold withGhosts; rw [outCount_of_interior h]; rfl

theorem ghost_3D_fill_eq (M : Mesh α) (bc : BCs α) (φ : CellFld α) (c : Idx) (h : 2 ≤ M.outCount c) :
    withGhosts M bc φ c = some (Gen.BCGen.ghost_3D_fill) := by
  obtain ⟨k, hk⟩ : ∃ k, M.outCount c = k + 2 := ⟨M.outCount c - 2, by omega⟩
  unfold withGhosts; rw [hk]; rfl

theorem ghost_3D_x_nonper_guard_eq (bc : BCs α) :
    Gen.BCGen.ghost_3D_x_nonper_guard bc = (!bc.periodicDir .x) := by
  simp only [Gen.BCGen.ghost_3D_x_nonper_guard, BCs.periodicDir] <;>
  cases (bc.lo .x).periodic <;> cases (bc.hi .x).periodic <;> rfl

theorem bcrow_3D_x_nonper_guard_eq (bc : BCs α) :
    Gen.BCGen.bcrow_3D_x_nonper_guard bc = (!bc.periodicDir .x) := by
  simp only [Gen.BCGen.bcrow_3D_x_nonper_guard, BCs.periodicDir] <;>
  cases (bc.lo .x).periodic <;> cases (bc.hi .x).periodic <;> rfl

theorem bcrow_3D_x_per_guard_eq (bc : BCs α) :
    Gen.BCGen.bcrow_3D_x_per_guard bc = (bc.periodicDir .x) := by
  simp only [Gen.BCGen.bcrow_3D_x_per_guard, BCs.periodicDir] <;>
  cases (bc.lo .x).periodic <;> cases (bc.hi .x).periodic <;> rfl

theorem ghost_3D_y_nonper_guard_eq (bc : BCs α) :
    Gen.BCGen.ghost_3D_y_nonper_guard bc = (!bc.periodicDir .y) := by
  simp only [Gen.BCGen.ghost_3D_y_nonper_guard, BCs.periodicDir] <;>
  cases (bc.lo .y).periodic <;> cases (bc.hi .y).periodic <;> rfl

theorem bcrow_3D_y_nonper_guard_eq (bc : BCs α) :
    Gen.BCGen.bcrow_3D_y_nonper_guard bc = (!bc.periodicDir .y) := by
  simp only [Gen.BCGen.bcrow_3D_y_nonper_guard, BCs.periodicDir] <;>
  cases (bc.lo .y).periodic <;> cases (bc.hi .y).periodic <;> rfl

theorem bcrow_3D_y_per_guard_eq (bc : BCs α) :
    Gen.BCGen.bcrow_3D_y_per_guard bc = (bc.periodicDir .y) := by
  simp only [Gen.BCGen.bcrow_3D_y_per_guard, BCs.periodicDir] <;>
  cases (bc.lo .y).periodic <;> cases (bc.hi .y).periodic <;> rfl

theorem ghost_3D_z_nonper_guard_eq (bc : BCs α) :
    Gen.BCGen.ghost_3D_z_nonper_guard bc = (!bc.periodicDir .z) := by
  simp only [Gen.BCGen.ghost_3D_z_nonper_guard, BCs.periodicDir] <;>
  cases (bc.lo .z).periodic <;> cases (bc.hi .z).periodic <;> rfl

theorem bcrow_3D_z_nonper_guard_eq (bc : BCs α) :
    Gen.BCGen.bcrow_3D_z_nonper_guard bc = (!bc.periodicDir .z) := by
  simp only [Gen.BCGen.bcrow_3D_z_nonper_guard, BCs.periodicDir] <;>
  cases (bc.lo .z).periodic <;> cases (bc.hi .z).periodic <;> rfl

theorem bcrow_3D_z_per_guard_eq (bc : BCs α) :
    Gen.BCGen.bcrow_3D_z_per_guard bc = (bc.periodicDir .z) := by
  simp only [Gen.BCGen.bcrow_3D_z_per_guard, BCs.periodicDir] <;>
  cases (bc.lo .z).periodic <;> cases (bc.hi .z).periodic <;> rfl

theorem ghost_3D_right_nonper_den_eq (M : Mesh α) (bc : BCs α) (j k : ℕ) :
    Gen.BCGen.ghost_3D_right_nonper_den M bc j k = hiGhostCoef M bc .x (M.ax.n, j+1, k+1) := by
  simp only [Gen.BCGen.ghost_3D_right_nonper_den, hiGhostCoef, hiCellCoef, lineM_x, Mesh.axis, Mesh.n] <;> geq_ring

theorem ghost_3D_right_nonper_eq (M : Mesh α) (bc : BCs α) (φ : CellFld α) (j k : ℕ)
    (hp : bc.periodicDir .x = false) (h0 : hiGhostCoef M bc .x (M.ax.n, j+1, k+1) ≠ 0) :
    ghostHi M bc φ .x (M.ax.n, j+1, k+1) = some (Gen.BCGen.ghost_3D_right_nonper M bc φ j k) := by
  rw [ghostHi_nonper hp, sdiv_of_ne h0]
  simp only [Gen.BCGen.ghost_3D_right_nonper, hiGhostCoef, hiCellCoef, lineM_x, Mesh.axis, Mesh.n]
  first | (congr 2 <;> geq_ring) | (congr 1 <;> geq_ring)

theorem ghost_3D_right_nonper_undefined (M : Mesh α) (bc : BCs α) (φ : CellFld α) (j k : ℕ)
    (hp : bc.periodicDir .x = false) (h0 : Gen.BCGen.ghost_3D_right_nonper_den M bc j k = 0) :
    ghostHi M bc φ .x (M.ax.n, j+1, k+1) = none := by
  rw [ghostHi_nonper hp, sdiv_eq_none, ← ghost_3D_right_nonper_den_eq M bc j k]; exact h0

theorem ghost_3D_right_per_eq (M : Mesh α) (bc : BCs α) (φ : CellFld α) (j k : ℕ)
    (hp : bc.periodicDir .x = true) :
    ghostHi M bc φ .x (M.ax.n, j+1, k+1) = some (Gen.BCGen.ghost_3D_right_per M bc φ j k) := by
  rw [ghostHi_per hp]; rfl

theorem bcrow_3D_right_cell_eq (M : Mesh α) (j k : ℕ) :
    Gen.BCGen.bcrow_3D_right_cell M j k = Idx.set (M.ax.n, j+1, k+1) .x (M.n .x + 1) := rfl

theorem bcrow_3D_right_nonper_eq (M : Mesh α) (bc : BCs α) (j k : ℕ)
    (hp : bc.periodicDir .x = false) :
    Gen.BCGen.bcrow_3D_right_nonper M bc j k = bcRowHi M bc .x (M.ax.n, j+1, k+1) := by
  rw [bcRowHi_nonper hp]
  simp only [Gen.BCGen.bcrow_3D_right_nonper, hiGhostCoef, hiCellCoef, lineM_x, Mesh.axis, Mesh.n,
    Idx.set, Row.mk.injEq, List.cons.injEq, Prod.mk.injEq, and_true, true_and]
  try (and_intros <;> geq_ring)

theorem bcrow_3D_right_per_eq (M : Mesh α) (bc : BCs α) (j k : ℕ)
    (hp : bc.periodicDir .x = true) :
    Gen.BCGen.bcrow_3D_right_per M bc j k = bcRowHi M bc .x (M.ax.n, j+1, k+1) := by
  rw [bcRowHi_per hp]
  simp only [Gen.BCGen.bcrow_3D_right_per, Mesh.axis, Mesh.n,
    Idx.set, Row.mk.injEq, List.cons.injEq, Prod.mk.injEq, and_true, true_and]
  try (and_intros <;> geq_ring)

theorem ghost_3D_left_nonper_den_eq (M : Mesh α) (bc : BCs α) (j k : ℕ) :
    Gen.BCGen.ghost_3D_left_nonper_den M bc j k = loGhostCoef M bc .x (1, j+1, k+1) := by
  simp only [Gen.BCGen.ghost_3D_left_nonper_den, loGhostCoef, loCellCoef, lineM_x, Mesh.axis, Mesh.n] <;> geq_ring

theorem ghost_3D_left_nonper_eq (M : Mesh α) (bc : BCs α) (φ : CellFld α) (j k : ℕ)
    (hp : bc.periodicDir .x = false) (h0 : loGhostCoef M bc .x (1, j+1, k+1) ≠ 0) :
    ghostLo M bc φ .x (1, j+1, k+1) = some (Gen.BCGen.ghost_3D_left_nonper M bc φ j k) := by
  rw [ghostLo_nonper hp, sdiv_of_ne h0]
  simp only [Gen.BCGen.ghost_3D_left_nonper, loGhostCoef, loCellCoef, lineM_x, Mesh.axis, Mesh.n]
  first | (congr 2 <;> geq_ring) | (congr 1 <;> geq_ring)

theorem ghost_3D_left_nonper_undefined (M : Mesh α) (bc : BCs α) (φ : CellFld α) (j k : ℕ)
    (hp : bc.periodicDir .x = false) (h0 : Gen.BCGen.ghost_3D_left_nonper_den M bc j k = 0) :
    ghostLo M bc φ .x (1, j+1, k+1) = none := by
  rw [ghostLo_nonper hp, sdiv_eq_none, ← ghost_3D_left_nonper_den_eq M bc j k]; exact h0

theorem ghost_3D_left_per_eq (M : Mesh α) (bc : BCs α) (φ : CellFld α) (j k : ℕ)
    (hp : bc.periodicDir .x = true) :
    ghostLo M bc φ .x (1, j+1, k+1) = some (Gen.BCGen.ghost_3D_left_per M bc φ j k) := by
  rw [ghostLo_per hp]; rfl

theorem bcrow_3D_left_cell_eq (M : Mesh α) (j k : ℕ) :
    Gen.BCGen.bcrow_3D_left_cell M j k = Idx.set (1, j+1, k+1) .x (0) := rfl

theorem bcrow_3D_left_nonper_eq (M : Mesh α) (bc : BCs α) (j k : ℕ)
    (hp : bc.periodicDir .x = false) :
    Gen.BCGen.bcrow_3D_left_nonper M bc j k = bcRowLo M bc .x (1, j+1, k+1) := by
  rw [bcRowLo_nonper hp]
  simp only [Gen.BCGen.bcrow_3D_left_nonper, loGhostCoef, loCellCoef, lineM_x, Mesh.axis, Mesh.n,
    Idx.set, Row.mk.injEq, List.cons.injEq, Prod.mk.injEq, and_true, true_and]
  try (and_intros <;> geq_ring)

theorem bcrow_3D_left_per_eq (M : Mesh α) (bc : BCs α) (j k : ℕ)
    (hp : bc.periodicDir .x = true) :
    Gen.BCGen.bcrow_3D_left_per M bc j k = bcRowLo M bc .x (1, j+1, k+1) := by
  rw [bcRowLo_per hp]
  simp only [Gen.BCGen.bcrow_3D_left_per, Mesh.axis, Mesh.n,
    Idx.set, Row.mk.injEq, List.cons.injEq, Prod.mk.injEq, and_true, true_and]
  try (and_intros <;> geq_ring)

theorem ghost_3D_top_nonper_den_eq (M : Mesh α) (hk : M.kind = .cart3) (bc : BCs α) (i k : ℕ) :
    Gen.BCGen.ghost_3D_top_nonper_den M bc i k = hiGhostCoef M bc .y (i+1, M.ay.n, k+1) := by
  simp only [Gen.BCGen.ghost_3D_top_nonper_den, hiGhostCoef, hiCellCoef, lineM, hk, Mesh.axis, Mesh.n] <;> geq_ring

theorem ghost_3D_top_nonper_eq (M : Mesh α) (hk : M.kind = .cart3) (bc : BCs α) (φ : CellFld α) (i k : ℕ)
    (hp : bc.periodicDir .y = false) (h0 : hiGhostCoef M bc .y (i+1, M.ay.n, k+1) ≠ 0) :
    ghostHi M bc φ .y (i+1, M.ay.n, k+1) = some (Gen.BCGen.ghost_3D_top_nonper M bc φ i k) := by
  rw [ghostHi_nonper hp, sdiv_of_ne h0]
  simp only [Gen.BCGen.ghost_3D_top_nonper, hiGhostCoef, hiCellCoef, lineM, hk, Mesh.axis, Mesh.n]
  first | (congr 2 <;> geq_ring) | (congr 1 <;> geq_ring)

theorem ghost_3D_top_nonper_undefined (M : Mesh α) (hk : M.kind = .cart3) (bc : BCs α) (φ : CellFld α) (i k : ℕ)
    (hp : bc.periodicDir .y = false) (h0 : Gen.BCGen.ghost_3D_top_nonper_den M bc i k = 0) :
    ghostHi M bc φ .y (i+1, M.ay.n, k+1) = none := by
  rw [ghostHi_nonper hp, sdiv_eq_none, ← ghost_3D_top_nonper_den_eq M hk bc i k]; exact h0

theorem ghost_3D_top_per_eq (M : Mesh α) (bc : BCs α) (φ : CellFld α) (i k : ℕ)
    (hp : bc.periodicDir .y = true) :
    ghostHi M bc φ .y (i+1, M.ay.n, k+1) = some (Gen.BCGen.ghost_3D_top_per M bc φ i k) := by
  rw [ghostHi_per hp]; rfl

theorem bcrow_3D_top_cell_eq (M : Mesh α) (i k : ℕ) :
    Gen.BCGen.bcrow_3D_top_cell M i k = Idx.set (i+1, M.ay.n, k+1) .y (M.n .y + 1) := rfl

theorem bcrow_3D_top_nonper_eq (M : Mesh α) (hk : M.kind = .cart3) (bc : BCs α) (i k : ℕ)
    (hp : bc.periodicDir .y = false) :
    Gen.BCGen.bcrow_3D_top_nonper M bc i k = bcRowHi M bc .y (i+1, M.ay.n, k+1) := by
  rw [bcRowHi_nonper hp]
  simp only [Gen.BCGen.bcrow_3D_top_nonper, hiGhostCoef, hiCellCoef, lineM, hk, Mesh.axis, Mesh.n,
    Idx.set, Row.mk.injEq, List.cons.injEq, Prod.mk.injEq, and_true, true_and]
  try (and_intros <;> geq_ring)

theorem bcrow_3D_top_per_eq (M : Mesh α) (bc : BCs α) (i k : ℕ)
    (hp : bc.periodicDir .y = true) :
    Gen.BCGen.bcrow_3D_top_per M bc i k = bcRowHi M bc .y (i+1, M.ay.n, k+1) := by
  rw [bcRowHi_per hp]
  simp only [Gen.BCGen.bcrow_3D_top_per, Mesh.axis, Mesh.n,
    Idx.set, Row.mk.injEq, List.cons.injEq, Prod.mk.injEq, and_true, true_and]
  try (and_intros <;> geq_ring)

theorem ghost_3D_bottom_nonper_den_eq (M : Mesh α) (hk : M.kind = .cart3) (bc : BCs α) (i k : ℕ) :
    Gen.BCGen.ghost_3D_bottom_nonper_den M bc i k = loGhostCoef M bc .y (i+1, 1, k+1) := by
  simp only [Gen.BCGen.ghost_3D_bottom_nonper_den, loGhostCoef, loCellCoef, lineM, hk, Mesh.axis, Mesh.n] <;> geq_ring

theorem ghost_3D_bottom_nonper_eq (M : Mesh α) (hk : M.kind = .cart3) (bc : BCs α) (φ : CellFld α) (i k : ℕ)
    (hp : bc.periodicDir .y = false) (h0 : loGhostCoef M bc .y (i+1, 1, k+1) ≠ 0) :
    ghostLo M bc φ .y (i+1, 1, k+1) = some (Gen.BCGen.ghost_3D_bottom_nonper M bc φ i k) := by
  rw [ghostLo_nonper hp, sdiv_of_ne h0]
  simp only [Gen.BCGen.ghost_3D_bottom_nonper, loGhostCoef, loCellCoef, lineM, hk, Mesh.axis, Mesh.n]
  first | (congr 2 <;> geq_ring) | (congr 1 <;> geq_ring)

theorem ghost_3D_bottom_nonper_undefined (M : Mesh α) (hk : M.kind = .cart3) (bc : BCs α) (φ : CellFld α) (i k : ℕ)
    (hp : bc.periodicDir .y = false) (h0 : Gen.BCGen.ghost_3D_bottom_nonper_den M bc i k = 0) :
    ghostLo M bc φ .y (i+1, 1, k+1) = none := by
  rw [ghostLo_nonper hp, sdiv_eq_none, ← ghost_3D_bottom_nonper_den_eq M hk bc i k]; exact h0

theorem ghost_3D_bottom_per_eq (M : Mesh α) (bc : BCs α) (φ : CellFld α) (i k : ℕ)
    (hp : bc.periodicDir .y = true) :
    ghostLo M bc φ .y (i+1, 1, k+1) = some (Gen.BCGen.ghost_3D_bottom_per M bc φ i k) := by
  rw [ghostLo_per hp]; rfl

theorem bcrow_3D_bottom_cell_eq (M : Mesh α) (i k : ℕ) :
    Gen.BCGen.bcrow_3D_bottom_cell M i k = Idx.set (i+1, 1, k+1) .y (0) := rfl

theorem bcrow_3D_bottom_nonper_eq (M : Mesh α) (hk : M.kind = .cart3) (bc : BCs α) (i k : ℕ)
    (hp : bc.periodicDir .y = false) :
    Gen.BCGen.bcrow_3D_bottom_nonper M bc i k = bcRowLo M bc .y (i+1, 1, k+1) := by
  rw [bcRowLo_nonper hp]
  simp only [Gen.BCGen.bcrow_3D_bottom_nonper, loGhostCoef, loCellCoef, lineM, hk, Mesh.axis, Mesh.n,
    Idx.set, Row.mk.injEq, List.cons.injEq, Prod.mk.injEq, and_true, true_and]
  try (and_intros <;> geq_ring)

theorem bcrow_3D_bottom_per_eq (M : Mesh α) (bc : BCs α) (i k : ℕ)
    (hp : bc.periodicDir .y = true) :
    Gen.BCGen.bcrow_3D_bottom_per M bc i k = bcRowLo M bc .y (i+1, 1, k+1) := by
  rw [bcRowLo_per hp]
  simp only [Gen.BCGen.bcrow_3D_bottom_per, Mesh.axis, Mesh.n,
    Idx.set, Row.mk.injEq, List.cons.injEq, Prod.mk.injEq, and_true, true_and]
  try (and_intros <;> geq_ring)

theorem ghost_3D_front_nonper_den_eq (M : Mesh α) (hk : M.kind = .cart3) (bc : BCs α) (i j : ℕ) :
    Gen.BCGen.ghost_3D_front_nonper_den M bc i j = hiGhostCoef M bc .z (i+1, j+1, M.az.n) := by
  simp only [Gen.BCGen.ghost_3D_front_nonper_den, hiGhostCoef, hiCellCoef, lineM, hk, Mesh.axis, Mesh.n] <;> geq_ring

theorem ghost_3D_front_nonper_eq (M : Mesh α) (hk : M.kind = .cart3) (bc : BCs α) (φ : CellFld α) (i j : ℕ)
    (hp : bc.periodicDir .z = false) (h0 : hiGhostCoef M bc .z (i+1, j+1, M.az.n) ≠ 0) :
    ghostHi M bc φ .z (i+1, j+1, M.az.n) = some (Gen.BCGen.ghost_3D_front_nonper M bc φ i j) := by
  rw [ghostHi_nonper hp, sdiv_of_ne h0]
  simp only [Gen.BCGen.ghost_3D_front_nonper, hiGhostCoef, hiCellCoef, lineM, hk, Mesh.axis, Mesh.n]
  first | (congr 2 <;> geq_ring) | (congr 1 <;> geq_ring)

theorem ghost_3D_front_nonper_undefined (M : Mesh α) (hk : M.kind = .cart3) (bc : BCs α) (φ : CellFld α) (i j : ℕ)
    (hp : bc.periodicDir .z = false) (h0 : Gen.BCGen.ghost_3D_front_nonper_den M bc i j = 0) :
    ghostHi M bc φ .z (i+1, j+1, M.az.n) = none := by
  rw [ghostHi_nonper hp, sdiv_eq_none, ← ghost_3D_front_nonper_den_eq M hk bc i j]; exact h0

theorem ghost_3D_front_per_eq (M : Mesh α) (bc : BCs α) (φ : CellFld α) (i j : ℕ)
    (hp : bc.periodicDir .z = true) :
    ghostHi M bc φ .z (i+1, j+1, M.az.n) = some (Gen.BCGen.ghost_3D_front_per M bc φ i j) := by
  rw [ghostHi_per hp]; rfl

theorem bcrow_3D_front_cell_eq (M : Mesh α) (i j : ℕ) :
    Gen.BCGen.bcrow_3D_front_cell M i j = Idx.set (i+1, j+1, M.az.n) .z (M.n .z + 1) := rfl

theorem bcrow_3D_front_nonper_eq (M : Mesh α) (hk : M.kind = .cart3) (bc : BCs α) (i j : ℕ)
    (hp : bc.periodicDir .z = false) :
    Gen.BCGen.bcrow_3D_front_nonper M bc i j = bcRowHi M bc .z (i+1, j+1, M.az.n) := by
  rw [bcRowHi_nonper hp]
  simp only [Gen.BCGen.bcrow_3D_front_nonper, hiGhostCoef, hiCellCoef, lineM, hk, Mesh.axis, Mesh.n,
    Idx.set, Row.mk.injEq, List.cons.injEq, Prod.mk.injEq, and_true, true_and]
  try (and_intros <;> geq_ring)

theorem bcrow_3D_front_per_eq (M : Mesh α) (bc : BCs α) (i j : ℕ)
    (hp : bc.periodicDir .z = true) :
    Gen.BCGen.bcrow_3D_front_per M bc i j = bcRowHi M bc .z (i+1, j+1, M.az.n) := by
  rw [bcRowHi_per hp]
  simp only [Gen.BCGen.bcrow_3D_front_per, Mesh.axis, Mesh.n,
    Idx.set, Row.mk.injEq, List.cons.injEq, Prod.mk.injEq, and_true, true_and]
  try (and_intros <;> geq_ring)

theorem ghost_3D_back_nonper_den_eq (M : Mesh α) (hk : M.kind = .cart3) (bc : BCs α) (i j : ℕ) :
    Gen.BCGen.ghost_3D_back_nonper_den M bc i j = loGhostCoef M bc .z (i+1, j+1, 1) := by
  simp only [Gen.BCGen.ghost_3D_back_nonper_den, loGhostCoef, loCellCoef, lineM, hk, Mesh.axis, Mesh.n] <;> geq_ring

theorem ghost_3D_back_nonper_eq (M : Mesh α) (hk : M.kind = .cart3) (bc : BCs α) (φ : CellFld α) (i j : ℕ)
    (hp : bc.periodicDir .z = false) (h0 : loGhostCoef M bc .z (i+1, j+1, 1) ≠ 0) :
    ghostLo M bc φ .z (i+1, j+1, 1) = some (Gen.BCGen.ghost_3D_back_nonper M bc φ i j) := by
  rw [ghostLo_nonper hp, sdiv_of_ne h0]
  simp only [Gen.BCGen.ghost_3D_back_nonper, loGhostCoef, loCellCoef, lineM, hk, Mesh.axis, Mesh.n]
  first | (congr 2 <;> geq_ring) | (congr 1 <;> geq_ring)

theorem ghost_3D_back_nonper_undefined (M : Mesh α) (hk : M.kind = .cart3) (bc : BCs α) (φ : CellFld α) (i j : ℕ)
    (hp : bc.periodicDir .z = false) (h0 : Gen.BCGen.ghost_3D_back_nonper_den M bc i j = 0) :
    ghostLo M bc φ .z (i+1, j+1, 1) = none := by
  rw [ghostLo_nonper hp, sdiv_eq_none, ← ghost_3D_back_nonper_den_eq M hk bc i j]; exact h0

theorem ghost_3D_back_per_eq (M : Mesh α) (bc : BCs α) (φ : CellFld α) (i j : ℕ)
    (hp : bc.periodicDir .z = true) :
    ghostLo M bc φ .z (i+1, j+1, 1) = some (Gen.BCGen.ghost_3D_back_per M bc φ i j) := by
  rw [ghostLo_per hp]; rfl

theorem bcrow_3D_back_cell_eq (M : Mesh α) (i j : ℕ) :
    Gen.BCGen.bcrow_3D_back_cell M i j = Idx.set (i+1, j+1, 1) .z (0) := rfl

theorem bcrow_3D_back_nonper_eq (M : Mesh α) (hk : M.kind = .cart3) (bc : BCs α) (i j : ℕ)
    (hp : bc.periodicDir .z = false) :
    Gen.BCGen.bcrow_3D_back_nonper M bc i j = bcRowLo M bc .z (i+1, j+1, 1) := by
  rw [bcRowLo_nonper hp]
  simp only [Gen.BCGen.bcrow_3D_back_nonper, loGhostCoef, loCellCoef, lineM, hk, Mesh.axis, Mesh.n,
    Idx.set, Row.mk.injEq, List.cons.injEq, Prod.mk.injEq, and_true, true_and]
  try (and_intros <;> geq_ring)

theorem bcrow_3D_back_per_eq (M : Mesh α) (bc : BCs α) (i j : ℕ)
    (hp : bc.periodicDir .z = true) :
    Gen.BCGen.bcrow_3D_back_per M bc i j = bcRowLo M bc .z (i+1, j+1, 1) := by
  rw [bcRowLo_per hp]
  simp only [Gen.BCGen.bcrow_3D_back_per, Mesh.axis, Mesh.n,
    Idx.set, Row.mk.injEq, List.cons.injEq, Prod.mk.injEq, and_true, true_and]
  try (and_intros <;> geq_ring)

theorem bcrow_3D_corner_eq (M : Mesh α) (hk : M.kind = .cart3) (bc : BCs α) (c : Idx) (h : 2 ≤ M.outCount c) :
    bcRow M bc c = ⟨[(c, Gen.BCGen.bcrow_3D_corner_coef)], 0⟩
    ∧ bcRow M bc c = ⟨[(c, Gen.BCGen.bcrow_3D_edge_coef)], 0⟩ := by
  obtain ⟨k, hk'⟩ : ∃ k, M.outCount c = k + 2 := ⟨M.outCount c - 2, by omega⟩
  have hd : M.kind.dim ≠ 2 := by rw [hk]; decide
  unfold bcRow; rw [hk']
  simp only [cornerScale_of_dim_ne M bc hd, Gen.BCGen.bcrow_3D_corner_coef, Gen.BCGen.bcrow_3D_edge_coef, and_self]


/-! ### family Cylindrical3D: `cellValuesWithBoundariesCylindrical3D`, `boundaryConditionsTermCylindrical3D` (grid classes cyl3) -/

theorem ghost_Cylindrical3D_interior_eq (M : Mesh α) (bc : BCs α) (φ : CellFld α) (i j k : ℕ)
    (h : M.interior (i+1, j+1, k+1)) :
    withGhosts M bc φ (i+1, j+1, k+1) = some (Gen.BCGen.ghost_Cylindrical3D_interior φ i j k) := by
  unfold withGhosts; rw [outCount_of_interior h]; rfl

theorem ghost_Cylindrical3D_fill_eq (M : Mesh α) (bc : BCs α) (φ : CellFld α) (c : Idx) (h : 2 ≤ M.outCount c) :
    withGhosts M bc φ c = some (Gen.BCGen.ghost_Cylindrical3D_fill) := by
  obtain ⟨k, hk⟩ : ∃ k, M.outCount c = k + 2 := ⟨M.outCount c - 2, by omega⟩
  unfold withGhosts; rw [hk]; rfl

theorem ghost_Cylindrical3D_x_nonper_guard_eq (bc : BCs α) :
    Gen.BCGen.ghost_Cylindrical3D_x_nonper_guard bc = (!bc.periodicDir .x) := by
  simp only [Gen.BCGen.ghost_Cylindrical3D_x_nonper_guard, BCs.periodicDir] <;>
  cases (bc.lo .x).periodic <;> cases (bc.hi .x).periodic <;> rfl

theorem bcrow_Cylindrical3D_x_nonper_guard_eq (bc : BCs α) :
    Gen.BCGen.bcrow_Cylindrical3D_x_nonper_guard bc = (!bc.periodicDir .x) := by
  simp only [Gen.BCGen.bcrow_Cylindrical3D_x_nonper_guard, BCs.periodicDir] <;>
  cases (bc.lo .x).periodic <;> cases (bc.hi .x).periodic <;> rfl

theorem bcrow_Cylindrical3D_x_per_guard_eq (bc : BCs α) :
    Gen.BCGen.bcrow_Cylindrical3D_x_per_guard bc = (bc.periodicDir .x) := by
  simp only [Gen.BCGen.bcrow_Cylindrical3D_x_per_guard, BCs.periodicDir] <;>
  cases (bc.lo .x).periodic <;> cases (bc.hi .x).periodic <;> rfl

theorem ghost_Cylindrical3D_y_nonper_guard_eq (bc : BCs α) :
    Gen.BCGen.ghost_Cylindrical3D_y_nonper_guard bc = (!bc.periodicDir .y) := by
  simp only [Gen.BCGen.ghost_Cylindrical3D_y_nonper_guard, BCs.periodicDir] <;>
  cases (bc.lo .y).periodic <;> cases (bc.hi .y).periodic <;> rfl

theorem bcrow_Cylindrical3D_y_nonper_guard_eq (bc : BCs α) :
    Gen.BCGen.bcrow_Cylindrical3D_y_nonper_guard bc = (!bc.periodicDir .y) := by
  simp only [Gen.BCGen.bcrow_Cylindrical3D_y_nonper_guard, BCs.periodicDir] <;>
  cases (bc.lo .y).periodic <;> cases (bc.hi .y).periodic <;> rfl

theorem bcrow_Cylindrical3D_y_per_guard_eq (bc : BCs α) :
    Gen.BCGen.bcrow_Cylindrical3D_y_per_guard bc = (bc.periodicDir .y) := by
  simp only [Gen.BCGen.bcrow_Cylindrical3D_y_per_guard, BCs.periodicDir] <;>
  cases (bc.lo .y).periodic <;> cases (bc.hi .y).periodic <;> rfl

theorem ghost_Cylindrical3D_z_nonper_guard_eq (bc : BCs α) :
    Gen.BCGen.ghost_Cylindrical3D_z_nonper_guard bc = (!bc.periodicDir .z) := by
  simp only [Gen.BCGen.ghost_Cylindrical3D_z_nonper_guard, BCs.periodicDir] <;>
  cases (bc.lo .z).periodic <;> cases (bc.hi .z).periodic <;> rfl

theorem bcrow_Cylindrical3D_z_nonper_guard_eq (bc : BCs α) :
    Gen.BCGen.bcrow_Cylindrical3D_z_nonper_guard bc = (!bc.periodicDir .z) := by
  simp only [Gen.BCGen.bcrow_Cylindrical3D_z_nonper_guard, BCs.periodicDir] <;>
  cases (bc.lo .z).periodic <;> cases (bc.hi .z).periodic <;> rfl

theorem bcrow_Cylindrical3D_z_per_guard_eq (bc : BCs α) :
    Gen.BCGen.bcrow_Cylindrical3D_z_per_guard bc = (bc.periodicDir .z) := by
  simp only [Gen.BCGen.bcrow_Cylindrical3D_z_per_guard, BCs.periodicDir] <;>
  cases (bc.lo .z).periodic <;> cases (bc.hi .z).periodic <;> rfl

theorem ghost_Cylindrical3D_right_nonper_den_eq (M : Mesh α) (bc : BCs α) (j k : ℕ) :
    Gen.BCGen.ghost_Cylindrical3D_right_nonper_den M bc j k = hiGhostCoef M bc .x (M.ax.n, j+1, k+1) := by
  simp only [Gen.BCGen.ghost_Cylindrical3D_right_nonper_den, hiGhostCoef, hiCellCoef, lineM_x, Mesh.axis, Mesh.n] <;> geq_ring

theorem ghost_Cylindrical3D_right_nonper_eq (M : Mesh α) (bc : BCs α) (φ : CellFld α) (j k : ℕ)
    (hp : bc.periodicDir .x = false) (h0 : hiGhostCoef M bc .x (M.ax.n, j+1, k+1) ≠ 0) :
    ghostHi M bc φ .x (M.ax.n, j+1, k+1) = some (Gen.BCGen.ghost_Cylindrical3D_right_nonper M bc φ j k) := by
  rw [ghostHi_nonper hp, sdiv_of_ne h0]
  simp only [Gen.BCGen.ghost_Cylindrical3D_right_nonper, hiGhostCoef, hiCellCoef, lineM_x, Mesh.axis, Mesh.n]
  first | (congr 2 <;> geq_ring) | (congr 1 <;> geq_ring)

theorem ghost_Cylindrical3D_right_nonper_undefined (M : Mesh α) (bc : BCs α) (φ : CellFld α) (j k : ℕ)
    (hp : bc.periodicDir .x = false) (h0 : Gen.BCGen.ghost_Cylindrical3D_right_nonper_den M bc j k = 0) :
    ghostHi M bc φ .x (M.ax.n, j+1, k+1) = none := by
  rw [ghostHi_nonper hp, sdiv_eq_none, ← ghost_Cylindrical3D_right_nonper_den_eq M bc j k]; exact h0

theorem ghost_Cylindrical3D_right_per_eq (M : Mesh α) (bc : BCs α) (φ : CellFld α) (j k : ℕ)
    (hp : bc.periodicDir .x = true) :
    ghostHi M bc φ .x (M.ax.n, j+1, k+1) = some (Gen.BCGen.ghost_Cylindrical3D_right_per M bc φ j k) := by
  rw [ghostHi_per hp]; rfl

theorem bcrow_Cylindrical3D_right_cell_eq (M : Mesh α) (j k : ℕ) :
    Gen.BCGen.bcrow_Cylindrical3D_right_cell M j k = Idx.set (M.ax.n, j+1, k+1) .x (M.n .x + 1) := rfl

theorem bcrow_Cylindrical3D_right_nonper_eq (M : Mesh α) (bc : BCs α) (j k : ℕ)
    (hp : bc.periodicDir .x = false) :
    Gen.BCGen.bcrow_Cylindrical3D_right_nonper M bc j k = bcRowHi M bc .x (M.ax.n, j+1, k+1) := by
  rw [bcRowHi_nonper hp]
  simp only [Gen.BCGen.bcrow_Cylindrical3D_right_nonper, hiGhostCoef, hiCellCoef, lineM_x, Mesh.axis, Mesh.n,
    Idx.set, Row.mk.injEq, List.cons.injEq, Prod.mk.injEq, and_true, true_and]
  try (and_intros <;> geq_ring)

theorem ghost_Cylindrical3D_left_nonper_den_eq (M : Mesh α) (bc : BCs α) (j k : ℕ) :
    Gen.BCGen.ghost_Cylindrical3D_left_nonper_den M bc j k = loGhostCoef M bc .x (1, j+1, k+1) := by
  simp only [Gen.BCGen.ghost_Cylindrical3D_left_nonper_den, loGhostCoef, loCellCoef, lineM_x, Mesh.axis, Mesh.n] <;> geq_ring

theorem ghost_Cylindrical3D_left_nonper_eq (M : Mesh α) (bc : BCs α) (φ : CellFld α) (j k : ℕ)
    (hp : bc.periodicDir .x = false) (h0 : loGhostCoef M bc .x (1, j+1, k+1) ≠ 0) :
    ghostLo M bc φ .x (1, j+1, k+1) = some (Gen.BCGen.ghost_Cylindrical3D_left_nonper M bc φ j k) := by
  rw [ghostLo_nonper hp, sdiv_of_ne h0]
  simp only [Gen.BCGen.ghost_Cylindrical3D_left_nonper, loGhostCoef, loCellCoef, lineM_x, Mesh.axis, Mesh.n]
  first | (congr 2 <;> geq_ring) | (congr 1 <;> geq_ring)

theorem ghost_Cylindrical3D_left_nonper_undefined (M : Mesh α) (bc : BCs α) (φ : CellFld α) (j k : ℕ)
    (hp : bc.periodicDir .x = false) (h0 : Gen.BCGen.ghost_Cylindrical3D_left_nonper_den M bc j k = 0) :
    ghostLo M bc φ .x (1, j+1, k+1) = none := by
  rw [ghostLo_nonper hp, sdiv_eq_none, ← ghost_Cylindrical3D_left_nonper_den_eq M bc j k]; exact h0

theorem ghost_Cylindrical3D_left_per_eq (M : Mesh α) (bc : BCs α) (φ : CellFld α) (j k : ℕ)
    (hp : bc.periodicDir .x = true) :
    ghostLo M bc φ .x (1, j+1, k+1) = some (Gen.BCGen.ghost_Cylindrical3D_left_per M bc φ j k) := by
  rw [ghostLo_per hp]; rfl

theorem bcrow_Cylindrical3D_left_cell_eq (M : Mesh α) (j k : ℕ) :
    Gen.BCGen.bcrow_Cylindrical3D_left_cell M j k = Idx.set (1, j+1, k+1) .x (0) := rfl

theorem bcrow_Cylindrical3D_left_nonper_eq (M : Mesh α) (bc : BCs α) (j k : ℕ)
    (hp : bc.periodicDir .x = false) :
    Gen.BCGen.bcrow_Cylindrical3D_left_nonper M bc j k = bcRowLo M bc .x (1, j+1, k+1) := by
  rw [bcRowLo_nonper hp]
  simp only [Gen.BCGen.bcrow_Cylindrical3D_left_nonper, loGhostCoef, loCellCoef, lineM_x, Mesh.axis, Mesh.n,
    Idx.set, Row.mk.injEq, List.cons.injEq, Prod.mk.injEq, and_true, true_and]
  try (and_intros <;> geq_ring)

theorem ghost_Cylindrical3D_top_nonper_den_eq (M : Mesh α) (hk : M.kind = .cyl3) (bc : BCs α) (i k : ℕ) :
    Gen.BCGen.ghost_Cylindrical3D_top_nonper_den M bc i k = hiGhostCoef M bc .y (i+1, M.ay.n, k+1) := by
  simp only [Gen.BCGen.ghost_Cylindrical3D_top_nonper_den, hiGhostCoef, hiCellCoef, lineM, hk, Mesh.axis, Mesh.n] <;> geq_ring

theorem ghost_Cylindrical3D_top_nonper_eq (M : Mesh α) (hk : M.kind = .cyl3) (bc : BCs α) (φ : CellFld α) (i k : ℕ)
    (hp : bc.periodicDir .y = false) (h0 : hiGhostCoef M bc .y (i+1, M.ay.n, k+1) ≠ 0) :
    ghostHi M bc φ .y (i+1, M.ay.n, k+1) = some (Gen.BCGen.ghost_Cylindrical3D_top_nonper M bc φ i k) := by
  rw [ghostHi_nonper hp, sdiv_of_ne h0]
  simp only [Gen.BCGen.ghost_Cylindrical3D_top_nonper, hiGhostCoef, hiCellCoef, lineM, hk, Mesh.axis, Mesh.n]
  first | (congr 2 <;> geq_ring) | (congr 1 <;> geq_ring)

theorem ghost_Cylindrical3D_top_nonper_undefined (M : Mesh α) (hk : M.kind = .cyl3) (bc : BCs α) (φ : CellFld α) (i k : ℕ)
    (hp : bc.periodicDir .y = false) (h0 : Gen.BCGen.ghost_Cylindrical3D_top_nonper_den M bc i k = 0) :
    ghostHi M bc φ .y (i+1, M.ay.n, k+1) = none := by
  rw [ghostHi_nonper hp, sdiv_eq_none, ← ghost_Cylindrical3D_top_nonper_den_eq M hk bc i k]; exact h0

theorem ghost_Cylindrical3D_top_per_eq (M : Mesh α) (bc : BCs α) (φ : CellFld α) (i k : ℕ)
    (hp : bc.periodicDir .y = true) :
    ghostHi M bc φ .y (i+1, M.ay.n, k+1) = some (Gen.BCGen.ghost_Cylindrical3D_top_per M bc φ i k) := by
  rw [ghostHi_per hp]; rfl

theorem bcrow_Cylindrical3D_top_cell_eq (M : Mesh α) (i k : ℕ) :
    Gen.BCGen.bcrow_Cylindrical3D_top_cell M i k = Idx.set (i+1, M.ay.n, k+1) .y (M.n .y + 1) := rfl

theorem bcrow_Cylindrical3D_top_nonper_eq (M : Mesh α) (hk : M.kind = .cyl3) (bc : BCs α) (i k : ℕ)
    (hp : bc.periodicDir .y = false) :
    Gen.BCGen.bcrow_Cylindrical3D_top_nonper M bc i k = bcRowHi M bc .y (i+1, M.ay.n, k+1) := by
  rw [bcRowHi_nonper hp]
  simp only [Gen.BCGen.bcrow_Cylindrical3D_top_nonper, hiGhostCoef, hiCellCoef, lineM, hk, Mesh.axis, Mesh.n,
    Idx.set, Row.mk.injEq, List.cons.injEq, Prod.mk.injEq, and_true, true_and]
  try (and_intros <;> geq_ring)

theorem bcrow_Cylindrical3D_top_per_eq (M : Mesh α) (bc : BCs α) (i k : ℕ)
    (hp : bc.periodicDir .y = true) :
    Gen.BCGen.bcrow_Cylindrical3D_top_per M bc i k = bcRowHi M bc .y (i+1, M.ay.n, k+1) := by
  rw [bcRowHi_per hp]
  simp only [Gen.BCGen.bcrow_Cylindrical3D_top_per, Mesh.axis, Mesh.n,
    Idx.set, Row.mk.injEq, List.cons.injEq, Prod.mk.injEq, and_true, true_and]
  try (and_intros <;> geq_ring)

theorem ghost_Cylindrical3D_bottom_nonper_den_eq (M : Mesh α) (hk : M.kind = .cyl3) (bc : BCs α) (i k : ℕ) :
    Gen.BCGen.ghost_Cylindrical3D_bottom_nonper_den M bc i k = loGhostCoef M bc .y (i+1, 1, k+1) := by
  simp only [Gen.BCGen.ghost_Cylindrical3D_bottom_nonper_den, loGhostCoef, loCellCoef, lineM, hk, Mesh.axis, Mesh.n] <;> geq_ring

theorem ghost_Cylindrical3D_bottom_nonper_eq (M : Mesh α) (hk : M.kind = .cyl3) (bc : BCs α) (φ : CellFld α) (i k : ℕ)
    (hp : bc.periodicDir .y = false) (h0 : loGhostCoef M bc .y (i+1, 1, k+1) ≠ 0) :
    ghostLo M bc φ .y (i+1, 1, k+1) = some (Gen.BCGen.ghost_Cylindrical3D_bottom_nonper M bc φ i k) := by
  rw [ghostLo_nonper hp, sdiv_of_ne h0]
  simp only [Gen.BCGen.ghost_Cylindrical3D_bottom_nonper, loGhostCoef, loCellCoef, lineM, hk, Mesh.axis, Mesh.n]
  first | (congr 2 <;> geq_ring) | (congr 1 <;> geq_ring)

theorem ghost_Cylindrical3D_bottom_nonper_undefined (M : Mesh α) (hk : M.kind = .cyl3) (bc : BCs α) (φ : CellFld α) (i k : ℕ)
    (hp : bc.periodicDir .y = false) (h0 : Gen.BCGen.ghost_Cylindrical3D_bottom_nonper_den M bc i k = 0) :
    ghostLo M bc φ .y (i+1, 1, k+1) = none := by
  rw [ghostLo_nonper hp, sdiv_eq_none, ← ghost_Cylindrical3D_bottom_nonper_den_eq M hk bc i k]; exact h0

theorem ghost_Cylindrical3D_bottom_per_eq (M : Mesh α) (bc : BCs α) (φ : CellFld α) (i k : ℕ)
    (hp : bc.periodicDir .y = true) :
    ghostLo M bc φ .y (i+1, 1, k+1) = some (Gen.BCGen.ghost_Cylindrical3D_bottom_per M bc φ i k) := by
  rw [ghostLo_per hp]; rfl

theorem bcrow_Cylindrical3D_bottom_cell_eq (M : Mesh α) (i k : ℕ) :
    Gen.BCGen.bcrow_Cylindrical3D_bottom_cell M i k = Idx.set (i+1, 1, k+1) .y (0) := rfl

theorem bcrow_Cylindrical3D_bottom_nonper_eq (M : Mesh α) (hk : M.kind = .cyl3) (bc : BCs α) (i k : ℕ)
    (hp : bc.periodicDir .y = false) :
    Gen.BCGen.bcrow_Cylindrical3D_bottom_nonper M bc i k = bcRowLo M bc .y (i+1, 1, k+1) := by
  rw [bcRowLo_nonper hp]
  simp only [Gen.BCGen.bcrow_Cylindrical3D_bottom_nonper, loGhostCoef, loCellCoef, lineM, hk, Mesh.axis, Mesh.n,
    Idx.set, Row.mk.injEq, List.cons.injEq, Prod.mk.injEq, and_true, true_and]
  try (and_intros <;> geq_ring)

theorem bcrow_Cylindrical3D_bottom_per_eq (M : Mesh α) (bc : BCs α) (i k : ℕ)
    (hp : bc.periodicDir .y = true) :
    Gen.BCGen.bcrow_Cylindrical3D_bottom_per M bc i k = bcRowLo M bc .y (i+1, 1, k+1) := by
  rw [bcRowLo_per hp]
  simp only [Gen.BCGen.bcrow_Cylindrical3D_bottom_per, Mesh.axis, Mesh.n,
    Idx.set, Row.mk.injEq, List.cons.injEq, Prod.mk.injEq, and_true, true_and]
  try (and_intros <;> geq_ring)

theorem ghost_Cylindrical3D_front_nonper_den_eq (M : Mesh α) (hk : M.kind = .cyl3) (bc : BCs α) (i j : ℕ) :
    Gen.BCGen.ghost_Cylindrical3D_front_nonper_den M bc i j = hiGhostCoef M bc .z (i+1, j+1, M.az.n) := by
  simp only [Gen.BCGen.ghost_Cylindrical3D_front_nonper_den, hiGhostCoef, hiCellCoef, lineM, hk, Mesh.axis, Mesh.n] <;> geq_ring

theorem ghost_Cylindrical3D_front_nonper_eq (M : Mesh α) (hk : M.kind = .cyl3) (bc : BCs α) (φ : CellFld α) (i j : ℕ)
    (hp : bc.periodicDir .z = false) (h0 : hiGhostCoef M bc .z (i+1, j+1, M.az.n) ≠ 0) :
    ghostHi M bc φ .z (i+1, j+1, M.az.n) = some (Gen.BCGen.ghost_Cylindrical3D_front_nonper M bc φ i j) := by
  rw [ghostHi_nonper hp, sdiv_of_ne h0]
  simp only [Gen.BCGen.ghost_Cylindrical3D_front_nonper, hiGhostCoef, hiCellCoef, lineM, hk, Mesh.axis, Mesh.n]
  first | (congr 2 <;> geq_ring) | (congr 1 <;> geq_ring)

theorem ghost_Cylindrical3D_front_nonper_undefined (M : Mesh α) (hk : M.kind = .cyl3) (bc : BCs α) (φ : CellFld α) (i j : ℕ)
    (hp : bc.periodicDir .z = false) (h0 : Gen.BCGen.ghost_Cylindrical3D_front_nonper_den M bc i j = 0) :
    ghostHi M bc φ .z (i+1, j+1, M.az.n) = none := by
  rw [ghostHi_nonper hp, sdiv_eq_none, ← ghost_Cylindrical3D_front_nonper_den_eq M hk bc i j]; exact h0

theorem ghost_Cylindrical3D_front_per_eq (M : Mesh α) (bc : BCs α) (φ : CellFld α) (i j : ℕ)
    (hp : bc.periodicDir .z = true) :
    ghostHi M bc φ .z (i+1, j+1, M.az.n) = some (Gen.BCGen.ghost_Cylindrical3D_front_per M bc φ i j) := by
  rw [ghostHi_per hp]; rfl

theorem bcrow_Cylindrical3D_front_cell_eq (M : Mesh α) (i j : ℕ) :
    Gen.BCGen.bcrow_Cylindrical3D_front_cell M i j = Idx.set (i+1, j+1, M.az.n) .z (M.n .z + 1) := rfl

theorem bcrow_Cylindrical3D_front_nonper_eq (M : Mesh α) (hk : M.kind = .cyl3) (bc : BCs α) (i j : ℕ)
    (hp : bc.periodicDir .z = false) :
    Gen.BCGen.bcrow_Cylindrical3D_front_nonper M bc i j = bcRowHi M bc .z (i+1, j+1, M.az.n) := by
  rw [bcRowHi_nonper hp]
  simp only [Gen.BCGen.bcrow_Cylindrical3D_front_nonper, hiGhostCoef, hiCellCoef, lineM, hk, Mesh.axis, Mesh.n,
    Idx.set, Row.mk.injEq, List.cons.injEq, Prod.mk.injEq, and_true, true_and]
  try (and_intros <;> geq_ring)

theorem bcrow_Cylindrical3D_front_per_eq (M : Mesh α) (bc : BCs α) (i j : ℕ)
    (hp : bc.periodicDir .z = true) :
    Gen.BCGen.bcrow_Cylindrical3D_front_per M bc i j = bcRowHi M bc .z (i+1, j+1, M.az.n) := by
  rw [bcRowHi_per hp]
  simp only [Gen.BCGen.bcrow_Cylindrical3D_front_per, Mesh.axis, Mesh.n,
    Idx.set, Row.mk.injEq, List.cons.injEq, Prod.mk.injEq, and_true, true_and]
  try (and_intros <;> geq_ring)

theorem ghost_Cylindrical3D_back_nonper_den_eq (M : Mesh α) (hk : M.kind = .cyl3) (bc : BCs α) (i j : ℕ) :
    Gen.BCGen.ghost_Cylindrical3D_back_nonper_den M bc i j = loGhostCoef M bc .z (i+1, j+1, 1) := by
  simp only [Gen.BCGen.ghost_Cylindrical3D_back_nonper_den, loGhostCoef, loCellCoef, lineM, hk, Mesh.axis, Mesh.n] <;> geq_ring

theorem ghost_Cylindrical3D_back_nonper_eq (M : Mesh α) (hk : M.kind = .cyl3) (bc : BCs α) (φ : CellFld α) (i j : ℕ)
    (hp : bc.periodicDir .z = false) (h0 : loGhostCoef M bc .z (i+1, j+1, 1) ≠ 0) :
    ghostLo M bc φ .z (i+1, j+1, 1) = some (Gen.BCGen.ghost_Cylindrical3D_back_nonper M bc φ i j) := by
  rw [ghostLo_nonper hp, sdiv_of_ne h0]
  simp only [Gen.BCGen.ghost_Cylindrical3D_back_nonper, loGhostCoef, loCellCoef, lineM, hk, Mesh.axis, Mesh.n]
  first | (congr 2 <;> geq_ring) | (congr 1 <;> geq_ring)

theorem ghost_Cylindrical3D_back_nonper_undefined (M : Mesh α) (hk : M.kind = .cyl3) (bc : BCs α) (φ : CellFld α) (i j : ℕ)
    (hp : bc.periodicDir .z = false) (h0 : Gen.BCGen.ghost_Cylindrical3D_back_nonper_den M bc i j = 0) :
    ghostLo M bc φ .z (i+1, j+1, 1) = none := by
  rw [ghostLo_nonper hp, sdiv_eq_none, ← ghost_Cylindrical3D_back_nonper_den_eq M hk bc i j]; exact h0

theorem ghost_Cylindrical3D_back_per_eq (M : Mesh α) (bc : BCs α) (φ : CellFld α) (i j : ℕ)
    (hp : bc.periodicDir .z = true) :
    ghostLo M bc φ .z (i+1, j+1, 1) = some (Gen.BCGen.ghost_Cylindrical3D_back_per M bc φ i j) := by
  rw [ghostLo_per hp]; rfl

theorem bcrow_Cylindrical3D_back_cell_eq (M : Mesh α) (i j : ℕ) :
    Gen.BCGen.bcrow_Cylindrical3D_back_cell M i j = Idx.set (i+1, j+1, 1) .z (0) := rfl

theorem bcrow_Cylindrical3D_back_nonper_eq (M : Mesh α) (hk : M.kind = .cyl3) (bc : BCs α) (i j : ℕ)
    (hp : bc.periodicDir .z = false) :
    Gen.BCGen.bcrow_Cylindrical3D_back_nonper M bc i j = bcRowLo M bc .z (i+1, j+1, 1) := by
  rw [bcRowLo_nonper hp]
  simp only [Gen.BCGen.bcrow_Cylindrical3D_back_nonper, loGhostCoef, loCellCoef, lineM, hk, Mesh.axis, Mesh.n,
    Idx.set, Row.mk.injEq, List.cons.injEq, Prod.mk.injEq, and_true, true_and]
  try (and_intros <;> geq_ring)

theorem bcrow_Cylindrical3D_back_per_eq (M : Mesh α) (bc : BCs α) (i j : ℕ)
    (hp : bc.periodicDir .z = true) :
    Gen.BCGen.bcrow_Cylindrical3D_back_per M bc i j = bcRowLo M bc .z (i+1, j+1, 1) := by
  rw [bcRowLo_per hp]
  simp only [Gen.BCGen.bcrow_Cylindrical3D_back_per, Mesh.axis, Mesh.n,
    Idx.set, Row.mk.injEq, List.cons.injEq, Prod.mk.injEq, and_true, true_and]
  try (and_intros <;> geq_ring)

theorem bcrow_Cylindrical3D_corner_eq (M : Mesh α) (hk : M.kind = .cyl3) (bc : BCs α) (c : Idx) (h : 2 ≤ M.outCount c) :
    bcRow M bc c = ⟨[(c, Gen.BCGen.bcrow_Cylindrical3D_corner_coef)], 0⟩
    ∧ bcRow M bc c = ⟨[(c, Gen.BCGen.bcrow_Cylindrical3D_edge_coef)], 0⟩ := by
  obtain ⟨k, hk'⟩ : ∃ k, M.outCount c = k + 2 := ⟨M.outCount c - 2, by omega⟩
  have hd : M.kind.dim ≠ 2 := by rw [hk]; decide
  unfold bcRow; rw [hk']
  simp only [cornerScale_of_dim_ne M bc hd, Gen.BCGen.bcrow_Cylindrical3D_corner_coef, Gen.BCGen.bcrow_Cylindrical3D_edge_coef, and_self]


/-! ### family Spherical3D: `cellValuesWithBoundariesSpherical3D`, `boundaryConditionsTermSpherical3D` (grid classes sph3) -/

theorem ghost_Spherical3D_interior_eq (M : Mesh α) (bc : BCs α) (φ : CellFld α) (i j k : ℕ)
    (h : M.interior (i+1, j+1, k+1)) :
    withGhosts M bc φ (i+1, j+1, k+1) = some (Gen.BCGen.ghost_Spherical3D_interior φ i j k) := by
  unfold withGhosts; rw [outCount_of_interior h]; rfl

theorem ghost_Spherical3D_fill_eq (M : Mesh α) (bc : BCs α) (φ : CellFld α) (c : Idx) (h : 2 ≤ M.outCount c) :
    withGhosts M bc φ c = some (Gen.BCGen.ghost_Spherical3D_fill) := by
  obtain ⟨k, hk⟩ : ∃ k, M.outCount c = k + 2 := ⟨M.outCount c - 2, by omega⟩
  unfold withGhosts; rw [hk]; rfl

theorem ghost_Spherical3D_x_nonper_guard_eq (bc : BCs α) :
    Gen.BCGen.ghost_Spherical3D_x_nonper_guard bc = (!bc.periodicDir .x) := by
  simp only [Gen.BCGen.ghost_Spherical3D_x_nonper_guard, BCs.periodicDir] <;>
  cases (bc.lo .x).periodic <;> cases (bc.hi .x).periodic <;> rfl

theorem bcrow_Spherical3D_x_nonper_guard_eq (bc : BCs α) :
    Gen.BCGen.bcrow_Spherical3D_x_nonper_guard bc = (!bc.periodicDir .x) := by
  simp only [Gen.BCGen.bcrow_Spherical3D_x_nonper_guard, BCs.periodicDir] <;>
  cases (bc.lo .x).periodic <;> cases (bc.hi .x).periodic <;> rfl

theorem bcrow_Spherical3D_x_per_guard_eq (bc : BCs α) :
    Gen.BCGen.bcrow_Spherical3D_x_per_guard bc = (bc.periodicDir .x) := by
  simp only [Gen.BCGen.bcrow_Spherical3D_x_per_guard, BCs.periodicDir] <;>
  cases (bc.lo .x).periodic <;> cases (bc.hi .x).periodic <;> rfl

theorem ghost_Spherical3D_y_nonper_guard_eq (bc : BCs α) :
    Gen.BCGen.ghost_Spherical3D_y_nonper_guard bc = (!bc.periodicDir .y) := by
  simp only [Gen.BCGen.ghost_Spherical3D_y_nonper_guard, BCs.periodicDir] <;>
  cases (bc.lo .y).periodic <;> cases (bc.hi .y).periodic <;> rfl

theorem bcrow_Spherical3D_y_nonper_guard_eq (bc : BCs α) :
    Gen.BCGen.bcrow_Spherical3D_y_nonper_guard bc = (!bc.periodicDir .y) := by
  simp only [Gen.BCGen.bcrow_Spherical3D_y_nonper_guard, BCs.periodicDir] <;>
  cases (bc.lo .y).periodic <;> cases (bc.hi .y).periodic <;> rfl

theorem bcrow_Spherical3D_y_per_guard_eq (bc : BCs α) :
    Gen.BCGen.bcrow_Spherical3D_y_per_guard bc = (bc.periodicDir .y) := by
  simp only [Gen.BCGen.bcrow_Spherical3D_y_per_guard, BCs.periodicDir] <;>
  cases (bc.lo .y).periodic <;> cases (bc.hi .y).periodic <;> rfl

theorem ghost_Spherical3D_z_nonper_guard_eq (bc : BCs α) :
    Gen.BCGen.ghost_Spherical3D_z_nonper_guard bc = (!bc.periodicDir .z) := by
  simp only [Gen.BCGen.ghost_Spherical3D_z_nonper_guard, BCs.periodicDir] <;>
  cases (bc.lo .z).periodic <;> cases (bc.hi .z).periodic <;> rfl

theorem bcrow_Spherical3D_z_nonper_guard_eq (bc : BCs α) :
    Gen.BCGen.bcrow_Spherical3D_z_nonper_guard bc = (!bc.periodicDir .z) := by
  simp only [Gen.BCGen.bcrow_Spherical3D_z_nonper_guard, BCs.periodicDir] <;>
  cases (bc.lo .z).periodic <;> cases (bc.hi .z).periodic <;> rfl

theorem bcrow_Spherical3D_z_per_guard_eq (bc : BCs α) :
    Gen.BCGen.bcrow_Spherical3D_z_per_guard bc = (bc.periodicDir .z) := by
  simp only [Gen.BCGen.bcrow_Spherical3D_z_per_guard, BCs.periodicDir] <;>
  cases (bc.lo .z).periodic <;> cases (bc.hi .z).periodic <;> rfl

theorem ghost_Spherical3D_right_nonper_den_eq (M : Mesh α) (bc : BCs α) (j k : ℕ) :
    Gen.BCGen.ghost_Spherical3D_right_nonper_den M bc j k = hiGhostCoef M bc .x (M.ax.n, j+1, k+1) := by
  simp only [Gen.BCGen.ghost_Spherical3D_right_nonper_den, hiGhostCoef, hiCellCoef, lineM_x, Mesh.axis, Mesh.n] <;> geq_ring

theorem ghost_Spherical3D_right_nonper_eq (M : Mesh α) (bc : BCs α) (φ : CellFld α) (j k : ℕ)
    (hp : bc.periodicDir .x = false) (h0 : hiGhostCoef M bc .x (M.ax.n, j+1, k+1) ≠ 0) :
    ghostHi M bc φ .x (M.ax.n, j+1, k+1) = some (Gen.BCGen.ghost_Spherical3D_right_nonper M bc φ j k) := by
  rw [ghostHi_nonper hp, sdiv_of_ne h0]
  simp only [Gen.BCGen.ghost_Spherical3D_right_nonper, hiGhostCoef, hiCellCoef, lineM_x, Mesh.axis, Mesh.n]
  first | (congr 2 <;> geq_ring) | (congr 1 <;> geq_ring)

theorem ghost_Spherical3D_right_nonper_undefined (M : Mesh α) (bc : BCs α) (φ : CellFld α) (j k : ℕ)
    (hp : bc.periodicDir .x = false) (h0 : Gen.BCGen.ghost_Spherical3D_right_nonper_den M bc j k = 0) :
    ghostHi M bc φ .x (M.ax.n, j+1, k+1) = none := by
  rw [ghostHi_nonper hp, sdiv_eq_none, ← ghost_Spherical3D_right_nonper_den_eq M bc j k]; exact h0

theorem ghost_Spherical3D_right_per_eq (M : Mesh α) (bc : BCs α) (φ : CellFld α) (j k : ℕ)
    (hp : bc.periodicDir .x = true) :
    ghostHi M bc φ .x (M.ax.n, j+1, k+1) = some (Gen.BCGen.ghost_Spherical3D_right_per M bc φ j k) := by
  rw [ghostHi_per hp]; rfl

theorem bcrow_Spherical3D_right_cell_eq (M : Mesh α) (j k : ℕ) :
    Gen.BCGen.bcrow_Spherical3D_right_cell M j k = Idx.set (M.ax.n, j+1, k+1) .x (M.n .x + 1) := rfl

theorem bcrow_Spherical3D_right_nonper_eq (M : Mesh α) (bc : BCs α) (j k : ℕ)
    (hp : bc.periodicDir .x = false) :
    Gen.BCGen.bcrow_Spherical3D_right_nonper M bc j k = bcRowHi M bc .x (M.ax.n, j+1, k+1) := by
  rw [bcRowHi_nonper hp]
  simp only [Gen.BCGen.bcrow_Spherical3D_right_nonper, hiGhostCoef, hiCellCoef, lineM_x, Mesh.axis, Mesh.n,
    Idx.set, Row.mk.injEq, List.cons.injEq, Prod.mk.injEq, and_true, true_and]
  try (and_intros <;> geq_ring)

theorem ghost_Spherical3D_left_nonper_den_eq (M : Mesh α) (bc : BCs α) (j k : ℕ) :
    Gen.BCGen.ghost_Spherical3D_left_nonper_den M bc j k = loGhostCoef M bc .x (1, j+1, k+1) := by
  simp only [Gen.BCGen.ghost_Spherical3D_left_nonper_den, loGhostCoef, loCellCoef, lineM_x, Mesh.axis, Mesh.n] <;> geq_ring

theorem ghost_Spherical3D_left_nonper_eq (M : Mesh α) (bc : BCs α) (φ : CellFld α) (j k : ℕ)
    (hp : bc.periodicDir .x = false) (h0 : loGhostCoef M bc .x (1, j+1, k+1) ≠ 0) :
    ghostLo M bc φ .x (1, j+1, k+1) = some (Gen.BCGen.ghost_Spherical3D_left_nonper M bc φ j k) := by
  rw [ghostLo_nonper hp, sdiv_of_ne h0]
  simp only [Gen.BCGen.ghost_Spherical3D_left_nonper, loGhostCoef, loCellCoef, lineM_x, Mesh.axis, Mesh.n]
  first | (congr 2 <;> geq_ring) | (congr 1 <;> geq_ring)

theorem ghost_Spherical3D_left_nonper_undefined (M : Mesh α) (bc : BCs α) (φ : CellFld α) (j k : ℕ)
    (hp : bc.periodicDir .x = false) (h0 : Gen.BCGen.ghost_Spherical3D_left_nonper_den M bc j k = 0) :
    ghostLo M bc φ .x (1, j+1, k+1) = none := by
  rw [ghostLo_nonper hp, sdiv_eq_none, ← ghost_Spherical3D_left_nonper_den_eq M bc j k]; exact h0

theorem ghost_Spherical3D_left_per_eq (M : Mesh α) (bc : BCs α) (φ : CellFld α) (j k : ℕ)
    (hp : bc.periodicDir .x = true) :
    ghostLo M bc φ .x (1, j+1, k+1) = some (Gen.BCGen.ghost_Spherical3D_left_per M bc φ j k) := by
  rw [ghostLo_per hp]; rfl

theorem bcrow_Spherical3D_left_cell_eq (M : Mesh α) (j k : ℕ) :
    Gen.BCGen.bcrow_Spherical3D_left_cell M j k = Idx.set (1, j+1, k+1) .x (0) := rfl

theorem bcrow_Spherical3D_left_nonper_eq (M : Mesh α) (bc : BCs α) (j k : ℕ)
    (hp : bc.periodicDir .x = false) :
    Gen.BCGen.bcrow_Spherical3D_left_nonper M bc j k = bcRowLo M bc .x (1, j+1, k+1) := by
  rw [bcRowLo_nonper hp]
  simp only [Gen.BCGen.bcrow_Spherical3D_left_nonper, loGhostCoef, loCellCoef, lineM_x, Mesh.axis, Mesh.n,
    Idx.set, Row.mk.injEq, List.cons.injEq, Prod.mk.injEq, and_true, true_and]
  try (and_intros <;> geq_ring)

theorem ghost_Spherical3D_top_nonper_den_eq (M : Mesh α) (hk : M.kind = .sph3) (bc : BCs α) (i k : ℕ) :
    Gen.BCGen.ghost_Spherical3D_top_nonper_den M bc i k = hiGhostCoef M bc .y (i+1, M.ay.n, k+1) := by
  simp only [Gen.BCGen.ghost_Spherical3D_top_nonper_den, hiGhostCoef, hiCellCoef, lineM, hk, Mesh.axis, Mesh.n] <;> geq_ring

theorem ghost_Spherical3D_top_nonper_eq (M : Mesh α) (hk : M.kind = .sph3) (bc : BCs α) (φ : CellFld α) (i k : ℕ)
    (hp : bc.periodicDir .y = false) (h0 : hiGhostCoef M bc .y (i+1, M.ay.n, k+1) ≠ 0) :
    ghostHi M bc φ .y (i+1, M.ay.n, k+1) = some (Gen.BCGen.ghost_Spherical3D_top_nonper M bc φ i k) := by
  rw [ghostHi_nonper hp, sdiv_of_ne h0]
  simp only [Gen.BCGen.ghost_Spherical3D_top_nonper, hiGhostCoef, hiCellCoef, lineM, hk, Mesh.axis, Mesh.n]
  first | (congr 2 <;> geq_ring) | (congr 1 <;> geq_ring)

theorem ghost_Spherical3D_top_nonper_undefined (M : Mesh α) (hk : M.kind = .sph3) (bc : BCs α) (φ : CellFld α) (i k : ℕ)
    (hp : bc.periodicDir .y = false) (h0 : Gen.BCGen.ghost_Spherical3D_top_nonper_den M bc i k = 0) :
    ghostHi M bc φ .y (i+1, M.ay.n, k+1) = none := by
  rw [ghostHi_nonper hp, sdiv_eq_none, ← ghost_Spherical3D_top_nonper_den_eq M hk bc i k]; exact h0

theorem ghost_Spherical3D_top_per_eq (M : Mesh α) (bc : BCs α) (φ : CellFld α) (i k : ℕ)
    (hp : bc.periodicDir .y = true) :
    ghostHi M bc φ .y (i+1, M.ay.n, k+1) = some (Gen.BCGen.ghost_Spherical3D_top_per M bc φ i k) := by
  rw [ghostHi_per hp]; rfl

theorem bcrow_Spherical3D_top_cell_eq (M : Mesh α) (i k : ℕ) :
    Gen.BCGen.bcrow_Spherical3D_top_cell M i k = Idx.set (i+1, M.ay.n, k+1) .y (M.n .y + 1) := rfl

theorem bcrow_Spherical3D_top_nonper_eq (M : Mesh α) (hk : M.kind = .sph3) (bc : BCs α) (i k : ℕ)
    (hp : bc.periodicDir .y = false) :
    Gen.BCGen.bcrow_Spherical3D_top_nonper M bc i k = bcRowHi M bc .y (i+1, M.ay.n, k+1) := by
  rw [bcRowHi_nonper hp]
  simp only [Gen.BCGen.bcrow_Spherical3D_top_nonper, hiGhostCoef, hiCellCoef, lineM, hk, Mesh.axis, Mesh.n,
    Idx.set, Row.mk.injEq, List.cons.injEq, Prod.mk.injEq, and_true, true_and]
  try (and_intros <;> geq_ring)

theorem bcrow_Spherical3D_top_per_eq (M : Mesh α) (bc : BCs α) (i k : ℕ)
    (hp : bc.periodicDir .y = true) :
    Gen.BCGen.bcrow_Spherical3D_top_per M bc i k = bcRowHi M bc .y (i+1, M.ay.n, k+1) := by
  rw [bcRowHi_per hp]
  simp only [Gen.BCGen.bcrow_Spherical3D_top_per, Mesh.axis, Mesh.n,
    Idx.set, Row.mk.injEq, List.cons.injEq, Prod.mk.injEq, and_true, true_and]
  try (and_intros <;> geq_ring)

theorem ghost_Spherical3D_bottom_nonper_den_eq (M : Mesh α) (hk : M.kind = .sph3) (bc : BCs α) (i k : ℕ) :
    Gen.BCGen.ghost_Spherical3D_bottom_nonper_den M bc i k = loGhostCoef M bc .y (i+1, 1, k+1) := by
  simp only [Gen.BCGen.ghost_Spherical3D_bottom_nonper_den, loGhostCoef, loCellCoef, lineM, hk, Mesh.axis, Mesh.n] <;> geq_ring

theorem ghost_Spherical3D_bottom_nonper_eq (M : Mesh α) (hk : M.kind = .sph3) (bc : BCs α) (φ : CellFld α) (i k : ℕ)
    (hp : bc.periodicDir .y = false) (h0 : loGhostCoef M bc .y (i+1, 1, k+1) ≠ 0) :
    ghostLo M bc φ .y (i+1, 1, k+1) = some (Gen.BCGen.ghost_Spherical3D_bottom_nonper M bc φ i k) := by
  rw [ghostLo_nonper hp, sdiv_of_ne h0]
  simp only [Gen.BCGen.ghost_Spherical3D_bottom_nonper, loGhostCoef, loCellCoef, lineM, hk, Mesh.axis, Mesh.n]
  first | (congr 2 <;> geq_ring) | (congr 1 <;> geq_ring)

theorem ghost_Spherical3D_bottom_nonper_undefined (M : Mesh α) (hk : M.kind = .sph3) (bc : BCs α) (φ : CellFld α) (i k : ℕ)
    (hp : bc.periodicDir .y = false) (h0 : Gen.BCGen.ghost_Spherical3D_bottom_nonper_den M bc i k = 0) :
    ghostLo M bc φ .y (i+1, 1, k+1) = none := by
  rw [ghostLo_nonper hp, sdiv_eq_none, ← ghost_Spherical3D_bottom_nonper_den_eq M hk bc i k]; exact h0

theorem ghost_Spherical3D_bottom_per_eq (M : Mesh α) (bc : BCs α) (φ : CellFld α) (i k : ℕ)
    (hp : bc.periodicDir .y = true) :
    ghostLo M bc φ .y (i+1, 1, k+1) = some (Gen.BCGen.ghost_Spherical3D_bottom_per M bc φ i k) := by
  rw [ghostLo_per hp]; rfl

theorem bcrow_Spherical3D_bottom_cell_eq (M : Mesh α) (i k : ℕ) :
    Gen.BCGen.bcrow_Spherical3D_bottom_cell M i k = Idx.set (i+1, 1, k+1) .y (0) := rfl

theorem bcrow_Spherical3D_bottom_nonper_eq (M : Mesh α) (hk : M.kind = .sph3) (bc : BCs α) (i k : ℕ)
    (hp : bc.periodicDir .y = false) :
    Gen.BCGen.bcrow_Spherical3D_bottom_nonper M bc i k = bcRowLo M bc .y (i+1, 1, k+1) := by
  rw [bcRowLo_nonper hp]
  simp only [Gen.BCGen.bcrow_Spherical3D_bottom_nonper, loGhostCoef, loCellCoef, lineM, hk, Mesh.axis, Mesh.n,
    Idx.set, Row.mk.injEq, List.cons.injEq, Prod.mk.injEq, and_true, true_and]
  try (and_intros <;> geq_ring)

theorem bcrow_Spherical3D_bottom_per_eq (M : Mesh α) (bc : BCs α) (i k : ℕ)
    (hp : bc.periodicDir .y = true) :
    Gen.BCGen.bcrow_Spherical3D_bottom_per M bc i k = bcRowLo M bc .y (i+1, 1, k+1) := by
  rw [bcRowLo_per hp]
  simp only [Gen.BCGen.bcrow_Spherical3D_bottom_per, Mesh.axis, Mesh.n,
    Idx.set, Row.mk.injEq, List.cons.injEq, Prod.mk.injEq, and_true, true_and]
  try (and_intros <;> geq_ring)

theorem ghost_Spherical3D_front_nonper_den_eq (M : Mesh α) (hk : M.kind = .sph3) (bc : BCs α) (i j : ℕ) :
    Gen.BCGen.ghost_Spherical3D_front_nonper_den M bc i j = hiGhostCoef M bc .z (i+1, j+1, M.az.n) := by
  simp only [Gen.BCGen.ghost_Spherical3D_front_nonper_den, hiGhostCoef, hiCellCoef, lineM, hk, Mesh.axis, Mesh.n] <;> geq_ring

theorem ghost_Spherical3D_front_nonper_eq (M : Mesh α) (hk : M.kind = .sph3) (bc : BCs α) (φ : CellFld α) (i j : ℕ)
    (hp : bc.periodicDir .z = false) (h0 : hiGhostCoef M bc .z (i+1, j+1, M.az.n) ≠ 0) :
    ghostHi M bc φ .z (i+1, j+1, M.az.n) = some (Gen.BCGen.ghost_Spherical3D_front_nonper M bc φ i j) := by
  rw [ghostHi_nonper hp, sdiv_of_ne h0]
  simp only [Gen.BCGen.ghost_Spherical3D_front_nonper, hiGhostCoef, hiCellCoef, lineM, hk, Mesh.axis, Mesh.n]
  first | (congr 2 <;> geq_ring) | (congr 1 <;> geq_ring)

theorem ghost_Spherical3D_front_nonper_undefined (M : Mesh α) (hk : M.kind = .sph3) (bc : BCs α) (φ : CellFld α) (i j : ℕ)
    (hp : bc.periodicDir .z = false) (h0 : Gen.BCGen.ghost_Spherical3D_front_nonper_den M bc i j = 0) :
    ghostHi M bc φ .z (i+1, j+1, M.az.n) = none := by
  rw [ghostHi_nonper hp, sdiv_eq_none, ← ghost_Spherical3D_front_nonper_den_eq M hk bc i j]; exact h0

theorem ghost_Spherical3D_front_per_eq (M : Mesh α) (bc : BCs α) (φ : CellFld α) (i j : ℕ)
    (hp : bc.periodicDir .z = true) :
    ghostHi M bc φ .z (i+1, j+1, M.az.n) = some (Gen.BCGen.ghost_Spherical3D_front_per M bc φ i j) := by
  rw [ghostHi_per hp]; rfl

theorem bcrow_Spherical3D_front_cell_eq (M : Mesh α) (i j : ℕ) :
    Gen.BCGen.bcrow_Spherical3D_front_cell M i j = Idx.set (i+1, j+1, M.az.n) .z (M.n .z + 1) := rfl

theorem bcrow_Spherical3D_front_nonper_eq (M : Mesh α) (hk : M.kind = .sph3) (bc : BCs α) (i j : ℕ)
    (hp : bc.periodicDir .z = false) :
    Gen.BCGen.bcrow_Spherical3D_front_nonper M bc i j = bcRowHi M bc .z (i+1, j+1, M.az.n) := by
  rw [bcRowHi_nonper hp]
  simp only [Gen.BCGen.bcrow_Spherical3D_front_nonper, hiGhostCoef, hiCellCoef, lineM, hk, Mesh.axis, Mesh.n,
    Idx.set, Row.mk.injEq, List.cons.injEq, Prod.mk.injEq, and_true, true_and]
  try (and_intros <;> geq_ring)

theorem bcrow_Spherical3D_front_per_eq (M : Mesh α) (bc : BCs α) (i j : ℕ)
    (hp : bc.periodicDir .z = true) :
    Gen.BCGen.bcrow_Spherical3D_front_per M bc i j = bcRowHi M bc .z (i+1, j+1, M.az.n) := by
  rw [bcRowHi_per hp]
  simp only [Gen.BCGen.bcrow_Spherical3D_front_per, Mesh.axis, Mesh.n,
    Idx.set, Row.mk.injEq, List.cons.injEq, Prod.mk.injEq, and_true, true_and]
  try (and_intros <;> geq_ring)

theorem ghost_Spherical3D_back_nonper_den_eq (M : Mesh α) (hk : M.kind = .sph3) (bc : BCs α) (i j : ℕ) :
    Gen.BCGen.ghost_Spherical3D_back_nonper_den M bc i j = loGhostCoef M bc .z (i+1, j+1, 1) := by
  simp only [Gen.BCGen.ghost_Spherical3D_back_nonper_den, loGhostCoef, loCellCoef, lineM, hk, Mesh.axis, Mesh.n] <;> geq_ring

theorem ghost_Spherical3D_back_nonper_eq (M : Mesh α) (hk : M.kind = .sph3) (bc : BCs α) (φ : CellFld α) (i j : ℕ)
    (hp : bc.periodicDir .z = false) (h0 : loGhostCoef M bc .z (i+1, j+1, 1) ≠ 0) :
    ghostLo M bc φ .z (i+1, j+1, 1) = some (Gen.BCGen.ghost_Spherical3D_back_nonper M bc φ i j) := by
  rw [ghostLo_nonper hp, sdiv_of_ne h0]
  simp only [Gen.BCGen.ghost_Spherical3D_back_nonper, loGhostCoef, loCellCoef, lineM, hk, Mesh.axis, Mesh.n]
  first | (congr 2 <;> geq_ring) | (congr 1 <;> geq_ring)

theorem ghost_Spherical3D_back_nonper_undefined (M : Mesh α) (hk : M.kind = .sph3) (bc : BCs α) (φ : CellFld α) (i j : ℕ)
    (hp : bc.periodicDir .z = false) (h0 : Gen.BCGen.ghost_Spherical3D_back_nonper_den M bc i j = 0) :
    ghostLo M bc φ .z (i+1, j+1, 1) = none := by
  rw [ghostLo_nonper hp, sdiv_eq_none, ← ghost_Spherical3D_back_nonper_den_eq M hk bc i j]; exact h0

theorem ghost_Spherical3D_back_per_eq (M : Mesh α) (bc : BCs α) (φ : CellFld α) (i j : ℕ)
    (hp : bc.periodicDir .z = true) :
    ghostLo M bc φ .z (i+1, j+1, 1) = some (Gen.BCGen.ghost_Spherical3D_back_per M bc φ i j) := by
  rw [ghostLo_per hp]; rfl

theorem bcrow_Spherical3D_back_cell_eq (M : Mesh α) (i j : ℕ) :
    Gen.BCGen.bcrow_Spherical3D_back_cell M i j = Idx.set (i+1, j+1, 1) .z (0) := rfl

theorem bcrow_Spherical3D_back_nonper_eq (M : Mesh α) (hk : M.kind = .sph3) (bc : BCs α) (i j : ℕ)
    (hp : bc.periodicDir .z = false) :
    Gen.BCGen.bcrow_Spherical3D_back_nonper M bc i j = bcRowLo M bc .z (i+1, j+1, 1) := by
  rw [bcRowLo_nonper hp]
  simp only [Gen.BCGen.bcrow_Spherical3D_back_nonper, loGhostCoef, loCellCoef, lineM, hk, Mesh.axis, Mesh.n,
    Idx.set, Row.mk.injEq, List.cons.injEq, Prod.mk.injEq, and_true, true_and]
  try (and_intros <;> geq_ring)

theorem bcrow_Spherical3D_back_per_eq (M : Mesh α) (bc : BCs α) (i j : ℕ)
    (hp : bc.periodicDir .z = true) :
    Gen.BCGen.bcrow_Spherical3D_back_per M bc i j = bcRowLo M bc .z (i+1, j+1, 1) := by
  rw [bcRowLo_per hp]
  simp only [Gen.BCGen.bcrow_Spherical3D_back_per, Mesh.axis, Mesh.n,
    Idx.set, Row.mk.injEq, List.cons.injEq, Prod.mk.injEq, and_true, true_and]
  try (and_intros <;> geq_ring)

theorem bcrow_Spherical3D_corner_eq (M : Mesh α) (hk : M.kind = .sph3) (bc : BCs α) (c : Idx) (h : 2 ≤ M.outCount c) :
    bcRow M bc c = ⟨[(c, Gen.BCGen.bcrow_Spherical3D_corner_coef)], 0⟩
    ∧ bcRow M bc c = ⟨[(c, Gen.BCGen.bcrow_Spherical3D_edge_coef)], 0⟩ := by
  obtain ⟨k, hk'⟩ : ∃ k, M.outCount c = k + 2 := ⟨M.outCount c - 2, by omega⟩
  have hd : M.kind.dim ≠ 2 := by rw [hk]; decide
  unfold bcRow; rw [hk']
  simp only [cornerScale_of_dim_ne M bc hd, Gen.BCGen.bcrow_Spherical3D_corner_coef, Gen.BCGen.bcrow_Spherical3D_edge_coef, and_self]


/-! ### which classes raise, which class calls which function -/

/-- the periodic branch of the row builders raises `ValueError` exactly for a radial first axis -/
theorem bcrow_raises_iff (k : Kind) (d : Dir) (l : String) :
    (k, d, l) ∈ Gen.BCGen.bcrow_raises ↔ (k.radial = true ∧ d = .x ∧ l = "per") := by
  constructor
  · intro h
    simp only [Gen.BCGen.bcrow_raises, List.mem_cons, Prod.mk.injEq, List.mem_nil_iff, or_false] at h
    rcases h with ⟨rfl, rfl, rfl⟩ | ⟨rfl, rfl, rfl⟩ | ⟨rfl, rfl, rfl⟩ | ⟨rfl, rfl, rfl⟩ | ⟨rfl, rfl, rfl⟩ | ⟨rfl, rfl, rfl⟩ <;>
      exact ⟨rfl, rfl, rfl⟩
  · rintro ⟨hr, rfl, rfl⟩
    cases k <;> simp [Kind.radial] at hr <;> simp [Gen.BCGen.bcrow_raises]

/-- … which is the model's `radialPeriodicRejected` -/
theorem bcrow_raises_model (k : Kind) (bc : BCs α) :
    radialPeriodicRejected k bc = true ↔ ∃ d, (k, d, "per") ∈ Gen.BCGen.bcrow_raises ∧ bc.periodicDir d = true := by
  unfold radialPeriodicRejected
  constructor
  · intro h
    rw [Bool.and_eq_true] at h
    exact ⟨.x, (bcrow_raises_iff k .x "per").2 ⟨h.1, rfl, rfl⟩, h.2⟩
  · rintro ⟨d, hm, hp⟩
    obtain ⟨hr, rfl, _⟩ := (bcrow_raises_iff k d "per").1 hm
    rw [Bool.and_eq_true]; exact ⟨hr, hp⟩

/-- the dispatcher `cellValuesWithBoundaries`: the three 1-D classes share the Cartesian 1-D function
    (`issubclass(type(BC.domain), Grid1D)`), Grid2D and CylindricalGrid2D share the 2-D function -/
theorem dispatch_cellValuesWithBoundaries_eq (k : Kind) :
    Gen.BCGen.dispatch_cellValuesWithBoundaries.lookup k = some (match k with
      | .cart1 | .cyl1 | .sph1 => "cellValuesWithBoundaries1D"
      | .cart2 | .cyl2 => "cellValuesWithBoundaries2D"
      | .pol2 => "cellValuesWithBoundariesPolar2D"
      | .cart3 => "cellValuesWithBoundaries3D"
      | .cyl3 => "cellValuesWithBoundariesCylindrical3D"
      | .sph3 => "cellValuesWithBoundariesSpherical3D") := by
  cases k <;> rfl

theorem dispatch_boundaryConditionsTerm_eq (k : Kind) :
    Gen.BCGen.dispatch_boundaryConditionsTerm.lookup k = some (match k with
      | .cart1 | .cyl1 | .sph1 => "boundaryConditionsTerm1D"
      | .cart2 | .cyl2 => "boundaryConditionsTerm2D"
      | .pol2 => "boundaryConditionsTermPolar2D"
      | .cart3 => "boundaryConditionsTerm3D"
      | .cyl3 => "boundaryConditionsTermCylindrical3D"
      | .sph3 => "boundaryConditionsTermSpherical3D") := by
  cases k <;> rfl

/-! ### composition: the generated formulas are the entries of the whole ghosted array / boundary system
    (one representative side; every other side composes with `withGhosts_hi|lo`, `bcRow_hi|lo` in the same way) -/

/-- on a well-formed 2-D (Cartesian or cylindrical) mesh the model of `cellValuesWithBoundaries` holds, in the
    top ghost cell above column `i`, the value of the generated formula -/
theorem withGhosts_2D_top_nonper (M : Mesh α) (hM : M.WF) (hk : M.kind = .cart2 ∨ M.kind = .cyl2) (bc : BCs α)
    (φ : CellFld α) (i : ℕ) (hi : i + 1 ≤ M.ax.n) (hp : bc.periodicDir .y = false)
    (h0 : hiGhostCoef M bc .y (i+1, M.ay.n, 1) ≠ 0) :
    withGhosts M bc φ (Gen.BCGen.bcrow_2D_top_cell M i) = some (Gen.BCGen.ghost_2D_top_nonper M bc φ i) := by
  have hint : M.interior (i+1, M.ay.n, 1) :=
    ⟨Nat.le_add_left 1 i, hi, hM.wy.npos, le_refl _, le_refl _, hM.wz.npos⟩
  have hact : M.kind.active .y = true := by rcases hk with hk | hk <;> (rw [hk]; rfl)
  rw [bcrow_2D_top_cell_eq, withGhosts_hi M bc φ .y _ hint hact rfl]
  exact ghost_2D_top_nonper_eq M hk bc φ i hp h0

/-- … and the model of `boundaryConditionsTerm` has, in the row of that ghost cell, the generated row -/
theorem bcRow_2D_top_nonper (M : Mesh α) (hM : M.WF) (hk : M.kind = .cart2 ∨ M.kind = .cyl2) (bc : BCs α)
    (i : ℕ) (hi : i + 1 ≤ M.ax.n) (hp : bc.periodicDir .y = false) :
    bcRow M bc (Gen.BCGen.bcrow_2D_top_cell M i) = Gen.BCGen.bcrow_2D_top_nonper M bc i := by
  have hint : M.interior (i+1, M.ay.n, 1) :=
    ⟨Nat.le_add_left 1 i, hi, hM.wy.npos, le_refl _, le_refl _, hM.wz.npos⟩
  have hact : M.kind.active .y = true := by rcases hk with hk | hk <;> (rw [hk]; rfl)
  rw [bcrow_2D_top_cell_eq, bcRow_hi M bc .y _ hint hact rfl]
  exact (bcrow_2D_top_nonper_eq M hk bc i hp).symm

/-! ### the hypotheses are satisfiable and necessary -/

/-- `hk` cannot be dropped on the angular sides: on a polar mesh the Cartesian 2-D formula (no 1/r) is NOT the model's -/
theorem ghost_2D_top_needs_kind :
    Gen.BCGen.ghost_2D_top_nonper_den (Examples.mesh .pol2) BCEx.robin 0
      ≠ hiGhostCoef (Examples.mesh .pol2) BCEx.robin .y (0+1, (Examples.mesh .pol2).ay.n, 1) := by
  decide +kernel

example (k : Kind) : (Examples.mesh k).kind = k := rfl
example : BCEx.robin.periodicDir .y = false := rfl
example : BCEx.periodicX.periodicDir .x = true := rfl

/-- on a well-formed mesh, `a ≥ 0` and `b > 0` make the high-side ghost coefficient non-zero … -/
example (M : Mesh α) (hM : M.WF) (bc : BCs α) (d : Dir) (c : Idx) (hc : M.interior c)
    (ha : 0 ≤ (bc.hi d).a c) (hb : 0 < (bc.hi d).b c) : hiGhostCoef M bc d c ≠ 0 :=
  ne_of_gt (hiGhostCoef_pos ha hb (lineM_pos hM d hc) ((hM.axis d).pos _))

/-- … and `a ≤ 0` (outward normal pointing down the axis), `b > 0` the low-side one -/
example (M : Mesh α) (hM : M.WF) (bc : BCs α) (d : Dir) (c : Idx) (hc : M.interior c)
    (ha : (bc.lo d).a c ≤ 0) (hb : 0 < (bc.lo d).b c) : loGhostCoef M bc d c ≠ 0 :=
  ne_of_gt (loGhostCoef_pos ha hb (lineM_pos hM d hc) ((hM.axis d).pos _))

/-- the Robin conditions `∓∂φ + 2φ = 3` on the spherical example mesh: all hypotheses of the φ-side theorems hold -/
example (φ : CellFld ℚ) :
    ghostHi (Examples.mesh .sph3) BCEx.robin φ .z (0+1, 0+1, (Examples.mesh .sph3).az.n)
      = some (Gen.BCGen.ghost_Spherical3D_front_nonper (Examples.mesh .sph3) BCEx.robin φ 0 0) :=
  ghost_Spherical3D_front_nonper_eq _ rfl _ φ 0 0 rfl
    (ne_of_gt (hiGhostCoef_pos (by norm_num [BCEx.robin, BCEx.robinFace]) (by norm_num [BCEx.robin, BCEx.robinFace])
      (lineM_pos (Examples.mesh_WF .sph3) .z (by
        simp [Mesh.interior, Examples.mesh, Examples.ax3, mkAxisFaces, Kind.active, Kind.dim]))
      (((Examples.mesh_WF .sph3).axis .z).pos _)))

example (i : ℕ) :
    Gen.BCGen.bcrow_Polar2D_top_nonper (Examples.mesh .pol2) BCEx.robin i
      = bcRowHi (Examples.mesh .pol2) BCEx.robin .y (i+1, (Examples.mesh .pol2).ay.n, 1) :=
  bcrow_Polar2D_top_nonper_eq _ rfl _ i rfl

example (j : ℕ) :
    Gen.BCGen.bcrow_2D_right_per (Examples.mesh .cart2) BCEx.periodicX j
      = bcRowHi (Examples.mesh .cart2) BCEx.periodicX .x ((Examples.mesh .cart2).ax.n, j+1, 1) :=
  bcrow_2D_right_per_eq _ _ j rfl

end PyFV.GenEqBC
