/-
  Property C01 — closed systems conserve the domain integral (interior face fluxes cancel).

  Every flux-form term is `divergence` of a face flux (C05 lemmas), and the volume-weighted
  sum of a divergence along any grid line telescopes to the two boundary faces, for every
  number of cells, spacing and coefficient field.  The consistent cell volume `Vcons` is
  proportional to the reported `cellvolume` on eight of the nine classes (`cellVolume_eq_Vcons`);
  on SphericalGrid3D it is not (`sph3_volume_not_proportional`, known finding).
-/
import PyFV.Lemmas.Telescope
import PyFV.Props.Examples
import Mathlib.Algebra.BigOperators.Ring.Finset

set_option linter.unusedSectionVars false

namespace PyFV.C01
open PyFV Finset

variable {α : Type} [Field α] [LinearOrder α] [IsStrictOrderedRing α]

/-- product of the line weights of the two directions other than `d`, divided by the metric
    scale of `d`: the factor by which a boundary-face flux of direction `d` enters the balance -/
def cross (M : Mesh α) (d : Dir) (c : Idx) : α :=
  match d with
  | .x => lineV M .y c.2.1 * lineV M .z c.2.2 / lineM M .x c
  | .y => lineV M .x c.1 * lineV M .z c.2.2 / lineM M .y c
  | .z => lineV M .x c.1 * lineV M .y c.2.1 / lineM M .z c

theorem cross_set (M : Mesh α) (d : Dir) (c : Idx) (v : ℕ) : cross M d (c.set d v) = cross M d c := by
  cases d <;> simp only [cross, Idx.set] <;> congr 1 <;> (unfold lineM; cases M.kind <;> rfl)

/-- consistent volume × divergence along `d` = cross factor × difference of face fluxes -/
theorem vcons_divD (M : Mesh α) (F : FaceFld α) (d : Dir) (c : Idx)
    (hm : lineM M d c ≠ 0) (hV : lineV M d (c.get d) ≠ 0) :
    Vcons M c * divD M F d c
      = cross M d c * (lineA M d (c.get d) * F d c - lineA M d (c.get d - 1) * F d (c.prev d)) := by
  rw [← weighted_divD M F d c hm hV]
  cases d <;> simp only [Vcons, cross, Idx.get] <;> field_simp

/-- **Interior fluxes cancel.**  Along the line through `c` in direction `d`, the
    `Vcons`-weighted sum of the divergence of ANY face flux over the cells `1..n` equals the
    cross factor times (flux through the last face − flux through the first face). -/
theorem line_sum_divergence (M : Mesh α) (F : FaceFld α) (d : Dir) (c : Idx) (n : ℕ)
    (hm : lineM M d c ≠ 0) (hV : ∀ i, 1 ≤ i → i ≤ n → lineV M d i ≠ 0) :
    ∑ i ∈ range n, Vcons M (c.set d (i+1)) * divD M F d (c.set d (i+1))
      = cross M d c * (lineA M d n * F d (c.set d n) - lineA M d 0 * F d (c.set d 0)) := by
  have key : ∀ i ∈ range n, Vcons M (c.set d (i+1)) * divD M F d (c.set d (i+1))
      = cross M d c * ((fun j => lineA M d j * F d (c.set d j)) (i+1)
          - (fun j => lineA M d j * F d (c.set d j)) i) := by
    intro i hi
    have hi' : i < n := mem_range.mp hi
    rw [vcons_divD M F d (c.set d (i+1)) (by simpa using hm)
      (by simpa using hV (i+1) (by omega) (by omega)), cross_set]
    simp [Idx.prev]
  rw [Finset.sum_congr rfl key, ← Finset.mul_sum,
    Finset.sum_range_sub (fun j => lineA M d j * F d (c.set d j))]

/-! ### each term is in flux form (restating C05 at line level, for the sum) -/

/-- diffusion: line sum = boundary fluxes `A·D·∂φ` only -/
theorem diffusion_line_sum (M : Mesh α) (hM : M.WF) (D : FaceFld α) (φ : CellFld α) (d : Dir)
    (hd : M.kind.active d = true) (c : Idx) (hc : M.interior c) :
    ∑ i ∈ range (M.n d), Vcons M (c.set d (i+1)) * (diffSt M D d (c.set d (i+1))).app φ d (c.set d (i+1))
      = cross M d c * (lineA M d (M.n d) * (D d (c.set d (M.n d)) * gradD M φ d (c.set d (M.n d)))
                      - lineA M d 0 * (D d (c.set d 0) * gradD M φ d (c.set d 0))) := by
  have hint : ∀ i, i < M.n d → M.interior (c.set d (i+1)) := by
    intro i hi
    obtain ⟨a1, a2, b1, b2, c1, c2⟩ := hc
    cases d <;> simp only [Idx.set, Mesh.interior, Mesh.n, Mesh.axis] at hi ⊢ <;> omega
  have tl := line_sum_divergence M (FaceFld.mul D (gradD M φ)) d c (M.n d)
    (ne_of_gt (lineM_pos hM d hc)) (fun i h1 hn => ne_of_gt (lineV_pos hM hd h1 hn))
  simp only [FaceFld.mul] at tl
  rw [← tl]
  apply Finset.sum_congr rfl
  intro i hi
  rw [diffSt_eq_div_grad M D φ d _ (lineOK_of_WF hM hd (hint i (mem_range.mp hi)))]

/-- central convection: line sum = boundary fluxes `A·u·linearMean φ` only -/
theorem convection_line_sum (M : Mesh α) (hM : M.WF) (u : FaceFld α) (φ : CellFld α) (d : Dir)
    (hd : M.kind.active d = true) (c : Idx) (hc : M.interior c) :
    ∑ i ∈ range (M.n d), Vcons M (c.set d (i+1)) * (convSt M u d (c.set d (i+1))).app φ d (c.set d (i+1))
      = cross M d c * (lineA M d (M.n d) * (u d (c.set d (M.n d)) * linMean M φ d (c.set d (M.n d)))
                      - lineA M d 0 * (u d (c.set d 0) * linMean M φ d (c.set d 0))) := by
  have hint : ∀ i, i < M.n d → M.interior (c.set d (i+1)) := by
    intro i hi
    obtain ⟨a1, a2, b1, b2, c1, c2⟩ := hc
    cases d <;> simp only [Idx.set, Mesh.interior, Mesh.n, Mesh.axis] at hi ⊢ <;> omega
  have tl := line_sum_divergence M (FaceFld.mul u (linMean M φ)) d c (M.n d)
    (ne_of_gt (lineM_pos hM d hc)) (fun i h1 hn => ne_of_gt (lineV_pos hM hd h1 hn))
  simp only [FaceFld.mul] at tl
  rw [← tl]
  apply Finset.sum_congr rfl
  intro i hi
  rw [convSt_eq_div_lin M u φ d _ (lineOK_of_WF hM hd (hint i (mem_range.mp hi)))]

/-- upwind convection: line sum = boundary fluxes of the upwind face value only -/
theorem upwind_line_sum (M : Mesh α) (hM : M.WF) (u uUp : FaceFld α) (φ : CellFld α) (d : Dir)
    (hd : M.kind.active d = true) (c : Idx) (hc : M.interior c) :
    ∑ i ∈ range (M.n d), Vcons M (c.set d (i+1)) * (upwindSt M u uUp d (c.set d (i+1))).app φ d (c.set d (i+1))
      = cross M d c * (lineA M d (M.n d) * upFlux M u uUp φ d (c.set d (M.n d))
                      - lineA M d 0 * upFlux M u uUp φ d (c.set d 0)) := by
  have hint : ∀ i, i < M.n d → M.interior (c.set d (i+1)) := by
    intro i hi
    obtain ⟨a1, a2, b1, b2, c1, c2⟩ := hc
    cases d <;> simp only [Idx.set, Mesh.interior, Mesh.n, Mesh.axis] at hi ⊢ <;> omega
  rw [← line_sum_divergence M (upFlux M u uUp φ) d c (M.n d)
    (ne_of_gt (lineM_pos hM d hc)) (fun i h1 hn => ne_of_gt (lineV_pos hM hd h1 hn))]
  apply Finset.sum_congr rfl
  intro i hi
  have hi' := mem_range.mp hi
  rw [upwindSt_eq_div_upFlux M u uUp φ d _ (lineOK_of_WF hM hd (hint i hi')) (by simp; omega)]

/-- TVD correction and explicit divergence are divergences by definition: their line sums are
    instances of `line_sum_divergence` with `F := tvdFlux …` resp. the given face field. -/
theorem tvd_line_sum (M : Mesh α) (hM : M.WF) (u uUp : FaceFld α) (FL : α → α) (e : α) (φ : CellFld α)
    (d : Dir) (hd : M.kind.active d = true) (c : Idx) (hc : M.interior c) :
    ∑ i ∈ range (M.n d), Vcons M (c.set d (i+1)) * divD M (tvdFlux M u uUp FL e φ) d (c.set d (i+1))
      = cross M d c * (lineA M d (M.n d) * tvdFlux M u uUp FL e φ d (c.set d (M.n d))
                      - lineA M d 0 * tvdFlux M u uUp FL e φ d (c.set d 0)) :=
  line_sum_divergence M _ d c (M.n d) (ne_of_gt (lineM_pos hM d hc))
    (fun i h1 hn => ne_of_gt (lineV_pos hM hd h1 hn))

/-! ### closed boundaries: the boundary-face fluxes vanish -/

/-- no-flux wall: equal ghost and cell value ⇒ zero gradient on the boundary face -/
theorem gradD_zero_of_eq (M : Mesh α) (φ : CellFld α) (d : Dir) (c : Idx) (h : φ (c.next d) = φ c) :
    gradD M φ d c = 0 := by
  simp [gradD, h]

/-- zero wall-normal velocity ⇒ zero central, upwind and TVD flux on that face -/
theorem conv_flux_zero (M : Mesh α) (u : FaceFld α) (φ : CellFld α) (d : Dir) (c : Idx) (h : u d c = 0) :
    u d c * linMean M φ d c = 0 := by rw [h, zero_mul]

theorem upFlux_zero (M : Mesh α) (u uUp : FaceFld α) (φ : CellFld α) (d : Dir) (c : Idx) (h : u d c = 0) :
    upFlux M u uUp φ d c = 0 := by
  simp only [upFlux, uMax, uMin, h]; split_ifs <;> ring

theorem tvdFlux_zero (M : Mesh α) (u uUp : FaceFld α) (FL : α → α) (e : α) (φ : CellFld α)
    (d : Dir) (c : Idx) (h : u d c = 0) : tvdFlux M u uUp FL e φ d c = 0 := by
  simp only [tvdFlux, uMax, uMin, h]; split_ifs <;> ring

/-- closed line (no-flux walls): the diffusion term does not change the line integral -/
theorem diffusion_closed (M : Mesh α) (hM : M.WF) (D : FaceFld α) (φ : CellFld α) (d : Dir)
    (hd : M.kind.active d = true) (c : Idx) (hc : M.interior c)
    (hlo : φ (c.set d 1) = φ (c.set d 0)) (hhi : φ (c.set d (M.n d + 1)) = φ (c.set d (M.n d))) :
    ∑ i ∈ range (M.n d), Vcons M (c.set d (i+1)) * (diffSt M D d (c.set d (i+1))).app φ d (c.set d (i+1)) = 0 := by
  rw [diffusion_line_sum M hM D φ d hd c hc,
    gradD_zero_of_eq M φ d (c.set d (M.n d)) (by simpa [Idx.next] using hhi),
    gradD_zero_of_eq M φ d (c.set d 0) (by simpa [Idx.next] using hlo)]
  ring

/-- closed line (zero wall-normal velocity): upwind advection does not change the line integral -/
theorem upwind_closed (M : Mesh α) (hM : M.WF) (u uUp : FaceFld α) (φ : CellFld α) (d : Dir)
    (hd : M.kind.active d = true) (c : Idx) (hc : M.interior c)
    (hlo : u d (c.set d 0) = 0) (hhi : u d (c.set d (M.n d)) = 0) :
    ∑ i ∈ range (M.n d), Vcons M (c.set d (i+1)) * (upwindSt M u uUp d (c.set d (i+1))).app φ d (c.set d (i+1)) = 0 := by
  rw [upwind_line_sum M hM u uUp φ d hd c hc, upFlux_zero M u uUp φ d _ hhi, upFlux_zero M u uUp φ d _ hlo]
  ring

theorem convection_closed (M : Mesh α) (hM : M.WF) (u : FaceFld α) (φ : CellFld α) (d : Dir)
    (hd : M.kind.active d = true) (c : Idx) (hc : M.interior c)
    (hlo : u d (c.set d 0) = 0) (hhi : u d (c.set d (M.n d)) = 0) :
    ∑ i ∈ range (M.n d), Vcons M (c.set d (i+1)) * (convSt M u d (c.set d (i+1))).app φ d (c.set d (i+1)) = 0 := by
  rw [convection_line_sum M hM u φ d hd c hc, hhi, hlo]; ring

/-- periodic line: with wrapped ghost values, equal end-face coefficient and area factor and
    equal end-cell sizes the two boundary diffusion fluxes coincide, so the line sum vanishes -/
theorem diffusion_periodic (M : Mesh α) (hM : M.WF) (D : FaceFld α) (φ : CellFld α) (d : Dir)
    (hd : M.kind.active d = true) (c : Idx) (hc : M.interior c)
    (hw0 : φ (c.set d 0) = φ (c.set d (M.n d))) (hwn : φ (c.set d (M.n d + 1)) = φ (c.set d 1))
    (hD : D d (c.set d 0) = D d (c.set d (M.n d))) (hA : lineA M d 0 = lineA M d (M.n d))
    (hDX : (M.axis d).DX 1 = (M.axis d).DX (M.n d)) :
    ∑ i ∈ range (M.n d), Vcons M (c.set d (i+1)) * (diffSt M D d (c.set d (i+1))).app φ d (c.set d (i+1)) = 0 := by
  rw [diffusion_line_sum M hM D φ d hd c hc]
  have w := hM.axis d
  have e0 : (M.axis d).dxf 0 = (M.axis d).dxf (M.n d) := by
    unfold Axis.dxf
    have g0 := w.ghost0; have gN := w.ghostN
    simp only [Mesh.n] at hDX ⊢
    rw [g0, gN, hDX]
  simp only [gradD, Idx.next, Idx.get_set_same, Idx.set_set, lineM_set, hw0, hwn, hD, hA, e0]
  ring

/-! ### reported cell volume ∝ consistent volume (eight classes) -/

theorem sq_abs {a b : α} (hb : 0 ≤ b) (hab : b < a) : |a ^ 2 - b ^ 2| = a ^ 2 - b ^ 2 := by
  apply abs_of_nonneg
  have : a ^ 2 - b ^ 2 = (a - b) * (a + b) := by ring
  rw [this]
  have h1 : 0 ≤ a - b := by linarith
  have h2 : 0 ≤ a + b := by linarith
  positivity

/-- the constant relating `cellvolume` to the product of line weights -/
def kappa (M : Mesh α) : α :=
  match M.kind with
  | .cyl1 | .cyl2 => 2 * M.pi
  | .sph1 => 4 * M.pi
  | _ => 1

theorem two_cen_DX {a : Axis α} (w : a.WF) (i : ℕ) (h1 : 1 ≤ i) (hn : i ≤ a.n) :
    a.fc i ^ 2 - a.fc (i-1) ^ 2 = 2 * (a.cen i * a.DX i) := by
  rw [w.mid i h1 hn, w.size i h1 hn]; ring

/-- on every class except SphericalGrid3D, `cellvolume = κ · Vcons` in every interior cell, when
    the missing axes of lower-dimensional grids are unit axes (`lineV = 1`) -/
theorem cellVolume_eq_Vcons (M : Mesh α) (hM : M.WF) (c : Idx) (hc : M.interior c)
    (hk : M.kind ≠ .sph3)
    (huy : M.kind.active .y = false → lineV M .y c.2.1 = 1)
    (huz : M.kind.active .z = false → lineV M .z c.2.2 = 1) :
    cellVolume M c = kappa M * Vcons M c := by
  obtain ⟨a1, a2, b1, b2, c1, c2⟩ := hc
  have hp := ne_of_gt hM.pipos
  have rl := hM.wx.fc_lt c.1 a1 a2
  have tl := hM.wy.fc_lt c.2.1 b1 b2
  have sx := hM.wx.size c.1 a1 a2
  have sy := hM.wy.size c.2.1 b1 b2
  have tc := two_cen_DX hM.wx c.1 a1 a2
  cases hkk : M.kind <;> simp only [hkk, ne_eq, not_true_eq_false, reduceCtorEq, not_false_eq_true] at hk
  all_goals
    have hy := huy; have hz := huz
    simp only [hkk, Kind.active, Kind.dim] at hy hz
  · -- cart1
    simp only [cellVolume, Vcons, kappa, hkk]
    rw [hy (by decide), hz (by decide)]; simp [lineV, hkk, Mesh.axis]
  · -- cyl1
    have hr := hM.rf0 (by rw [hkk]; rfl) (c.1 - 1) (by omega)
    simp only [cellVolume, Vcons, kappa, hkk]
    rw [hy (by decide), hz (by decide), C01.sq_abs hr rl, tc]; simp [lineV, hkk]; ring
  · -- sph1
    have hr := hM.rf0 (by rw [hkk]; rfl) (c.1 - 1) (by omega)
    simp only [cellVolume, Vcons, kappa, hkk]
    rw [hy (by decide), hz (by decide), abs_of_pos (cube_sub_pos hr rl)]; simp [lineV, hkk]; ring
  · -- cart2
    simp only [cellVolume, Vcons, kappa, hkk]
    rw [hz (by decide)]; simp [lineV, hkk, Mesh.axis]
  · -- cyl2
    have hr := hM.rf0 (by rw [hkk]; rfl) (c.1 - 1) (by omega)
    simp only [cellVolume, Vcons, kappa, hkk]
    rw [hz (by decide), C01.sq_abs hr rl, tc]; simp [lineV, hkk, Mesh.axis]; ring
  · -- pol2
    have hr := hM.rf0 (by rw [hkk]; rfl) (c.1 - 1) (by omega)
    simp only [cellVolume, Vcons, kappa, hkk]
    rw [hz (by decide), C01.sq_abs hr rl, tc, abs_of_pos (sub_pos.mpr tl), ← sy]
    simp [lineV, hkk, Mesh.axis]; field_simp
  · -- cart3
    simp only [cellVolume, Vcons, kappa, hkk]; simp [lineV, hkk, Mesh.axis]
  · -- cyl3
    have hr := hM.rf0 (by rw [hkk]; rfl) (c.1 - 1) (by omega)
    simp only [cellVolume, Vcons, kappa, hkk]
    rw [C01.sq_abs hr rl, tc, abs_of_pos (sub_pos.mpr tl), ← sy]
    simp [lineV, hkk, Mesh.axis]; field_simp

/-! ### a closed implicit step conserves the weighted sum -/

/-- If every interior row reads `α_i (x_i − old_i)/dt + (L x)_i = 0` (transient + flux-form
    terms, no sources) and the weighted sum of the flux-form part vanishes (closed or periodic
    boundaries, by the theorems above), then the weighted sum of `α·x` is unchanged — for any
    `dt`, any number of cells, any index set. By induction this holds for any number of steps. -/
theorem closed_step_conserves {ι : Type} (s : Finset ι) (w a x old L : ι → α) (dt : α) (hdt : dt ≠ 0)
    (hrow : ∀ i ∈ s, a i * (x i - old i) / dt + L i = 0) (hL : ∑ i ∈ s, w i * L i = 0) :
    ∑ i ∈ s, w i * (a i * x i) = ∑ i ∈ s, w i * (a i * old i) := by
  have h1 : ∀ i ∈ s, w i * (a i * x i) - w i * (a i * old i) = -(dt * (w i * L i)) := by
    intro i hi
    have := hrow i hi
    have e : L i = -(a i * (x i - old i) / dt) := by linarith
    rw [e]; field_simp
  have : ∑ i ∈ s, (w i * (a i * x i) - w i * (a i * old i)) = 0 := by
    rw [Finset.sum_congr rfl h1, Finset.sum_neg_distrib, ← Finset.mul_sum, hL]; simp
  rw [Finset.sum_sub_distrib] at this
  linarith

/-- explicit step `x = old + dt·RHS` with `RHS = −(L old)`: same conservation -/
theorem explicit_step_conserves {ι : Type} (s : Finset ι) (w x old L : ι → α) (dt : α)
    (hrow : ∀ i ∈ s, x i = old i + dt * (-(L i))) (hL : ∑ i ∈ s, w i * L i = 0) :
    ∑ i ∈ s, w i * x i = ∑ i ∈ s, w i * old i := by
  have h1 : ∀ i ∈ s, w i * x i = w i * old i - dt * (w i * L i) := by
    intro i hi; rw [hrow i hi]; ring
  rw [Finset.sum_congr rfl h1, Finset.sum_sub_distrib, ← Finset.mul_sum, hL]; simp

/-! ### what does NOT hold on the unchanged code (known findings, replayed on the real code) -/

/-- SphericalGrid3D: the reported `cellvolume` is not proportional to the volume the operators
    are consistent with (`r_c²·Δr·sinθ_c·Δθ·Δφ`): the ratio differs between two cells of one mesh. -/
theorem sph3_volume_not_proportional :
    cellVolume (Examples.mesh .sph3) (2,1,1) * Vcons (Examples.mesh .sph3) (3,1,1)
      ≠ cellVolume (Examples.mesh .sph3) (3,1,1) * Vcons (Examples.mesh .sph3) (2,1,1) := by
  decide +kernel

/-- a uniform periodic 2-cell line -/
def perMesh : Mesh ℚ :=
  { kind := .cart1, ax := mkAxisFaces 2 (fun i => (i : ℚ)), ay := unitAxis, az := unitAxis,
    sinC := fun _ => 1, sinF := fun _ => 1, cosF := fun _ => 1, pi := 3 }

/-- wrapped field `φ₀ = φ₂ = 2`, `φ₃ = φ₁ = 1` -/
def perPhi : CellFld ℚ := fun c => if c.1 = 1 ∨ c.1 = 3 then 1 else 2

/-- Upwind advection through a periodic boundary is NOT conservative in the code's
    discretisation: the builder uses the boundary-face average on the inflow side and the donor
    value on the outflow side of the same physical face, so the line sum does not vanish even
    on a uniform mesh with constant velocity and exactly wrapped ghost values. -/
theorem upwind_periodic_not_conservative :
    ∑ i ∈ range 2, Vcons perMesh (Idx.set (1,1,1) .x (i+1))
        * (upwindSt perMesh (fun _ _ => 1) (fun _ _ => 1) .x (Idx.set (1,1,1) .x (i+1))).app perPhi .x
            (Idx.set (1,1,1) .x (i+1)) = 1 / 2 := by
  decide +kernel

/-! ### non-vacuity -/
example (k : Kind) : (Examples.mesh k).WF ∧ (Examples.mesh k).interior (1, 1, 1) :=
  ⟨Examples.mesh_WF k, Examples.interior_111 k⟩

end PyFV.C01
