/-
  PyFV.Props.GenEqMesh — the MESH ARRAYS that the constructors of mesh.py build (`cellsize._a`, `cellcenters._a`,
  `facecenters._a`, `dims`, `cell_numbers()`), REGENERATED FROM THE SOURCE by the translator T-mesh
  (harness/translate/tmesh.py → PyFV/Gen/MeshGen.lean, rewritten on every run; the `__init__` of each of the nine
  grid classes is executed symbolically through `_check_mesh_nargs`, `_mesh_Dd_param`, `_facelocation_to_cellsize`,
  `int_range`, `CellProp.__init__`, `MeshStructure.__init__`), have the LENGTHS n+2, n, n+1 and the ENTRIES of the
  hand-written model (`mkAxisFaces`, `mkAxisNL` of PyFV/Model/Geom.lean).

  This is what the leaf table of T-num / T-bc / T-upw / T-avg trusts (array position p of `cellsize._x` is model
  index p, of `cellcenters._x` model index p+1, of `facecenters._x` model face p): theorems `leaf_table_*`.

  No hypothesis on n is needed for the entry equalities (both sides are the same piecewise formula, also at
  p = n+1 and for n = 1); `1 ≤ n` is needed for the ghost laws (`faces_ghost_*`, counterexample at n = 0) and is the
  smallest count for which the Python constructors run at all (`nmin_eq`).
  DISCREPANCY (by design, see `placeholder_ne_unitAxis`): in the missing directions of 1-D / 2-D grids the code
  stores the one-element placeholder `np.array([0.0])`; the model carries a unit axis (size 1).  No translated
  function reads the placeholder (tnum refuses `cellsize._y` of a 1-D grid).
-/
import PyFV.Gen.MeshGen
import PyFV.Props.Examples
import PyFV.Props.C10
import PyFV.Lemmas.GenEqTac
import Mathlib.Tactic.Ring
import Mathlib.Tactic.FieldSimp
import Mathlib.Tactic.NormNum

set_option linter.unusedSectionVars false
set_option linter.unusedSimpArgs false
set_option linter.unusedTactic false
set_option linter.unreachableTactic false
set_option linter.unusedVariables false
set_option linter.unnecessarySeqFocus false

namespace PyFV.GenEqMesh
open PyFV PyFV.Gen.MeshGen

variable {α : Type} [Field α] [LinearOrder α] [IsStrictOrderedRing α]

/-- nothing was left untranslated by T-mesh -/
theorem untranslated_eq : Gen.MeshGen.untranslated = [] := by decide

/-! ### utilities.py: `int_range(a, b)` is a..b INCLUSIVE (derived from `np.arange(a, b + 1)`) -/

/-- `int_range(1, n)` has n entries, entry p is p+1, and it raises unless 1 ≤ n -/
theorem int_range_inclusive (n p : ℕ) :
    int_range_1_len n = n ∧ (int_range_1 n p : α) = ((p + 1 : ℕ) : α) ∧ int_range_1_nmin = 1 := by
  refine ⟨?_, ?_, ?_⟩
  · simp only [int_range_1_len] <;> omega
  · simp only [int_range_1] <;> push_cast <;> geq_ring
  · decide

/-! ### face-array form: lengths -/

/-- `_mesh_1d_param`, faces form: `cellsize._a` has n_a+2 entries, `cellcenters._a` n_a, `facecenters._a` n_a+1
    (the arrays of the missing directions are one-element placeholders) -/
theorem faces1_lengths (nx : ℕ) :
    faces1_cellsize_x_len nx = nx + 2 ∧
    faces1_cellcenters_x_len nx = nx ∧
    faces1_facecenters_x_len nx = nx + 1 ∧
    faces1_cellsize_y_len nx = 1 ∧
    faces1_cellcenters_y_len nx = 1 ∧
    faces1_facecenters_y_len nx = 1 ∧
    faces1_cellsize_z_len nx = 1 ∧
    faces1_cellcenters_z_len nx = 1 ∧
    faces1_facecenters_z_len nx = 1 := by
  refine ⟨?_, ?_, ?_, ?_, ?_, ?_, ?_, ?_, ?_⟩ <;>
  (simp only [faces1_cellsize_x_len, faces1_cellcenters_x_len, faces1_facecenters_x_len, faces1_cellsize_y_len, faces1_cellcenters_y_len, faces1_facecenters_y_len, faces1_cellsize_z_len, faces1_cellcenters_z_len, faces1_facecenters_z_len] <;> omega)

/-- `_mesh_2d_param`, faces form: `cellsize._a` has n_a+2 entries, `cellcenters._a` n_a, `facecenters._a` n_a+1
    (the arrays of the missing directions are one-element placeholders) -/
theorem faces2_lengths (nx ny : ℕ) :
    faces2_cellsize_x_len nx ny = nx + 2 ∧
    faces2_cellcenters_x_len nx ny = nx ∧
    faces2_facecenters_x_len nx ny = nx + 1 ∧
    faces2_cellsize_y_len nx ny = ny + 2 ∧
    faces2_cellcenters_y_len nx ny = ny ∧
    faces2_facecenters_y_len nx ny = ny + 1 ∧
    faces2_cellsize_z_len nx ny = 1 ∧
    faces2_cellcenters_z_len nx ny = 1 ∧
    faces2_facecenters_z_len nx ny = 1 := by
  refine ⟨?_, ?_, ?_, ?_, ?_, ?_, ?_, ?_, ?_⟩ <;>
  (simp only [faces2_cellsize_x_len, faces2_cellcenters_x_len, faces2_facecenters_x_len, faces2_cellsize_y_len, faces2_cellcenters_y_len, faces2_facecenters_y_len, faces2_cellsize_z_len, faces2_cellcenters_z_len, faces2_facecenters_z_len] <;> omega)

/-- `_mesh_3d_param`, faces form: `cellsize._a` has n_a+2 entries, `cellcenters._a` n_a, `facecenters._a` n_a+1
    (the arrays of the missing directions are one-element placeholders) -/
theorem faces3_lengths (nx ny nz : ℕ) :
    faces3_cellsize_x_len nx ny nz = nx + 2 ∧
    faces3_cellcenters_x_len nx ny nz = nx ∧
    faces3_facecenters_x_len nx ny nz = nx + 1 ∧
    faces3_cellsize_y_len nx ny nz = ny + 2 ∧
    faces3_cellcenters_y_len nx ny nz = ny ∧
    faces3_facecenters_y_len nx ny nz = ny + 1 ∧
    faces3_cellsize_z_len nx ny nz = nz + 2 ∧
    faces3_cellcenters_z_len nx ny nz = nz ∧
    faces3_facecenters_z_len nx ny nz = nz + 1 := by
  refine ⟨?_, ?_, ?_, ?_, ?_, ?_, ?_, ?_, ?_⟩ <;>
  (simp only [faces3_cellsize_x_len, faces3_cellcenters_x_len, faces3_facecenters_x_len, faces3_cellsize_y_len, faces3_cellcenters_y_len, faces3_facecenters_y_len, faces3_cellsize_z_len, faces3_cellcenters_z_len, faces3_facecenters_z_len] <;> omega)

/-! ### face-array form: entries = `mkAxisFaces` -/

/-- `cellsize._x[p]` is the model size `DX p` (p = 0 and p = n+1 are the ghost sizes) -/
theorem faces1_cellsize_x_eq (nx : ℕ) (fx : ℕ → α) (p : ℕ) :
    faces1_cellsize_x nx fx p = (mkAxisFaces nx fx).DX p := by
  simp only [faces1_cellsize_x, mkAxisFaces] <;> geq_cases

/-- `cellcenters._x[p]` is the model centre `cen (p+1)` -/
theorem faces1_cellcenters_x_eq (nx : ℕ) (fx : ℕ → α) (p : ℕ) :
    faces1_cellcenters_x nx fx p = (mkAxisFaces nx fx).cen (p+1) := by
  simp only [faces1_cellcenters_x, mkAxisFaces, Nat.add_sub_cancel] <;> geq_cases

/-- `facecenters._x[p]` is the model face `fc p` -/
theorem faces1_facecenters_x_eq (nx : ℕ) (fx : ℕ → α) (p : ℕ) :
    faces1_facecenters_x nx fx p = (mkAxisFaces nx fx).fc p := by
  simp only [faces1_facecenters_x, mkAxisFaces] <;> geq_cases

/-- `dims` of `_mesh_1d_param`, faces form -/
theorem faces1_dims_eq (nx : ℕ) : faces1_dims nx = [nx] := by
  simp only [faces1_dims]

/-- `cellsize._x[p]` is the model size `DX p` (p = 0 and p = n+1 are the ghost sizes) -/
theorem faces2_cellsize_x_eq (nx ny : ℕ) (fx fy : ℕ → α) (p : ℕ) :
    faces2_cellsize_x nx ny fx fy p = (mkAxisFaces nx fx).DX p := by
  simp only [faces2_cellsize_x, mkAxisFaces] <;> geq_cases

/-- `cellcenters._x[p]` is the model centre `cen (p+1)` -/
theorem faces2_cellcenters_x_eq (nx ny : ℕ) (fx fy : ℕ → α) (p : ℕ) :
    faces2_cellcenters_x nx ny fx fy p = (mkAxisFaces nx fx).cen (p+1) := by
  simp only [faces2_cellcenters_x, mkAxisFaces, Nat.add_sub_cancel] <;> geq_cases

/-- `facecenters._x[p]` is the model face `fc p` -/
theorem faces2_facecenters_x_eq (nx ny : ℕ) (fx fy : ℕ → α) (p : ℕ) :
    faces2_facecenters_x nx ny fx fy p = (mkAxisFaces nx fx).fc p := by
  simp only [faces2_facecenters_x, mkAxisFaces] <;> geq_cases

/-- `cellsize._y[p]` is the model size `DX p` (p = 0 and p = n+1 are the ghost sizes) -/
theorem faces2_cellsize_y_eq (nx ny : ℕ) (fx fy : ℕ → α) (p : ℕ) :
    faces2_cellsize_y nx ny fx fy p = (mkAxisFaces ny fy).DX p := by
  simp only [faces2_cellsize_y, mkAxisFaces] <;> geq_cases

/-- `cellcenters._y[p]` is the model centre `cen (p+1)` -/
theorem faces2_cellcenters_y_eq (nx ny : ℕ) (fx fy : ℕ → α) (p : ℕ) :
    faces2_cellcenters_y nx ny fx fy p = (mkAxisFaces ny fy).cen (p+1) := by
  simp only [faces2_cellcenters_y, mkAxisFaces, Nat.add_sub_cancel] <;> geq_cases

/-- `facecenters._y[p]` is the model face `fc p` -/
theorem faces2_facecenters_y_eq (nx ny : ℕ) (fx fy : ℕ → α) (p : ℕ) :
    faces2_facecenters_y nx ny fx fy p = (mkAxisFaces ny fy).fc p := by
  simp only [faces2_facecenters_y, mkAxisFaces] <;> geq_cases

/-- `dims` of `_mesh_2d_param`, faces form -/
theorem faces2_dims_eq (nx ny : ℕ) : faces2_dims nx ny = [nx, ny] := by
  simp only [faces2_dims]

/-- `cellsize._x[p]` is the model size `DX p` (p = 0 and p = n+1 are the ghost sizes) -/
theorem faces3_cellsize_x_eq (nx ny nz : ℕ) (fx fy fz : ℕ → α) (p : ℕ) :
    faces3_cellsize_x nx ny nz fx fy fz p = (mkAxisFaces nx fx).DX p := by
  simp only [faces3_cellsize_x, mkAxisFaces] <;> geq_cases

/-- `cellcenters._x[p]` is the model centre `cen (p+1)` -/
theorem faces3_cellcenters_x_eq (nx ny nz : ℕ) (fx fy fz : ℕ → α) (p : ℕ) :
    faces3_cellcenters_x nx ny nz fx fy fz p = (mkAxisFaces nx fx).cen (p+1) := by
  simp only [faces3_cellcenters_x, mkAxisFaces, Nat.add_sub_cancel] <;> geq_cases

/-- `facecenters._x[p]` is the model face `fc p` -/
theorem faces3_facecenters_x_eq (nx ny nz : ℕ) (fx fy fz : ℕ → α) (p : ℕ) :
    faces3_facecenters_x nx ny nz fx fy fz p = (mkAxisFaces nx fx).fc p := by
  simp only [faces3_facecenters_x, mkAxisFaces] <;> geq_cases

/-- `cellsize._y[p]` is the model size `DX p` (p = 0 and p = n+1 are the ghost sizes) -/
theorem faces3_cellsize_y_eq (nx ny nz : ℕ) (fx fy fz : ℕ → α) (p : ℕ) :
    faces3_cellsize_y nx ny nz fx fy fz p = (mkAxisFaces ny fy).DX p := by
  simp only [faces3_cellsize_y, mkAxisFaces] <;> geq_cases

/-- `cellcenters._y[p]` is the model centre `cen (p+1)` -/
theorem faces3_cellcenters_y_eq (nx ny nz : ℕ) (fx fy fz : ℕ → α) (p : ℕ) :
    faces3_cellcenters_y nx ny nz fx fy fz p = (mkAxisFaces ny fy).cen (p+1) := by
  simp only [faces3_cellcenters_y, mkAxisFaces, Nat.add_sub_cancel] <;> geq_cases

/-- `facecenters._y[p]` is the model face `fc p` -/
theorem faces3_facecenters_y_eq (nx ny nz : ℕ) (fx fy fz : ℕ → α) (p : ℕ) :
    faces3_facecenters_y nx ny nz fx fy fz p = (mkAxisFaces ny fy).fc p := by
  simp only [faces3_facecenters_y, mkAxisFaces] <;> geq_cases

/-- `cellsize._z[p]` is the model size `DX p` (p = 0 and p = n+1 are the ghost sizes) -/
theorem faces3_cellsize_z_eq (nx ny nz : ℕ) (fx fy fz : ℕ → α) (p : ℕ) :
    faces3_cellsize_z nx ny nz fx fy fz p = (mkAxisFaces nz fz).DX p := by
  simp only [faces3_cellsize_z, mkAxisFaces] <;> geq_cases

/-- `cellcenters._z[p]` is the model centre `cen (p+1)` -/
theorem faces3_cellcenters_z_eq (nx ny nz : ℕ) (fx fy fz : ℕ → α) (p : ℕ) :
    faces3_cellcenters_z nx ny nz fx fy fz p = (mkAxisFaces nz fz).cen (p+1) := by
  simp only [faces3_cellcenters_z, mkAxisFaces, Nat.add_sub_cancel] <;> geq_cases

/-- `facecenters._z[p]` is the model face `fc p` -/
theorem faces3_facecenters_z_eq (nx ny nz : ℕ) (fx fy fz : ℕ → α) (p : ℕ) :
    faces3_facecenters_z nx ny nz fx fy fz p = (mkAxisFaces nz fz).fc p := by
  simp only [faces3_facecenters_z, mkAxisFaces] <;> geq_cases

/-- `dims` of `_mesh_3d_param`, faces form -/
theorem faces3_dims_eq (nx ny nz : ℕ) : faces3_dims nx ny nz = [nx, ny, nz] := by
  simp only [faces3_dims]

/-! ### (N, L) form: lengths -/

/-- `_mesh_1d_param`, nl form: `cellsize._a` has n_a+2 entries, `cellcenters._a` n_a, `facecenters._a` n_a+1
    (the arrays of the missing directions are one-element placeholders) -/
theorem nl1_lengths (nx : ℕ) :
    nl1_cellsize_x_len nx = nx + 2 ∧
    nl1_cellcenters_x_len nx = nx ∧
    nl1_facecenters_x_len nx = nx + 1 ∧
    nl1_cellsize_y_len nx = 1 ∧
    nl1_cellcenters_y_len nx = 1 ∧
    nl1_facecenters_y_len nx = 1 ∧
    nl1_cellsize_z_len nx = 1 ∧
    nl1_cellcenters_z_len nx = 1 ∧
    nl1_facecenters_z_len nx = 1 := by
  refine ⟨?_, ?_, ?_, ?_, ?_, ?_, ?_, ?_, ?_⟩ <;>
  (simp only [nl1_cellsize_x_len, nl1_cellcenters_x_len, nl1_facecenters_x_len, nl1_cellsize_y_len, nl1_cellcenters_y_len, nl1_facecenters_y_len, nl1_cellsize_z_len, nl1_cellcenters_z_len, nl1_facecenters_z_len] <;> omega)

/-- `_mesh_2d_param`, nl form: `cellsize._a` has n_a+2 entries, `cellcenters._a` n_a, `facecenters._a` n_a+1
    (the arrays of the missing directions are one-element placeholders) -/
theorem nl2_lengths (nx ny : ℕ) :
    nl2_cellsize_x_len nx ny = nx + 2 ∧
    nl2_cellcenters_x_len nx ny = nx ∧
    nl2_facecenters_x_len nx ny = nx + 1 ∧
    nl2_cellsize_y_len nx ny = ny + 2 ∧
    nl2_cellcenters_y_len nx ny = ny ∧
    nl2_facecenters_y_len nx ny = ny + 1 ∧
    nl2_cellsize_z_len nx ny = 1 ∧
    nl2_cellcenters_z_len nx ny = 1 ∧
    nl2_facecenters_z_len nx ny = 1 := by
  refine ⟨?_, ?_, ?_, ?_, ?_, ?_, ?_, ?_, ?_⟩ <;>
  (simp only [nl2_cellsize_x_len, nl2_cellcenters_x_len, nl2_facecenters_x_len, nl2_cellsize_y_len, nl2_cellcenters_y_len, nl2_facecenters_y_len, nl2_cellsize_z_len, nl2_cellcenters_z_len, nl2_facecenters_z_len] <;> omega)

/-- `_mesh_3d_param`, nl form: `cellsize._a` has n_a+2 entries, `cellcenters._a` n_a, `facecenters._a` n_a+1
    (the arrays of the missing directions are one-element placeholders) -/
theorem nl3_lengths (nx ny nz : ℕ) :
    nl3_cellsize_x_len nx ny nz = nx + 2 ∧
    nl3_cellcenters_x_len nx ny nz = nx ∧
    nl3_facecenters_x_len nx ny nz = nx + 1 ∧
    nl3_cellsize_y_len nx ny nz = ny + 2 ∧
    nl3_cellcenters_y_len nx ny nz = ny ∧
    nl3_facecenters_y_len nx ny nz = ny + 1 ∧
    nl3_cellsize_z_len nx ny nz = nz + 2 ∧
    nl3_cellcenters_z_len nx ny nz = nz ∧
    nl3_facecenters_z_len nx ny nz = nz + 1 := by
  refine ⟨?_, ?_, ?_, ?_, ?_, ?_, ?_, ?_, ?_⟩ <;>
  (simp only [nl3_cellsize_x_len, nl3_cellcenters_x_len, nl3_facecenters_x_len, nl3_cellsize_y_len, nl3_cellcenters_y_len, nl3_facecenters_y_len, nl3_cellsize_z_len, nl3_cellcenters_z_len, nl3_facecenters_z_len] <;> omega)

/-! ### (N, L) form: entries = `mkAxisNL` -/

/-- `cellsize._x[p]` is the model size `DX p` (p = 0 and p = n+1 are the ghost sizes) -/
theorem nl1_cellsize_x_eq (nx : ℕ) (Lx : α) (p : ℕ) :
    nl1_cellsize_x nx Lx p = (mkAxisNL nx Lx).DX p := by
  simp only [nl1_cellsize_x, mkAxisNL] <;> push_cast <;> geq_cases

/-- `cellcenters._x[p]` is the model centre `cen (p+1)` -/
theorem nl1_cellcenters_x_eq (nx : ℕ) (Lx : α) (p : ℕ) :
    nl1_cellcenters_x nx Lx p = (mkAxisNL nx Lx).cen (p+1) := by
  simp only [nl1_cellcenters_x, mkAxisNL, Nat.add_sub_cancel] <;> push_cast <;> geq_cases

/-- `facecenters._x[p]` is the model face `fc p` -/
theorem nl1_facecenters_x_eq (nx : ℕ) (Lx : α) (p : ℕ) :
    nl1_facecenters_x nx Lx p = (mkAxisNL nx Lx).fc p := by
  simp only [nl1_facecenters_x, mkAxisNL] <;> push_cast <;> geq_cases

/-- `dims` of `_mesh_1d_param`, nl form -/
theorem nl1_dims_eq (nx : ℕ) : nl1_dims nx = [nx] := by
  simp only [nl1_dims]

/-- `cellsize._x[p]` is the model size `DX p` (p = 0 and p = n+1 are the ghost sizes) -/
theorem nl2_cellsize_x_eq (nx ny : ℕ) (Lx Ly : α) (p : ℕ) :
    nl2_cellsize_x nx ny Lx Ly p = (mkAxisNL nx Lx).DX p := by
  simp only [nl2_cellsize_x, mkAxisNL] <;> push_cast <;> geq_cases

/-- `cellcenters._x[p]` is the model centre `cen (p+1)` -/
theorem nl2_cellcenters_x_eq (nx ny : ℕ) (Lx Ly : α) (p : ℕ) :
    nl2_cellcenters_x nx ny Lx Ly p = (mkAxisNL nx Lx).cen (p+1) := by
  simp only [nl2_cellcenters_x, mkAxisNL, Nat.add_sub_cancel] <;> push_cast <;> geq_cases

/-- `facecenters._x[p]` is the model face `fc p` -/
theorem nl2_facecenters_x_eq (nx ny : ℕ) (Lx Ly : α) (p : ℕ) :
    nl2_facecenters_x nx ny Lx Ly p = (mkAxisNL nx Lx).fc p := by
  simp only [nl2_facecenters_x, mkAxisNL] <;> push_cast <;> geq_cases

/-- `cellsize._y[p]` is the model size `DX p` (p = 0 and p = n+1 are the ghost sizes) -/
theorem nl2_cellsize_y_eq (nx ny : ℕ) (Lx Ly : α) (p : ℕ) :
    nl2_cellsize_y nx ny Lx Ly p = (mkAxisNL ny Ly).DX p := by
  simp only [nl2_cellsize_y, mkAxisNL] <;> push_cast <;> geq_cases

/-- `cellcenters._y[p]` is the model centre `cen (p+1)` -/
theorem nl2_cellcenters_y_eq (nx ny : ℕ) (Lx Ly : α) (p : ℕ) :
    nl2_cellcenters_y nx ny Lx Ly p = (mkAxisNL ny Ly).cen (p+1) := by
  simp only [nl2_cellcenters_y, mkAxisNL, Nat.add_sub_cancel] <;> push_cast <;> geq_cases

/-- `facecenters._y[p]` is the model face `fc p` -/
theorem nl2_facecenters_y_eq (nx ny : ℕ) (Lx Ly : α) (p : ℕ) :
    nl2_facecenters_y nx ny Lx Ly p = (mkAxisNL ny Ly).fc p := by
  simp only [nl2_facecenters_y, mkAxisNL] <;> push_cast <;> geq_cases

/-- `dims` of `_mesh_2d_param`, nl form -/
theorem nl2_dims_eq (nx ny : ℕ) : nl2_dims nx ny = [nx, ny] := by
  simp only [nl2_dims]

/-- `cellsize._x[p]` is the model size `DX p` (p = 0 and p = n+1 are the ghost sizes) -/
theorem nl3_cellsize_x_eq (nx ny nz : ℕ) (Lx Ly Lz : α) (p : ℕ) :
    nl3_cellsize_x nx ny nz Lx Ly Lz p = (mkAxisNL nx Lx).DX p := by
  simp only [nl3_cellsize_x, mkAxisNL] <;> push_cast <;> geq_cases

/-- `cellcenters._x[p]` is the model centre `cen (p+1)` -/
theorem nl3_cellcenters_x_eq (nx ny nz : ℕ) (Lx Ly Lz : α) (p : ℕ) :
    nl3_cellcenters_x nx ny nz Lx Ly Lz p = (mkAxisNL nx Lx).cen (p+1) := by
  simp only [nl3_cellcenters_x, mkAxisNL, Nat.add_sub_cancel] <;> push_cast <;> geq_cases

/-- `facecenters._x[p]` is the model face `fc p` -/
theorem nl3_facecenters_x_eq (nx ny nz : ℕ) (Lx Ly Lz : α) (p : ℕ) :
    nl3_facecenters_x nx ny nz Lx Ly Lz p = (mkAxisNL nx Lx).fc p := by
  simp only [nl3_facecenters_x, mkAxisNL] <;> push_cast <;> geq_cases

/-- `cellsize._y[p]` is the model size `DX p` (p = 0 and p = n+1 are the ghost sizes) -/
theorem nl3_cellsize_y_eq (nx ny nz : ℕ) (Lx Ly Lz : α) (p : ℕ) :
    nl3_cellsize_y nx ny nz Lx Ly Lz p = (mkAxisNL ny Ly).DX p := by
  simp only [nl3_cellsize_y, mkAxisNL] <;> push_cast <;> geq_cases

/-- `cellcenters._y[p]` is the model centre `cen (p+1)` -/
theorem nl3_cellcenters_y_eq (nx ny nz : ℕ) (Lx Ly Lz : α) (p : ℕ) :
    nl3_cellcenters_y nx ny nz Lx Ly Lz p = (mkAxisNL ny Ly).cen (p+1) := by
  simp only [nl3_cellcenters_y, mkAxisNL, Nat.add_sub_cancel] <;> push_cast <;> geq_cases

/-- `facecenters._y[p]` is the model face `fc p` -/
theorem nl3_facecenters_y_eq (nx ny nz : ℕ) (Lx Ly Lz : α) (p : ℕ) :
    nl3_facecenters_y nx ny nz Lx Ly Lz p = (mkAxisNL ny Ly).fc p := by
  simp only [nl3_facecenters_y, mkAxisNL] <;> push_cast <;> geq_cases

/-- `cellsize._z[p]` is the model size `DX p` (p = 0 and p = n+1 are the ghost sizes) -/
theorem nl3_cellsize_z_eq (nx ny nz : ℕ) (Lx Ly Lz : α) (p : ℕ) :
    nl3_cellsize_z nx ny nz Lx Ly Lz p = (mkAxisNL nz Lz).DX p := by
  simp only [nl3_cellsize_z, mkAxisNL] <;> push_cast <;> geq_cases

/-- `cellcenters._z[p]` is the model centre `cen (p+1)` -/
theorem nl3_cellcenters_z_eq (nx ny nz : ℕ) (Lx Ly Lz : α) (p : ℕ) :
    nl3_cellcenters_z nx ny nz Lx Ly Lz p = (mkAxisNL nz Lz).cen (p+1) := by
  simp only [nl3_cellcenters_z, mkAxisNL, Nat.add_sub_cancel] <;> push_cast <;> geq_cases

/-- `facecenters._z[p]` is the model face `fc p` -/
theorem nl3_facecenters_z_eq (nx ny nz : ℕ) (Lx Ly Lz : α) (p : ℕ) :
    nl3_facecenters_z nx ny nz Lx Ly Lz p = (mkAxisNL nz Lz).fc p := by
  simp only [nl3_facecenters_z, mkAxisNL] <;> push_cast <;> geq_cases

/-- `dims` of `_mesh_3d_param`, nl form -/
theorem nl3_dims_eq (nx ny nz : ℕ) : nl3_dims nx ny nz = [nx, ny, nz] := by
  simp only [nl3_dims]

/-! ### the leaf table of T-num is justified -/

/-- a mesh whose axes are built by `_mesh_1d_param` (faces form): position p of `cellsize._a` is `M.a.DX p`
    (length n+2), of `cellcenters._a` is `M.a.cen (p+1)` (length n), of `facecenters._a` is `M.a.fc p` (length n+1) -/
theorem leaf_table_faces1 (M : Mesh α) (nx : ℕ) (fx : ℕ → α) (hx : M.ax = mkAxisFaces nx fx) (p : ℕ) :
    faces1_cellsize_x_len nx = M.ax.n + 2 ∧
    faces1_cellsize_x nx fx p = M.ax.DX p ∧
    faces1_cellcenters_x_len nx = M.ax.n ∧
    faces1_cellcenters_x nx fx p = M.ax.cen (p+1) ∧
    faces1_facecenters_x_len nx = M.ax.n + 1 ∧
    faces1_facecenters_x nx fx p = M.ax.fc p := by
  have hl := faces1_lengths nx
  rw [faces1_cellsize_x_eq, faces1_cellcenters_x_eq, faces1_facecenters_x_eq, hx]
  simp only [mkAxisFaces, hl, and_self]

/-- a mesh whose axes are built by `_mesh_2d_param` (faces form): position p of `cellsize._a` is `M.a.DX p`
    (length n+2), of `cellcenters._a` is `M.a.cen (p+1)` (length n), of `facecenters._a` is `M.a.fc p` (length n+1) -/
theorem leaf_table_faces2 (M : Mesh α) (nx ny : ℕ) (fx fy : ℕ → α) (hx : M.ax = mkAxisFaces nx fx) (hy : M.ay = mkAxisFaces ny fy) (p : ℕ) :
    faces2_cellsize_x_len nx ny = M.ax.n + 2 ∧
    faces2_cellsize_x nx ny fx fy p = M.ax.DX p ∧
    faces2_cellcenters_x_len nx ny = M.ax.n ∧
    faces2_cellcenters_x nx ny fx fy p = M.ax.cen (p+1) ∧
    faces2_facecenters_x_len nx ny = M.ax.n + 1 ∧
    faces2_facecenters_x nx ny fx fy p = M.ax.fc p ∧
    faces2_cellsize_y_len nx ny = M.ay.n + 2 ∧
    faces2_cellsize_y nx ny fx fy p = M.ay.DX p ∧
    faces2_cellcenters_y_len nx ny = M.ay.n ∧
    faces2_cellcenters_y nx ny fx fy p = M.ay.cen (p+1) ∧
    faces2_facecenters_y_len nx ny = M.ay.n + 1 ∧
    faces2_facecenters_y nx ny fx fy p = M.ay.fc p := by
  have hl := faces2_lengths nx ny
  rw [faces2_cellsize_x_eq, faces2_cellcenters_x_eq, faces2_facecenters_x_eq, faces2_cellsize_y_eq, faces2_cellcenters_y_eq, faces2_facecenters_y_eq, hx, hy]
  simp only [mkAxisFaces, hl, and_self]

/-- a mesh whose axes are built by `_mesh_3d_param` (faces form): position p of `cellsize._a` is `M.a.DX p`
    (length n+2), of `cellcenters._a` is `M.a.cen (p+1)` (length n), of `facecenters._a` is `M.a.fc p` (length n+1) -/
theorem leaf_table_faces3 (M : Mesh α) (nx ny nz : ℕ) (fx fy fz : ℕ → α) (hx : M.ax = mkAxisFaces nx fx) (hy : M.ay = mkAxisFaces ny fy) (hz : M.az = mkAxisFaces nz fz) (p : ℕ) :
    faces3_cellsize_x_len nx ny nz = M.ax.n + 2 ∧
    faces3_cellsize_x nx ny nz fx fy fz p = M.ax.DX p ∧
    faces3_cellcenters_x_len nx ny nz = M.ax.n ∧
    faces3_cellcenters_x nx ny nz fx fy fz p = M.ax.cen (p+1) ∧
    faces3_facecenters_x_len nx ny nz = M.ax.n + 1 ∧
    faces3_facecenters_x nx ny nz fx fy fz p = M.ax.fc p ∧
    faces3_cellsize_y_len nx ny nz = M.ay.n + 2 ∧
    faces3_cellsize_y nx ny nz fx fy fz p = M.ay.DX p ∧
    faces3_cellcenters_y_len nx ny nz = M.ay.n ∧
    faces3_cellcenters_y nx ny nz fx fy fz p = M.ay.cen (p+1) ∧
    faces3_facecenters_y_len nx ny nz = M.ay.n + 1 ∧
    faces3_facecenters_y nx ny nz fx fy fz p = M.ay.fc p ∧
    faces3_cellsize_z_len nx ny nz = M.az.n + 2 ∧
    faces3_cellsize_z nx ny nz fx fy fz p = M.az.DX p ∧
    faces3_cellcenters_z_len nx ny nz = M.az.n ∧
    faces3_cellcenters_z nx ny nz fx fy fz p = M.az.cen (p+1) ∧
    faces3_facecenters_z_len nx ny nz = M.az.n + 1 ∧
    faces3_facecenters_z nx ny nz fx fy fz p = M.az.fc p := by
  have hl := faces3_lengths nx ny nz
  rw [faces3_cellsize_x_eq, faces3_cellcenters_x_eq, faces3_facecenters_x_eq, faces3_cellsize_y_eq, faces3_cellcenters_y_eq, faces3_facecenters_y_eq, faces3_cellsize_z_eq, faces3_cellcenters_z_eq, faces3_facecenters_z_eq, hx, hy, hz]
  simp only [mkAxisFaces, hl, and_self]

/-- a mesh whose axes are built by `_mesh_1d_param` (nl form): position p of `cellsize._a` is `M.a.DX p`
    (length n+2), of `cellcenters._a` is `M.a.cen (p+1)` (length n), of `facecenters._a` is `M.a.fc p` (length n+1) -/
theorem leaf_table_nl1 (M : Mesh α) (nx : ℕ) (Lx : α) (hx : M.ax = mkAxisNL nx Lx) (p : ℕ) :
    nl1_cellsize_x_len nx = M.ax.n + 2 ∧
    nl1_cellsize_x nx Lx p = M.ax.DX p ∧
    nl1_cellcenters_x_len nx = M.ax.n ∧
    nl1_cellcenters_x nx Lx p = M.ax.cen (p+1) ∧
    nl1_facecenters_x_len nx = M.ax.n + 1 ∧
    nl1_facecenters_x nx Lx p = M.ax.fc p := by
  have hl := nl1_lengths nx
  rw [nl1_cellsize_x_eq, nl1_cellcenters_x_eq, nl1_facecenters_x_eq, hx]
  simp only [mkAxisNL, hl, and_self]

/-- a mesh whose axes are built by `_mesh_2d_param` (nl form): position p of `cellsize._a` is `M.a.DX p`
    (length n+2), of `cellcenters._a` is `M.a.cen (p+1)` (length n), of `facecenters._a` is `M.a.fc p` (length n+1) -/
theorem leaf_table_nl2 (M : Mesh α) (nx ny : ℕ) (Lx Ly : α) (hx : M.ax = mkAxisNL nx Lx) (hy : M.ay = mkAxisNL ny Ly) (p : ℕ) :
    nl2_cellsize_x_len nx ny = M.ax.n + 2 ∧
    nl2_cellsize_x nx ny Lx Ly p = M.ax.DX p ∧
    nl2_cellcenters_x_len nx ny = M.ax.n ∧
    nl2_cellcenters_x nx ny Lx Ly p = M.ax.cen (p+1) ∧
    nl2_facecenters_x_len nx ny = M.ax.n + 1 ∧
    nl2_facecenters_x nx ny Lx Ly p = M.ax.fc p ∧
    nl2_cellsize_y_len nx ny = M.ay.n + 2 ∧
    nl2_cellsize_y nx ny Lx Ly p = M.ay.DX p ∧
    nl2_cellcenters_y_len nx ny = M.ay.n ∧
    nl2_cellcenters_y nx ny Lx Ly p = M.ay.cen (p+1) ∧
    nl2_facecenters_y_len nx ny = M.ay.n + 1 ∧
    nl2_facecenters_y nx ny Lx Ly p = M.ay.fc p := by
  have hl := nl2_lengths nx ny
  rw [nl2_cellsize_x_eq, nl2_cellcenters_x_eq, nl2_facecenters_x_eq, nl2_cellsize_y_eq, nl2_cellcenters_y_eq, nl2_facecenters_y_eq, hx, hy]
  simp only [mkAxisNL, hl, and_self]

/-- a mesh whose axes are built by `_mesh_3d_param` (nl form): position p of `cellsize._a` is `M.a.DX p`
    (length n+2), of `cellcenters._a` is `M.a.cen (p+1)` (length n), of `facecenters._a` is `M.a.fc p` (length n+1) -/
theorem leaf_table_nl3 (M : Mesh α) (nx ny nz : ℕ) (Lx Ly Lz : α) (hx : M.ax = mkAxisNL nx Lx) (hy : M.ay = mkAxisNL ny Ly) (hz : M.az = mkAxisNL nz Lz) (p : ℕ) :
    nl3_cellsize_x_len nx ny nz = M.ax.n + 2 ∧
    nl3_cellsize_x nx ny nz Lx Ly Lz p = M.ax.DX p ∧
    nl3_cellcenters_x_len nx ny nz = M.ax.n ∧
    nl3_cellcenters_x nx ny nz Lx Ly Lz p = M.ax.cen (p+1) ∧
    nl3_facecenters_x_len nx ny nz = M.ax.n + 1 ∧
    nl3_facecenters_x nx ny nz Lx Ly Lz p = M.ax.fc p ∧
    nl3_cellsize_y_len nx ny nz = M.ay.n + 2 ∧
    nl3_cellsize_y nx ny nz Lx Ly Lz p = M.ay.DX p ∧
    nl3_cellcenters_y_len nx ny nz = M.ay.n ∧
    nl3_cellcenters_y nx ny nz Lx Ly Lz p = M.ay.cen (p+1) ∧
    nl3_facecenters_y_len nx ny nz = M.ay.n + 1 ∧
    nl3_facecenters_y nx ny nz Lx Ly Lz p = M.ay.fc p ∧
    nl3_cellsize_z_len nx ny nz = M.az.n + 2 ∧
    nl3_cellsize_z nx ny nz Lx Ly Lz p = M.az.DX p ∧
    nl3_cellcenters_z_len nx ny nz = M.az.n ∧
    nl3_cellcenters_z nx ny nz Lx Ly Lz p = M.az.cen (p+1) ∧
    nl3_facecenters_z_len nx ny nz = M.az.n + 1 ∧
    nl3_facecenters_z nx ny nz Lx Ly Lz p = M.az.fc p := by
  have hl := nl3_lengths nx ny nz
  rw [nl3_cellsize_x_eq, nl3_cellcenters_x_eq, nl3_facecenters_x_eq, nl3_cellsize_y_eq, nl3_cellcenters_y_eq, nl3_facecenters_y_eq, nl3_cellsize_z_eq, nl3_cellcenters_z_eq, nl3_facecenters_z_eq, hx, hy, hz]
  simp only [mkAxisNL, hl, and_self]

/-! ### laws of the generated arrays (need `1 ≤ n`: the smallest count the constructors accept) -/

/-- the constructors run (no IndexError of `f[1]`, `f[-2]`, no ValueError of `int_range(1, N)`) exactly from one cell
    per axis on: this is `Axis.WF.npos` -/
theorem nmin_eq :
    faces1_nmin = [1] ∧ nl1_nmin = [1] ∧ faces2_nmin = [1, 1] ∧ nl2_nmin = [1, 1] ∧
    faces3_nmin = [1, 1, 1] ∧ nl3_nmin = [1, 1, 1] := by decide

/-- face form: the two ghost sizes repeat the first / last cell, interior sizes are face differences, centres midway -/
theorem faces_ghost_laws (n : ℕ) (f : ℕ → α) (hn : 1 ≤ n) :
    faces1_cellsize_x n f 0 = faces1_cellsize_x n f 1 ∧
    faces1_cellsize_x n f (n+1) = faces1_cellsize_x n f n ∧
    (∀ p, 1 ≤ p → p ≤ n → faces1_cellsize_x n f p = f p - f (p-1)) ∧
    (∀ p, faces1_cellcenters_x n f p = (f (p+1) + f p) / 2) := by
  refine ⟨?_, ?_, ?_, ?_⟩
  · rw [faces1_cellsize_x_eq, faces1_cellsize_x_eq]; simp only [mkAxisFaces]
    have : (1 : ℕ) ≤ n := hn
    simp [this]
  · rw [faces1_cellsize_x_eq, faces1_cellsize_x_eq]; simp only [mkAxisFaces]
    have a : ¬ n + 1 = 0 := by omega
    have b : ¬ n + 1 ≤ n := by omega
    have c : ¬ n = 0 := by omega
    simp [a, b, c]
  · intro p h1 h2; rw [faces1_cellsize_x_eq]; simp only [mkAxisFaces]
    have a : ¬ p = 0 := by omega
    simp [a, h2]
  · intro p; rw [faces1_cellcenters_x_eq]; simp only [mkAxisFaces, Nat.add_sub_cancel]

/-- without a cell the trailing ghost law fails (the Python code raises IndexError there) -/
theorem faces_ghost_counterexample :
    faces1_cellsize_x 0 (fun i => (i : ℚ)) (0+1) ≠ faces1_cellsize_x 0 (fun i => (i : ℚ)) 0 := by
  simp [faces1_cellsize_x]

/-- the generated axis of the face form is well-formed for strictly increasing faces -/
theorem faces_axis_WF (n : ℕ) (f : ℕ → α) (hn : 1 ≤ n) (hf : StrictIncr n f) :
    (Axis.mk n (faces1_facecenters_x n f) (fun i => faces1_cellcenters_x n f (i-1)) (faces1_cellsize_x n f)).WF := by
  have w := mkAxisFaces_WF n f hn hf
  refine ⟨hn, ?_, ?_, ?_, ?_, ?_⟩
  · intro i; simp only [faces1_cellsize_x_eq]; exact w.pos i
  · intro i h1 h2
    simp only [faces1_cellcenters_x_eq, faces1_facecenters_x_eq]
    have e : i - 1 + 1 = i := by omega
    rw [e]; exact w.mid i h1 h2
  · intro i h1 h2; simp only [faces1_cellsize_x_eq, faces1_facecenters_x_eq]; exact w.size i h1 h2
  · simp only [faces1_cellsize_x_eq]; exact w.ghost0
  · simp only [faces1_cellsize_x_eq]; exact w.ghostN

/-- the generated axis of the (N, L) form is well-formed for a positive length -/
theorem nl_axis_WF (n : ℕ) (L : α) (hn : 1 ≤ n) (hL : 0 < L) :
    (Axis.mk n (nl1_facecenters_x n L) (fun i => nl1_cellcenters_x n L (i-1)) (nl1_cellsize_x n L)).WF := by
  have w := mkAxisNL_WF n L hn hL
  refine ⟨hn, ?_, ?_, ?_, ?_, ?_⟩
  · intro i; simp only [nl1_cellsize_x_eq]; exact w.pos i
  · intro i h1 h2
    simp only [nl1_cellcenters_x_eq, nl1_facecenters_x_eq]
    have e : i - 1 + 1 = i := by omega
    rw [e]; exact w.mid i h1 h2
  · intro i h1 h2; simp only [nl1_cellsize_x_eq, nl1_facecenters_x_eq]; exact w.size i h1 h2
  · simp only [nl1_cellsize_x_eq]; exact w.ghost0
  · simp only [nl1_cellsize_x_eq]; exact w.ghostN

/-- the (N, L) form builds the arrays of the face form on the equispaced faces `i·L/N` (generated code on both sides) -/
theorem nl_eq_faces_on_equispaced (n : ℕ) (L : α) (hn : 1 ≤ n) (p : ℕ) :
    nl1_cellsize_x n L p = faces1_cellsize_x n (fun i => (i : α) * (L / n)) p ∧
    nl1_cellcenters_x n L p = faces1_cellcenters_x n (fun i => (i : α) * (L / n)) p ∧
    nl1_facecenters_x n L p = faces1_facecenters_x n (fun i => (i : α) * (L / n)) p := by
  have h := C10.nl_form_eq_faces_form n L hn
  rw [nl1_cellsize_x_eq, nl1_cellcenters_x_eq, nl1_facecenters_x_eq, faces1_cellsize_x_eq, faces1_cellcenters_x_eq,
    faces1_facecenters_x_eq]
  exact ⟨h.2.2 p, h.2.1 (p+1) (by omega), h.1 p⟩

/-! ### the missing directions of 1-D / 2-D grids: placeholders, not the model's unit axis -/

/-- what the code stores: one entry, 0.0 -/
theorem placeholder_arrays (n m : ℕ) (L K : α) (f g : ℕ → α) (p : ℕ) :
    nl1_cellsize_y n L p = 0 ∧ nl1_cellsize_z n L p = 0 ∧ faces1_cellsize_y n f p = 0 ∧ faces1_cellsize_z n f p = 0 ∧
    nl2_cellsize_z n m L K p = 0 ∧ faces2_cellsize_z n m f g p = 0 ∧
    nl1_cellcenters_y n L p = 0 ∧ nl1_facecenters_y n L p = 0 ∧ nl2_cellcenters_z n m L K p = 0 ∧
    nl2_facecenters_z n m L K p = 0 := by
  simp only [nl1_cellsize_y, nl1_cellsize_z, faces1_cellsize_y, faces1_cellsize_z, nl2_cellsize_z, faces2_cellsize_z,
    nl1_cellcenters_y, nl1_facecenters_y, nl2_cellcenters_z, nl2_facecenters_z, and_self]

/-- DISCREPANCY model / code (by design): the model's unit axis has size 1 and three size entries; the stored
    placeholder has one entry, 0.  Witness: position 0. -/
theorem placeholder_ne_unitAxis (n : ℕ) (L : α) :
    nl1_cellsize_y n L 0 ≠ (unitAxis : Axis α).DX 0 ∧ nl1_cellsize_y_len n ≠ (unitAxis : Axis α).n + 2 := by
  constructor
  · simp [nl1_cellsize_y, unitAxis, mkAxisFaces]
  · simp [nl1_cellsize_y_len, unitAxis, mkAxisFaces]

/-! ### the nine grid classes: constructor, arity check, coordinate labels -/

/-- every class calls the `_mesh_Dd_param` of its dimension in both calling forms, gives its dimension to
    `_check_mesh_nargs`, builds exactly the arrays above, and labels them as documented -/
theorem class_table_eq : class_table =
    [(.cart1, "_mesh_1d_param", 1, [("x", "_x")]),
     (.cyl1, "_mesh_1d_param", 1, [("r", "_x")]),
     (.sph1, "_mesh_1d_param", 1, [("r", "_x")]),
     (.cart2, "_mesh_2d_param", 2, [("x", "_x"), ("y", "_y")]),
     (.cyl2, "_mesh_2d_param", 2, [("r", "_x"), ("z", "_y")]),
     (.pol2, "_mesh_2d_param", 2, [("r", "_x"), ("theta", "_y")]),
     (.cart3, "_mesh_3d_param", 3, [("x", "_x"), ("y", "_y"), ("z", "_z")]),
     (.cyl3, "_mesh_3d_param", 3, [("r", "_x"), ("theta", "_y"), ("z", "_z")]),
     (.sph3, "_mesh_3d_param", 3, [("r", "_x"), ("theta", "_y"), ("phi", "_z")])] := by decide

/-- the table agrees with the model's `Kind.dim` / `Kind.radial`: constructor and arity check of the class's
    dimension, one label per direction on the private arrays `_x`, `_y`, `_z` in this order, the first array is
    labelled `r` exactly for the radial classes, and `theta` is the second array exactly where the model's `lineM`
    scales the second direction by the radius -/
theorem class_table_model : ∀ r ∈ class_table,
    r.2.2.1 = r.1.dim ∧
    r.2.1 = (match r.1.dim with | 1 => "_mesh_1d_param" | 2 => "_mesh_2d_param" | _ => "_mesh_3d_param") ∧
    r.2.2.2.map Prod.snd = ["_x", "_y", "_z"].take r.1.dim ∧
    (decide (("r", "_x") ∈ r.2.2.2) = r.1.radial) ∧
    (decide (("theta", "_y") ∈ r.2.2.2) = decide (r.1 = .pol2 ∨ r.1 = .cyl3 ∨ r.1 = .sph3)) := by decide

/-- all nine classes are in the table -/
theorem class_table_complete (k : Kind) : k ∈ class_table.map Prod.fst := by cases k <;> decide

/-- `_check_mesh_nargs(args, dim)` lets through exactly `dim` (face arrays) or `2·dim` (counts, then lengths)
    arguments; these are exactly the counts for which `_mesh_Dd_param` takes a branch (`len(args) == dim`: face form,
    `len(args) == 2·dim`: (N, L) form; anything else raises TypeError); the direct form (six arguments, the first an
    ndarray) stores them in the order of `MeshStructure.__init__` -/
theorem arity_forms :
    nargs_accepted = [(1, [1, 2]), (2, [2, 4]), (3, [3, 6])] ∧
    ctor_arities = [("_mesh_1d_param", [1, 2]), ("_mesh_2d_param", [2, 4]), ("_mesh_3d_param", [3, 6])] ∧
    direct_wiring = ["dims", "cellsize", "cellcenters", "facecenters", "corners", "edges"] := by decide

/-! ### `cell_numbers()`: C-order numbering of the ghosted box -/

theorem cell_numbers_table_eq : cell_numbers_table =
    [(.cart1, "cell_numbers_1d"), (.cyl1, "cell_numbers_1d"), (.sph1, "cell_numbers_1d"),
     (.cart2, "cell_numbers_2d"), (.cyl2, "cell_numbers_2d"), (.pol2, "cell_numbers_2d"),
     (.cart3, "cell_numbers_3d"), (.cyl3, "cell_numbers_3d"), (.sph3, "cell_numbers_3d")] := by decide

/-- shape = ghosted box `dims + 2`, entry = C-order position (this is `AsmEval.cellNumber dims idx`, the unknown number
    of the assembly model, PyFV/Lemmas/AsmEval.lean; not imported here to keep this module independent of T-asm) -/
theorem cell_numbers_1d_eq (nx i : ℕ) :
    cell_numbers_1d_shape nx = [nx + 2] ∧ cell_numbers_1d nx i = i := by
  refine ⟨?_, ?_⟩
  · simp only [cell_numbers_1d_shape]
  · simp only [cell_numbers_1d]

theorem cell_numbers_2d_eq (nx ny i j : ℕ) :
    cell_numbers_2d_shape nx ny = [nx + 2, ny + 2] ∧ cell_numbers_2d nx ny i j = i * (ny + 2) + j := by
  refine ⟨?_, ?_⟩
  · simp only [cell_numbers_2d_shape]
  · simp only [cell_numbers_2d] <;> ring

theorem cell_numbers_3d_eq (nx ny nz i j k : ℕ) :
    cell_numbers_3d_shape nx ny nz = [nx + 2, ny + 2, nz + 2] ∧
    cell_numbers_3d nx ny nz i j k = (i * (ny + 2) + j) * (nz + 2) + k := by
  refine ⟨?_, ?_⟩
  · simp only [cell_numbers_3d_shape]
  · simp only [cell_numbers_3d] <;> ring

/-- the numbering is a bijection of the ghosted box onto `0 .. (nx+2)(ny+2) - 1` (in range and injective) -/
theorem cell_numbers_2d_range (nx ny i j : ℕ) (hi : i < nx + 2) (hj : j < ny + 2) :
    cell_numbers_2d nx ny i j < (nx + 2) * (ny + 2) := by
  rw [(cell_numbers_2d_eq nx ny i j).2]
  have h : (i + 1) * (ny + 2) ≤ (nx + 2) * (ny + 2) := Nat.mul_le_mul_right _ (by omega)
  have e : (i + 1) * (ny + 2) = i * (ny + 2) + (ny + 2) := by ring
  omega

theorem cell_numbers_2d_inj (nx ny i j i' j' : ℕ) (hj : j < ny + 2) (hj' : j' < ny + 2)
    (h : cell_numbers_2d nx ny i j = cell_numbers_2d nx ny i' j') : i = i' ∧ j = j' := by
  rw [(cell_numbers_2d_eq nx ny i j).2, (cell_numbers_2d_eq nx ny i' j').2] at h
  have hq : (i * (ny + 2) + j) / (ny + 2) = (i' * (ny + 2) + j') / (ny + 2) := by rw [h]
  have hp : 0 < ny + 2 := by omega
  rw [Nat.mul_comm i, Nat.mul_comm i', Nat.mul_add_div hp, Nat.mul_add_div hp, Nat.div_eq_of_lt hj,
    Nat.div_eq_of_lt hj'] at hq
  have : i = i' := by omega
  subst this
  exact ⟨rfl, by omega⟩

/-! ### non-vacuity / concrete values (faces 1, 2, 4, 7 of `Examples.f3`; ten cells on [0, 5]) -/

example : (List.range 5).map (faces1_cellsize_x 3 Examples.f3) = [1, 1, 2, 3, 3] := by
  simp [List.range, List.range.loop, faces1_cellsize_x, Examples.f3]; norm_num
example : (List.range 3).map (faces1_cellcenters_x 3 Examples.f3) = [3/2, 3, 11/2] := by
  simp [List.range, List.range.loop, faces1_cellcenters_x, Examples.f3]; norm_num
example : (List.range 4).map (faces1_facecenters_x 3 Examples.f3) = [1, 2, 4, 7] := by
  simp [List.range, List.range.loop, faces1_facecenters_x, Examples.f3]
/-- one cell (n = 1): sizes f1-f0 three times; p = n+1 = 2 is the trailing ghost -/
example (f : ℕ → α) : faces1_cellsize_x 1 f 0 = f 1 - f 0 ∧ faces1_cellsize_x 1 f 1 = f 1 - f 0 ∧
    faces1_cellsize_x 1 f 2 = f 1 - f 0 := by
  simp [faces1_cellsize_x]
example : nl1_cellsize_x 10 (5 : ℚ) 11 = 1/2 ∧ nl1_cellcenters_x 10 (5 : ℚ) 0 = 1/4 ∧
    nl1_cellcenters_x 10 (5 : ℚ) 9 = 19/4 ∧ nl1_facecenters_x 10 (5 : ℚ) 10 = 5 := by
  simp [nl1_cellsize_x, nl1_cellcenters_x, nl1_facecenters_x]; norm_num
example : StrictIncr 3 Examples.f3 ∧ (1 : ℕ) ≤ 3 := ⟨Examples.f3_incr, by norm_num⟩
example : cell_numbers_2d 3 4 2 3 = 15 ∧ cell_numbers_3d 1 1 1 2 2 2 = 26 := by decide
/-- the example meshes are of the form the leaf-table theorems speak about -/
example (k : Kind) : (Examples.mesh k).ax = mkAxisFaces 3 Examples.f3 := rfl

end PyFV.GenEqMesh
