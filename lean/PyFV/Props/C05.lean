/-
  Property C05 — implicit matrix terms and the explicit gradient/mean/divergence chain agree.

  For every grid class, every well-formed (arbitrarily non-uniform) mesh of any size, every
  coefficient / velocity field of any sign pattern and *every* ghosted field φ, the seven-point
  matrix row applied to φ equals the discrete divergence of the corresponding face flux.
  The operators being linear, the identity for all φ is one polynomial identity.
-/
import PyFV.Lemmas.Operators
import PyFV.Lemmas.WF
import PyFV.Props.Examples

set_option linter.unusedSectionVars false

namespace PyFV.C05
open PyFV

variable {α : Type} [Field α] [LinearOrder α] [IsStrictOrderedRing α]

/-- `diffusionTerm(D) · φ = divergenceTerm(D * gradientTerm(φ))` in every interior cell -/
theorem diffusion_eq_div_grad (M : Mesh α) (hM : M.WF) (D : FaceFld α) (φ : CellFld α) (c : Idx)
    (hc : M.interior c) :
    (diffusionRow M D c).app φ c = divergence M (FaceFld.mul D (gradD M φ)) c := by
  unfold diffusionRow divergence
  rw [St7.ofDirs_app]
  exact sumDirs_congr _ _ _ (fun d hd => diffSt_eq_div_grad M D φ d c (lineOK_of_WF hM hd hc))

/-- `convectionTerm(u) · φ = divergenceTerm(u * linearMean(φ))` -/
theorem convection_eq_div_lin (M : Mesh α) (hM : M.WF) (u : FaceFld α) (φ : CellFld α) (c : Idx)
    (hc : M.interior c) :
    (convectionRow M u c).app φ c = divergence M (FaceFld.mul u (linMean M φ)) c := by
  unfold convectionRow divergence
  rw [St7.ofDirs_app]
  exact sumDirs_congr _ _ _ (fun d hd => convSt_eq_div_lin M u φ d c (lineOK_of_WF hM hd hc))

/-- `convectionUpwindTerm(u, uUp) · φ = divergenceTerm(u * upwindMean(φ, uUp))`, boundary
    corrections included, for every sign pattern; `UpOK` (the velocity vanishes wherever the
    upwind-direction field is exactly zero) holds automatically for the default `uUp = u`. -/
theorem upwind_eq_div_upMean (M : Mesh α) (hM : M.WF) (u uUp : FaceFld α) (hU : UpOK u uUp)
    (φ : CellFld α) (c : Idx) (hc : M.interior c) :
    (upwindRow M u uUp c).app φ c = divergence M (FaceFld.mul u (upMean M φ uUp)) c := by
  unfold upwindRow divergence
  rw [St7.ofDirs_app]
  exact sumDirs_congr _ _ _ (fun d hd =>
    upwindSt_eq_div_upMean M u uUp φ d c (lineOK_of_WF hM hd hc) (Mesh.interior_get hc d).2 hU)

theorem upwind_eq_div_upMean_default (M : Mesh α) (hM : M.WF) (u : FaceFld α)
    (φ : CellFld α) (c : Idx) (hc : M.interior c) :
    (upwindRow M u u c).app φ c = divergence M (FaceFld.mul u (upMean M φ u)) c :=
  upwind_eq_div_upMean M hM u u (upOK_self u) φ c hc

/-- the excluded corner is real: where the upwind-direction field is exactly zero but the
    velocity is not, the matrix takes both neighbours with full weight while the mean takes
    their average (documented in DESIGN.md; not reachable with the default `uUp = u`). -/
theorem upwind_flux_at_zero_upwind_direction (M : Mesh α) (u uUp : FaceFld α) (φ : CellFld α)
    (d : Dir) (c : Idx) (h0 : uUp d c = 0) (hi : 1 ≤ c.get d) (hn : c.get d + 1 ≤ M.n d) :
    upFlux M u uUp φ d c = 2 * (u d c * upMean M φ uUp d c) := by
  have a : ¬ c.get d = 0 := by omega
  have b : ¬ c.get d = M.n d + 1 := by omega
  have a' : ¬ c.get d + 1 = 0 := by omega
  have b' : ¬ c.get d = M.n d := by omega
  simp [upFlux, upMean, uMax, uMin, phiTmp, h0, a, b, a', b']
  ring

/-- zero limiter: the TVD correction vanishes for every field -/
theorem tvd_zero_limiter (M : Mesh α) (u uUp : FaceFld α) (e : α) (φ : CellFld α) (c : Idx) :
    tvdRHS M u uUp (fun _ => 0) e φ c = 0 := by
  unfold tvdRHS divergence divD
  simp [tvdFlux_zero_limiter, sumDirs]

/-- unit limiter on uniform axes: upwind operator minus the TVD right-hand side is the central
    operator (boundary faces included) — implicit and explicit formulations discretise one operator -/
theorem tvd_unit_limiter_uniform (M : Mesh α) (hM : M.WF) (u uUp : FaceFld α) (hU : UpOK u uUp)
    (FL : α → α) (hFL : ∀ r, FL r = 1) (e : α) (φ : CellFld α) (c : Idx) (hc : M.interior c)
    (hunif : ∀ d, M.kind.active d = true → ∀ i j, (M.axis d).DX i = (M.axis d).DX j) :
    (upwindRow M u uUp c).app φ c - tvdRHS M u uUp FL e φ c = (convectionRow M u c).app φ c := by
  unfold upwindRow convectionRow tvdRHS divergence
  rw [St7.ofDirs_app, St7.ofDirs_app, sub_neg_eq_add, ← sumDirs_add]
  exact sumDirs_congr _ _ _ (fun d hd =>
    upwind_add_tvd_unit_eq_central M u uUp FL e φ hFL hU d c (lineOK_of_WF hM hd hc)
      (Mesh.interior_get hc d).2 (hunif d hd))

/-! ### non-vacuity: the hypotheses are met by concrete non-uniform meshes of every class -/

example (k : Kind) : (Examples.mesh k).WF ∧ (Examples.mesh k).interior (1, 1, 1) :=
  ⟨Examples.mesh_WF k, Examples.interior_111 k⟩

example (k : Kind) (D : FaceFld ℚ) (φ : CellFld ℚ) :
    (diffusionRow (Examples.mesh k) D (1,1,1)).app φ (1,1,1)
      = divergence (Examples.mesh k) (FaceFld.mul D (gradD (Examples.mesh k) φ)) (1,1,1) :=
  diffusion_eq_div_grad _ (Examples.mesh_WF k) D φ _ (Examples.interior_111 k)

end PyFV.C05
