/-
  Property C14 — variable algebra: the operator table.

  `PyFV.Gen.Ops` is GENERATED on every run from the dunder methods of `CellVariable` and
  `FaceVariable` (translator T-ops).  Here the generated table is compared, completely, with the
  specification: which numpy operation each method performs, in which operand order (reflected
  operators!), that the result lives on `self.domain`, and that a CellVariable result carries
  `deepcopy(self.BCs)` — the boundary conditions of the variable the method was called on, i.e. of the
  left-most variable operand (Python calls the reflected method only when the left operand is not
  a variable).  Freshness / independence of the result objects is the subject of the effect
  certificates (`PyFV.Gen.Eff.safe_CellVariable___add__` …, soundness theorem in `PyFV.Props.C15`)
  and of the state-machine theorems `C09.copy_gets_fresh_bc`.
-/
import PyFV.Gen.Operators

namespace PyFV.C14
open PyFV.Gen.Ops

/-- the specification: method ↦ (numpy operation, operand order; "any" for commutative operations) -/
def spec : List (String × String × String) :=
  [("__add__", "add", "any"), ("__radd__", "add", "any"),
   ("__sub__", "sub", "so"), ("__rsub__", "sub", "os"),
   ("__mul__", "mul", "any"), ("__rmul__", "mul", "any"),
   ("__truediv__", "div", "so"), ("__rtruediv__", "div", "os"),
   ("__neg__", "neg", "s"),
   ("__pow__", "pow", "so"), ("__rpow__", "pow", "os"),
   ("__gt__", "gt", "so"), ("__ge__", "ge", "so"), ("__lt__", "lt", "so"), ("__le__", "le", "so"),
   ("__and__", "land", "any"), ("__or__", "lor", "any"),
   ("__abs__", "abs", "s")]

/-- does a generated row conform to a specification row? -/
def conforms (bcs : String) (g : String × OpInfo) (s : String × String × String) : Bool :=
  g.1 == s.1 && g.2.op == s.2.1 && (s.2.2 == "any" || g.2.order == s.2.2) && g.2.selfDomain && g.2.bcs == bcs

/-- whole-table conformance: same methods in the same order, each conforming -/
def tableOK (bcs : String) (t : List (String × OpInfo)) : Bool :=
  t.length == spec.length && (t.zip spec).all (fun p => conforms bcs p.1 p.2)

/-- CellVariable ∘ CellVariable: every operator and reflected operator performs the specified
    operation in the specified order, on `self.domain`, with `deepcopy(self.BCs)` -/
theorem cell_var_table : tableOK "deepcopySelf" cellVar = true := by decide

/-- CellVariable ∘ scalar/ndarray -/
theorem cell_other_table : tableOK "deepcopySelf" cellOther = true := by decide

/-- FaceVariable ∘ FaceVariable (all three components use the same operation) -/
theorem face_var_table : tableOK "none" faceVar = true := by decide

/-- FaceVariable ∘ scalar/ndarray -/
theorem face_other_table : tableOK "none" faceOther = true := by decide

/-- nothing was left untranslated -/
theorem nothing_untranslated : cellUntranslated = [] ∧ faceUntranslated = [] := by decide

/-- reflected subtraction / division / power really are reflected (`other ∘ self`) -/
theorem reflected_ops_reversed :
    (cellVar.lookup "__rsub__").map (·.order) = some "os" ∧
    (cellVar.lookup "__rtruediv__").map (·.order) = some "os" ∧
    (cellVar.lookup "__rpow__").map (·.order) = some "os" ∧
    (cellVar.lookup "__sub__").map (·.order) = some "so" := by decide

/-- a table with a swapped reflected subtraction would be rejected (the check is not vacuous) -/
example : tableOK "deepcopySelf"
    (cellVar.map (fun r => if r.1 == "__rsub__" then (r.1, { r.2 with order := "so" }) else r)) = false := by decide

end PyFV.C14
