/-
  PyFV.Lemmas.Operators — per-direction operator identities on a grid line:
  every matrix stencil is the divergence of a face flux.
-/
import PyFV.Lemmas.Basic

set_option linter.unusedSectionVars false

namespace PyFV

variable {α : Type} [Field α] [LinearOrder α] [IsStrictOrderedRing α]

/-- pointwise product of two face fields -/
def FaceFld.mul (F G : FaceFld α) : FaceFld α := fun d c => F d c * G d c

/-- diffusion stencil = divergence of `D · grad φ` (any spacing, any metric) -/
theorem diffSt_eq_div_grad (M : Mesh α) (D : FaceFld α) (φ : CellFld α) (d : Dir) (c : Idx)
    (h : LineOK M d c) :
    (diffSt M D d c).app φ d c = divD M (FaceFld.mul D (gradD M φ)) d c := by
  have hm := h.m0; have hV := h.V0
  have h1 := h.dxf_ne (c.get d); have h0 := h.dxf_ne (c.get d - 1)
  have hnp : (c.prev d).next d = c := Idx.next_prev c d h.i1
  simp only [diffSt, St3.app, divD, gradD, FaceFld.mul, lineM_prev, Idx.prev_get, hnp]
  rw [show c.set d (c.get d - 1) = c.prev d from rfl, show c.set d (c.get d + 1) = c.next d from rfl]
  field_simp
  ring

/-- central convection stencil = divergence of `u · linearMean φ` -/
theorem convSt_eq_div_lin (M : Mesh α) (u : FaceFld α) (φ : CellFld α) (d : Dir) (c : Idx)
    (h : LineOK M d c) :
    (convSt M u d c).app φ d c = divD M (FaceFld.mul u (linMean M φ)) d c := by
  have hm := h.m0; have hV := h.V0
  have hs1 := h.sum_ne (c.get d) (c.get d + 1)
  have hs0 := h.sum_ne (c.get d) (c.get d - 1)
  have hs1' := h.sum_ne (c.get d + 1) (c.get d)
  have hnp : (c.prev d).next d = c := Idx.next_prev c d h.i1
  have e1 : c.get d - 1 + 1 = c.get d := by have := h.i1; omega
  simp only [convSt, St3.app, divD, linMean, FaceFld.mul, Idx.prev_get, hnp, e1]
  rw [show c.set d (c.get d - 1) = c.prev d from rfl, show c.set d (c.get d + 1) = c.next d from rfl]
  field_simp
  ring

/-- the face value the upwind matrix uses, written with the selected velocities:
    `u⁺·(west value) + u⁻·(east value)`, boundary faces using the face average -/
def upFlux (M : Mesh α) (u uUp : FaceFld α) (φ : CellFld α) : FaceFld α := fun d c =>
  uMax u uUp d c * phiTmp M φ d c + uMin u uUp d c * phiTmp M φ d (c.next d)

/-- hypothesis under which "selected velocities" and `u · upwindMean(φ, uUp)` coincide:
    the velocity vanishes wherever the upwind-direction field is exactly zero
    (always true for the default `uUp = u`) -/
def UpOK (u uUp : FaceFld α) : Prop := ∀ d c, uUp d c = 0 → u d c = 0

theorem upOK_self (u : FaceFld α) : UpOK u u := fun _ _ h => h

theorem upFlux_eq_u_upMean (M : Mesh α) (u uUp : FaceFld α) (φ : CellFld α) (hU : UpOK u uUp)
    (d : Dir) (c : Idx) :
    upFlux M u uUp φ d c = u d c * upMean M φ uUp d c := by
  unfold upFlux upMean uMax uMin
  rcases lt_trichotomy (uUp d c) 0 with hlt | heq | hgt
  · have h1 : ¬ (0 < uUp d c) := not_lt.mpr (le_of_lt hlt)
    have h2 : uUp d c ≠ 0 := ne_of_lt hlt
    simp [hlt, h1, h2]
  · have hu := hU d c heq
    simp [heq, hu]
  · have h1 : ¬ (uUp d c < 0) := not_lt.mpr (le_of_lt hgt)
    have h2 : uUp d c ≠ 0 := ne_of_gt hgt
    simp [hgt, h1, h2]

/-- upwind stencil (with both boundary corrections, also when one cell is first and last)
    = divergence of the upwind face flux -/
theorem upwindSt_eq_div_upFlux (M : Mesh α) (u uUp : FaceFld α) (φ : CellFld α) (d : Dir) (c : Idx)
    (h : LineOK M d c) (hn : c.get d ≤ M.n d) :
    (upwindSt M u uUp d c).app φ d c = divD M (upFlux M u uUp φ) d c := by
  have hm := h.m0; have hV := h.V0
  have hnp : (c.prev d).next d = c := Idx.next_prev c d h.i1
  have hi1 := h.i1
  have hpn : (c.next d).prev d = c := Idx.prev_next c d
  -- phiTmp at the four places
  have t_c : phiTmp M φ d c = φ c := by
    unfold phiTmp
    have a : ¬ c.get d = 0 := by omega
    have b : ¬ c.get d = M.n d + 1 := by omega
    simp [a, b]
  have t_e : phiTmp M φ d (c.next d)
      = if c.get d = M.n d then (φ (c.next d) + φ c) / 2 else φ (c.next d) := by
    unfold phiTmp
    simp only [Idx.next_get, hpn]
    have a : ¬ c.get d + 1 = 0 := by omega
    simp [a]
  have t_w : phiTmp M φ d (c.prev d)
      = if c.get d = 1 then (φ (c.prev d) + φ c) / 2 else φ (c.prev d) := by
    unfold phiTmp
    simp only [Idx.prev_get, hnp]
    have b : ¬ c.get d - 1 = M.n d + 1 := by omega
    have e : (c.get d - 1 = 0) = (c.get d = 1) := by
      apply propext; constructor <;> intro <;> omega
    simp [b, e]
  simp only [upwindSt, St3.app, divD, upFlux, hnp, t_c, t_e, t_w]
  rw [show c.set d (c.get d - 1) = c.prev d from rfl, show c.set d (c.get d + 1) = c.next d from rfl]
  generalize uMax u uUp d c = a1
  generalize uMin u uUp d c = a2
  generalize uMax u uUp d (c.prev d) = b1
  generalize uMin u uUp d (c.prev d) = b2
  by_cases c1 : c.get d = 1 <;> by_cases c2 : c.get d = M.n d
  · simp only [eq_true c1, eq_true c2, if_true]; field_simp; ring
  · simp only [eq_true c1, eq_false c2, if_true, if_false]; field_simp; ring
  · simp only [eq_false c1, eq_true c2, if_true, if_false]; field_simp; ring
  · simp only [eq_false c1, eq_false c2, if_false]; field_simp; ring

/-- upwind stencil = divergence of `u · upwindMean(φ, uUp)` -/
theorem upwindSt_eq_div_upMean (M : Mesh α) (u uUp : FaceFld α) (φ : CellFld α) (d : Dir) (c : Idx)
    (h : LineOK M d c) (hn : c.get d ≤ M.n d) (hU : UpOK u uUp) :
    (upwindSt M u uUp d c).app φ d c = divD M (FaceFld.mul u (upMean M φ uUp)) d c := by
  rw [upwindSt_eq_div_upFlux M u uUp φ d c h hn]
  unfold divD FaceFld.mul
  rw [upFlux_eq_u_upMean M u uUp φ hU, upFlux_eq_u_upMean M u uUp φ hU]

/-! ### linearity of the divergence, constants -/

theorem divD_add (M : Mesh α) (F G : FaceFld α) (d : Dir) (c : Idx) :
    divD M (fun d c => F d c + G d c) d c = divD M F d c + divD M G d c := by
  unfold divD; ring

theorem divD_smul (M : Mesh α) (a : α) (F : FaceFld α) (d : Dir) (c : Idx) :
    divD M (fun d c => a * F d c) d c = a * divD M F d c := by
  unfold divD; ring

theorem divD_congr (M : Mesh α) (F G : FaceFld α) (d : Dir) (c : Idx)
    (h1 : F d c = G d c) (h0 : F d (c.prev d) = G d (c.prev d)) : divD M F d c = divD M G d c := by
  unfold divD; rw [h1, h0]

theorem uMax_add_uMin (u uUp : FaceFld α) (hU : UpOK u uUp) (d : Dir) (c : Idx) :
    uMax u uUp d c + uMin u uUp d c = u d c := by
  unfold uMax uMin
  rcases lt_trichotomy (uUp d c) 0 with hlt | heq | hgt
  · have h1 : ¬ (0 < uUp d c) := not_lt.mpr (le_of_lt hlt)
    simp [hlt, h1]
  · have hu := hU d c heq
    simp [heq, hu]
  · have h1 : ¬ (uUp d c < 0) := not_lt.mpr (le_of_lt hgt)
    simp [hgt, h1]

/-- diffusion of a constant field vanishes (no hypothesis at all: `a_P = −(a_E + a_W)`) -/
theorem diffSt_const (M : Mesh α) (D : FaceFld α) (k : α) (d : Dir) (c : Idx) :
    (diffSt M D d c).app (fun _ => k) d c = 0 := by
  simp only [diffSt, St3.app]; ring

theorem linMean_const (M : Mesh α) (k : α) (d : Dir) (c : Idx)
    (h : (M.axis d).DX (c.get d + 1) + (M.axis d).DX (c.get d) ≠ 0) :
    linMean M (fun _ => k) d c = k := by
  simp only [linMean]; field_simp

theorem phiTmp_const (M : Mesh α) (k : α) (d : Dir) (c : Idx) : phiTmp M (fun _ => k) d c = k := by
  simp only [phiTmp]; split_ifs <;> ring

/-- central convection of a constant field = constant × discrete divergence of the velocity -/
theorem convSt_const (M : Mesh α) (u : FaceFld α) (k : α) (d : Dir) (c : Idx) (h : LineOK M d c) :
    (convSt M u d c).app (fun _ => k) d c = k * divD M u d c := by
  rw [convSt_eq_div_lin M u _ d c h, ← divD_smul]
  apply divD_congr
  · simp only [FaceFld.mul]; rw [linMean_const M k d c (h.sum_ne _ _)]; ring
  · simp only [FaceFld.mul]; rw [linMean_const M k d (c.prev d) (h.sum_ne _ _)]; ring

/-- upwind convection of a constant field = constant × discrete divergence of the velocity -/
theorem upwindSt_const (M : Mesh α) (u uUp : FaceFld α) (k : α) (d : Dir) (c : Idx)
    (h : LineOK M d c) (hn : c.get d ≤ M.n d) (hU : UpOK u uUp) :
    (upwindSt M u uUp d c).app (fun _ => k) d c = k * divD M u d c := by
  rw [upwindSt_eq_div_upFlux M u uUp _ d c h hn, ← divD_smul]
  apply divD_congr <;>
  · simp only [upFlux, phiTmp_const]
    rw [← uMax_add_uMin u uUp hU]; ring

/-! ### TVD correction -/

theorem psiP_const (M : Mesh α) (FL : α → α) (e k : α) (d : Dir) (c : Idx) :
    psiP M FL e (fun _ => k) d c = 0 := by
  unfold psiP; split_ifs <;> ring

theorem psiM_const (M : Mesh α) (FL : α → α) (e k : α) (d : Dir) (c : Idx) :
    psiM M FL e (fun _ => k) d c = 0 := by
  unfold psiM; split_ifs <;> ring

/-- the TVD flux correction of a constant field vanishes, for every limiter -/
theorem tvdFlux_const (M : Mesh α) (u uUp : FaceFld α) (FL : α → α) (e k : α) (d : Dir) (c : Idx) :
    tvdFlux M u uUp FL e (fun _ => k) d c = 0 := by
  simp [tvdFlux, psiP_const, psiM_const]

/-- zero limiter ⇒ zero TVD flux correction, for every field -/
theorem tvdFlux_zero_limiter (M : Mesh α) (u uUp : FaceFld α) (e : α) (φ : CellFld α) (d : Dir) (c : Idx) :
    tvdFlux M u uUp (fun _ => 0) e φ d c = 0 := by
  simp [tvdFlux, psiP, psiM]

/-- unit limiter on a face of an axis that is uniform around that face: upwind face flux
    plus TVD correction is the central (arithmetic = linear) face flux -/
theorem upFlux_add_tvd_unit (M : Mesh α) (u uUp : FaceFld α) (FL : α → α) (e : α) (φ : CellFld α)
    (hFL : ∀ r, FL r = 1) (hU : UpOK u uUp) (d : Dir) (c : Idx) (hn : c.get d ≤ M.n d) :
    upFlux M u uUp φ d c + tvdFlux M u uUp FL e φ d c = u d c * ((φ c + φ (c.next d)) / 2) := by
  have hpn : (c.next d).prev d = c := Idx.prev_next c d
  have key1 : phiTmp M φ d c + psiP M FL e φ d c = (φ c + φ (c.next d)) / 2 := by
    unfold phiTmp psiP
    by_cases h0 : c.get d = 0
    · simp [h0]
    · have b : ¬ c.get d = M.n d + 1 := by omega
      simp only [h0, b, if_false, hFL]; ring
  have key2 : phiTmp M φ d (c.next d) + psiM M FL e φ d c = (φ c + φ (c.next d)) / 2 := by
    unfold phiTmp psiM
    simp only [Idx.next_get, hpn]
    have a : ¬ c.get d + 1 = 0 := by omega
    by_cases hN : c.get d = M.n d
    · simp [hN]; ring
    · have b : ¬ c.get d + 1 = M.n d + 1 := by omega
      simp only [a, b, hN, if_false, hFL]; ring
  unfold upFlux tvdFlux
  have : uMax u uUp d c * phiTmp M φ d c + uMin u uUp d c * phiTmp M φ d (c.next d)
      + (uMax u uUp d c * psiP M FL e φ d c + uMin u uUp d c * psiM M FL e φ d c)
      = uMax u uUp d c * (phiTmp M φ d c + psiP M FL e φ d c)
        + uMin u uUp d c * (phiTmp M φ d (c.next d) + psiM M FL e φ d c) := by ring
  rw [this, key1, key2, ← uMax_add_uMin u uUp hU]; ring

theorem linMean_uniform (M : Mesh α) (φ : CellFld α) (d : Dir) (c : Idx)
    (hu : (M.axis d).DX (c.get d + 1) = (M.axis d).DX (c.get d)) (hp : 0 < (M.axis d).DX (c.get d)) :
    linMean M φ d c = (φ c + φ (c.next d)) / 2 := by
  simp only [linMean, hu]
  have : (M.axis d).DX (c.get d) ≠ 0 := ne_of_gt hp
  field_simp
  ring

/-- unit limiter, uniform axis: upwind stencil + divergence of the TVD flux = central stencil -/
theorem upwind_add_tvd_unit_eq_central (M : Mesh α) (u uUp : FaceFld α) (FL : α → α) (e : α)
    (φ : CellFld α) (hFL : ∀ r, FL r = 1) (hU : UpOK u uUp) (d : Dir) (c : Idx)
    (h : LineOK M d c) (hn : c.get d ≤ M.n d)
    (hunif : ∀ i j, (M.axis d).DX i = (M.axis d).DX j) :
    (upwindSt M u uUp d c).app φ d c + divD M (tvdFlux M u uUp FL e φ) d c
      = (convSt M u d c).app φ d c := by
  rw [upwindSt_eq_div_upFlux M u uUp φ d c h hn, convSt_eq_div_lin M u φ d c h, ← divD_add]
  apply divD_congr
  · rw [upFlux_add_tvd_unit M u uUp FL e φ hFL hU d c hn]
    simp only [FaceFld.mul]
    rw [linMean_uniform M φ d c (hunif _ _) (h.DXp _)]
  · have hn' : (c.prev d).get d ≤ M.n d := by simp; omega
    rw [upFlux_add_tvd_unit M u uUp FL e φ hFL hU d (c.prev d) hn']
    simp only [FaceFld.mul]
    rw [linMean_uniform M φ d (c.prev d) (hunif _ _) (h.DXp _)]

end PyFV
