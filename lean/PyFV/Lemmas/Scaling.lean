/-
  PyFV.Lemmas.Scaling — change of units: rescaling of meshes, fields and boundary data,
  the homogeneity exponents of the metric table and the ratios through which every
  operator can be written.
-/
import PyFV.Lemmas.Operators
import PyFV.Lemmas.WF
import PyFV.Props.Examples
import Mathlib.Tactic.NormNum
import Mathlib.Tactic.LinearCombination

set_option linter.unusedSectionVars false

namespace PyFV

variable {α : Type} [Field α] [LinearOrder α] [IsStrictOrderedRing α]

/-! ### definitions -/

/-- does the coordinate `d` of grid class `k` carry the dimension of a length?
    (`false` for angles and for the inactive unit axes, which are never rescaled) -/
def Kind.lengthLike (k : Kind) : Dir → Bool
  | .x => true
  | .y => match k with
    | .cart2 | .cyl2 | .cart3 => true
    | _ => false
  | .z => match k with
    | .cart3 | .cyl3 => true
    | _ => false

/-- multiply every position and size of an axis by `L` -/
def Axis.scale (L : α) (a : Axis α) : Axis α where
  n := a.n
  fc := fun i => L * a.fc i
  cen := fun i => L * a.cen i
  DX := fun i => L * a.DX i

/-- change of the unit of length: exactly the length-like axes are rescaled -/
def Mesh.scale (L : α) (M : Mesh α) : Mesh α where
  kind := M.kind
  ax := M.ax.scale L
  ay := if M.kind.lengthLike .y then M.ay.scale L else M.ay
  az := if M.kind.lengthLike .z then M.az.scale L else M.az
  sinC := M.sinC
  sinF := M.sinF
  cosF := M.cosF
  pi := M.pi

def FaceFld.smul (s : α) (F : FaceFld α) : FaceFld α := fun d c => s * F d c
def FaceFld.add (F G : FaceFld α) : FaceFld α := fun d c => F d c + G d c
def CellFld.smul (s : α) (φ : CellFld α) : CellFld α := fun c => s * φ c
def CellFld.add (φ ψ : CellFld α) : CellFld α := fun c => φ c + ψ c

def BFace.scaleUnits (L K : α) (f : BFace α) : BFace α where
  a := fun c => L * f.a c
  b := f.b
  c := fun c => K * f.c c
  periodic := f.periodic

/-- boundary data in the new units: `a` is a length × `b`, `c` has the dimension of the field -/
def BCs.scaleUnits (L K : α) (bc : BCs α) : BCs α where
  lo := fun d => (bc.lo d).scaleUnits L K
  hi := fun d => (bc.hi d).scaleUnits L K

def St3.smul (a : α) (s : St3 α) : St3 α := ⟨a * s.w, a * s.p, a * s.e⟩
def St3.add (s t : St3 α) : St3 α := ⟨s.w + t.w, s.p + t.p, s.e + t.e⟩

/-! ### homogeneity exponents of the metric table -/

/-- `lineV` is homogeneous of degree `eV` in the unit of length -/
def eV : Kind → Dir → ℕ
  | .cyl1, .x | .cyl2, .x | .pol2, .x | .cyl3, .x => 2
  | .sph1, .x | .sph3, .x => 3
  | k, d => if k.lengthLike d then 1 else 0

/-- `lineA` is homogeneous of degree `eA` -/
def eA : Kind → Dir → ℕ
  | .cyl1, .x | .cyl2, .x | .pol2, .x | .cyl3, .x => 1
  | .sph1, .x | .sph3, .x => 2
  | _, _ => 0

/-- `lineM` is homogeneous of degree `eM` -/
def eM : Kind → Dir → ℕ
  | .pol2, .y | .cyl3, .y | .sph3, .y | .sph3, .z => 1
  | _, _ => 0

/-- cell sizes and centre distances along `d` are homogeneous of degree `eX` -/
def eX (k : Kind) (d : Dir) : ℕ := if k.lengthLike d then 1 else 0

theorem eM_add_eV {k : Kind} {d : Dir} (h : k.active d = true) : eM k d + eV k d = eA k d + 1 := by
  revert h; cases k <;> cases d <;> decide

theorem eM_add_eX {k : Kind} {d : Dir} (h : k.active d = true) : eM k d + eX k d = 1 := by
  revert h; cases k <;> cases d <;> decide

theorem pow_eX (L : α) (k : Kind) (d : Dir) : L ^ eX k d = if k.lengthLike d then L else 1 := by
  unfold eX; split_ifs <;> simp

theorem pow_eM_mul_eV (L : α) {k : Kind} {d : Dir} (h : k.active d = true) :
    L ^ eM k d * L ^ eV k d = L ^ eA k d * L := by
  rw [← pow_add, eM_add_eV h, pow_succ]

theorem pow_eM_mul_eX (L : α) {k : Kind} {d : Dir} (h : k.active d = true) :
    L ^ eM k d * L ^ eX k d = L := by
  rw [← pow_add, eM_add_eX h, pow_one]

/-! ### the rescaled mesh -/

@[simp] theorem Mesh.scale_kind (L : α) (M : Mesh α) : (M.scale L).kind = M.kind := rfl
@[simp] theorem Mesh.scale_sinC (L : α) (M : Mesh α) : (M.scale L).sinC = M.sinC := rfl
@[simp] theorem Mesh.scale_sinF (L : α) (M : Mesh α) : (M.scale L).sinF = M.sinF := rfl
@[simp] theorem Mesh.scale_cosF (L : α) (M : Mesh α) : (M.scale L).cosF = M.cosF := rfl
@[simp] theorem Mesh.scale_pi (L : α) (M : Mesh α) : (M.scale L).pi = M.pi := rfl

theorem Mesh.scale_axis (L : α) (M : Mesh α) (d : Dir) :
    (M.scale L).axis d = if M.kind.lengthLike d then (M.axis d).scale L else M.axis d := by
  cases d <;> rfl

@[simp] theorem Mesh.scale_n (L : α) (M : Mesh α) (d : Dir) : (M.scale L).n d = M.n d := by
  unfold Mesh.n; rw [Mesh.scale_axis]; split_ifs <;> rfl

theorem Mesh.scale_axis_n (L : α) (M : Mesh α) (d : Dir) : ((M.scale L).axis d).n = (M.axis d).n :=
  Mesh.scale_n L M d

theorem DX_scale (L : α) (M : Mesh α) (d : Dir) (i : ℕ) :
    ((M.scale L).axis d).DX i = L ^ eX M.kind d * (M.axis d).DX i := by
  rw [Mesh.scale_axis, pow_eX]; split_ifs <;> simp [Axis.scale]

theorem fc_scale (L : α) (M : Mesh α) (d : Dir) (i : ℕ) :
    ((M.scale L).axis d).fc i = L ^ eX M.kind d * (M.axis d).fc i := by
  rw [Mesh.scale_axis, pow_eX]; split_ifs <;> simp [Axis.scale]

theorem cen_scale (L : α) (M : Mesh α) (d : Dir) (i : ℕ) :
    ((M.scale L).axis d).cen i = L ^ eX M.kind d * (M.axis d).cen i := by
  rw [Mesh.scale_axis, pow_eX]; split_ifs <;> simp [Axis.scale]

theorem dxf_scale (L : α) (M : Mesh α) (d : Dir) (f : ℕ) :
    ((M.scale L).axis d).dxf f = L ^ eX M.kind d * (M.axis d).dxf f := by
  unfold Axis.dxf; rw [DX_scale, DX_scale]; ring

/-- metric homogeneity: volume weights -/
theorem lineV_scale (L : α) (M : Mesh α) (d : Dir) (i : ℕ) :
    lineV (M.scale L) d i = L ^ eV M.kind d * lineV M d i := by
  obtain ⟨k, ax, ay, az, sC, sF, cF, p⟩ := M
  cases k <;> cases d <;>
    simp [lineV, Mesh.scale, Axis.scale, Mesh.axis, eV, Kind.lengthLike] <;> ring

/-- metric homogeneity: face area factors -/
theorem lineA_scale (L : α) (M : Mesh α) (d : Dir) (f : ℕ) :
    lineA (M.scale L) d f = L ^ eA M.kind d * lineA M d f := by
  obtain ⟨k, ax, ay, az, sC, sF, cF, p⟩ := M
  cases k <;> cases d <;>
    simp [lineA, Mesh.scale, Axis.scale, eA] <;> ring

/-- metric homogeneity: metric scale of a line -/
theorem lineM_scale (L : α) (M : Mesh α) (d : Dir) (c : Idx) :
    lineM (M.scale L) d c = L ^ eM M.kind d * lineM M d c := by
  obtain ⟨k, ax, ay, az, sC, sF, cF, p⟩ := M
  cases k <;> cases d <;>
    simp [lineM, Mesh.scale, Axis.scale, eM]
  all_goals ring

/-! ### the three scale-covariant ratios every operator is made of -/

/-- area factor of face `j` over the metric volume weight of cell `c` -/
def rA (M : Mesh α) (d : Dir) (c : Idx) (j : ℕ) : α :=
  lineA M d j / (lineM M d c * lineV M d (c.get d))

/-- inverse metric distance across face `j` -/
def gD (M : Mesh α) (d : Dir) (c : Idx) (j : ℕ) : α :=
  1 / (lineM M d c * (M.axis d).dxf j)

/-- cell-size weight `DX j / (DX i + DX k)` -/
def wR (M : Mesh α) (d : Dir) (j i k : ℕ) : α :=
  (M.axis d).DX j / ((M.axis d).DX i + (M.axis d).DX k)

theorem pow_ne {L : α} (hL : L ≠ 0) (n : ℕ) : L ^ n ≠ 0 := pow_ne_zero n hL

theorem rA_scale {L : α} (hL : L ≠ 0) (M : Mesh α) {d : Dir} (hd : M.kind.active d = true)
    (c : Idx) (j : ℕ) : rA (M.scale L) d c j = 1 / L * rA M d c j := by
  unfold rA
  rw [lineA_scale, lineM_scale, lineV_scale]
  rw [show L ^ eM M.kind d * lineM M d c * (L ^ eV M.kind d * lineV M d (c.get d))
      = (L ^ eM M.kind d * L ^ eV M.kind d) * (lineM M d c * lineV M d (c.get d)) by ring,
    pow_eM_mul_eV L hd, mul_div_mul_comm]
  congr 1
  have := pow_ne hL (eA M.kind d)
  field_simp

theorem gD_scale (L : α) (M : Mesh α) {d : Dir} (hd : M.kind.active d = true)
    (c : Idx) (j : ℕ) : gD (M.scale L) d c j = 1 / L * gD M d c j := by
  unfold gD
  rw [lineM_scale, dxf_scale]
  rw [show L ^ eM M.kind d * lineM M d c * (L ^ eX M.kind d * (M.axis d).dxf j)
      = (L ^ eM M.kind d * L ^ eX M.kind d) * (lineM M d c * (M.axis d).dxf j) by ring,
    pow_eM_mul_eX L hd]
  ring

theorem wR_scale {L : α} (hL : L ≠ 0) (M : Mesh α) (d : Dir) (j i k : ℕ) :
    wR (M.scale L) d j i k = wR M d j i k := by
  unfold wR
  rw [DX_scale, DX_scale, DX_scale, ← mul_add, mul_div_mul_left _ _ (pow_ne hL _)]

theorem divD_eq (M : Mesh α) (F : FaceFld α) (d : Dir) (c : Idx) :
    divD M F d c = rA M d c (c.get d) * F d c - rA M d c (c.get d - 1) * F d (c.prev d) := by
  unfold divD rA; ring

theorem gradD_eq (M : Mesh α) (φ : CellFld α) (d : Dir) (c : Idx) :
    gradD M φ d c = (φ (c.next d) - φ c) * gD M d c (c.get d) := by
  unfold gradD gD; ring

theorem diffSt_eq (M : Mesh α) (D : FaceFld α) (d : Dir) (c : Idx) :
    diffSt M D d c =
      ⟨rA M d c (c.get d - 1) * gD M d c (c.get d - 1) * D d (c.prev d),
       -(rA M d c (c.get d) * gD M d c (c.get d) * D d c
          + rA M d c (c.get d - 1) * gD M d c (c.get d - 1) * D d (c.prev d)),
       rA M d c (c.get d) * gD M d c (c.get d) * D d c⟩ := by
  simp only [diffSt, rA, gD]
  congr 1 <;> ring

theorem convSt_eq (M : Mesh α) (u : FaceFld α) (d : Dir) (c : Idx) :
    convSt M u d c =
      ⟨-(rA M d c (c.get d - 1) * u d (c.prev d) * wR M d (c.get d) (c.get d) (c.get d - 1)),
       rA M d c (c.get d) * u d c * wR M d (c.get d + 1) (c.get d) (c.get d + 1)
         - rA M d c (c.get d - 1) * u d (c.prev d) * wR M d (c.get d - 1) (c.get d) (c.get d - 1),
       rA M d c (c.get d) * u d c * wR M d (c.get d) (c.get d) (c.get d + 1)⟩ := by
  simp only [convSt, rA, wR, div_eq_mul_inv, mul_inv]
  congr 1 <;> ring

theorem upwindSt_eq (M : Mesh α) (u uUp : FaceFld α) (d : Dir) (c : Idx) :
    upwindSt M u uUp d c =
      ⟨(if c.get d = 1 then -(rA M d c (c.get d - 1) * uMax u uUp d (c.prev d)) / 2
          else -(rA M d c (c.get d - 1) * uMax u uUp d (c.prev d))),
       (if c.get d = M.n d then
          (if c.get d = 1 then
              rA M d c (c.get d) * uMax u uUp d c - rA M d c (c.get d - 1) * uMin u uUp d (c.prev d)
                - rA M d c (c.get d - 1) * uMax u uUp d (c.prev d) / 2
            else
              rA M d c (c.get d) * uMax u uUp d c - rA M d c (c.get d - 1) * uMin u uUp d (c.prev d))
            + rA M d c (c.get d) * uMin u uUp d c / 2
        else
          (if c.get d = 1 then
              rA M d c (c.get d) * uMax u uUp d c - rA M d c (c.get d - 1) * uMin u uUp d (c.prev d)
                - rA M d c (c.get d - 1) * uMax u uUp d (c.prev d) / 2
            else
              rA M d c (c.get d) * uMax u uUp d c - rA M d c (c.get d - 1) * uMin u uUp d (c.prev d))),
       (if c.get d = M.n d then rA M d c (c.get d) * uMin u uUp d c / 2
          else rA M d c (c.get d) * uMin u uUp d c)⟩ := by
  simp only [upwindSt, rA]
  congr 1 <;> split_ifs <;> ring

/-! ### seven-point lifting -/

theorem St7.ofDirs_congr (k : Kind) (s t : Dir → St3 α)
    (h : ∀ d, k.active d = true → s d = t d) : St7.ofDirs k s = St7.ofDirs k t := by
  unfold St7.ofDirs
  have hx : s .x = t .x := h .x rfl
  by_cases hy : k.active .y = true <;> by_cases hz : k.active .z = true <;>
    simp [hy, hz, hx, h .y, h .z]

theorem St7.ofDirs_smul (k : Kind) (a : α) (s : Dir → St3 α) :
    St7.ofDirs k (fun d => St3.smul a (s d)) = St7.smul a (St7.ofDirs k s) := by
  unfold St7.ofDirs
  by_cases hy : k.active .y = true <;> by_cases hz : k.active .z = true <;>
    simp [hy, hz, St3.smul, St7.smul, mul_add]

theorem St7.ofDirs_add (k : Kind) (s t : Dir → St3 α) :
    St7.ofDirs k (fun d => St3.add (s d) (t d)) = St7.add (St7.ofDirs k s) (St7.ofDirs k t) := by
  unfold St7.ofDirs
  by_cases hy : k.active .y = true <;> by_cases hz : k.active .z = true <;>
    simp [hy, hz, St3.add, St7.add] <;> ring

theorem St7.smul_app (a K : α) (s : St7 α) (x : CellFld α) (c : Idx) :
    (St7.smul a s).app (CellFld.smul K x) c = a * K * s.app x c := by
  simp only [St7.smul, St7.app, CellFld.smul]; ring

theorem St7.smul_add (a : α) (s t : St7 α) :
    St7.smul a (St7.add s t) = St7.add (St7.smul a s) (St7.smul a t) := by
  simp [St7.smul, St7.add, mul_add]

theorem St7.smul_zero (a : α) : St7.smul a (St7.zero : St7 α) = St7.zero := by
  simp [St7.smul, St7.zero]

theorem St7.smul_diag (a b : α) : St7.smul a (St7.diag b) = St7.diag (a * b) := by
  simp [St7.smul, St7.diag]

/-! ### upwind selection under a positive rescaling, and in the velocity at fixed direction -/

theorem uMin_smul {s : α} (hs : 0 < s) (u uUp : FaceFld α) (d : Dir) (c : Idx) :
    uMin (FaceFld.smul s u) (FaceFld.smul s uUp) d c = s * uMin u uUp d c := by
  unfold uMin FaceFld.smul
  by_cases h : 0 < uUp d c
  · have : 0 < s * uUp d c := mul_pos hs h
    simp [h, this]
  · have : ¬ 0 < s * uUp d c := fun h' => h ((mul_pos_iff_of_pos_left hs).mp h')
    simp [h, this]

theorem uMax_smul {s : α} (hs : 0 < s) (u uUp : FaceFld α) (d : Dir) (c : Idx) :
    uMax (FaceFld.smul s u) (FaceFld.smul s uUp) d c = s * uMax u uUp d c := by
  unfold uMax FaceFld.smul
  by_cases h : uUp d c < 0
  · have : s * uUp d c < 0 := mul_neg_of_pos_of_neg hs h
    simp [h, this]
  · have : ¬ s * uUp d c < 0 := by
      intro h'
      apply h
      by_contra h0
      have : 0 ≤ s * uUp d c := mul_nonneg hs.le (not_lt.mp h0)
      exact absurd h' (not_lt.mpr this)
    simp [h, this]

theorem uMin_add (u v uUp : FaceFld α) (d : Dir) (c : Idx) :
    uMin (FaceFld.add u v) uUp d c = uMin u uUp d c + uMin v uUp d c := by
  unfold uMin FaceFld.add; split_ifs <;> simp

theorem uMax_add (u v uUp : FaceFld α) (d : Dir) (c : Idx) :
    uMax (FaceFld.add u v) uUp d c = uMax u uUp d c + uMax v uUp d c := by
  unfold uMax FaceFld.add; split_ifs <;> simp

theorem uMin_smul_left (a : α) (u uUp : FaceFld α) (d : Dir) (c : Idx) :
    uMin (FaceFld.smul a u) uUp d c = a * uMin u uUp d c := by
  unfold uMin FaceFld.smul; split_ifs <;> simp

theorem uMax_smul_left (a : α) (u uUp : FaceFld α) (d : Dir) (c : Idx) :
    uMax (FaceFld.smul a u) uUp d c = a * uMax u uUp d c := by
  unfold uMax FaceFld.smul; split_ifs <;> simp

/-! ### boundary bookkeeping -/

theorem sdiv_mul_left (K x y : α) : sdiv (K * x) y = (sdiv x y).map (K * ·) := by
  unfold sdiv; split_ifs
  · rfl
  · simp [mul_div_assoc]

@[simp] theorem Mesh.scale_ax_n (L : α) (M : Mesh α) : (M.scale L).ax.n = M.ax.n := rfl
@[simp] theorem Mesh.scale_ay_n (L : α) (M : Mesh α) : (M.scale L).ay.n = M.ay.n :=
  Mesh.scale_axis_n L M .y
@[simp] theorem Mesh.scale_az_n (L : α) (M : Mesh α) : (M.scale L).az.n = M.az.n :=
  Mesh.scale_axis_n L M .z

@[simp] theorem Mesh.scale_outCount (L : α) (M : Mesh α) (c : Idx) :
    (M.scale L).outCount c = M.outCount c := by
  unfold Mesh.outCount; rw [Mesh.scale_ay_n, Mesh.scale_az_n]; rfl

@[simp] theorem Mesh.scale_outDir (L : α) (M : Mesh α) (c : Idx) :
    (M.scale L).outDir c = M.outDir c := by
  unfold Mesh.outDir; rw [Mesh.scale_ay_n]; rfl

theorem Mesh.scale_inBox (L : α) (M : Mesh α) (c : Idx) : (M.scale L).inBox c ↔ M.inBox c := by
  unfold Mesh.inBox; rw [Mesh.scale_ay_n, Mesh.scale_az_n]; rfl

/-- a face-ghost cell lies outside the box along an active direction -/
theorem Mesh.outDir_active (M : Mesh α) (c : Idx) (h : M.outCount c = 1) :
    M.kind.active (M.outDir c) = true := by
  unfold Mesh.outCount at h
  unfold Mesh.outDir
  by_cases hx : c.1 = 0 ∨ c.1 = M.ax.n + 1
  · simp only [if_pos hx]; rfl
  · by_cases hy : M.kind.active .y = true ∧ (c.2.1 = 0 ∨ c.2.1 = M.ay.n + 1)
    · simp only [if_neg hx, if_pos hy]; exact hy.1
    · by_cases hz : M.kind.active .z = true ∧ (c.2.2 = 0 ∨ c.2.2 = M.az.n + 1)
      · simp only [if_neg hx, if_neg hy]; exact hz.1
      · simp [hx, hy, hz] at h

@[simp] theorem BCs.scaleUnits_periodicDir (L K : α) (bc : BCs α) (d : Dir) :
    (bc.scaleUnits L K).periodicDir d = bc.periodicDir d := rfl

/-- the Robin gradient coefficient `a/(m·dx)` does not change with the units -/
theorem bcfrac_scale {L : α} (hL : L ≠ 0) (M : Mesh α) {d : Dir} (hd : M.kind.active d = true)
    (a : α) (c : Idx) (j : ℕ) :
    L * a / (lineM (M.scale L) d c * ((M.scale L).axis d).DX j)
      = a / (lineM M d c * (M.axis d).DX j) := by
  rw [lineM_scale, DX_scale]
  rw [show L ^ eM M.kind d * lineM M d c * (L ^ eX M.kind d * (M.axis d).DX j)
      = (L ^ eM M.kind d * L ^ eX M.kind d) * (lineM M d c * (M.axis d).DX j) by ring,
    pow_eM_mul_eX L hd, mul_div_mul_left _ _ hL]

theorem hiGhostCoef_scale {L : α} (hL : L ≠ 0) (K : α) (M : Mesh α) (bc : BCs α) {d : Dir}
    (hd : M.kind.active d = true) (c : Idx) :
    hiGhostCoef (M.scale L) (bc.scaleUnits L K) d c = hiGhostCoef M bc d c := by
  simp only [hiGhostCoef, BCs.scaleUnits, BFace.scaleUnits, Mesh.scale_n, bcfrac_scale hL M hd]

theorem hiCellCoef_scale {L : α} (hL : L ≠ 0) (K : α) (M : Mesh α) (bc : BCs α) {d : Dir}
    (hd : M.kind.active d = true) (c : Idx) :
    hiCellCoef (M.scale L) (bc.scaleUnits L K) d c = hiCellCoef M bc d c := by
  simp only [hiCellCoef, BCs.scaleUnits, BFace.scaleUnits, Mesh.scale_n, bcfrac_scale hL M hd]

theorem loGhostCoef_scale {L : α} (hL : L ≠ 0) (K : α) (M : Mesh α) (bc : BCs α) {d : Dir}
    (hd : M.kind.active d = true) (c : Idx) :
    loGhostCoef (M.scale L) (bc.scaleUnits L K) d c = loGhostCoef M bc d c := by
  simp only [loGhostCoef, BCs.scaleUnits, BFace.scaleUnits, bcfrac_scale hL M hd]

theorem loCellCoef_scale {L : α} (hL : L ≠ 0) (K : α) (M : Mesh α) (bc : BCs α) {d : Dir}
    (hd : M.kind.active d = true) (c : Idx) :
    loCellCoef (M.scale L) (bc.scaleUnits L K) d c = loCellCoef M bc d c := by
  simp only [loCellCoef, BCs.scaleUnits, BFace.scaleUnits, bcfrac_scale hL M hd]

theorem maxOver_congr (f g : ℕ → α) (h : ∀ i, f i = g i) (n : ℕ) : maxOver f n = maxOver g n := by
  have : f = g := funext h
  rw [this]

/-- the diagonal of the decoupled corner rows is unit-independent on every grid class except
    `pol2`, where the code divides `a` by an angle without the metric factor `r` -/
theorem cornerScale_scale {L : α} (hL : L ≠ 0) (K : α) (M : Mesh α) (bc : BCs α)
    (hk : M.kind ≠ .pol2) :
    cornerScale (M.scale L) (bc.scaleUnits L K) = cornerScale M bc := by
  obtain ⟨k, ax, ay, az, sC, sF, cF, p⟩ := M
  cases k <;> first
    | exact absurd rfl hk
    | rfl
    | (simp only [cornerScale, Mesh.scale, Kind.dim, Kind.lengthLike, Axis.scale, BCs.scaleUnits,
        BFace.scaleUnits, if_true]
       apply maxOver_congr
       intro i
       rw [mul_div_mul_left _ _ hL])

/-! ### boundary rows and term lists applied to rescaled fields -/

theorem Row.app_smul (es : List (Idx × α)) (r r' : α) (K : α) (x : CellFld α) :
    Row.app ⟨es, r⟩ (CellFld.smul K x) = K * Row.app ⟨es, r'⟩ x := by
  unfold Row.app
  simp only
  have key : ∀ (l : List (Idx × α)) (acc : α),
      l.foldl (fun acc e => acc + e.2 * CellFld.smul K x e.1) (K * acc)
        = K * l.foldl (fun acc e => acc + e.2 * x e.1) acc := by
    intro l
    induction l with
    | nil => intro acc; rfl
    | cons e l ih =>
      intro acc
      simp only [List.foldl_cons]
      rw [← ih]
      congr 1
      simp only [CellFld.smul]; ring
  have := key es 0
  rwa [mul_zero] at this

/-- `t'` is the term `t` expressed in the new units: matrix entries × `1/T`, right-hand side
    × `K/T` -/
def TermScaled (T K : α) (t t' : TermObj α) : Prop :=
  (∀ c, t'.row c = St7.smul (1 / T) (t.row c)) ∧ (∀ c, t'.rhs c = K / T * t.rhs c)

theorem St7.smul_smul_comm (a b : α) (s : St7 α) :
    St7.smul a (St7.smul b s) = St7.smul b (St7.smul a s) := by
  simp only [St7.smul, St7.mk.injEq]
  refine ⟨?_, ?_, ?_, ?_, ?_, ?_, ?_⟩ <;> ring

theorem TermObj.smul_row (a : α) (t : TermObj α) (c : Idx) :
    (t.smul a).row c = St7.smul a (t.row c) := by
  cases t <;> simp [TermObj.smul, TermObj.row, St7.smul_zero]

theorem TermObj.smul_rhs (a : α) (t : TermObj α) (c : Idx) :
    (t.smul a).rhs c = a * t.rhs c := by
  cases t <;> simp [TermObj.smul, TermObj.rhs]

theorem sumRow_scaled {T K : α} {ts ts' : List (TermObj α)}
    (h : List.Forall₂ (TermScaled T K) ts ts') (c : Idx) :
    sumRow ts' c = St7.smul (1 / T) (sumRow ts c) := by
  unfold sumRow
  have key : ∀ (acc acc' : St7 α), acc' = St7.smul (1 / T) acc →
      ts'.foldl (fun acc t => St7.add acc (t.row c)) acc'
        = St7.smul (1 / T) (ts.foldl (fun acc t => St7.add acc (t.row c)) acc) := by
    induction h with
    | nil => intro acc acc' e; exact e
    | cons hab _ ih =>
      intro acc acc' e
      simp only [List.foldl_cons]
      apply ih
      rw [e, hab.1 c, St7.smul_add]
  exact key _ _ (St7.smul_zero _).symm

theorem sumRhs_scaled {T K : α} {ts ts' : List (TermObj α)}
    (h : List.Forall₂ (TermScaled T K) ts ts') (c : Idx) :
    sumRhs ts' c = K / T * sumRhs ts c := by
  unfold sumRhs
  have key : ∀ (acc acc' : α), acc' = K / T * acc →
      ts'.foldl (fun acc t => acc + t.rhs c) acc'
        = K / T * (ts.foldl (fun acc t => acc + t.rhs c) acc) := by
    induction h with
    | nil => intro acc acc' e; exact e
    | cons hab _ ih =>
      intro acc acc' e
      simp only [List.foldl_cons]
      apply ih
      rw [e, hab.2 c, mul_add]
  exact key _ _ (mul_zero _).symm

/-- every difference quotient the TVD ratios divide by is either an exact zero difference or
    outside the threshold band of `_fsign` in BOTH unit systems -/
def OutsideBand (e : α) (M : Mesh α) (φ : CellFld α) (K L : α) : Prop :=
  ∀ d c, φ (c.next d) = φ c ∨
    (e ≤ |dphi M φ d c| ∧ e ≤ |dphi (M.scale L) (CellFld.smul K φ) d c|)

/-- `x 0, x 1, …, x n` is a run of `n` time steps: step `k` solves the system whose terms are
    built from the previous field -/
def Steps (M : Mesh α) (bc : BCs α) (build : CellFld α → List (TermObj α)) (x : ℕ → CellFld α)
    (n : ℕ) : Prop :=
  ∀ k, k < n → Solves M bc (build (x k)) (x (k + 1))

/-- corner / edge cells of the ghosted box carry the value zero (what the decoupled corner rows
    enforce whenever their diagonal `cornerScale` is non-zero) -/
def CornersZero (M : Mesh α) (x : CellFld α) : Prop :=
  ∀ c, M.inBox c → 2 ≤ M.outCount c → x c = 0

theorem cornersZero_of_solves {M : Mesh α} {bc : BCs α} {ts : List (TermObj α)} {x : CellFld α}
    (h : Solves M bc ts x) (hcs : cornerScale M bc ≠ 0) : CornersZero M x := by
  intro c hc h2
  have h0 := h c hc
  unfold assembleOp assembleRhs bcRow at h0
  rcases hn : M.outCount c with _ | _ | n
  · omega
  · omega
  · simp only [hn] at h0
    have : cornerScale M bc * x c = 0 := by
      simpa [Row.app] using h0
    rcases mul_eq_zero.mp this with h' | h'
    · exact absurd h' hcs
    · exact h'

/-! ### a rescaled well-formed mesh is well-formed -/

theorem Axis.scale_WF {L : α} (hL : 0 < L) {a : Axis α} (h : a.WF) : (a.scale L).WF where
  npos := h.npos
  pos := fun i => mul_pos hL (h.pos i)
  mid := by
    intro i h1 hn
    simp only [Axis.scale] at hn ⊢
    rw [h.mid i h1 hn]; ring
  size := by
    intro i h1 hn
    simp only [Axis.scale] at hn ⊢
    rw [h.size i h1 hn]; ring
  ghost0 := by simp only [Axis.scale]; rw [h.ghost0]
  ghostN := by simp only [Axis.scale]; rw [h.ghostN]

theorem Mesh.scale_WF {L : α} (hL : 0 < L) {M : Mesh α} (h : M.WF) : (M.scale L).WF where
  wx := Axis.scale_WF hL h.wx
  wy := by
    show (if M.kind.lengthLike .y then M.ay.scale L else M.ay).WF
    split_ifs
    · exact Axis.scale_WF hL h.wy
    · exact h.wy
  wz := by
    show (if M.kind.lengthLike .z then M.az.scale L else M.az).WF
    split_ifs
    · exact Axis.scale_WF hL h.wz
    · exact h.wz
  rpos := fun hr i h1 hn => mul_pos hL (h.rpos hr i h1 hn)
  rf0 := fun hr f hf => mul_nonneg hL.le (h.rf0 hr f hf)
  spos := fun hk j h1 hn => h.spos hk j h1 (by rw [← Mesh.scale_ay_n L M]; exact hn)
  pipos := h.pipos

/-! ### facts about the example meshes -/

theorem Examples.ax3_DX_bounds (i : ℕ) : 1 ≤ Examples.ax3.DX i ∧ Examples.ax3.DX i ≤ 3 := by
  simp only [Examples.ax3, mkAxisFaces]
  split_ifs with h0 h1
  · norm_num [Examples.f3]
  · rcases (by omega : i = 1 ∨ i = 2 ∨ i = 3) with rfl | rfl | rfl <;> norm_num [Examples.f3]
  · norm_num [Examples.f3]

theorem Examples.ax3_dxf_bounds (i : ℕ) : 1 ≤ Examples.ax3.dxf i ∧ Examples.ax3.dxf i ≤ 3 := by
  unfold Axis.dxf
  have a := Examples.ax3_DX_bounds i
  have b := Examples.ax3_DX_bounds (i + 1)
  constructor <;> linarith [a.1, a.2, b.1, b.2]

end PyFV
