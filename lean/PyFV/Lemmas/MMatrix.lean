/-
  PyFV.Lemmas.MMatrix — the M-matrix argument behind the discrete maximum principle.

  Part 1: abstract lemmas (one row; a whole system over a `Fintype`; uniqueness).
  Part 2: the seven-point rows of the model: off-diagonal accessor, entry sums, the signs of the
          diffusion / upwind stencils, the row of one implicit step (`stepRow`) and its structure.
  Part 3: what a "step" is on a finite set of cells (`NbrTied`, `IsStep`).
  Part 4: the boundary rows of the model (Dirichlet / no-flux / periodic ghost relations).
  Part 5: the interior cells as a `Finset`; a solution of the assembled system (`Solves`) is a step.
  Part 6: linearity — the difference of two solutions solves the homogeneous system.
-/
import PyFV.Lemmas.Operators
import PyFV.Lemmas.WF
import Mathlib.Algebra.BigOperators.Ring.Finset
import Mathlib.Algebra.Order.BigOperators.Group.Finset
import Mathlib.Data.Fintype.BigOperators
import Mathlib.Order.Interval.Finset.Nat
import Mathlib.Data.Finset.Prod

set_option linter.unusedSectionVars false

namespace PyFV

variable {α : Type} [Field α] [LinearOrder α] [IsStrictOrderedRing α]

/-! ## Part 1 — abstract M-matrix lemmas -/

/-- scalar core: `(w+s)·x ≤ rhs ≤ w·Mx`, `w > 0`, `s ≥ 0` (and `Mx ≥ 0` if `s > 0`) ⇒ `x ≤ Mx` -/
theorem mmatrix_core {w s xp rhs Mx : α} (hw : 0 < w) (hs : 0 ≤ s)
    (h : (w + s) * xp ≤ rhs) (hr : rhs ≤ w * Mx) (hM : 0 < s → 0 ≤ Mx) : xp ≤ Mx := by
  by_contra hlt
  have hlt : Mx < xp := not_le.mp hlt
  rcases eq_or_lt_of_le hs with h0 | hpos
  · rw [← h0, add_zero] at h
    have : w * xp ≤ w * Mx := le_trans h hr
    exact absurd (le_of_mul_le_mul_left this hw) (not_le.mpr hlt)
  · have hMx := hM hpos
    have hxp : 0 < xp := lt_of_le_of_lt hMx hlt
    have h1 := mul_pos hw (sub_pos.2 hlt)
    have h2 := mul_pos hpos hxp
    nlinarith

/-- One row of an M-matrix, general form: off-diagonal coefficients are `≤ 0` and each
    off-diagonal neighbour either does not enter (`a j = 0`) or is `≤` the diagonal value. -/
theorem row_max_rhs {ι : Type} (s : Finset ι) (a x : ι → α) (p : ι) {w sk rhs Mx : α}
    (hoff : ∀ j ∈ s, j ≠ p → a j ≤ 0)
    (hsum : ∑ j ∈ s, a j = w + sk) (hw : 0 < w) (hs : 0 ≤ sk)
    (heq : ∑ j ∈ s, a j * x j = rhs)
    (hle : ∀ j ∈ s, j ≠ p → a j = 0 ∨ x j ≤ x p)
    (hr : rhs ≤ w * Mx) (hM : 0 < sk → 0 ≤ Mx) : x p ≤ Mx := by
  have key : ∑ j ∈ s, a j * x j = (∑ j ∈ s, a j) * x p + ∑ j ∈ s, a j * (x j - x p) := by
    rw [Finset.sum_mul, ← Finset.sum_add_distrib]
    exact Finset.sum_congr rfl (fun j _ => by ring)
  have nn : 0 ≤ ∑ j ∈ s, a j * (x j - x p) := Finset.sum_nonneg (fun j hj => by
    by_cases e : j = p
    · rw [e, sub_self, mul_zero]
    · rcases hle j hj e with h0 | hl
      · rw [h0, zero_mul]
      · exact mul_nonneg_of_nonpos_of_nonpos (hoff j hj e) (sub_nonpos.2 hl))
  refine mmatrix_core hw hs ?_ hr hM
  rw [← hsum, ← heq, key]
  linarith

/-- **Row maximum lemma.**  Stencil positions `s`, coefficients `a`, diagonal position `p`:
    off-diagonals `≤ 0`, row sum `w + sk` with `w > 0`, `sk ≥ 0`, right-hand side `w · dval`,
    every stencil value `≤` the diagonal one, `dval ≤ Mx` (and `0 ≤ Mx` when `sk > 0`)
    ⇒ the diagonal value is `≤ Mx`. -/
theorem row_max {ι : Type} (s : Finset ι) (a x : ι → α) (p : ι) {w sk dval Mx : α}
    (hoff : ∀ j ∈ s, j ≠ p → a j ≤ 0)
    (hsum : ∑ j ∈ s, a j = w + sk) (hw : 0 < w) (hs : 0 ≤ sk)
    (heq : ∑ j ∈ s, a j * x j = w * dval)
    (hle : ∀ j ∈ s, x j ≤ x p)
    (hd : dval ≤ Mx) (hM : 0 < sk → 0 ≤ Mx) : x p ≤ Mx :=
  row_max_rhs s a x p hoff hsum hw hs heq (fun j hj _ => Or.inr (hle j hj))
    (mul_le_mul_of_nonneg_left hd hw.le) hM

/-- **Row minimum lemma** (mirror image of `row_max`). -/
theorem row_min {ι : Type} (s : Finset ι) (a x : ι → α) (p : ι) {w sk dval Mn : α}
    (hoff : ∀ j ∈ s, j ≠ p → a j ≤ 0)
    (hsum : ∑ j ∈ s, a j = w + sk) (hw : 0 < w) (hs : 0 ≤ sk)
    (heq : ∑ j ∈ s, a j * x j = w * dval)
    (hle : ∀ j ∈ s, x p ≤ x j)
    (hd : Mn ≤ dval) (hM : 0 < sk → Mn ≤ 0) : Mn ≤ x p := by
  have h := row_max s a (fun j => -x j) p (w := w) (sk := sk) (dval := -dval) (Mx := -Mn)
    hoff hsum hw hs
    (by rw [mul_neg, ← heq, ← Finset.sum_neg_distrib]
        exact Finset.sum_congr rfl (fun j _ => by ring))
    (fun j hj => neg_le_neg (hle j hj)) (neg_le_neg hd)
    (fun h => neg_nonneg.2 (hM h))
  exact neg_le_neg_iff.1 h

/-- **Global M-matrix bound.**  Unknowns `x : ι → α`, data `d : κ → α` entering with weights
    `W ≥ 0`; every row has non-positive off-diagonals and row sum `Σ_k W i k + s i` with
    `Σ_k W i k > 0`, `s i ≥ 0`.  Then every unknown is `≤` any bound `Mx` of the data
    (`0 ≤ Mx` being needed only if some `s i > 0`). -/
theorem mmatrix_max {ι κ : Type} [Fintype ι] [Fintype κ] (A : ι → ι → α) (W : ι → κ → α)
    (s : ι → α) (x : ι → α) (d : κ → α) (Mx : α)
    (hoff : ∀ i j, j ≠ i → A i j ≤ 0)
    (hsum : ∀ i, ∑ j, A i j = ∑ k, W i k + s i)
    (hW : ∀ i k, 0 ≤ W i k) (hWpos : ∀ i, 0 < ∑ k, W i k) (hs : ∀ i, 0 ≤ s i)
    (heq : ∀ i, ∑ j, A i j * x j = ∑ k, W i k * d k)
    (hd : ∀ k, d k ≤ Mx) (hM : (∃ i, 0 < s i) → 0 ≤ Mx) : ∀ i, x i ≤ Mx := by
  intro i
  obtain ⟨i0, -, hmax⟩ := Finset.exists_max_image Finset.univ x ⟨i, Finset.mem_univ i⟩
  have h0 : x i0 ≤ Mx := by
    refine row_max_rhs Finset.univ (A i0) x i0 (fun j _ hj => hoff i0 j hj) (hsum i0) (hWpos i0)
      (hs i0) (heq i0) (fun j hj _ => Or.inr (hmax j hj)) ?_ (fun h => hM ⟨i0, h⟩)
    rw [Finset.sum_mul]
    exact Finset.sum_le_sum (fun k _ => mul_le_mul_of_nonneg_left (hd k) (hW i0 k))
  exact le_trans (hmax i (Finset.mem_univ i)) h0

/-- no sink (`s ≡ 0`): no sign condition on the bound -/
theorem mmatrix_max_nosink {ι κ : Type} [Fintype ι] [Fintype κ] (A : ι → ι → α) (W : ι → κ → α)
    (x : ι → α) (d : κ → α) (Mx : α)
    (hoff : ∀ i j, j ≠ i → A i j ≤ 0)
    (hsum : ∀ i, ∑ j, A i j = ∑ k, W i k)
    (hW : ∀ i k, 0 ≤ W i k) (hWpos : ∀ i, 0 < ∑ k, W i k)
    (heq : ∀ i, ∑ j, A i j * x j = ∑ k, W i k * d k)
    (hd : ∀ k, d k ≤ Mx) : ∀ i, x i ≤ Mx :=
  mmatrix_max A W (fun _ => 0) x d Mx hoff (fun i => by rw [hsum i, add_zero]) hW hWpos
    (fun _ => le_refl 0) heq hd (fun ⟨_, h⟩ => absurd h (lt_irrefl 0))

/-- with a sink (`s ≥ 0`): the bound must be `≥ 0` -/
theorem mmatrix_max_sink {ι κ : Type} [Fintype ι] [Fintype κ] (A : ι → ι → α) (W : ι → κ → α)
    (s : ι → α) (x : ι → α) (d : κ → α) (Mx : α)
    (hoff : ∀ i j, j ≠ i → A i j ≤ 0)
    (hsum : ∀ i, ∑ j, A i j = ∑ k, W i k + s i)
    (hW : ∀ i k, 0 ≤ W i k) (hWpos : ∀ i, 0 < ∑ k, W i k) (hs : ∀ i, 0 ≤ s i)
    (heq : ∀ i, ∑ j, A i j * x j = ∑ k, W i k * d k)
    (hd : ∀ k, d k ≤ Mx) (hM : 0 ≤ Mx) : ∀ i, x i ≤ Mx :=
  mmatrix_max A W s x d Mx hoff hsum hW hWpos hs heq hd (fun _ => hM)

/-- mirror image: lower bound -/
theorem mmatrix_min {ι κ : Type} [Fintype ι] [Fintype κ] (A : ι → ι → α) (W : ι → κ → α)
    (s : ι → α) (x : ι → α) (d : κ → α) (Mn : α)
    (hoff : ∀ i j, j ≠ i → A i j ≤ 0)
    (hsum : ∀ i, ∑ j, A i j = ∑ k, W i k + s i)
    (hW : ∀ i k, 0 ≤ W i k) (hWpos : ∀ i, 0 < ∑ k, W i k) (hs : ∀ i, 0 ≤ s i)
    (heq : ∀ i, ∑ j, A i j * x j = ∑ k, W i k * d k)
    (hd : ∀ k, Mn ≤ d k) (hM : (∃ i, 0 < s i) → Mn ≤ 0) : ∀ i, Mn ≤ x i := by
  intro i
  have h := mmatrix_max A W s (fun j => -x j) (fun k => -d k) (-Mn) hoff hsum hW hWpos hs
    (fun i => by
      simp only [mul_neg, Finset.sum_neg_distrib, heq i])
    (fun k => neg_le_neg (hd k)) (fun h => neg_nonneg.2 (hM h)) i
  exact neg_le_neg_iff.1 h

/-- **Uniqueness**: non-positive off-diagonals and strictly positive row sums (strict diagonal
    dominance of an M-matrix) make `x ↦ A x` injective. -/
theorem mmatrix_unique {ι : Type} [Fintype ι] (A : ι → ι → α)
    (hoff : ∀ i j, j ≠ i → A i j ≤ 0) (hpos : ∀ i, 0 < ∑ j, A i j) (x y : ι → α)
    (h : ∀ i, ∑ j, A i j * x j = ∑ j, A i j * y j) : x = y := by
  have key : ∀ (u v : ι → α), (∀ i, ∑ j, A i j * u j = ∑ j, A i j * v j) → ∀ i, u i - v i ≤ 0 := by
    intro u v huv
    refine mmatrix_max_nosink (κ := Unit) A (fun i _ => ∑ j, A i j) (fun i => u i - v i)
      (fun _ => 0) 0 hoff (fun i => by simp) (fun i _ => (hpos i).le) (fun i => by simpa using hpos i)
      (fun i => ?_) (fun _ => le_refl 0)
    simp only [mul_sub, Finset.sum_sub_distrib, huv i, sub_self, mul_zero, Finset.sum_const_zero]
  funext i
  have h1 := key x y h i
  have h2 := key y x (fun i => (h i).symm) i
  linarith

/-! ## Part 2 — the seven-point rows of the model -/

/-- off-diagonal entry of a seven-point row: direction `d`, side `b` (`false` = low, `true` = high) -/
def St7.off (s : St7 α) : Dir → Bool → α
  | .x, false => s.xm | .x, true => s.xp
  | .y, false => s.ym | .y, true => s.yp
  | .z, false => s.zm | .z, true => s.zp

def St3.off (s : St3 α) : Bool → α
  | false => s.w
  | true => s.e

/-- neighbour position of `c` in direction `d` on side `b` -/
def Idx.nbr (c : Idx) (d : Dir) : Bool → Idx
  | false => c.prev d
  | true => c.next d

/-- sum of the seven entries -/
def St7.total (s : St7 α) : α := s.p + s.xm + s.xp + s.ym + s.yp + s.zm + s.zp

theorem St7.app_one (s : St7 α) (c : Idx) : s.app (fun _ => 1) c = s.total := by
  simp only [St7.app, St7.total, mul_one]

theorem St7.total_add (s t : St7 α) : (St7.add s t).total = s.total + t.total := by
  simp only [St7.add, St7.total]; ring

theorem St7.total_smul (a : α) (s : St7 α) : (St7.smul a s).total = a * s.total := by
  simp only [St7.smul, St7.total]; ring

theorem St7.total_diag (a : α) : (St7.diag a).total = a := by
  simp only [St7.diag, St7.total]; ring

theorem St7.off_add (s t : St7 α) (d : Dir) (b : Bool) :
    (St7.add s t).off d b = s.off d b + t.off d b := by
  cases d <;> cases b <;> rfl

theorem St7.off_smul (a : α) (s : St7 α) (d : Dir) (b : Bool) :
    (St7.smul a s).off d b = a * s.off d b := by
  cases d <;> cases b <;> rfl

theorem St7.off_diag (a : α) (d : Dir) (b : Bool) : (St7.diag a).off d b = 0 := by
  cases d <;> cases b <;> rfl

/-- entries of `ofDirs`: the 3-point entries in active directions, zero in the others -/
theorem St7.ofDirs_off (k : Kind) (s : Dir → St3 α) (d : Dir) (b : Bool) :
    (St7.ofDirs k s).off d b = if k.active d = true then (s d).off b else 0 := by
  cases d <;> cases b <;> simp only [St7.ofDirs, St7.off, St3.off] <;>
    first
    | (simp [Kind.active]; done)
    | (by_cases h : k.active .y = true <;> simp [h])
    | (by_cases h : k.active .z = true <;> simp [h])

/-- a seven-point row applied to a field, split into the row sum times the diagonal value and
    the off-diagonal differences -/
theorem St7.app_split (R : St7 α) (x : CellFld α) (c : Idx) :
    R.app x c = R.total * x c
      + (R.off .x false * (x (c.nbr .x false) - x c) + R.off .x true * (x (c.nbr .x true) - x c)
       + R.off .y false * (x (c.nbr .y false) - x c) + R.off .y true * (x (c.nbr .y true) - x c)
       + R.off .z false * (x (c.nbr .z false) - x c) + R.off .z true * (x (c.nbr .z true) - x c)) := by
  simp only [St7.app, St7.total, St7.off, Idx.nbr]; ring

/-- the row maximum lemma for a seven-point row: each off-diagonal product
    `entry · (neighbour − centre)` is `≥ 0` -/
theorem St7.row_max (R : St7 α) (x : CellFld α) (c : Idx) {w sk rhs Mx : α}
    (hsum : R.total = w + sk) (hw : 0 < w) (hs : 0 ≤ sk)
    (heq : R.app x c = rhs)
    (hprod : ∀ d b, 0 ≤ R.off d b * (x (c.nbr d b) - x c))
    (hr : rhs ≤ w * Mx) (hM : 0 < sk → 0 ≤ Mx) : x c ≤ Mx := by
  refine mmatrix_core hw hs ?_ hr hM
  rw [← hsum, ← heq, St7.app_split]
  have := hprod .x false; have := hprod .x true
  have := hprod .y false; have := hprod .y true
  have := hprod .z false; have := hprod .z true
  linarith

theorem St7.app_neg (R : St7 α) (x : CellFld α) (c : Idx) :
    R.app (fun c' => -x c') c = -(R.app x c) := by
  simp only [St7.app]; ring

/-! ### positivity along a grid line -/

/-- everything the sign analysis of the stencils along direction `d` through `c` needs -/
structure LinePos (M : Mesh α) (d : Dir) (c : Idx) : Prop where
  m : 0 < lineM M d c
  V : 0 < lineV M d (c.get d)
  DX : ∀ i, 0 < (M.axis d).DX i
  A : ∀ f, 0 ≤ lineA M d f

theorem linePos_of_WF {M : Mesh α} (hM : M.WF) (hA : ∀ d f, 0 ≤ lineA M d f) {d : Dir}
    (hd : M.kind.active d = true) {c : Idx} (hc : M.interior c) : LinePos M d c where
  m := lineM_pos hM d hc
  V := lineV_pos hM hd (Mesh.interior_get hc d).1 (Mesh.interior_get hc d).2
  DX := (hM.axis d).pos
  A := hA d

theorem LinePos.dxf_pos {M : Mesh α} {d : Dir} {c : Idx} (h : LinePos M d c) (f : ℕ) :
    0 < (M.axis d).dxf f := by
  unfold Axis.dxf
  have := h.DX f; have := h.DX (f+1)
  positivity

/-- diffusion stencil: both off-diagonal entries are `≥ 0` (they enter the system with `−1`) -/
theorem diffSt_off_nonneg {M : Mesh α} {d : Dir} {c : Idx} (h : LinePos M d c) (D : FaceFld α)
    (hD : ∀ d c', 0 ≤ D d c') (b : Bool) : 0 ≤ (diffSt M D d c).off b := by
  have hm := h.m; have hV := h.V
  have h1 := h.dxf_pos (c.get d); have h0 := h.dxf_pos (c.get d - 1)
  cases b <;> simp only [diffSt, St3.off]
  · exact div_nonneg (mul_nonneg (h.A _) (hD _ _)) (by positivity)
  · exact div_nonneg (mul_nonneg (h.A _) (hD _ _)) (by positivity)

theorem uMin_self_nonpos (u : FaceFld α) (d : Dir) (c : Idx) : uMin u u d c ≤ 0 := by
  unfold uMin; split_ifs with h
  · exact le_refl 0
  · exact not_lt.1 h

theorem uMax_self_nonneg (u : FaceFld α) (d : Dir) (c : Idx) : 0 ≤ uMax u u d c := by
  unfold uMax; split_ifs with h
  · exact le_refl 0
  · exact not_lt.1 h

/-- upwind stencil (default upwind direction `uUp = u`): both off-diagonal entries are `≤ 0`,
    also in the cells next to the boundary where they are halved -/
theorem upwindSt_off_nonpos {M : Mesh α} {d : Dir} {c : Idx} (h : LinePos M d c) (u : FaceFld α)
    (b : Bool) : (upwindSt M u u d c).off b ≤ 0 := by
  have mV : 0 < lineM M d c * lineV M d (c.get d) := mul_pos h.m h.V
  cases b <;> simp only [upwindSt, St3.off]
  · have w0 : -(lineA M d (c.get d - 1) * uMax u u d (c.prev d))
        / (lineM M d c * lineV M d (c.get d)) ≤ 0 :=
      div_nonpos_of_nonpos_of_nonneg
        (neg_nonpos.2 (mul_nonneg (h.A _) (uMax_self_nonneg u d _))) mV.le
    split_ifs
    · linarith
    · exact w0
  · have e0 : lineA M d (c.get d) * uMin u u d c
        / (lineM M d c * lineV M d (c.get d)) ≤ 0 :=
      div_nonpos_of_nonpos_of_nonneg
        (mul_nonpos_of_nonneg_of_nonpos (h.A _) (uMin_self_nonpos u d _)) mV.le
    split_ifs
    · linarith
    · exact e0

/-! ### entry sums -/

/-- the entries of a diffusion row sum to zero (no hypothesis) -/
theorem diffusionRow_total (M : Mesh α) (D : FaceFld α) (c : Idx) :
    (diffusionRow M D c).total = 0 := by
  rw [← St7.app_one _ c]
  unfold diffusionRow
  rw [St7.ofDirs_app,
    sumDirs_congr _ _ (fun _ => (0 : α)) (fun d _ => diffSt_const M D 1 d c), sumDirs_zero]

/-- the entries of an upwind row (boundary-corrected cells included) sum to the discrete
    divergence of the velocity -/
theorem upwindRow_total (M : Mesh α) (hM : M.WF) (u uUp : FaceFld α) (hU : UpOK u uUp) (c : Idx)
    (hc : M.interior c) : (upwindRow M u uUp c).total = divergence M u c := by
  rw [← St7.app_one _ c]
  unfold upwindRow divergence
  rw [St7.ofDirs_app]
  refine sumDirs_congr _ _ _ (fun d hd => ?_)
  rw [upwindSt_const M u uUp 1 d c (lineOK_of_WF hM hd hc) (Mesh.interior_get hc d).2 hU, one_mul]

theorem St7.app_const (s : St7 α) (k : α) (c : Idx) : s.app (fun _ => k) c = s.total * k := by
  simp only [St7.app, St7.total]; ring

/-- the zero velocity field is divergence-free -/
theorem divergence_zero (M : Mesh α) (c : Idx) : divergence M (fun _ _ => (0 : α)) c = 0 := by
  simp [divergence, divD, sumDirs]

/-- the upwind row of the zero velocity field vanishes (no hypothesis on the mesh) -/
theorem upwindRow_zero_total (M : Mesh α) (c : Idx) :
    (upwindRow M (fun _ _ => (0 : α)) (fun _ _ => 0) c).total = 0 := by
  simp [upwindRow, upwindSt, uMin, uMax, St7.ofDirs, St7.total]

/-! ### the row of one implicit step -/

/-- interior row of the term list
    `[transientTerm(old, dt, alpha), -diffusionTerm(D), convectionUpwindTerm(u), linearSourceTerm(β)]` -/
def stepRow (M : Mesh α) (D u : FaceFld α) (β : CellFld α) (dt : α) (alpha : CellFld α)
    (c : Idx) : St7 α :=
  St7.add (transientRow dt alpha c)
    (St7.add (St7.smul (-1) (diffusionRow M D c))
      (St7.add (upwindRow M u u c) (linearSrcRow β c)))

/-- its right-hand side -/
def stepRhs (old : CellFld α) (dt : α) (alpha : CellFld α) (c : Idx) : α :=
  transientRHS old dt alpha c

/-- the term list itself, as handed to `solvePDE` -/
def stepTerms (M : Mesh α) (D u : FaceFld α) (β old : CellFld α) (dt : α) (alpha : CellFld α) :
    List (TermObj α) :=
  [ .pair (transientRow dt alpha) (transientRHS old dt alpha),
    TermObj.smul (-1) (.mat (diffusionRow M D)),
    .mat (upwindRow M u u),
    .mat (linearSrcRow β) ]

/-- the accumulation loop of `solvePDE` on that list produces `stepRow` -/
theorem sumRow_stepTerms (M : Mesh α) (D u : FaceFld α) (β old : CellFld α) (dt : α)
    (alpha : CellFld α) (c : Idx) :
    sumRow (stepTerms M D u β old dt alpha) c = stepRow M D u β dt alpha c := by
  simp only [sumRow, stepTerms, List.foldl, TermObj.row, TermObj.smul, stepRow, St7.add, St7.zero,
    St7.smul, St7.mk.injEq]
  refine ⟨?_, ?_, ?_, ?_, ?_, ?_, ?_⟩ <;> ring

theorem sumRhs_stepTerms (M : Mesh α) (D u : FaceFld α) (β old : CellFld α) (dt : α)
    (alpha : CellFld α) (c : Idx) :
    sumRhs (stepTerms M D u β old dt alpha) c = stepRhs old dt alpha c := by
  simp only [sumRhs, stepTerms, List.foldl, TermObj.rhs, TermObj.smul, stepRhs]
  ring

theorem stepRow_off (M : Mesh α) (D u : FaceFld α) (β : CellFld α) (dt : α) (alpha : CellFld α)
    (c : Idx) (d : Dir) (b : Bool) :
    (stepRow M D u β dt alpha c).off d b
      = if M.kind.active d = true then -(diffSt M D d c).off b + (upwindSt M u u d c).off b
        else 0 := by
  simp only [stepRow, transientRow, linearSrcRow, diffusionRow, upwindRow, St7.off_add,
    St7.off_smul, St7.off_diag, St7.ofDirs_off]
  split_ifs <;> ring

/-- (i) every off-diagonal entry of the step row is `≤ 0` -/
theorem stepRow_off_nonpos (M : Mesh α) (hM : M.WF) (hA : ∀ d f, 0 ≤ lineA M d f)
    (D u : FaceFld α) (hD : ∀ d c', 0 ≤ D d c') (β : CellFld α) (dt : α) (alpha : CellFld α)
    (c : Idx) (hc : M.interior c) (d : Dir) (b : Bool) :
    (stepRow M D u β dt alpha c).off d b ≤ 0 := by
  rw [stepRow_off]
  split_ifs with hd
  · have h := linePos_of_WF hM hA hd hc
    have h1 := diffSt_off_nonneg h D hD b
    have h2 := upwindSt_off_nonpos h u b
    linarith
  · exact le_refl 0

/-- entries along inactive directions vanish -/
theorem stepRow_off_inactive (M : Mesh α) (D u : FaceFld α) (β : CellFld α) (dt : α)
    (alpha : CellFld α) (c : Idx) (d : Dir) (hd : M.kind.active d = false) (b : Bool) :
    (stepRow M D u β dt alpha c).off d b = 0 := by
  rw [stepRow_off, hd]; rfl

/-- (ii) the entries of the step row sum to `alpha/dt + β + div u` -/
theorem stepRow_total (M : Mesh α) (hM : M.WF) (D u : FaceFld α) (β : CellFld α) (dt : α)
    (alpha : CellFld α) (c : Idx) (hc : M.interior c) :
    (stepRow M D u β dt alpha c).total = alpha c / dt + β c + divergence M u c := by
  simp only [stepRow, St7.total_add, St7.total_smul, transientRow, linearSrcRow, St7.total_diag,
    diffusionRow_total, upwindRow_total M hM u u (upOK_self u) c hc]
  ring

/-- (iii) the right-hand side is `(alpha/dt) · old` -/
theorem stepRhs_eq (old : CellFld α) (dt : α) (alpha : CellFld α) (c : Idx) :
    stepRhs old dt alpha c = alpha c / dt * old c := by
  simp only [stepRhs, transientRHS]; ring

theorem stepRhs_neg (old : CellFld α) (dt : α) (alpha : CellFld α) (c : Idx) :
    stepRhs (fun c' => -old c') dt alpha c = -(stepRhs old dt alpha c) := by
  simp only [stepRhs, transientRHS]; ring

/-! ## Part 3 — one implicit step on a finite set of cells -/

/-- The value at a neighbour position `nb` of the cell `c ∈ S` is
    * an unknown of `S` itself, or a ghost tied to `c` by
    * a no-flux relation `x_g = x_c`, or
    * a periodic relation `x_g = x_c + θ (x_{c'} − x_c)` with `c' ∈ S`, `θ ≥ 0`
      (`θ = 1`, i.e. `x_g = x_{c'}`, when the two end cells of the line are equal), or
    * a Dirichlet relation `(x_g + x_c)/2 = cD`, the datum `cD` satisfying `P`. -/
def NbrTied (S : Finset Idx) (x : CellFld α) (P : α → Prop) (c nb : Idx) : Prop :=
  nb ∈ S ∨ x nb = x c ∨ (∃ c' ∈ S, ∃ θ, 0 ≤ θ ∧ x nb = x c + θ * (x c' - x c))
    ∨ ∃ cD, P cD ∧ x nb = 2 * cD - x c

theorem NbrTied.mono {S : Finset Idx} {x : CellFld α} {P Q : α → Prop} {c nb : Idx}
    (hPQ : ∀ v, P v → Q v) (h : NbrTied S x P c nb) : NbrTied S x Q c nb := by
  rcases h with h | h | h | ⟨cD, hP, h⟩
  · exact Or.inl h
  · exact Or.inr (Or.inl h)
  · exact Or.inr (Or.inr (Or.inl h))
  · exact Or.inr (Or.inr (Or.inr ⟨cD, hPQ cD hP, h⟩))

theorem NbrTied.neg {S : Finset Idx} {x : CellFld α} {P : α → Prop} {c nb : Idx}
    (h : NbrTied S x P c nb) : NbrTied S (fun c' => -x c') (fun v => P (-v)) c nb := by
  rcases h with h | h | ⟨c', hc', θ, hθ, h⟩ | ⟨cD, hP, h⟩
  · exact Or.inl h
  · exact Or.inr (Or.inl (by simp only [h]))
  · exact Or.inr (Or.inr (Or.inl ⟨c', hc', θ, hθ, by simp only [h]; ring⟩))
  · exact Or.inr (Or.inr (Or.inr ⟨-cD, by simpa using hP, by simp only [h]; ring⟩))

/-- `x` solves one implicit step
    `[transientTerm(old,dt,alpha), -diffusionTerm(D), convectionUpwindTerm(u), linearSourceTerm(β)]`
    on the cell set `S`: admissible coefficients, all interior rows, and every neighbour along an
    active direction is an unknown or a ghost tied by a no-flux / periodic / Dirichlet relation
    whose datum satisfies `P`. -/
structure IsStep (M : Mesh α) (S : Finset Idx) (D u : FaceFld α) (β alpha : CellFld α) (dt : α)
    (P : α → Prop) (old x : CellFld α) : Prop where
  int : ∀ c ∈ S, M.interior c
  D0 : ∀ d c, 0 ≤ D d c
  div0 : ∀ c ∈ S, divergence M u c = 0
  β0 : ∀ c ∈ S, 0 ≤ β c
  α0 : ∀ c ∈ S, 0 < alpha c
  dt0 : 0 < dt
  row : ∀ c ∈ S, (stepRow M D u β dt alpha c).app x c = stepRhs old dt alpha c
  nbr : ∀ c ∈ S, ∀ d, M.kind.active d = true → ∀ b, NbrTied S x P c (c.nbr d b)

theorem IsStep.mono {M : Mesh α} {S : Finset Idx} {D u : FaceFld α} {β alpha : CellFld α} {dt : α}
    {P Q : α → Prop} {old x : CellFld α} (hPQ : ∀ v, P v → Q v)
    (h : IsStep M S D u β alpha dt P old x) : IsStep M S D u β alpha dt Q old x :=
  { h with nbr := fun c hc d hd b => (h.nbr c hc d hd b).mono hPQ }

theorem IsStep.neg {M : Mesh α} {S : Finset Idx} {D u : FaceFld α} {β alpha : CellFld α} {dt : α}
    {P : α → Prop} {old x : CellFld α} (h : IsStep M S D u β alpha dt P old x) :
    IsStep M S D u β alpha dt (fun v => P (-v)) (fun c => -old c) (fun c => -x c) :=
  { h with
    row := fun c hc => by rw [St7.app_neg, stepRhs_neg, h.row c hc]
    nbr := fun c hc d hd b => (h.nbr c hc d hd b).neg }

/-! ## Part 4 — the boundary rows of the model -/

theorem Row.app_two (i1 i2 : Idx) (a1 a2 r : α) (x : CellFld α) :
    Row.app ⟨[(i1, a1), (i2, a2)], r⟩ x = a1 * x i1 + a2 * x i2 := by
  simp [Row.app, List.foldl]

theorem Row.app_four (i1 i2 i3 i4 : Idx) (a1 a2 a3 a4 r : α) (x : CellFld α) :
    Row.app ⟨[(i1, a1), (i2, a2), (i3, a3), (i4, a4)], r⟩ x
      = a1 * x i1 + a2 * x i2 + a3 * x i3 + a4 * x i4 := by
  simp [Row.app, List.foldl]

/-- Dirichlet face: `a = 0`, `b = 1` (value `c`) -/
def BFace.isDirichlet (f : BFace α) (c : Idx) : Prop := f.a c = 0 ∧ f.b c = 1
/-- no-flux face: `b = 0`, `c = 0`, `a ≠ 0` (the default is `a = 1`) -/
def BFace.isNoFlux (f : BFace α) (c : Idx) : Prop := f.a c ≠ 0 ∧ f.b c = 0 ∧ f.c c = 0

/-- Dirichlet ghost, high side: `(x_ghost + x_cell)/2 = c_D` -/
theorem bcRowHi_dirichlet (M : Mesh α) (bc : BCs α) (d : Dir) (c : Idx) (x : CellFld α)
    (hper : bc.periodicDir d = false) (h : (bc.hi d).isDirichlet c)
    (hrow : (bcRowHi M bc d c).app x = (bcRowHi M bc d c).rhs) :
    x (c.set d (M.n d + 1)) = 2 * (bc.hi d).c c - x (c.set d (M.n d)) := by
  obtain ⟨ha, hb⟩ := h
  simp only [bcRowHi, hper, Bool.false_eq_true, if_false, Row.app_two, hiGhostCoef, hiCellCoef,
    ha, hb, zero_div, neg_zero, zero_add] at hrow
  linarith

/-- Dirichlet ghost, low side -/
theorem bcRowLo_dirichlet (M : Mesh α) (bc : BCs α) (d : Dir) (c : Idx) (x : CellFld α)
    (hper : bc.periodicDir d = false) (h : (bc.lo d).isDirichlet c)
    (hrow : (bcRowLo M bc d c).app x = (bcRowLo M bc d c).rhs) :
    x (c.set d 0) = 2 * (bc.lo d).c c - x (c.set d 1) := by
  obtain ⟨ha, hb⟩ := h
  simp only [bcRowLo, hper, Bool.false_eq_true, if_false, Row.app_two, loGhostCoef, loCellCoef,
    ha, hb, zero_div, neg_zero, zero_add] at hrow
  linarith

/-- no-flux ghost, high side: `x_ghost = x_cell` -/
theorem bcRowHi_noflux (M : Mesh α) (bc : BCs α) (d : Dir) (c : Idx) (x : CellFld α)
    (hper : bc.periodicDir d = false) (h : (bc.hi d).isNoFlux c)
    (hm : lineM M d c ≠ 0) (hDX : (M.axis d).DX (M.n d + 1) ≠ 0)
    (hrow : (bcRowHi M bc d c).app x = (bcRowHi M bc d c).rhs) :
    x (c.set d (M.n d + 1)) = x (c.set d (M.n d)) := by
  obtain ⟨ha, hb, hc⟩ := h
  have hk : (bc.hi d).a c / (lineM M d c * (M.axis d).DX (M.n d + 1)) ≠ 0 :=
    div_ne_zero ha (mul_ne_zero hm hDX)
  simp only [bcRowHi, hper, Bool.false_eq_true, if_false, Row.app_two, hiGhostCoef, hiCellCoef,
    hb, hc, zero_div, add_zero] at hrow
  have : (bc.hi d).a c / (lineM M d c * (M.axis d).DX (M.n d + 1))
      * (x (c.set d (M.n d + 1)) - x (c.set d (M.n d))) = 0 := by linarith
  exact sub_eq_zero.1 ((mul_eq_zero.1 this).resolve_left hk)

/-- no-flux ghost, low side -/
theorem bcRowLo_noflux (M : Mesh α) (bc : BCs α) (d : Dir) (c : Idx) (x : CellFld α)
    (hper : bc.periodicDir d = false) (h : (bc.lo d).isNoFlux c)
    (hm : lineM M d c ≠ 0) (hDX : (M.axis d).DX 0 ≠ 0)
    (hrow : (bcRowLo M bc d c).app x = (bcRowLo M bc d c).rhs) :
    x (c.set d 0) = x (c.set d 1) := by
  obtain ⟨ha, hb, hc⟩ := h
  have hk : (bc.lo d).a c / (lineM M d c * (M.axis d).DX 0) ≠ 0 :=
    div_ne_zero ha (mul_ne_zero hm hDX)
  simp only [bcRowLo, hper, Bool.false_eq_true, if_false, Row.app_two, loGhostCoef, loCellCoef,
    hb, hc, zero_div, add_zero, neg_zero] at hrow
  have : (bc.lo d).a c / (lineM M d c * (M.axis d).DX 0)
      * (x (c.set d 0) - x (c.set d 1)) = 0 := by linarith
  exact sub_eq_zero.1 ((mul_eq_zero.1 this).resolve_left hk)

/-- periodic ghosts (equal end cells): each ghost carries the value of the interior cell at the
    opposite end of the line -/
theorem bcRow_periodic (M : Mesh α) (bc : BCs α) (d : Dir) (c : Idx) (x : CellFld α)
    (hper : bc.periodicDir d = true)
    (heq : (M.axis d).DX (M.n d + 1) = (M.axis d).DX 0) (h0 : (M.axis d).DX 0 ≠ 0)
    (hhi : (bcRowHi M bc d c).app x = (bcRowHi M bc d c).rhs)
    (hlo : (bcRowLo M bc d c).app x = (bcRowLo M bc d c).rhs) :
    x (c.set d (M.n d + 1)) = x (c.set d 1) ∧ x (c.set d 0) = x (c.set d (M.n d)) := by
  simp only [bcRowHi, hper, if_true, Row.app_four, heq, div_self h0] at hhi
  simp only [bcRowLo, hper, if_true, Row.app_four] at hlo
  constructor <;> linarith

/-- periodic ghosts, arbitrary end cells (`r = DX_{n+1}/DX_0 > 0`): the two boundary rows of a
    line (equal boundary-face value, equal boundary gradient) give
    `x_0 = x_1 + θ (x_n − x_1)` and `x_{n+1} = x_n + r θ (x_1 − x_n)` with `θ = 2/(1+r) > 0`:
    each ghost lies on the far side of its cell, towards the value at the opposite end. -/
theorem bcRow_periodic_general (M : Mesh α) (bc : BCs α) (d : Dir) (c : Idx) (x : CellFld α)
    (hper : bc.periodicDir d = true)
    (hn : 0 < (M.axis d).DX (M.n d + 1)) (h0 : 0 < (M.axis d).DX 0)
    (hhi : (bcRowHi M bc d c).app x = (bcRowHi M bc d c).rhs)
    (hlo : (bcRowLo M bc d c).app x = (bcRowLo M bc d c).rhs) :
    x (c.set d (M.n d + 1)) = x (c.set d (M.n d))
      + (M.axis d).DX (M.n d + 1) / (M.axis d).DX 0
        * (2 / (1 + (M.axis d).DX (M.n d + 1) / (M.axis d).DX 0))
        * (x (c.set d 1) - x (c.set d (M.n d))) ∧
    x (c.set d 0) = x (c.set d 1)
      + 2 / (1 + (M.axis d).DX (M.n d + 1) / (M.axis d).DX 0)
        * (x (c.set d (M.n d)) - x (c.set d 1)) := by
  simp only [bcRowHi, hper, if_true, Row.app_four] at hhi
  simp only [bcRowLo, hper, if_true, Row.app_four] at hlo
  have hr : 0 < (M.axis d).DX (M.n d + 1) / (M.axis d).DX 0 := div_pos hn h0
  generalize (M.axis d).DX (M.n d + 1) / (M.axis d).DX 0 = r at hhi hr ⊢
  have h1r : (1 + r) ≠ 0 := by positivity
  have e0 : (1 + r) * x (c.set d 0)
      = 2 * x (c.set d (M.n d)) + (r - 1) * x (c.set d 1) := by linarith
  have e1 : x (c.set d 0) = x (c.set d 1)
      + 2 / (1 + r) * (x (c.set d (M.n d)) - x (c.set d 1)) := by
    field_simp
    linarith
  refine ⟨?_, e1⟩
  have e2 : x (c.set d (M.n d + 1))
      = x (c.set d 0) + x (c.set d 1) - x (c.set d (M.n d)) := by linarith
  rw [e2, e1]
  field_simp
  ring

theorem bcRowHi_periodic_set (M : Mesh α) (bc : BCs α) (d : Dir) (c : Idx) (v : ℕ)
    (hper : bc.periodicDir d = true) : bcRowHi M bc d (c.set d v) = bcRowHi M bc d c := by
  simp only [bcRowHi, hper, if_true, Idx.set_set]

theorem bcRowLo_periodic_set (M : Mesh α) (bc : BCs α) (d : Dir) (c : Idx) (v : ℕ)
    (hper : bc.periodicDir d = true) : bcRowLo M bc d (c.set d v) = bcRowLo M bc d c := by
  simp only [bcRowLo, hper, if_true, Idx.set_set]

/-! ## Part 5 — the interior cells as a `Finset`, and `Solves` -/

/-- index range of the unknowns along `d`: `1..n` if the direction is active, `{1}` otherwise -/
def Mesh.rng (M : Mesh α) (d : Dir) : Finset ℕ :=
  if M.kind.active d = true then Finset.Icc 1 (M.n d) else {1}

/-- the interior cells of the ghosted index box (the unknowns of `Solves` that carry a PDE row) -/
def Mesh.cells (M : Mesh α) : Finset Idx := M.rng .x ×ˢ (M.rng .y ×ˢ M.rng .z)

theorem Mesh.mem_rng {M : Mesh α} {d : Dir} {v : ℕ} :
    v ∈ M.rng d ↔ (M.kind.active d = true → 1 ≤ v ∧ v ≤ M.n d)
      ∧ (M.kind.active d = false → v = 1) := by
  unfold Mesh.rng
  by_cases h : M.kind.active d = true
  · simp [h]
  · have h' : M.kind.active d = false := by simpa using h
    simp [h']

theorem Mesh.mem_cells {M : Mesh α} {c : Idx} : c ∈ M.cells ↔ ∀ d, c.get d ∈ M.rng d := by
  obtain ⟨i, j, k⟩ := c
  simp only [Mesh.cells, Finset.mem_product]
  constructor
  · rintro ⟨hx, hy, hz⟩ d; cases d <;> assumption
  · intro h; exact ⟨h .x, h .y, h .z⟩

theorem Kind.active_x (k : Kind) : k.active .x = true := rfl

theorem Mesh.get_of_mem_cells {M : Mesh α} (hM : M.WF) {c : Idx} (hc : c ∈ M.cells) (d : Dir) :
    1 ≤ c.get d ∧ c.get d ≤ M.n d := by
  have h := Mesh.mem_rng.1 (Mesh.mem_cells.1 hc d)
  by_cases hd : M.kind.active d = true
  · exact h.1 hd
  · have h1 := h.2 (by simpa using hd)
    have := (hM.axis d).npos
    rw [h1]; exact ⟨le_refl 1, this⟩

theorem Mesh.interior_of_mem_cells {M : Mesh α} (hM : M.WF) {c : Idx} (hc : c ∈ M.cells) :
    M.interior c := by
  have hx := Mesh.get_of_mem_cells hM hc .x
  have hy := Mesh.get_of_mem_cells hM hc .y
  have hz := Mesh.get_of_mem_cells hM hc .z
  exact ⟨hx.1, hx.2, hy.1, hy.2, hz.1, hz.2⟩

theorem Mesh.set_mem_cells {M : Mesh α} {c : Idx} (hc : c ∈ M.cells) {d : Dir}
    (hd : M.kind.active d = true) {v : ℕ} (h1 : 1 ≤ v) (hn : v ≤ M.n d) : c.set d v ∈ M.cells := by
  rw [Mesh.mem_cells] at hc ⊢
  intro e
  by_cases he : d = e
  · subst he
    rw [Idx.get_set_same, Mesh.mem_rng]
    exact ⟨fun _ => ⟨h1, hn⟩, fun h => absurd hd (by simp [h])⟩
  · rw [Idx.get_set_ne c he]; exact hc e

set_option linter.unusedSimpArgs false in
set_option linter.unusedTactic false in
/-- an interior cell is in the box and carries a PDE row -/
theorem Mesh.cell_facts {M : Mesh α} {c : Idx} (hc : c ∈ M.cells) :
    M.inBox c ∧ M.outCount c = 0 := by
  have hx := Mesh.mem_rng.1 (Mesh.mem_cells.1 hc .x)
  have hy := Mesh.mem_rng.1 (Mesh.mem_cells.1 hc .y)
  have hz := Mesh.mem_rng.1 (Mesh.mem_cells.1 hc .z)
  obtain ⟨i, j, k⟩ := c
  simp only [Idx.get, Mesh.n, Mesh.axis, Kind.active_x, true_implies] at hx hy hz
  by_cases ay : M.kind.active .y = true <;> by_cases az : M.kind.active .z = true <;>
    (simp only [ay, az, true_implies, false_implies, and_true, reduceCtorEq] at hx hy hz
     (try simp at hx); (try simp at hy); (try simp at hz)
     (try (have f1 : ¬(i = 0 ∨ i = M.ax.n + 1) := by omega))
     (try (have f2 : ¬(j = 0 ∨ j = M.ay.n + 1) := by omega))
     (try (have f3 : ¬(k = 0 ∨ k = M.az.n + 1) := by omega))
     simp [Mesh.inBox, Mesh.outCount, ay, az, *]
     try omega)

set_option linter.unusedSimpArgs false in
set_option linter.unusedTactic false in
/-- the position beyond the last cell of an active direction is a face ghost of that direction -/
theorem Mesh.ghost_hi_facts {M : Mesh α} {c : Idx} (hc : c ∈ M.cells) {d : Dir}
    (hd : M.kind.active d = true) (hn : c.get d = M.n d) :
    M.inBox (c.next d) ∧ M.outCount (c.next d) = 1 ∧ M.outDir (c.next d) = d := by
  have hx := Mesh.mem_rng.1 (Mesh.mem_cells.1 hc .x)
  have hy := Mesh.mem_rng.1 (Mesh.mem_cells.1 hc .y)
  have hz := Mesh.mem_rng.1 (Mesh.mem_cells.1 hc .z)
  obtain ⟨i, j, k⟩ := c
  simp only [Idx.get, Mesh.n, Mesh.axis, Kind.active_x, true_implies] at hx hy hz hn
  by_cases ay : M.kind.active .y = true <;> by_cases az : M.kind.active .z = true <;>
  cases d <;>
    (first
      | (exfalso; simp [ay, az] at hd; done)
      | (simp only [ay, az, true_implies, false_implies, and_true, reduceCtorEq] at hx hy hz
         (try simp at hx); (try simp at hy); (try simp at hz)
         (try (have f1 : ¬(i = 0 ∨ i = M.ax.n + 1) := by omega))
         (try (have f2 : ¬(j = 0 ∨ j = M.ay.n + 1) := by omega))
         (try (have f3 : ¬(k = 0 ∨ k = M.az.n + 1) := by omega))
         simp [Idx.next, Idx.set, Idx.get, Mesh.inBox, Mesh.outCount, Mesh.outDir, ay, az, *]
         try omega))

set_option linter.unusedSimpArgs false in
set_option linter.unusedTactic false in
/-- the position before the first cell of an active direction is a face ghost of that direction -/
theorem Mesh.ghost_lo_facts {M : Mesh α} {c : Idx} (hc : c ∈ M.cells) {d : Dir}
    (hd : M.kind.active d = true) (h1 : c.get d = 1) :
    M.inBox (c.prev d) ∧ M.outCount (c.prev d) = 1 ∧ M.outDir (c.prev d) = d := by
  have hx := Mesh.mem_rng.1 (Mesh.mem_cells.1 hc .x)
  have hy := Mesh.mem_rng.1 (Mesh.mem_cells.1 hc .y)
  have hz := Mesh.mem_rng.1 (Mesh.mem_cells.1 hc .z)
  obtain ⟨i, j, k⟩ := c
  simp only [Idx.get, Mesh.n, Mesh.axis, Kind.active_x, true_implies] at hx hy hz h1
  by_cases ay : M.kind.active .y = true <;> by_cases az : M.kind.active .z = true <;>
  cases d <;>
    (first
      | (exfalso; simp [ay, az] at hd; done)
      | (simp only [ay, az, true_implies, false_implies, and_true, reduceCtorEq] at hx hy hz
         (try simp at hx); (try simp at hy); (try simp at hz)
         (try (have f1 : ¬(i = 0 ∨ i = M.ax.n + 1) := by omega))
         (try (have f2 : ¬(j = 0 ∨ j = M.ay.n + 1) := by omega))
         (try (have f3 : ¬(k = 0 ∨ k = M.az.n + 1) := by omega))
         simp [Idx.prev, Idx.set, Idx.get, Mesh.inBox, Mesh.outCount, Mesh.outDir, ay, az, *]
         try omega))

/-- a solution of the assembled system satisfies the interior row of every cell -/
theorem Solves.interior_row {M : Mesh α} {bc : BCs α} {ts : List (TermObj α)} {x : CellFld α}
    (hx : Solves M bc ts x) {c : Idx} (hc : c ∈ M.cells) :
    (sumRow ts c).app x c = sumRhs ts c := by
  obtain ⟨hb, h0⟩ := Mesh.cell_facts hc
  have := hx c hb
  simpa only [assembleOp, assembleRhs, h0, if_true] using this

/-- … and the boundary row of the ghost beyond the last cell of every active direction -/
theorem Solves.bcHi {M : Mesh α} {bc : BCs α} {ts : List (TermObj α)} {x : CellFld α}
    (hx : Solves M bc ts x) {c : Idx} (hc : c ∈ M.cells) {d : Dir}
    (hd : M.kind.active d = true) (hn : c.get d = M.n d) :
    (bcRowHi M bc d c).app x = (bcRowHi M bc d c).rhs := by
  obtain ⟨hb, h1, hdir⟩ := Mesh.ghost_hi_facts hc hd hn
  have := hx (c.next d) hb
  have e0 : ¬ (c.next d).get d = 0 := by rw [Idx.next_get]; omega
  have e1 : (c.next d).set d (M.n d) = c := by
    rw [Idx.next, Idx.set_set, ← hn, Idx.set_get]
  have e2 : ¬ ((1 : ℕ) = 0) := by omega
  simpa only [assembleOp, assembleRhs, bcRow, h1, e2, if_false, hdir, e0, e1] using this

/-- … and of the ghost before the first cell -/
theorem Solves.bcLo {M : Mesh α} {bc : BCs α} {ts : List (TermObj α)} {x : CellFld α}
    (hx : Solves M bc ts x) {c : Idx} (hc : c ∈ M.cells) {d : Dir}
    (hd : M.kind.active d = true) (h1 : c.get d = 1) :
    (bcRowLo M bc d c).app x = (bcRowLo M bc d c).rhs := by
  obtain ⟨hb, hcnt, hdir⟩ := Mesh.ghost_lo_facts hc hd h1
  have := hx (c.prev d) hb
  have e0 : (c.prev d).get d = 0 := by rw [Idx.prev_get]; omega
  have e1 : (c.prev d).set d 1 = c := by
    rw [Idx.prev, Idx.set_set, ← h1, Idx.set_get]
  have e2 : ¬ ((1 : ℕ) = 0) := by omega
  simpa only [assembleOp, assembleRhs, bcRow, hcnt, e2, if_false, hdir, e0, e1, if_true] using this

/-- boundary conditions covered by the maximum principle: along every active direction either
    periodic (any end cells), or on every boundary face Dirichlet (datum satisfying `P`)
    or no-flux -/
def BCsOK (M : Mesh α) (bc : BCs α) (P : α → Prop) : Prop :=
  ∀ d, M.kind.active d = true →
    bc.periodicDir d = true ∨
    (bc.periodicDir d = false ∧ ∀ c,
      (((bc.lo d).isDirichlet c ∧ P ((bc.lo d).c c)) ∨ (bc.lo d).isNoFlux c) ∧
      (((bc.hi d).isDirichlet c ∧ P ((bc.hi d).c c)) ∨ (bc.hi d).isNoFlux c))

/-- **From the assembled system to a step.**  A solution of the linear system `solvePDE`
    assembles for `[transientTerm, -diffusionTerm, convectionUpwindTerm, linearSourceTerm]` with
    admissible boundary conditions is a step on the interior cells in the sense of `IsStep`. -/
theorem isStep_of_solves (M : Mesh α) (hM : M.WF) (bc : BCs α) (P : α → Prop) (hbc : BCsOK M bc P)
    (D u : FaceFld α) (β alpha old : CellFld α) (dt : α)
    (hD : ∀ d c, 0 ≤ D d c) (hdiv : ∀ c ∈ M.cells, divergence M u c = 0)
    (hβ : ∀ c ∈ M.cells, 0 ≤ β c) (hα : ∀ c ∈ M.cells, 0 < alpha c) (hdt : 0 < dt)
    (x : CellFld α) (hx : Solves M bc (stepTerms M D u β old dt alpha) x) :
    IsStep M M.cells D u β alpha dt P old x where
  int := fun c hc => Mesh.interior_of_mem_cells hM hc
  D0 := hD
  div0 := hdiv
  β0 := hβ
  α0 := hα
  dt0 := hdt
  row := fun c hc => by
    have := hx.interior_row hc
    rwa [sumRow_stepTerms, sumRhs_stepTerms] at this
  nbr := by
    intro c hc d hd b
    have hint := Mesh.interior_of_mem_cells hM hc
    have hm : lineM M d c ≠ 0 := ne_of_gt (lineM_pos hM d hint)
    have hDXp : ∀ i, 0 < (M.axis d).DX i := fun i => (hM.axis d).pos i
    have hDX : ∀ i, (M.axis d).DX i ≠ 0 := fun i => ne_of_gt (hDXp i)
    have hget := Mesh.get_of_mem_cells hM hc d
    cases b
    · -- low side
      show NbrTied M.cells x P c (c.prev d)
      by_cases h1 : c.get d = 1
      · have e0 : c.prev d = c.set d 0 := by rw [Idx.prev, h1]
        have e1 : c.set d 1 = c := by rw [← h1, Idx.set_get]
        have hlo := hx.bcLo hc hd h1
        rcases hbc d hd with hper | ⟨hper, hk⟩
        · have hc' : c.set d (M.n d) ∈ M.cells := Mesh.set_mem_cells hc hd (by omega) (le_refl _)
          have hhi := hx.bcHi hc' hd (Idx.get_set_same _ _ _)
          rw [bcRowHi_periodic_set M bc d c _ hper] at hhi
          have := (bcRow_periodic_general M bc d c x hper (hDXp _) (hDXp 0) hhi hlo).2
          rw [e1] at this
          exact Or.inr (Or.inr (Or.inl ⟨_, hc', _,
            le_of_lt (div_pos two_pos (add_pos one_pos (div_pos (hDXp _) (hDXp 0)))),
            by rw [e0, this]⟩))
        · rcases (hk c).1 with ⟨hdir, hP⟩ | hnf
          · have := bcRowLo_dirichlet M bc d c x hper hdir hlo
            rw [e1] at this
            exact Or.inr (Or.inr (Or.inr ⟨_, hP, by rw [e0, this]⟩))
          · have := bcRowLo_noflux M bc d c x hper hnf hm (hDX 0) hlo
            rw [e1] at this
            exact Or.inr (Or.inl (by rw [e0, this]))
      · exact Or.inl (Mesh.set_mem_cells hc hd (by omega) (by omega))
    · -- high side
      show NbrTied M.cells x P c (c.next d)
      by_cases hn : c.get d = M.n d
      · have e0 : c.next d = c.set d (M.n d + 1) := by rw [Idx.next, hn]
        have e1 : c.set d (M.n d) = c := by rw [← hn, Idx.set_get]
        have hhi := hx.bcHi hc hd hn
        rcases hbc d hd with hper | ⟨hper, hk⟩
        · have hc' : c.set d 1 ∈ M.cells := Mesh.set_mem_cells hc hd (le_refl _) (by omega)
          have hlo := hx.bcLo hc' hd (Idx.get_set_same _ _ _)
          rw [bcRowLo_periodic_set M bc d c _ hper] at hlo
          have := (bcRow_periodic_general M bc d c x hper (hDXp _) (hDXp 0) hhi hlo).1
          rw [e1] at this
          exact Or.inr (Or.inr (Or.inl ⟨_, hc', _,
            le_of_lt (mul_pos (div_pos (hDXp _) (hDXp 0))
              (div_pos two_pos (add_pos one_pos (div_pos (hDXp _) (hDXp 0))))),
            by rw [e0, this]⟩))
        · rcases (hk c).2 with ⟨hdir, hP⟩ | hnf
          · have := bcRowHi_dirichlet M bc d c x hper hdir hhi
            rw [e1] at this
            exact Or.inr (Or.inr (Or.inr ⟨_, hP, by rw [e0, this]⟩))
          · have := bcRowHi_noflux M bc d c x hper hnf hm (hDX _) hhi
            rw [e1] at this
            exact Or.inr (Or.inl (by rw [e0, this]))
      · exact Or.inl (Mesh.set_mem_cells hc hd (by omega) (by omega))

/-! ## Part 6 — linearity: the difference of two solutions solves the homogeneous system -/

theorem St7.app_sub (R : St7 α) (x y : CellFld α) (c : Idx) :
    R.app (fun c' => x c' - y c') c = R.app x c - R.app y c := by
  simp only [St7.app]; ring

theorem Row.app_sub (r : Row α) (x y : CellFld α) :
    r.app (fun c => x c - y c) = r.app x - r.app y := by
  unfold Row.app
  have key : ∀ (l : List (Idx × α)) (a b : α),
      l.foldl (fun acc e => acc + e.2 * (x e.1 - y e.1)) (a - b)
        = l.foldl (fun acc e => acc + e.2 * x e.1) a - l.foldl (fun acc e => acc + e.2 * y e.1) b := by
    intro l
    induction l with
    | nil => intro a b; rfl
    | cons e l ih =>
      intro a b
      simp only [List.foldl]
      rw [← ih]
      congr 1; ring
  have := key r.entries 0 0
  rwa [sub_zero] at this

/-- the same boundary conditions with all right-hand sides `c` set to zero -/
def BCs.homog (bc : BCs α) : BCs α :=
  ⟨fun d => ⟨(bc.lo d).a, (bc.lo d).b, fun _ => 0, (bc.lo d).periodic⟩,
   fun d => ⟨(bc.hi d).a, (bc.hi d).b, fun _ => 0, (bc.hi d).periodic⟩⟩

theorem BCs.homog_periodicDir (bc : BCs α) (d : Dir) :
    bc.homog.periodicDir d = bc.periodicDir d := rfl

theorem bcRowLo_homog (M : Mesh α) (bc : BCs α) (d : Dir) (c : Idx) :
    (bcRowLo M bc.homog d c).entries = (bcRowLo M bc d c).entries
      ∧ (bcRowLo M bc.homog d c).rhs = 0 := by
  unfold bcRowLo
  rw [BCs.homog_periodicDir]
  by_cases hper : bc.periodicDir d = true
  · simp only [hper, if_true]; exact ⟨trivial, trivial⟩
  · simp only [hper]
    exact ⟨rfl, neg_zero⟩

theorem bcRowHi_homog (M : Mesh α) (bc : BCs α) (d : Dir) (c : Idx) :
    (bcRowHi M bc.homog d c).entries = (bcRowHi M bc d c).entries
      ∧ (bcRowHi M bc.homog d c).rhs = 0 := by
  unfold bcRowHi
  rw [BCs.homog_periodicDir]
  by_cases hper : bc.periodicDir d = true
  · simp only [hper, if_true]; exact ⟨trivial, trivial⟩
  · simp only [hper]
    exact ⟨rfl, rfl⟩

theorem bcRow_homog (M : Mesh α) (bc : BCs α) (g : Idx) :
    (bcRow M bc.homog g).entries = (bcRow M bc g).entries ∧ (bcRow M bc.homog g).rhs = 0 := by
  unfold bcRow
  split
  · exact ⟨rfl, rfl⟩
  · by_cases h : g.get (M.outDir g) = 0
    · simp only [h, if_true]; exact bcRowLo_homog M bc _ _
    · simp only [h, if_false]; exact bcRowHi_homog M bc _ _
  · exact ⟨rfl, rfl⟩

theorem Row.app_eq_of_entries {r s : Row α} (h : r.entries = s.entries) (x : CellFld α) :
    r.app x = s.app x := by
  unfold Row.app; rw [h]

/-- the difference of two solutions of one step solves the homogeneous step (zero old values,
    zero boundary data) -/
theorem Solves.sub {M : Mesh α} {bc : BCs α} {D u : FaceFld α} {β old alpha : CellFld α} {dt : α}
    {x y : CellFld α}
    (hx : Solves M bc (stepTerms M D u β old dt alpha) x)
    (hy : Solves M bc (stepTerms M D u β old dt alpha) y) :
    Solves M bc.homog (stepTerms M D u β (fun _ => 0) dt alpha) (fun c => x c - y c) := by
  intro c hb
  have h1 := hx c hb
  have h2 := hy c hb
  unfold assembleOp assembleRhs at h1 h2 ⊢
  by_cases h0 : M.outCount c = 0
  · simp only [h0, if_true, sumRow_stepTerms, sumRhs_stepTerms] at h1 h2 ⊢
    rw [St7.app_sub, h1, h2, sub_self]
    simp only [stepRhs, transientRHS, mul_zero, zero_div]
  · simp only [h0, if_false] at h1 h2 ⊢
    obtain ⟨he, hr⟩ := bcRow_homog M bc c
    rw [hr, Row.app_eq_of_entries he, Row.app_sub, h1, h2, sub_self]

theorem BCsOK.homog {M : Mesh α} {bc : BCs α} {P : α → Prop} (h : BCsOK M bc P)
    (Q : α → Prop) (hQ : Q 0) : BCsOK M bc.homog Q := by
  intro d hd
  rcases h d hd with hper | ⟨hper, hk⟩
  · exact Or.inl hper
  · refine Or.inr ⟨hper, fun c => ⟨?_, ?_⟩⟩
    · rcases (hk c).1 with ⟨hdir, -⟩ | ⟨ha, hb, -⟩
      · exact Or.inl ⟨hdir, hQ⟩
      · exact Or.inr ⟨ha, hb, rfl⟩
    · rcases (hk c).2 with ⟨hdir, -⟩ | ⟨ha, hb, -⟩
      · exact Or.inl ⟨hdir, hQ⟩
      · exact Or.inr ⟨ha, hb, rfl⟩

end PyFV
