/-
  PyFV.Lemmas.TaylorBC — helpers for PyFV.Props.C02ConvBC (convergence for Robin / Neumann data,
  reaction and advection terms).

  Part 1: a weighted tridiagonal comparison principle with a one-sided (Robin / Neumann) relation
          at the low end (`tridiag_comparison_w`), the error bound by a barrier for a Robin ghost
          relation `G e₀ + C e₁ = r` (`robin_error_bound`), the barrier
          `Ti (L² − X²)/2 + B (L − X) + K` (`barrierR`) and convergence from truncation bounds
          (`robin_error_of_truncation`).
-/
import PyFV.Lemmas.Taylor

set_option linter.unusedSectionVars false

namespace PyFV.C02ConvBC

open PyFV Set

section Comparison

variable {α : Type} [Field α] [LinearOrder α] [IsStrictOrderedRing α]

/-- **Weighted comparison principle** for a tridiagonal M-matrix with positive off-diagonal
    weights `cw` (west), `ce` (east) and a diagonal at least `cw + ce` (needed only where `d > 0`):
    if at the low end `d₀ ≤ d₁` whenever `d₁ > 0` (Neumann / Robin / Dirichlet ghost after
    elimination) and at the high end `d_{N+1} < d_N` whenever `d_N > 0` (Dirichlet ghost), then
    `d ≤ 0` in every interior cell.  Proof: look at the greatest maximiser of `d` over `1..N`. -/
theorem tridiag_comparison_w (N : ℕ) (d cw ce : ℕ → α)
    (hcw : ∀ i, 1 ≤ i → i ≤ N → 0 ≤ cw i) (hce : ∀ i, 1 ≤ i → i ≤ N → 0 < ce i)
    (hrow : ∀ i, 1 ≤ i → i ≤ N → 0 < d i →
      (cw i + ce i) * d i ≤ cw i * d (i - 1) + ce i * d (i + 1))
    (hlo : 0 < d 1 → d 0 ≤ d 1) (hhi : 0 < d N → d (N + 1) < d N) :
    ∀ i, 1 ≤ i → i ≤ N → d i ≤ 0 := by
  classical
  intro i hi1 hiN
  by_contra hpos
  have hpos : 0 < d i := not_le.mp hpos
  obtain ⟨k, hkS, hkmax⟩ := Finset.exists_max_image (Finset.Icc 1 N) d
    ⟨i, Finset.mem_Icc.2 ⟨hi1, hiN⟩⟩
  -- the greatest maximiser
  have hS : ((Finset.Icc 1 N).filter (fun j => d k ≤ d j)).Nonempty :=
    ⟨k, Finset.mem_filter.2 ⟨hkS, le_refl _⟩⟩
  obtain ⟨k0, hk0S, hk0max⟩ := Finset.exists_max_image _ (fun j : ℕ => j) hS
  obtain ⟨hk0I, hk0d⟩ := Finset.mem_filter.1 hk0S
  obtain ⟨hk1, hkN⟩ := Finset.mem_Icc.1 hk0I
  have hmax : ∀ j, 1 ≤ j → j ≤ N → d j ≤ d k0 := fun j h1 h2 =>
    le_trans (hkmax j (Finset.mem_Icc.2 ⟨h1, h2⟩)) hk0d
  have hdk : 0 < d k0 := lt_of_lt_of_le hpos (hmax i hi1 hiN)
  have hup : d (k0 + 1) < d k0 := by
    by_cases hN' : k0 = N
    · rw [hN'] at hdk ⊢
      exact hhi hdk
    · by_contra hcon
      have hge : d k0 ≤ d (k0 + 1) := not_lt.mp hcon
      have hmem : k0 + 1 ∈ (Finset.Icc 1 N).filter (fun j => d k ≤ d j) :=
        Finset.mem_filter.2 ⟨Finset.mem_Icc.2 ⟨by omega, by omega⟩, le_trans hk0d hge⟩
      have := hk0max (k0 + 1) hmem
      omega
  have hlow : d (k0 - 1) ≤ d k0 := by
    by_cases h1 : k0 = 1
    · rw [h1] at hdk ⊢
      exact hlo hdk
    · exact hmax (k0 - 1) (by omega) (by omega)
  have hr := hrow k0 hk1 hkN hdk
  have a1 := mul_le_mul_of_nonneg_left hlow (hcw k0 hk1 hkN)
  have a2 := mul_lt_mul_of_pos_left hup (hce k0 hk1 hkN)
  have : (cw k0 + ce k0) * d k0 = cw k0 * d k0 + ce k0 * d k0 := by ring
  linarith

/-- **Error bound by a barrier, Robin ghost at the low end.**  Errors `e` on `0..N+1` with
    `−δ²e/h² = τ` in rows `1..N`, the low ghost relation `G e₀ + C e₁ = r` (`G > 0` the ghost
    coefficient, `G + C ≥ 0`: this is `b ≥ 0`), reflected ghost `e_{N+1} = −e_N` at the high end;
    a barrier `w` with `−δ²w/h² ≥ |τ|` in every row, `G w₀ + C w₁ ≥ |r|` and a non-negative
    face average at the high end dominates the error: `|e_i| ≤ w_i`. -/
theorem robin_error_bound (N : ℕ) (h : α) (hh : 0 < h) (G C r : α) (hG : 0 < G) (hGC : 0 ≤ G + C)
    (e w τ : ℕ → α)
    (hrow : ∀ i, 1 ≤ i → i ≤ N → -(e (i + 1) - 2 * e i + e (i - 1)) / h ^ 2 = τ i)
    (hbar : ∀ i, 1 ≤ i → i ≤ N → |τ i| ≤ -(w (i + 1) - 2 * w i + w (i - 1)) / h ^ 2)
    (he0 : G * e 0 + C * e 1 = r) (heN : e (N + 1) = -e N)
    (hw0 : |r| ≤ G * w 0 + C * w 1) (hwN : 0 ≤ w (N + 1) + w N) :
    ∀ i, 1 ≤ i → i ≤ N → |e i| ≤ w i := by
  have hp : 0 < h ^ 2 := pow_pos hh 2
  have key : ∀ i, 1 ≤ i → i ≤ N →
      |-(e (i + 1) - 2 * e i + e (i - 1))| ≤ -(w (i + 1) - 2 * w i + w (i - 1)) := by
    intro i h1 hN
    have h1' := hbar i h1 hN
    rw [← hrow i h1 hN, abs_div, abs_of_pos hp] at h1'
    exact (div_le_div_iff_of_pos_right hp).1 h1'
  have hr := abs_le.1 hw0
  -- the low-end condition for a function `d` with `G d₀ + C d₁ ≤ 0`
  have lo : ∀ d : ℕ → α, G * d 0 + C * d 1 ≤ 0 → 0 < d 1 → d 0 ≤ d 1 := by
    intro d hd hd1
    have h1 : 0 ≤ (G + C) * d 1 := mul_nonneg hGC hd1.le
    have h2 : G * d 0 ≤ G * d 1 := by nlinarith
    exact le_of_mul_le_mul_left h2 hG
  intro i hi1 hiN
  rw [abs_le]
  constructor
  · have := tridiag_comparison_w N (fun j => -e j - w j) (fun _ => 1) (fun _ => 1)
      (fun _ _ _ => zero_le_one) (fun _ _ _ => zero_lt_one)
      (fun j h1 hN _ => by have := (abs_le.1 (key j h1 hN)).1; linarith)
      (lo (fun j => -e j - w j) (by
        show G * (-e 0 - w 0) + C * (-e 1 - w 1) ≤ 0
        have : G * (-e 0 - w 0) + C * (-e 1 - w 1)
            = -(G * e 0 + C * e 1) - (G * w 0 + C * w 1) := by ring
        rw [this, he0]; linarith))
      (fun hd => by
        have hd' : 0 < -e N - w N := hd
        show -e (N + 1) - w (N + 1) < -e N - w N
        rw [heN]; linarith) i hi1 hiN
    linarith
  · have := tridiag_comparison_w N (fun j => e j - w j) (fun _ => 1) (fun _ => 1)
      (fun _ _ _ => zero_le_one) (fun _ _ _ => zero_lt_one)
      (fun j h1 hN _ => by have := (abs_le.1 (key j h1 hN)).2; linarith)
      (lo (fun j => e j - w j) (by
        show G * (e 0 - w 0) + C * (e 1 - w 1) ≤ 0
        have : G * (e 0 - w 0) + C * (e 1 - w 1)
            = (G * e 0 + C * e 1) - (G * w 0 + C * w 1) := by ring
        rw [this, he0]; linarith))
      (fun hd => by
        have hd' : 0 < e N - w N := hd
        show e (N + 1) - w (N + 1) < e N - w N
        rw [heN]; linarith) i hi1 hiN
    linarith

/-! ### the barrier `Ti (L² − X²)/2 + B (L − X) + K` on the uniform grid -/

/-- barrier at position `X`: concave with `W'' = −Ti`, decreasing on `X ≥ 0`, `W(L) = K` -/
def WR (L Ti B K X : α) : α := Ti * ((L ^ 2 - X ^ 2) / 2) + B * (L - X) + K

/-- the barrier on `0..N+1`: `W` at the cell centres `X_i = i h − h/2` (`X₀ = −h/2` for the low
    ghost, lowered by `T1 h²` so that row `1` gains `T1`), reflected into the high ghost -/
def barrierR (N : ℕ) (L Ti T1 B K : α) (i : ℕ) : α :=
  if i = 0 then WR L Ti B K ((mkAxisNL N L).cen 0) - T1 * (L / N) ^ 2
  else if i = N + 1 then -WR L Ti B K ((mkAxisNL N L).cen N)
  else WR L Ti B K ((mkAxisNL N L).cen i)

theorem barrierR_interior (N : ℕ) (L Ti T1 B K : α) (i : ℕ) (h1 : 1 ≤ i) (hN : i ≤ N) :
    barrierR N L Ti T1 B K i = WR L Ti B K ((mkAxisNL N L).cen i) := by
  have a : ¬ i = 0 := by omega
  have b : ¬ i = N + 1 := by omega
  simp only [barrierR, if_neg a, if_neg b]

theorem barrierR_zero (N : ℕ) (L Ti T1 B K : α) :
    barrierR N L Ti T1 B K 0 = WR L Ti B K ((mkAxisNL N L).cen 0) - T1 * (L / N) ^ 2 := by
  simp only [barrierR, if_true]

theorem barrierR_last (N : ℕ) (L Ti T1 B K : α) :
    barrierR N L Ti T1 B K (N + 1) = -WR L Ti B K ((mkAxisNL N L).cen N) := by
  have a : ¬ N + 1 = 0 := by omega
  simp only [barrierR, if_neg a, if_true]

/-- rows `2..N−1`: `−δ²w/h² = Ti` exactly -/
theorem barrierR_row_mid (N : ℕ) (L Ti T1 B K : α) (hL : 0 < L) (i : ℕ) (h2 : 2 ≤ i)
    (hN : i + 1 ≤ N) :
    -(barrierR N L Ti T1 B K (i + 1) - 2 * barrierR N L Ti T1 B K i
        + barrierR N L Ti T1 B K (i - 1)) / (L / N) ^ 2 = Ti := by
  have hNpos : (0 : α) < N := by exact_mod_cast (by omega : 0 < N)
  have hh : L / (N : α) ≠ 0 := ne_of_gt (div_pos hL hNpos)
  rw [barrierR_interior N L Ti T1 B K (i + 1) (by omega) (by omega),
    barrierR_interior N L Ti T1 B K i (by omega) (by omega),
    barrierR_interior N L Ti T1 B K (i - 1) (by omega) (by omega)]
  have c1 : ((i - 1 : ℕ) : α) = (i : α) - 1 := by rw [Nat.cast_sub (by omega)]; simp
  simp only [WR, mkAxisNL, c1, Nat.cast_add, Nat.cast_one]
  generalize L / (N : α) = h at hh
  field_simp
  ring

/-- first row: `−δ²w/h² = Ti + T1` -/
theorem barrierR_row_first (N : ℕ) (L Ti T1 B K : α) (hL : 0 < L) (hN : 2 ≤ N) :
    -(barrierR N L Ti T1 B K (1 + 1) - 2 * barrierR N L Ti T1 B K 1
        + barrierR N L Ti T1 B K (1 - 1)) / (L / N) ^ 2 = Ti + T1 := by
  have hNpos : (0 : α) < N := by exact_mod_cast (by omega : 0 < N)
  have hh : L / (N : α) ≠ 0 := ne_of_gt (div_pos hL hNpos)
  rw [barrierR_interior N L Ti T1 B K (1 + 1) (by omega) (by omega),
    barrierR_interior N L Ti T1 B K 1 (by omega) (by omega), show 1 - 1 = 0 from rfl,
    barrierR_zero]
  simp only [WR, mkAxisNL, Nat.cast_add, Nat.cast_one, Nat.cast_zero]
  generalize L / (N : α) = h at hh
  field_simp
  ring

/-- last row: `−δ²w/h² = (3/4) Ti + 2K/h²` -/
theorem barrierR_row_last (N : ℕ) (L Ti T1 B K : α) (hL : 0 < L) (hN : 2 ≤ N) :
    -(barrierR N L Ti T1 B K (N + 1) - 2 * barrierR N L Ti T1 B K N
        + barrierR N L Ti T1 B K (N - 1)) / (L / N) ^ 2 = 3 / 4 * Ti + 2 * K / (L / N) ^ 2 := by
  have hNpos : (0 : α) < N := by exact_mod_cast (by omega : 0 < N)
  have hN0 : (N : α) ≠ 0 := ne_of_gt hNpos
  have hL0 : L ≠ 0 := ne_of_gt hL
  rw [barrierR_last, barrierR_interior N L Ti T1 B K N (by omega) (by omega),
    barrierR_interior N L Ti T1 B K (N - 1) (by omega) (by omega)]
  have c1 : ((N - 1 : ℕ) : α) = (N : α) - 1 := by rw [Nat.cast_sub (by omega)]; simp
  simp only [WR, mkAxisNL, c1]
  field_simp
  ring

/-- the low ghost relation applied to the barrier:
    `G w₀ + C w₁ = b W(X₁) + G h (B − T1 h)` with `G = −a/h + b/2`, `C = a/h + b/2` -/
theorem barrierR_lo (N : ℕ) (L Ti T1 B K a b : α) (hL : 0 < L) (hN : 1 ≤ N) :
    (-(a / (L / N)) + b / 2) * barrierR N L Ti T1 B K 0
      + (a / (L / N) + b / 2) * barrierR N L Ti T1 B K 1
    = b * WR L Ti B K ((mkAxisNL N L).cen 1)
      + (-(a / (L / N)) + b / 2) * (L / N) * (B - T1 * (L / N)) := by
  have hNpos : (0 : α) < N := by exact_mod_cast (by omega : 0 < N)
  have hh : L / (N : α) ≠ 0 := ne_of_gt (div_pos hL hNpos)
  rw [barrierR_zero, barrierR_interior N L Ti T1 B K 1 (by omega) (by omega)]
  simp only [WR, mkAxisNL, Nat.cast_one, Nat.cast_zero]
  generalize L / (N : α) = h at hh
  field_simp
  ring

/-- on `0 ≤ X ≤ L` the barrier lies between `K` and `Ti L²/2 + B L + K` -/
theorem WR_bounds (L Ti B K X : α) (hTi : 0 ≤ Ti) (hB : 0 ≤ B) (hX0 : 0 ≤ X) (hXL : X ≤ L) :
    K ≤ WR L Ti B K X ∧ WR L Ti B K X ≤ Ti * L ^ 2 / 2 + B * L + K := by
  unfold WR
  have h1 : 0 ≤ L ^ 2 - X ^ 2 := by nlinarith
  have h2 : L ^ 2 - X ^ 2 ≤ L ^ 2 := by nlinarith
  have h3 : 0 ≤ Ti * ((L ^ 2 - X ^ 2) / 2) := by positivity
  have h4 : Ti * ((L ^ 2 - X ^ 2) / 2) ≤ Ti * (L ^ 2 / 2) :=
    mul_le_mul_of_nonneg_left (by linarith) hTi
  have h5 : 0 ≤ B * (L - X) := mul_nonneg hB (by linarith)
  have h6 : B * (L - X) ≤ B * L := mul_le_mul_of_nonneg_left (by linarith) hB
  constructor <;> linarith

/-- **Convergence from truncation bounds, Robin (`a u' + b u = c`, `a ≤ 0 ≤ b`, not both zero)
    at the low end, Dirichlet at the high end.**  `N ≥ 2` cells of size `h = L/N`; the error `e`
    satisfies `−δ²e/h² = τ` with `|τ| ≤ Ti` (rows `2..N−1`), `|τ₁| ≤ T1`, `|τ_N| ≤ TN`; the low
    ghost relation of the model holds up to a residual `r` with `|r| ≤ |a| δ1 + b δ2` (`δ1`: error
    of the difference quotient across the boundary face, `δ2`: error of the two-point average);
    reflected ghost at the high end.  Then
    `|e_i| ≤ Ti L²/2 + (δ1 + T1 h) L + δ2 + TN h²/2`:
    the low boundary row enters with a factor `h`, the high (Dirichlet) one with `h²`. -/
theorem robin_error_of_truncation (N : ℕ) (hN : 2 ≤ N) (L : α) (hL : 0 < L) (a b : α)
    (ha : a ≤ 0) (hb : 0 ≤ b) (hab : a < 0 ∨ 0 < b)
    (Ti T1 TN δ1 δ2 : α) (hTi : 0 ≤ Ti) (hδ1 : 0 ≤ δ1) (hδ2 : 0 ≤ δ2)
    (e τ : ℕ → α) (r : α)
    (hrow : ∀ i, 1 ≤ i → i ≤ N → -(e (i + 1) - 2 * e i + e (i - 1)) / (L / N) ^ 2 = τ i)
    (he0 : (-(a / (L / N)) + b / 2) * e 0 + (a / (L / N) + b / 2) * e 1 = r)
    (heN : e (N + 1) = -e N)
    (hr : |r| ≤ -a * δ1 + b * δ2)
    (hτi : ∀ i, 2 ≤ i → i + 1 ≤ N → |τ i| ≤ Ti) (hτ1 : |τ 1| ≤ T1) (hτN : |τ N| ≤ TN) :
    ∀ i, 1 ≤ i → i ≤ N →
      |e i| ≤ Ti * L ^ 2 / 2 + (δ1 + T1 * (L / N)) * L + δ2 + TN * (L / N) ^ 2 / 2 := by
  have hNpos : (0 : α) < N := by exact_mod_cast (by omega : 0 < N)
  have hh : 0 < L / (N : α) := div_pos hL hNpos
  have hp : 0 < (L / (N : α)) ^ 2 := pow_pos hh 2
  have hT1 : 0 ≤ T1 := le_trans (abs_nonneg _) hτ1
  have hTN : 0 ≤ TN := le_trans (abs_nonneg _) hτN
  have hB : 0 ≤ δ1 + T1 * (L / N) := by positivity
  have hG : 0 < -(a / (L / N)) + b / 2 := by
    have h1 : 0 ≤ -(a / (L / N)) := by
      rw [← neg_div]; exact div_nonneg (by linarith) hh.le
    rcases hab with h | h
    · have : 0 < -(a / (L / N)) := by rw [← neg_div]; exact div_pos (by linarith) hh
      linarith
    · linarith
  have hGh : -a ≤ (-(a / (L / N)) + b / 2) * (L / N) := by
    have : (-(a / (L / N)) + b / 2) * (L / N) = -a + b / 2 * (L / N) := by
      field_simp
    rw [this]
    have : 0 ≤ b / 2 * (L / N) := by positivity
    linarith
  set B := δ1 + T1 * (L / N) with hBdef
  set K := δ2 + TN * (L / N) ^ 2 / 2 with hKdef
  have hc1 := cenNL_mem N L hL 1 (by omega) (by omega)
  have hW1 := (WR_bounds L Ti B K _ hTi hB hc1.1 hc1.2).1
  intro i hi1 hiN
  have hbound := robin_error_bound N (L / N) hh (-(a / (L / N)) + b / 2) (a / (L / N) + b / 2) r hG
    (by have : -(a / (L / N)) + b / 2 + (a / (L / N) + b / 2) = b := by ring
        rw [this]; exact hb)
    e (barrierR N L Ti T1 B K) τ hrow
    (by
      intro j hj1 hjN
      by_cases c1 : j = 1
      · subst c1
        rw [barrierR_row_first N L Ti T1 B K hL hN]
        linarith
      · by_cases cN : j = N
        · subst cN
          rw [barrierR_row_last j L Ti T1 B K hL hN]
          have : 2 * K / (L / (j : α)) ^ 2 = 2 * δ2 / (L / (j : α)) ^ 2 + TN := by
            rw [hKdef]; field_simp
          have h2 : 0 ≤ 2 * δ2 / (L / (j : α)) ^ 2 := by positivity
          linarith
        · rw [barrierR_row_mid N L Ti T1 B K hL j (by omega) (by omega)]
          exact hτi j (by omega) (by omega))
    he0 heN
    (by
      rw [barrierR_lo N L Ti T1 B K a b hL (by omega)]
      have e1 : B - T1 * (L / N) = δ1 := by rw [hBdef]; ring
      rw [e1]
      have h1 : b * δ2 ≤ b * WR L Ti B K ((mkAxisNL N L).cen 1) :=
        mul_le_mul_of_nonneg_left (by rw [hKdef] at hW1; nlinarith) hb
      have h2 : -a * δ1 ≤ (-(a / (L / N)) + b / 2) * (L / N) * δ1 :=
        mul_le_mul_of_nonneg_right hGh hδ1
      linarith)
    (by
      rw [barrierR_last, barrierR_interior N L Ti T1 B K N (by omega) (by omega)]; linarith)
    i hi1 hiN
  rw [barrierR_interior N L Ti T1 B K i hi1 hiN] at hbound
  have hci := cenNL_mem N L hL i hi1 hiN
  have := (WR_bounds L Ti B K _ hTi hB hci.1 hci.2).2
  calc |e i| ≤ _ := hbound
    _ ≤ _ := this
    _ = Ti * L ^ 2 / 2 + (δ1 + T1 * (L / N)) * L + δ2 + TN * (L / N) ^ 2 / 2 := by
        rw [hBdef, hKdef]; ring

end Comparison

/-! ## Part 2 — Taylor estimates at the low boundary (reference ghost = Taylor polynomial) -/

theorem iteratedDeriv_three (u : ℝ → ℝ) : iteratedDeriv 3 u = deriv (deriv (deriv u)) := by
  rw [iteratedDeriv_succ, iteratedDeriv_two]

/-- `u''` is Lipschitz with the constant `sup |u'''|` -/
theorem deriv2_lipschitz {u : ℝ → ℝ} (hu : ContDiff ℝ 3 u) (x t M3 : ℝ)
    (hb : ∀ y ∈ uIcc x (x + t), |iteratedDeriv 3 u y| ≤ M3) :
    |deriv (deriv u) (x + t) - deriv (deriv u) x| ≤ M3 * |t| := by
  have h2 : ContDiff ℝ ((0 + 1 : ℕ)) (deriv (deriv u)) := by
    have h1 : ContDiff ℝ 2 (deriv u) := ContDiff.deriv' (by exact_mod_cast hu)
    have : ContDiff ℝ 1 (deriv (deriv u)) := ContDiff.deriv' (by exact_mod_cast h1)
    exact_mod_cast this
  have := taylor_bound h2 x t M3
    (by intro y hy; rw [iteratedDeriv_one, ← iteratedDeriv_three]; exact hb y hy)
  simpa using this

/-- the reference value in the low ghost cell: the second-order Taylor polynomial of `u` about the
    boundary point `0`, evaluated at the ghost centre `−h/2` (only `u(0)`, `u'(0)`, `u''(0)` enter:
    `u` is not evaluated outside the domain) -/
noncomputable def ghostT (u : ℝ → ℝ) (h : ℝ) : ℝ :=
  u 0 - h / 2 * deriv u 0 + h ^ 2 / 8 * deriv (deriv u) 0

theorem ghostT_grad {u : ℝ → ℝ} (hu : ContDiff ℝ 3 u) (L M3 : ℝ)
    (hb : ∀ y ∈ Icc 0 L, |iteratedDeriv 3 u y| ≤ M3) (h : ℝ) (hh : 0 < h) (hhL : h / 2 ≤ L) :
    |(u (h / 2) - ghostT u h) / h - deriv u 0| ≤ M3 * h ^ 2 / 48 := by
  have h0 : (0 : ℝ) ∈ Icc 0 L := ⟨le_refl _, by linarith⟩
  have R := taylor3_bound hu 0 (h / 2) M3
    (fun y hy => hb y (uIcc_subset_Icc h0 ⟨by linarith, by linarith⟩ hy))
  rw [zero_add, abs_of_pos (by positivity : 0 < h / 2)] at R
  have key : (u (h / 2) - ghostT u h) / h - deriv u 0
      = (u (h / 2) - (u 0 + h / 2 * deriv u 0 + (h / 2) ^ 2 / 2 * deriv (deriv u) 0)) / h := by
    unfold ghostT
    field_simp
    ring
  rw [key, abs_div, abs_of_pos hh, div_le_iff₀ hh]
  calc _ ≤ _ := R
    _ = M3 * h ^ 2 / 48 * h := by ring

theorem ghostT_mean {u : ℝ → ℝ} (hu : ContDiff ℝ 3 u) (L M2 M3 : ℝ)
    (hb2 : ∀ y ∈ Icc 0 L, |deriv (deriv u) y| ≤ M2)
    (hb : ∀ y ∈ Icc 0 L, |iteratedDeriv 3 u y| ≤ M3) (h : ℝ) (hh : 0 < h) (hhL : h / 2 ≤ L) :
    |(u (h / 2) + ghostT u h) / 2 - u 0| ≤ M2 * h ^ 2 / 8 + M3 * h ^ 3 / 96 := by
  have h0 : (0 : ℝ) ∈ Icc 0 L := ⟨le_refl _, by linarith⟩
  have R := taylor3_bound hu 0 (h / 2) M3
    (fun y hy => hb y (uIcc_subset_Icc h0 ⟨by linarith, by linarith⟩ hy))
  rw [zero_add, abs_of_pos (by positivity : 0 < h / 2)] at R
  have D := hb2 0 h0
  have key : (u (h / 2) + ghostT u h) / 2 - u 0
      = (u (h / 2) - (u 0 + h / 2 * deriv u 0 + (h / 2) ^ 2 / 2 * deriv (deriv u) 0)) / 2
        + h ^ 2 / 8 * deriv (deriv u) 0 := by
    unfold ghostT
    ring
  rw [key]
  have e1 : |h ^ 2 / 8 * deriv (deriv u) 0| ≤ M2 * h ^ 2 / 8 := by
    rw [abs_mul, abs_of_pos (by positivity : 0 < h ^ 2 / 8)]
    have := mul_le_mul_of_nonneg_left D (by positivity : 0 ≤ h ^ 2 / 8)
    linarith
  have e2 : |(u (h / 2) - (u 0 + h / 2 * deriv u 0 + (h / 2) ^ 2 / 2 * deriv (deriv u) 0)) / 2|
      ≤ M3 * h ^ 3 / 96 := by
    rw [abs_div, abs_of_pos (by norm_num : (0 : ℝ) < 2), div_le_iff₀ (by norm_num)]
    calc _ ≤ _ := R
      _ = M3 * h ^ 3 / 96 * 2 := by ring
  calc _ ≤ _ := abs_add_le _ _
    _ ≤ M3 * h ^ 3 / 96 + M2 * h ^ 2 / 8 := add_le_add e2 e1
    _ = _ := by ring

theorem ghostT_row {u : ℝ → ℝ} (hu : ContDiff ℝ 3 u) (L M3 : ℝ)
    (hb : ∀ y ∈ Icc 0 L, |iteratedDeriv 3 u y| ≤ M3) (h : ℝ) (hh : 0 < h)
    (hhL : 3 * h / 2 ≤ L) :
    |(u (3 * h / 2) - 2 * u (h / 2) + ghostT u h) / h ^ 2 - deriv (deriv u) (h / 2)|
      ≤ 53 / 48 * M3 * h := by
  have h0 : (0 : ℝ) ∈ Icc 0 L := ⟨le_refl _, by linarith⟩
  have R1 := taylor3_bound hu 0 (h / 2) M3
    (fun y hy => hb y (uIcc_subset_Icc h0 ⟨by linarith, by linarith⟩ hy))
  have R2 := taylor3_bound hu 0 (3 * h / 2) M3
    (fun y hy => hb y (uIcc_subset_Icc h0 ⟨by linarith, by linarith⟩ hy))
  have R3 := deriv2_lipschitz hu 0 (h / 2) M3
    (fun y hy => hb y (uIcc_subset_Icc h0 ⟨by linarith, by linarith⟩ hy))
  rw [zero_add, abs_of_pos (by positivity : 0 < h / 2)] at R1 R3
  rw [zero_add, abs_of_pos (by positivity : 0 < 3 * h / 2)] at R2
  have hp : 0 < h ^ 2 := pow_pos hh 2
  have key : (u (3 * h / 2) - 2 * u (h / 2) + ghostT u h) / h ^ 2 - deriv (deriv u) (h / 2)
      = ((u (3 * h / 2) - (u 0 + 3 * h / 2 * deriv u 0
            + (3 * h / 2) ^ 2 / 2 * deriv (deriv u) 0))
          - 2 * (u (h / 2) - (u 0 + h / 2 * deriv u 0 + (h / 2) ^ 2 / 2 * deriv (deriv u) 0)))
          / h ^ 2
        - (deriv (deriv u) (h / 2) - deriv (deriv u) 0) := by
    unfold ghostT
    field_simp
    ring
  rw [key]
  have e1 : |((u (3 * h / 2) - (u 0 + 3 * h / 2 * deriv u 0
            + (3 * h / 2) ^ 2 / 2 * deriv (deriv u) 0))
          - 2 * (u (h / 2) - (u 0 + h / 2 * deriv u 0 + (h / 2) ^ 2 / 2 * deriv (deriv u) 0)))
          / h ^ 2| ≤ 29 / 48 * M3 * h := by
    rw [abs_div, abs_of_pos hp, div_le_iff₀ hp]
    calc _ ≤ _ := abs_sub _ _
      _ ≤ M3 * (3 * h / 2) ^ 3 / 6 + 2 * (M3 * (h / 2) ^ 3 / 6) := by
          rw [abs_mul, abs_of_pos (by norm_num : (0 : ℝ) < 2)]
          exact add_le_add R2 (mul_le_mul_of_nonneg_left R1 (by norm_num))
      _ = 29 / 48 * M3 * h * h ^ 2 := by ring
  calc _ ≤ _ := abs_sub _ _
    _ ≤ 29 / 48 * M3 * h + M3 * (h / 2) := add_le_add e1 R3
    _ = _ := by ring

/-! ## Part 3 — Robin conditions on the low side of the uniform 1-D mesh, reference values -/

section Model
variable {α : Type} [Field α] [LinearOrder α] [IsStrictOrderedRing α]

/-- Robin relation `a ∂φ/∂x + b φ = c` on the left (low `x`) side — the code applies the relation
    in the positive coordinate direction —, Dirichlet `φ = uR` on the right; nothing periodic -/
def robinLoBC (a b c uR : α) : BCs α :=
  ⟨fun _ => ⟨fun _ => a, fun _ => b, fun _ => c, false⟩,
   fun _ => ⟨fun _ => 0, fun _ => 1, fun _ => uR, false⟩⟩

theorem ghostHi_robinLoBC (M : Mesh α) (a b c uR : α) (φ : CellFld α) (d : Dir) (cc : Idx) :
    ghostHi M (robinLoBC a b c uR) φ d cc = some (2 * uR - φ cc) := by
  have h2 : (0 : α) / (lineM M d cc * (M.axis d).DX (M.n d + 1)) = 0 := zero_div _
  simp only [ghostHi, BCs.periodicDir, robinLoBC, Bool.or_self, Bool.false_eq_true, if_false,
    sdiv, hiGhostCoef, hiCellCoef, h2]
  norm_num
  ring

theorem loGhostCoef_robinLoBC {M : Mesh α} {N : ℕ} {L : α} (hM : IsUniform1D M N L)
    (a b c uR : α) (cc : Idx) :
    loGhostCoef M (robinLoBC a b c uR) .x cc = -(a / (L / N)) + b / 2 := by
  simp only [loGhostCoef, robinLoBC, lineM, hM.kind, Mesh.axis, hM.ax, mkAxisNL, one_mul]

theorem loCellCoef_robinLoBC {M : Mesh α} {N : ℕ} {L : α} (hM : IsUniform1D M N L)
    (a b c uR : α) (cc : Idx) :
    loCellCoef M (robinLoBC a b c uR) .x cc = a / (L / N) + b / 2 := by
  simp only [loCellCoef, robinLoBC, lineM, hM.kind, Mesh.axis, hM.ax, mkAxisNL, one_mul]

/-- the model's low ghost value for these conditions, as a relation:
    `ghostLo = some g` iff the ghost coefficient `G = −a/h + b/2` is non-zero and
    `G g + (a/h + b/2) φ₁ = c`, i.e. `a (φ₁ − g)/h + b (g + φ₁)/2 = c` -/
theorem ghostLo_robinLoBC_iff {M : Mesh α} {N : ℕ} {L : α} (hM : IsUniform1D M N L)
    (a b c uR : α) (φ : CellFld α) (cc : Idx) (g : α) :
    ghostLo M (robinLoBC a b c uR) φ .x cc = some g ↔
      -(a / (L / N)) + b / 2 ≠ 0 ∧
      (-(a / (L / N)) + b / 2) * g + (a / (L / N) + b / 2) * φ cc = c := by
  have hper : (robinLoBC a b c uR).periodicDir .x = false := rfl
  rw [ghostLo_nonper hper, sdiv_eq_some, loGhostCoef_robinLoBC hM, loCellCoef_robinLoBC hM]
  have hc : ((robinLoBC a b c uR).lo .x).c cc = c := rfl
  rw [hc]
  generalize -(a / (L / N)) + b / 2 = G
  generalize a / (L / N) + b / 2 = C
  constructor
  · rintro ⟨h0, hg⟩
    refine ⟨h0, ?_⟩
    rw [hg]; field_simp; ring
  · rintro ⟨h0, hg⟩
    refine ⟨h0, ?_⟩
    rw [← hg]; field_simp; ring

/-- the model's boundary row of the low ghost cell (`boundaryConditionsTerm`) for these conditions -/
theorem bcRowLo_robinLoBC {M : Mesh α} {N : ℕ} {L : α} (hM : IsUniform1D M N L)
    (a b c uR : α) (x : CellFld α)
    (hrow : (bcRowLo M (robinLoBC a b c uR) .x (1, 1, 1)).app x
      = (bcRowLo M (robinLoBC a b c uR) .x (1, 1, 1)).rhs) :
    (-(a / (L / N)) + b / 2) * x (0, 1, 1) + (a / (L / N) + b / 2) * x (1, 1, 1) = c := by
  have hper : (robinLoBC a b c uR).periodicDir .x = false := rfl
  rw [bcRowLo_nonper hper, Row.app_two, loGhostCoef_robinLoBC hM, loCellCoef_robinLoBC hM] at hrow
  have hc : ((robinLoBC a b c uR).lo .x).c (1, 1, 1) = c := rfl
  simp only [hc, Idx.set] at hrow
  linarith

end Model

/-- reference values for the Robin problem: `u` at the cell centres, the Taylor ghost `ghostT` in
    the low ghost cell, the Dirichlet reflection in the high ghost cell -/
noncomputable def refR (N : ℕ) (L : ℝ) (u : ℝ → ℝ) (i : ℕ) : ℝ :=
  if i = 0 then ghostT u (L / N) else refSol N L u i

theorem refR_zero (N : ℕ) (L : ℝ) (u : ℝ → ℝ) : refR N L u 0 = ghostT u (L / N) := by
  simp only [refR, if_true]

theorem refR_pos (N : ℕ) (L : ℝ) (u : ℝ → ℝ) (i : ℕ) (h1 : 1 ≤ i) :
    refR N L u i = refSol N L u i := by
  have a : ¬ i = 0 := by omega
  simp only [refR, if_neg a]

/-! ### existence of the discrete Robin solution by shooting -/

/-- the discrete solution of the Robin–Dirichlet problem: the particular solution `shoot` started
    at `p₀ = c/G`, `p₁ = 0` plus the multiple of the homogeneous solution
    `q_i = 1 + (i − 1)(G + C)/G` (`G q₀ + C q₁ = 0`) that fixes the high ghost relation -/
noncomputable def discreteSolR (N : ℕ) (G C c gR h : ℝ) (rhs : ℕ → ℝ) (i : ℕ) : ℝ :=
  shoot (c / (2 * G)) h rhs i
    + (2 * gR - shoot (c / (2 * G)) h rhs (N + 1) - shoot (c / (2 * G)) h rhs N)
        / (2 + (2 * (N : ℝ) - 1) * ((G + C) / G)) * (1 + ((i : ℝ) - 1) * ((G + C) / G))

theorem discreteSolR_spec (N : ℕ) (hN : 1 ≤ N) (G C c gR h : ℝ) (hh : 0 < h) (hG : 0 < G)
    (hGC : 0 ≤ G + C) (rhs : ℕ → ℝ) :
    (∀ i, 1 ≤ i → i ≤ N →
      -((discreteSolR N G C c gR h rhs (i + 1) - 2 * discreteSolR N G C c gR h rhs i
          + discreteSolR N G C c gR h rhs (i - 1)) / h ^ 2) = rhs i) ∧
    G * discreteSolR N G C c gR h rhs 0 + C * discreteSolR N G C c gR h rhs 1 = c ∧
    discreteSolR N G C c gR h rhs (N + 1) = 2 * gR - discreteSolR N G C c gR h rhs N := by
  have hNpos : (1 : ℝ) ≤ N := by exact_mod_cast hN
  have hh0 : h ≠ 0 := ne_of_gt hh
  have hG0 : G ≠ 0 := ne_of_gt hG
  have hκ : 0 ≤ (G + C) / G := div_nonneg hGC hG.le
  have hden : (2 + (2 * (N : ℝ) - 1) * ((G + C) / G)) ≠ 0 := by
    have : 0 ≤ (2 * (N : ℝ) - 1) * ((G + C) / G) := mul_nonneg (by linarith) hκ
    linarith
  refine ⟨?_, ?_, ?_⟩
  · intro i h1 _
    obtain ⟨k, rfl⟩ : ∃ k, i = k + 1 := ⟨i - 1, by omega⟩
    simp only [discreteSolR, Nat.add_sub_cancel]
    rw [show k + 1 + 1 = k + 2 from rfl, shoot]
    push_cast
    field_simp
    ring
  · simp only [discreteSolR, shoot]
    push_cast
    field_simp
    ring
  · simp only [discreteSolR]
    push_cast
    generalize (G + C) / G = κ at hden hκ ⊢
    field_simp
    ring

theorem quartic_d3' (y : ℝ) : iteratedDeriv 3 (fun t : ℝ => t ^ 4) y = 24 * y := by
  rw [iteratedDeriv_succ, iteratedDeriv_succ, iteratedDeriv_one, quartic_d1, quartic_d2, quartic_d3]

theorem quartic_deriv1 (y : ℝ) : deriv (fun t : ℝ => t ^ 4) y = 4 * y ^ 3 := by
  rw [quartic_d1]

/-! ### a concrete instance for the non-vacuity examples: `u = x⁴`, `N = 2`, `−u'(0) + u(0) = 0` -/

/-- the solution of the model's discrete system for `−u'' = −12x²`, `−u'(0) + u(0) = 0`,
    `u(1) = 1` on two cells (`h = 1/2`): interior values `−5/64`, `5/64`, ghosts `−3/64`, `123/64` -/
noncomputable def robinSol : CellFld ℝ := fun c =>
  if c.1 = 0 then -3 / 64 else if c.1 = 1 then -5 / 64 else if c.1 = 2 then 5 / 64 else 123 / 64

theorem robinSol_solves :
    Solves (uniMesh 2 (1 : ℝ)) (robinLoBC (-1) 1 0 1)
      (poissonTerms (uniMesh 2 (1 : ℝ)) (fun t => -(12 * t ^ 2))) robinSol := by
  intro c hc
  obtain ⟨i, j, k⟩ := c
  obtain ⟨h1, h2, h3⟩ := hc
  simp only [uniMesh, Kind.active, Kind.dim] at h2 h3
  norm_num at h2 h3
  subst h2 h3
  have hi : i = 0 ∨ i = 1 ∨ i = 2 ∨ i = 3 := by
    have : i ≤ 3 := h1
    omega
  have hM := uniMesh_isUniform 2 (1 : ℝ)
  rcases hi with rfl | rfl | rfl | rfl
  · simp [assembleOp, assembleRhs, Mesh.outCount, bcRow, Mesh.outDir, bcRowLo, BCs.periodicDir,
      robinLoBC, Row.app, loCellCoef, loGhostCoef, uniMesh, mkAxisNL, Idx.get, Idx.set,
      Kind.active, Kind.dim, robinSol, lineM, Mesh.axis]
    norm_num
  · have h0 : (uniMesh 2 (1 : ℝ)).outCount (1, 1, 1) = 0 := by
      simp [Mesh.outCount, uniMesh, mkAxisNL, Kind.active, Kind.dim]
    simp only [assembleOp, assembleRhs, h0, if_true]
    rw [sumRow_poissonTerms_app, sumRhs_poissonTerms,
      diffusionRow_uniform1D_app hM (by norm_num) (by norm_num)]
    norm_num [robinSol, uniMesh, mkAxisNL]
  · have h0 : (uniMesh 2 (1 : ℝ)).outCount (2, 1, 1) = 0 := by
      simp [Mesh.outCount, uniMesh, mkAxisNL, Kind.active, Kind.dim]
    simp only [assembleOp, assembleRhs, h0, if_true]
    rw [sumRow_poissonTerms_app, sumRhs_poissonTerms,
      diffusionRow_uniform1D_app hM (by norm_num) (by norm_num)]
    norm_num [robinSol, uniMesh, mkAxisNL]
  · simp [assembleOp, assembleRhs, Mesh.outCount, bcRow, Mesh.outDir, bcRowHi, BCs.periodicDir,
      robinLoBC, Row.app, hiCellCoef, hiGhostCoef, uniMesh, mkAxisNL, Idx.get, Idx.set,
      Kind.active, Kind.dim, robinSol, Mesh.n, Mesh.axis]
    norm_num

end PyFV.C02ConvBC
