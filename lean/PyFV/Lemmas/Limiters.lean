/-
  PyFV.Lemmas.Limiters — helper lemmas and closing tactics for property C13.

  The generated limiter terms `PyFV.Gen.X` follow the SPELLING of the Python source.  The theorems of
  `PyFV.Props.C13` therefore never rely on that spelling: `X_eq_spec` is closed semantically (tactics `lim_ac`,
  `lim_cases` below, built on `geq_ring` / `geq_field` of `PyFV.Lemmas.GenEqTac`), and every other property of a
  limiter (`ψ(1) = 1`, the TVD bounds, `ψ = 0` for `r ≤ 0`, the value at the pole) is proved HERE once for the
  hand-written closed form `Spec.X` (section "properties of the published closed forms") and transported through
  `X_eq_spec`.  The denominators are shown non-zero by order arguments (`linarith` / `nlinarith` normalise the
  polynomial spelling), not by matching a fixed term.
-/
import PyFV.Gen.Limiters
import PyFV.Model.LimiterSpec
import PyFV.Model.Terms
import PyFV.Lemmas.GenEqTac
import Mathlib.Tactic.SplitIfs
import Mathlib.Tactic.Ring
import Mathlib.Tactic.Linarith
import Mathlib.Tactic.Positivity
import Mathlib.Tactic.FieldSimp
import Mathlib.Tactic.NormNum

set_option linter.unusedSectionVars false
set_option linter.unusedVariables false

namespace PyFV.Lim

variable {α : Type} [Field α] [LinearOrder α] [IsStrictOrderedRing α]

/-! ### closing tactics (semantic, independent of the spelling of the generated terms) -/

/-- `lhs = rhs` between clipping expressions: equal up to ring-normalisation of the arguments of `min` / `max` /
    `|·|` and up to associativity / commutativity of `min` and of `max`.  Not a decision procedure for the lattice:
    two expressions that differ by more than AC (a changed constant, `min` ↔ `max`, a dropped clip) stay open. -/
macro "lim_ac" : tactic => `(tactic|
  first
  | geq_ring
  | (simp only [min_comm, min_left_comm, min_assoc, max_comm, max_left_comm, max_assoc] <;> done)
  | (ring_nf <;> simp only [min_comm, min_left_comm, min_assoc, max_comm, max_left_comm, max_assoc] <;> done)
  | (simp only [div_eq_mul_inv, mul_inv, inv_inv, inv_neg, inv_pow, inv_one, one_mul, mul_one] <;> ring_nf <;>
       simp only [min_comm, min_left_comm, min_assoc, max_comm, max_left_comm, max_assoc] <;> done))

/-- split every `if` (the indicators `Gen.ind`, the case distinctions of `Spec`), discard the contradictory cases
    by linear arithmetic and close the others with `geq_field` / `lim_ac` -/
macro "lim_cases" : tactic => `(tactic|
  (split_ifs <;> first
    | (exfalso; linarith)
    | geq_field
    | lim_ac))

theorem ind_true {p : Prop} [Decidable p] (h : p) : (Gen.ind p : α) = 1 := if_pos h
theorem ind_false {p : Prop} [Decidable p] (h : ¬ p) : (Gen.ind p : α) = 0 := if_neg h

/-! ### denominators -/

/-- `r (r + 1) + 1 = ((2r + 1)² + 3) / 4 > 0` -/
theorem ospre_den_pos (r : α) : 0 < r * (r + 1) + 1 := by
  nlinarith [sq_nonneg (2 * r + 1)]

theorem ospre_den_pos' (r : α) : 0 < r ^ 2 + r + 1 := by
  nlinarith [sq_nonneg (2 * r + 1)]

theorem one_add_sq_pos (r : α) : 0 < 1 + r * r := by
  nlinarith [mul_self_nonneg r]

theorem one_add_abs_pos (r : α) : 0 < 1 + |r| := by
  have := abs_nonneg r
  linarith

/-- the guarded CHARM denominator is positive: `(r+1)² > 0` off the pole, `eps` on it -/
theorem CHARM_den_pos (eps r : α) (heps : 0 < eps) :
    0 < (r + 1) ^ 2 + eps * Gen.ind (r = -1) := by
  by_cases h : r = -1
  · rw [ind_true h, h]; simpa using heps
  · rw [ind_false h]
    have h1 : r + 1 ≠ 0 := fun h' => h (eq_neg_of_add_eq_zero_left h')
    have : 0 < (r + 1) ^ 2 := lt_of_le_of_ne (sq_nonneg _) (Ne.symm (pow_ne_zero 2 h1))
    simpa using this

/-- the guarded HCUS denominator is non-zero: `r + 2 ≠ 0` off the pole, `eps` on it -/
theorem HCUS_den_ne (eps r : α) (heps : 0 < eps) : r + 2 + eps * Gen.ind (r = -2) ≠ 0 := by
  by_cases h : r = -2
  · rw [ind_true h, h]; simpa using heps.ne'
  · rw [ind_false h]
    have h1 : r + 2 ≠ 0 := fun h' => h (eq_neg_of_add_eq_zero_left h')
    simpa using h1

/-- the guarded HQUICK denominator is non-zero: `r + 3 ≠ 0` off the pole, `eps` on it -/
theorem HQUICK_den_ne (eps r : α) (heps : 0 < eps) : r + 3 + eps * Gen.ind (r = -3) ≠ 0 := by
  by_cases h : r = -3
  · rw [ind_true h, h]; simpa using heps.ne'
  · rw [ind_false h]
    have h1 : r + 3 ≠ 0 := fun h' => h (eq_neg_of_add_eq_zero_left h')
    simpa using h1

/-! ### `r + |r|` -/

theorem add_abs_of_nonpos {r : α} (h : r ≤ 0) : r + |r| = 0 := by
  rw [abs_of_nonpos h]; ring

theorem add_abs_of_pos {r : α} (h : 0 < r) : r + |r| = 2 * r := by
  rw [abs_of_pos h]; ring

/-! ### clipping -/

theorem clip_bounds {r x : α} (hr : 0 < r) (h2 : x ≤ 2 * r) (h4 : x ≤ 4) :
    0 ≤ max 0 x ∧ max 0 x ≤ min (2 * r) 4 :=
  ⟨le_max_left _ _, max_le (le_min (by linarith) (by norm_num)) (le_min h2 h4)⟩

theorem clip_nonpos {x : α} (h : x ≤ 0) : max 0 x = 0 := max_eq_left h

/-! ### properties of the published closed forms (`PyFV.Spec`) — independent of the generated terms -/

section SpecProps

theorem spec_CHARM_one : Spec.CHARM (1 : α) = 1 := by
  rw [Spec.CHARM, if_pos one_pos]; norm_num

theorem spec_CHARM_bounds {r : α} (hr : 0 < r) : 0 ≤ Spec.CHARM r ∧ Spec.CHARM r ≤ min (2 * r) 4 := by
  rw [Spec.CHARM, if_pos hr]
  refine ⟨by positivity, le_min ?_ ?_⟩
  · rw [div_le_iff₀ (by positivity)]
    nlinarith [mul_pos hr hr, mul_pos (mul_pos hr hr) hr]
  · rw [div_le_iff₀ (by positivity)]
    nlinarith [mul_pos hr hr]

theorem spec_CHARM_nonpos {r : α} (hr : r ≤ 0) : Spec.CHARM r = 0 := by
  rw [Spec.CHARM, if_neg (not_lt.mpr hr)]

theorem spec_HCUS_one : Spec.HCUS (1 : α) = 1 := by
  rw [Spec.HCUS_of_ne (by intro h; linarith)]; norm_num

theorem spec_HCUS_bounds {r : α} (hr : 0 < r) : 0 ≤ Spec.HCUS r ∧ Spec.HCUS r ≤ min (2 * r) 4 := by
  rw [Spec.HCUS_of_ne (by intro h; linarith), add_abs_of_pos hr]
  refine ⟨by positivity, le_min ?_ ?_⟩
  · rw [div_le_iff₀ (by positivity)]
    nlinarith [mul_pos hr hr]
  · rw [div_le_iff₀ (by positivity)]
    nlinarith [mul_pos hr hr]

theorem spec_HCUS_nonpos {r : α} (hr : r ≤ 0) : Spec.HCUS r = 0 := by
  unfold Spec.HCUS
  split_ifs
  · rfl
  · rw [add_abs_of_nonpos hr]; simp

theorem spec_HQUICK_one : Spec.HQUICK (1 : α) = 1 := by
  rw [Spec.HQUICK_of_ne (by intro h; linarith)]; norm_num

theorem spec_HQUICK_bounds {r : α} (hr : 0 < r) : 0 ≤ Spec.HQUICK r ∧ Spec.HQUICK r ≤ min (2 * r) 4 := by
  rw [Spec.HQUICK_of_ne (by intro h; linarith), add_abs_of_pos hr]
  refine ⟨by positivity, le_min ?_ ?_⟩
  · rw [div_le_iff₀ (by positivity)]
    nlinarith [mul_pos hr hr]
  · rw [div_le_iff₀ (by positivity)]
    nlinarith [mul_pos hr hr]

theorem spec_HQUICK_nonpos {r : α} (hr : r ≤ 0) : Spec.HQUICK r = 0 := by
  unfold Spec.HQUICK
  split_ifs
  · rfl
  · rw [add_abs_of_nonpos hr]; simp

theorem spec_ospre_one : Spec.ospre (1 : α) = 1 := by
  rw [Spec.ospre]; norm_num

theorem spec_ospre_bounds {r : α} (hr : 0 < r) : 0 ≤ Spec.ospre r ∧ Spec.ospre r ≤ min (2 * r) 4 := by
  rw [Spec.ospre]
  refine ⟨by positivity, le_min ?_ ?_⟩
  · rw [div_le_iff₀ (by positivity)]
    nlinarith [mul_pos hr hr, mul_pos (mul_pos hr hr) hr]
  · rw [div_le_iff₀ (by positivity)]
    nlinarith [mul_pos hr hr]

theorem spec_VanLeer_one : Spec.VanLeer (1 : α) = 1 := by
  rw [Spec.VanLeer, abs_one]; norm_num

theorem spec_VanLeer_bounds {r : α} (hr : 0 < r) : 0 ≤ Spec.VanLeer r ∧ Spec.VanLeer r ≤ min (2 * r) 4 := by
  rw [Spec.VanLeer, abs_of_pos hr]
  refine ⟨by positivity, le_min ?_ ?_⟩
  · rw [div_le_iff₀ (by positivity)]
    nlinarith [mul_pos hr hr]
  · rw [div_le_iff₀ (by positivity)]
    nlinarith [mul_pos hr hr]

theorem spec_VanLeer_nonpos {r : α} (hr : r ≤ 0) : Spec.VanLeer r = 0 := by
  rw [Spec.VanLeer, add_abs_of_nonpos hr]; simp

theorem spec_VanAlbada1_one : Spec.VanAlbada1 (1 : α) = 1 := by
  rw [Spec.VanAlbada1]; norm_num

theorem spec_VanAlbada1_bounds {r : α} (hr : 0 < r) :
    0 ≤ Spec.VanAlbada1 r ∧ Spec.VanAlbada1 r ≤ min (2 * r) 4 := by
  rw [Spec.VanAlbada1]
  refine ⟨by positivity, le_min ?_ ?_⟩
  · rw [div_le_iff₀ (by positivity)]
    nlinarith [mul_pos hr hr, mul_pos (mul_pos hr hr) hr, sq_nonneg (r - 1),
      mul_nonneg hr.le (sq_nonneg (2 * r - 1))]
  · rw [div_le_iff₀ (by positivity)]
    nlinarith [mul_pos hr hr, sq_nonneg (r - 1)]

theorem spec_VanAlbada2_one : Spec.VanAlbada2 (1 : α) = 1 := by
  rw [Spec.VanAlbada2]; norm_num

theorem spec_VanAlbada2_bounds {r : α} (hr : 0 < r) :
    0 ≤ Spec.VanAlbada2 r ∧ Spec.VanAlbada2 r ≤ min (2 * r) 4 := by
  rw [Spec.VanAlbada2]
  refine ⟨by positivity, le_min ?_ ?_⟩
  · rw [div_le_iff₀ (by positivity)]
    nlinarith [mul_pos hr hr, mul_pos (mul_pos hr hr) hr]
  · rw [div_le_iff₀ (by positivity)]
    nlinarith [mul_pos hr hr, sq_nonneg (r - 1), sq_nonneg (2 * r - 1)]

theorem spec_MinMod_one : Spec.MinMod (1 : α) = 1 := by
  rw [Spec.MinMod]; norm_num

theorem spec_MinMod_bounds {r : α} (hr : 0 < r) : 0 ≤ Spec.MinMod r ∧ Spec.MinMod r ≤ min (2 * r) 4 := by
  rw [Spec.MinMod]
  exact clip_bounds hr ((min_le_right _ _).trans (by linarith))
    ((min_le_left _ _).trans (by norm_num))

theorem spec_MinMod_nonpos {r : α} (hr : r ≤ 0) : Spec.MinMod r = 0 := by
  rw [Spec.MinMod]
  exact clip_nonpos ((min_le_right _ _).trans hr)

theorem spec_SUPERBEE_one : Spec.SUPERBEE (1 : α) = 1 := by
  unfold Spec.SUPERBEE; norm_num

theorem spec_SUPERBEE_bounds {r : α} (hr : 0 < r) :
    0 ≤ Spec.SUPERBEE r ∧ Spec.SUPERBEE r ≤ min (2 * r) 4 := by
  unfold Spec.SUPERBEE
  exact clip_bounds hr
    (max_le (min_le_left _ _) ((min_le_left _ _).trans (by linarith)))
    (max_le ((min_le_right _ _).trans (by norm_num)) ((min_le_right _ _).trans (by norm_num)))

theorem spec_SUPERBEE_nonpos {r : α} (hr : r ≤ 0) : Spec.SUPERBEE r = 0 := by
  unfold Spec.SUPERBEE
  exact clip_nonpos
    (max_le ((min_le_left _ _).trans (by linarith)) ((min_le_left _ _).trans hr))

theorem spec_Osher_one : Spec.Osher (1 : α) = 1 := by
  unfold Spec.Osher; norm_num

theorem spec_Osher_bounds {r : α} (hr : 0 < r) : 0 ≤ Spec.Osher r ∧ Spec.Osher r ≤ min (2 * r) 4 := by
  unfold Spec.Osher
  exact clip_bounds hr ((min_le_left _ _).trans (by linarith))
    ((min_le_right _ _).trans (by norm_num))

theorem spec_Osher_nonpos {r : α} (hr : r ≤ 0) : Spec.Osher r = 0 := by
  unfold Spec.Osher
  exact clip_nonpos ((min_le_left _ _).trans hr)

theorem spec_Sweby_one : Spec.Sweby (1 : α) = 1 := by
  unfold Spec.Sweby; norm_num

theorem spec_Sweby_bounds {r : α} (hr : 0 < r) : 0 ≤ Spec.Sweby r ∧ Spec.Sweby r ≤ min (2 * r) 4 := by
  unfold Spec.Sweby
  exact clip_bounds hr
    (max_le ((min_le_left _ _).trans (by linarith)) ((min_le_left _ _).trans (by linarith)))
    (max_le ((min_le_right _ _).trans (by norm_num)) ((min_le_right _ _).trans (by norm_num)))

theorem spec_Sweby_nonpos {r : α} (hr : r ≤ 0) : Spec.Sweby r = 0 := by
  unfold Spec.Sweby
  exact clip_nonpos
    (max_le ((min_le_left _ _).trans (by linarith)) ((min_le_left _ _).trans hr))

theorem spec_smart_one : Spec.smart (1 : α) = 1 := by
  unfold Spec.smart; norm_num

theorem spec_smart_bounds {r : α} (hr : 0 < r) : 0 ≤ Spec.smart r ∧ Spec.smart r ≤ min (2 * r) 4 := by
  unfold Spec.smart
  exact clip_bounds hr (min_le_left _ _) ((min_le_right _ _).trans (min_le_right _ _))

theorem spec_smart_nonpos {r : α} (hr : r ≤ 0) : Spec.smart r = 0 := by
  unfold Spec.smart
  exact clip_nonpos ((min_le_left _ _).trans (by linarith))

theorem spec_Koren_one : Spec.Koren (1 : α) = 1 := by
  unfold Spec.Koren; norm_num

theorem spec_Koren_bounds {r : α} (hr : 0 < r) : 0 ≤ Spec.Koren r ∧ Spec.Koren r ≤ min (2 * r) 4 := by
  unfold Spec.Koren
  exact clip_bounds hr (min_le_left _ _)
    (((min_le_right _ _).trans (min_le_right _ _)).trans (by norm_num))

theorem spec_Koren_nonpos {r : α} (hr : r ≤ 0) : Spec.Koren r = 0 := by
  unfold Spec.Koren
  exact clip_nonpos ((min_le_left _ _).trans (by linarith))

theorem spec_MUSCL_one : Spec.MUSCL (1 : α) = 1 := by
  unfold Spec.MUSCL; norm_num

theorem spec_MUSCL_bounds {r : α} (hr : 0 < r) : 0 ≤ Spec.MUSCL r ∧ Spec.MUSCL r ≤ min (2 * r) 4 := by
  unfold Spec.MUSCL
  exact clip_bounds hr (min_le_left _ _)
    (((min_le_right _ _).trans (min_le_right _ _)).trans (by norm_num))

theorem spec_MUSCL_nonpos {r : α} (hr : r ≤ 0) : Spec.MUSCL r = 0 := by
  unfold Spec.MUSCL
  exact clip_nonpos ((min_le_left _ _).trans (by linarith))

theorem spec_QUICK_one : Spec.QUICK (1 : α) = 1 := by
  unfold Spec.QUICK; norm_num

theorem spec_QUICK_bounds {r : α} (hr : 0 < r) : 0 ≤ Spec.QUICK r ∧ Spec.QUICK r ≤ min (2 * r) 4 := by
  unfold Spec.QUICK
  exact clip_bounds hr (min_le_left _ _)
    (((min_le_right _ _).trans (min_le_right _ _)).trans (by norm_num))

theorem spec_QUICK_nonpos {r : α} (hr : r ≤ 0) : Spec.QUICK r = 0 := by
  unfold Spec.QUICK
  exact clip_nonpos ((min_le_left _ _).trans (by linarith))

theorem spec_UMIST_one : Spec.UMIST (1 : α) = 1 := by
  unfold Spec.UMIST; norm_num

theorem spec_UMIST_bounds {r : α} (hr : 0 < r) : 0 ≤ Spec.UMIST r ∧ Spec.UMIST r ≤ min (2 * r) 4 := by
  unfold Spec.UMIST
  exact clip_bounds hr (min_le_left _ _)
    (((min_le_right _ _).trans ((min_le_right _ _).trans (min_le_right _ _))).trans (by norm_num))

theorem spec_UMIST_nonpos {r : α} (hr : r ≤ 0) : Spec.UMIST r = 0 := by
  unfold Spec.UMIST
  exact clip_nonpos ((min_le_left _ _).trans (by linarith))

end SpecProps

/-! ### `fsign` -/

theorem fsign_of_le {e x : α} (he : 0 ≤ e) (h : e ≤ |x|) : fsign e x = x := by
  unfold fsign
  rw [if_pos h, if_neg (not_lt.mpr h)]
  by_cases hx : x = 0
  · subst hx
    have : e = 0 := le_antisymm (by simpa using h) he
    simp [this]
  · simp [hx]

theorem fsign_zero {e : α} (he : 0 < e) : fsign e 0 = e := by
  unfold fsign
  simp [he, not_le.mpr he]

theorem fsign_of_lt_pos {e x : α} (h : |x| < e) (hx : 0 < x) : fsign e x = e := by
  unfold fsign
  rw [if_neg (not_le.mpr h), if_neg hx.ne', if_pos h, if_pos hx]; ring

theorem fsign_of_lt_neg {e x : α} (h : |x| < e) (hx : x < 0) : fsign e x = -e := by
  unfold fsign
  rw [if_neg (not_le.mpr h), if_neg hx.ne, if_pos h, if_neg (not_lt.mpr hx.le), if_pos hx]; ring

end PyFV.Lim
