/-
  PyFV.Lemmas.Limiters — helper lemmas for property C13.
-/
import PyFV.Gen.Limiters
import PyFV.Model.LimiterSpec
import PyFV.Model.Terms
import Mathlib.Tactic.Ring
import Mathlib.Tactic.Linarith
import Mathlib.Tactic.Positivity
import Mathlib.Tactic.FieldSimp
import Mathlib.Tactic.NormNum

set_option linter.unusedSectionVars false
set_option linter.unusedVariables false

namespace PyFV.Lim

variable {α : Type} [Field α] [LinearOrder α] [IsStrictOrderedRing α]

theorem ind_true {p : Prop} [Decidable p] (h : p) : (Gen.ind p : α) = 1 := if_pos h
theorem ind_false {p : Prop} [Decidable p] (h : ¬ p) : (Gen.ind p : α) = 0 := if_neg h

/-! ### denominators -/

/-- `r (r + 1) + 1 = ((2r + 1)² + 3) / 4 > 0` -/
theorem ospre_den_pos (r : α) : 0 < r * (r + 1) + 1 := by
  nlinarith [sq_nonneg (2 * r + 1)]

theorem ospre_den_pos' (r : α) : 0 < r ^ 2 + r + 1 := by
  nlinarith [sq_nonneg (2 * r + 1)]

theorem one_add_sq_pos (r : α) : 0 < 1 + r * r := by
  nlinarith [mul_self_nonneg r]

theorem one_add_abs_pos (r : α) : 0 < 1 + |r| := by
  have := abs_nonneg r
  linarith

/-- the guarded CHARM denominator is positive: `(r+1)² > 0` off the pole, `eps` on it -/
theorem CHARM_den_pos (eps r : α) (heps : 0 < eps) :
    0 < (r + 1) ^ 2 + eps * Gen.ind (r = -1) := by
  by_cases h : r = -1
  · rw [ind_true h, h]; simpa using heps
  · rw [ind_false h]
    have h1 : r + 1 ≠ 0 := fun h' => h (eq_neg_of_add_eq_zero_left h')
    have : 0 < (r + 1) ^ 2 := lt_of_le_of_ne (sq_nonneg _) (Ne.symm (pow_ne_zero 2 h1))
    simpa using this

/-- the guarded HCUS denominator is non-zero: `r + 2 ≠ 0` off the pole, `eps` on it -/
theorem HCUS_den_ne (eps r : α) (heps : 0 < eps) : r + 2 + eps * Gen.ind (r = -2) ≠ 0 := by
  by_cases h : r = -2
  · rw [ind_true h, h]; simpa using heps.ne'
  · rw [ind_false h]
    have h1 : r + 2 ≠ 0 := fun h' => h (eq_neg_of_add_eq_zero_left h')
    simpa using h1

/-- the guarded HQUICK denominator is non-zero: `r + 3 ≠ 0` off the pole, `eps` on it -/
theorem HQUICK_den_ne (eps r : α) (heps : 0 < eps) : r + 3 + eps * Gen.ind (r = -3) ≠ 0 := by
  by_cases h : r = -3
  · rw [ind_true h, h]; simpa using heps.ne'
  · rw [ind_false h]
    have h1 : r + 3 ≠ 0 := fun h' => h (eq_neg_of_add_eq_zero_left h')
    simpa using h1

/-! ### `r + |r|` -/

theorem add_abs_of_nonpos {r : α} (h : r ≤ 0) : r + |r| = 0 := by
  rw [abs_of_nonpos h]; ring

theorem add_abs_of_pos {r : α} (h : 0 < r) : r + |r| = 2 * r := by
  rw [abs_of_pos h]; ring

/-! ### clipping -/

theorem clip_bounds {r x : α} (hr : 0 < r) (h2 : x ≤ 2 * r) (h4 : x ≤ 4) :
    0 ≤ max 0 x ∧ max 0 x ≤ min (2 * r) 4 :=
  ⟨le_max_left _ _, max_le (le_min (by linarith) (by norm_num)) (le_min h2 h4)⟩

theorem clip_nonpos {x : α} (h : x ≤ 0) : max 0 x = 0 := max_eq_left h

/-! ### `fsign` -/

theorem fsign_of_le {e x : α} (he : 0 ≤ e) (h : e ≤ |x|) : fsign e x = x := by
  unfold fsign
  rw [if_pos h, if_neg (not_lt.mpr h)]
  by_cases hx : x = 0
  · subst hx
    have : e = 0 := le_antisymm (by simpa using h) he
    simp [this]
  · simp [hx]

theorem fsign_zero {e : α} (he : 0 < e) : fsign e 0 = e := by
  unfold fsign
  simp [he, not_le.mpr he]

theorem fsign_of_lt_pos {e x : α} (h : |x| < e) (hx : 0 < x) : fsign e x = e := by
  unfold fsign
  rw [if_neg (not_le.mpr h), if_neg hx.ne', if_pos h, if_pos hx]; ring

theorem fsign_of_lt_neg {e x : α} (h : |x| < e) (hx : x < 0) : fsign e x = -e := by
  unfold fsign
  rw [if_neg (not_le.mpr h), if_neg hx.ne, if_pos h, if_neg (not_lt.mpr hx.le), if_pos hx]; ring

end PyFV.Lim
