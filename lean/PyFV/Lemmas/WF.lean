/-
  PyFV.Lemmas.WF — well-formed meshes provide every non-degeneracy the operator lemmas need;
  both constructor forms of an axis are well-formed (so `WF` is never vacuous).
-/
import PyFV.Lemmas.Basic
import Mathlib.Tactic.NormNum
import Mathlib.Tactic.Push

set_option linter.unusedSectionVars false

namespace PyFV

variable {α : Type} [Field α] [LinearOrder α] [IsStrictOrderedRing α]

theorem Mesh.interior_get {M : Mesh α} {c : Idx} (h : M.interior c) (d : Dir) :
    1 ≤ c.get d ∧ c.get d ≤ M.n d := by
  obtain ⟨a, b, c', d', e, f⟩ := h
  cases d <;> simp [Idx.get, Mesh.n, Mesh.axis] <;> omega

theorem Mesh.WF.axis {M : Mesh α} (h : M.WF) (d : Dir) : (M.axis d).WF := by
  cases d
  · exact h.wx
  · exact h.wy
  · exact h.wz

theorem cube_sub_pos {a b : α} (hb : 0 ≤ b) (hab : b < a) : 0 < a ^ 3 - b ^ 3 := by
  have h1 : 0 < a - b := sub_pos.mpr hab
  have ha : 0 < a := lt_of_le_of_lt hb hab
  have h2 : 0 < a ^ 2 + a * b + b ^ 2 := by positivity
  have : a ^ 3 - b ^ 3 = (a - b) * (a ^ 2 + a * b + b ^ 2) := by ring
  rw [this]; positivity

theorem Axis.WF.fc_lt {a : Axis α} (h : a.WF) (i : ℕ) (h1 : 1 ≤ i) (hn : i ≤ a.n) :
    a.fc (i-1) < a.fc i := by
  have := h.pos i
  rw [h.size i h1 hn] at this
  linarith

theorem lineV_pos {M : Mesh α} (h : M.WF) {d : Dir} (hd : M.kind.active d = true) {i : ℕ}
    (h1 : 1 ≤ i) (hn : i ≤ M.n d) : 0 < lineV M d i := by
  have hax := h.axis d
  have hDX : 0 < (M.axis d).DX i := hax.pos i
  unfold lineV
  cases hk : M.kind <;> cases d <;> simp only [hk, Kind.active, Kind.dim, Mesh.n, Mesh.axis] at hd hn ⊢ <;>
    first
    | exact hDX
    | (have r := h.rpos (by rw [hk]; rfl) i h1 hn
       exact mul_pos r (h.wx.pos i))
    | (have r := h.rpos (by rw [hk]; rfl) i h1 hn
       exact mul_pos (pow_pos r 2) (h.wx.pos i))
    | (have s := h.spos hk i h1 hn
       exact mul_pos s (h.wy.pos i))
    | (have f0 := h.rf0 (by rw [hk]; rfl) (i-1) (by omega)
       have lt := h.wx.fc_lt i h1 hn
       have := cube_sub_pos f0 lt
       positivity)

theorem lineM_pos {M : Mesh α} (h : M.WF) (d : Dir) {c : Idx} (hc : M.interior c) :
    0 < lineM M d c := by
  obtain ⟨a1, a2, b1, b2, _, _⟩ := hc
  unfold lineM
  cases hk : M.kind <;> cases d <;> simp only <;>
    first
    | exact one_pos
    | exact h.rpos (by rw [hk]; rfl) c.1 a1 a2
    | exact mul_pos (h.rpos (by rw [hk]; rfl) c.1 a1 a2) (h.spos hk c.2.1 b1 b2)

/-- every interior cell of a well-formed mesh has a non-degenerate line in each active direction -/
theorem lineOK_of_WF {M : Mesh α} (h : M.WF) {d : Dir} (hd : M.kind.active d = true) {c : Idx}
    (hc : M.interior c) : LineOK M d c where
  i1 := (Mesh.interior_get hc d).1
  m0 := ne_of_gt (lineM_pos h d hc)
  V0 := ne_of_gt (lineV_pos h hd (Mesh.interior_get hc d).1 (Mesh.interior_get hc d).2)
  DXp := (h.axis d).pos

/-! ### the two constructor forms are well-formed -/

/-- strictly increasing on `0..n` -/
def StrictIncr (n : ℕ) (f : ℕ → α) : Prop := ∀ i, i < n → f i < f (i+1)

theorem mkAxisFaces_WF (n : ℕ) (f : ℕ → α) (hn : 1 ≤ n) (hf : StrictIncr n f) :
    (mkAxisFaces n f).WF where
  npos := hn
  pos := by
    intro i
    simp only [mkAxisFaces]
    split_ifs with h0 h1
    · have := hf 0 (by omega); simpa using sub_pos.mpr this
    · have := hf (i-1) (by omega)
      have e : i - 1 + 1 = i := by omega
      rw [e] at this; exact sub_pos.mpr this
    · have := hf (n-1) (by omega)
      have e : n - 1 + 1 = n := by omega
      rw [e] at this; exact sub_pos.mpr this
  mid := by intro i _ _; rfl
  size := by
    intro i h1 hn'
    simp only [mkAxisFaces]
    have : ¬ i = 0 := by omega
    have hn'' : i ≤ n := hn'
    simp [this, hn'']
  ghost0 := by
    simp only [mkAxisFaces]
    have : (1 : ℕ) ≤ n := hn
    simp [this]
  ghostN := by
    simp only [mkAxisFaces]
    have a : ¬ n + 1 = 0 := by omega
    have b : ¬ n + 1 ≤ n := by omega
    have c : ¬ n = 0 := by omega
    simp [a, b, c]

theorem mkAxisNL_WF (n : ℕ) (L : α) (hn : 1 ≤ n) (hL : 0 < L) : (mkAxisNL n L).WF where
  npos := hn
  pos := by
    intro i; simp only [mkAxisNL]
    have : (0 : α) < n := by exact_mod_cast hn
    positivity
  mid := by
    intro i h1 _
    simp only [mkAxisNL]
    have : ((i - 1 : ℕ) : α) = (i : α) - 1 := by
      rw [Nat.cast_sub h1]; simp
    rw [this]; ring
  size := by
    intro i h1 _
    simp only [mkAxisNL]
    have : ((i - 1 : ℕ) : α) = (i : α) - 1 := by
      rw [Nat.cast_sub h1]; simp
    rw [this]; ring
  ghost0 := rfl
  ghostN := rfl

end PyFV
