/-
  PyFV.Lemmas.BCLemmas — helper lemmas for property C03 (boundary conditions):
  partial division, the Robin identity, boundary rows applied to a field, scaling of the
  coefficient triples, `outCount` of interior cells, and concrete boundary-condition
  records over ℚ for the non-vacuity examples.
-/
import PyFV.Lemmas.Basic
import PyFV.Lemmas.WF
import PyFV.Props.Examples
import Mathlib.Tactic.NormNum
import Mathlib.Tactic.LinearCombination

set_option linter.unusedSectionVars false

namespace PyFV

variable {α : Type} [Field α] [LinearOrder α] [IsStrictOrderedRing α]

/-! ### partial division -/

theorem sdiv_eq_some {x y g : α} : sdiv x y = some g ↔ y ≠ 0 ∧ g = x / y := by
  unfold sdiv
  by_cases h : y = 0
  · simp [h]
  · simp [h, eq_comm]

theorem sdiv_isSome {x y : α} : (sdiv x y).isSome = true ↔ y ≠ 0 := by
  unfold sdiv
  by_cases h : y = 0 <;> simp [h]

theorem sdiv_eq_none {x y : α} : sdiv x y = none ↔ y = 0 := by
  unfold sdiv
  by_cases h : y = 0 <;> simp [h]

theorem sdiv_of_ne {x y : α} (h : y ≠ 0) : sdiv x y = some (x / y) := by
  unfold sdiv; simp [h]

theorem sdiv_scale {l : α} (hl : l ≠ 0) (x y : α) : sdiv (l * x) (l * y) = sdiv x y := by
  unfold sdiv
  by_cases h : y = 0
  · simp [h]
  · have : l * y ≠ 0 := mul_ne_zero hl h
    simp only [eq_false h, eq_false this, if_false]
    rw [mul_div_mul_left _ _ hl]

/-! ### the Robin relation split into ghost and cell coefficient -/

/-- high side: `a·(g − p)/D + b·(p + g)/2 = g·(a/D + b/2) + p·(−a/D + b/2)` -/
theorem robin_split_hi (a b p g D : α) :
    a * ((g - p) / D) + b * ((p + g) / 2) = g * (a / D + b / 2) + p * (-(a / D) + b / 2) := by
  ring

/-- low side: `a·(p − g)/D + b·(p + g)/2 = g·(−a/D + b/2) + p·(a/D + b/2)` -/
theorem robin_split_lo (a b p g D : α) :
    a * ((p - g) / D) + b * ((p + g) / 2) = g * (-(a / D) + b / 2) + p * (a / D + b / 2) := by
  ring

/-! ### boundary rows applied to a field -/

theorem Row.app_nil (r : α) (x : CellFld α) : (Row.mk [] r).app x = 0 := by
  simp [Row.app]

theorem Row.app_one (i : Idx) (a r : α) (x : CellFld α) :
    (Row.mk [(i, a)] r).app x = a * x i := by
  simp [Row.app]

theorem Row.app_two (i j : Idx) (a b r : α) (x : CellFld α) :
    (Row.mk [(i, a), (j, b)] r).app x = a * x i + b * x j := by
  simp [Row.app]

theorem Row.app_four (i j k l : Idx) (a b c e r : α) (x : CellFld α) :
    (Row.mk [(i, a), (j, b), (k, c), (l, e)] r).app x
      = a * x i + b * x j + c * x k + e * x l := by
  simp [Row.app]

/-- a row with every entry and the right-hand side multiplied by `l` -/
def Row.smul (l : α) (r : Row α) : Row α :=
  ⟨r.entries.map (fun e => (e.1, l * e.2)), l * r.rhs⟩

theorem Row.smul_app (l : α) (r : Row α) (x : CellFld α) :
    (Row.smul l r).app x = l * r.app x := by
  obtain ⟨es, b⟩ := r
  unfold Row.smul Row.app
  simp only
  have gen : ∀ (es : List (Idx × α)) (acc : α),
      List.foldl (fun acc e => acc + e.2 * x e.1) (l * acc)
          (List.map (fun e => (e.1, l * e.2)) es)
        = l * List.foldl (fun acc e => acc + e.2 * x e.1) acc es := by
    intro es
    induction es with
    | nil => intro acc; rfl
    | cons e es ih =>
      intro acc
      simp only [List.map_cons, List.foldl_cons]
      have : l * acc + l * e.2 * x e.1 = l * (acc + e.2 * x e.1) := by ring
      rw [this, ih]
  have := gen es 0
  rw [mul_zero] at this
  exact this

/-- a row and its non-zero multiple have the same solutions -/
theorem Row.smul_solves_iff {l : α} (hl : l ≠ 0) (r : Row α) (x : CellFld α) :
    (Row.smul l r).app x = (Row.smul l r).rhs ↔ r.app x = r.rhs := by
  rw [Row.smul_app]
  show l * r.app x = l * r.rhs ↔ _
  exact ⟨fun h => mul_left_cancel₀ hl h, fun h => by rw [h]⟩

/-! ### unfolding the periodic / non-periodic branches -/

theorem ghostHi_nonper {M : Mesh α} {bc : BCs α} {d : Dir} (h : bc.periodicDir d = false)
    (φ : CellFld α) (c : Idx) :
    ghostHi M bc φ d c
      = sdiv ((bc.hi d).c c - φ c * hiCellCoef M bc d c) (hiGhostCoef M bc d c) := by
  simp [ghostHi, h]

theorem ghostLo_nonper {M : Mesh α} {bc : BCs α} {d : Dir} (h : bc.periodicDir d = false)
    (φ : CellFld α) (c : Idx) :
    ghostLo M bc φ d c
      = sdiv ((bc.lo d).c c - φ c * loCellCoef M bc d c) (loGhostCoef M bc d c) := by
  simp [ghostLo, h]

theorem ghostHi_per {M : Mesh α} {bc : BCs α} {d : Dir} (h : bc.periodicDir d = true)
    (φ : CellFld α) (c : Idx) : ghostHi M bc φ d c = some (φ (c.set d 1)) := by
  simp [ghostHi, h]

theorem ghostLo_per {M : Mesh α} {bc : BCs α} {d : Dir} (h : bc.periodicDir d = true)
    (φ : CellFld α) (c : Idx) : ghostLo M bc φ d c = some (φ (c.set d (M.n d))) := by
  simp [ghostLo, h]

theorem bcRowHi_nonper {M : Mesh α} {bc : BCs α} {d : Dir} (h : bc.periodicDir d = false)
    (c : Idx) :
    bcRowHi M bc d c
      = ⟨[(c.set d (M.n d + 1), hiGhostCoef M bc d c), (c.set d (M.n d), hiCellCoef M bc d c)],
          (bc.hi d).c c⟩ := by
  simp [bcRowHi, h]

theorem bcRowLo_nonper {M : Mesh α} {bc : BCs α} {d : Dir} (h : bc.periodicDir d = false)
    (c : Idx) :
    bcRowLo M bc d c
      = ⟨[(c.set d 1, -(loCellCoef M bc d c)), (c.set d 0, -(loGhostCoef M bc d c))],
          -((bc.lo d).c c)⟩ := by
  simp [bcRowLo, h]

theorem bcRowHi_per {M : Mesh α} {bc : BCs α} {d : Dir} (h : bc.periodicDir d = true)
    (c : Idx) :
    bcRowHi M bc d c
      = ⟨[(c.set d (M.n d + 1), 1), (c.set d (M.n d), -1),
          (c.set d 0, (M.axis d).DX (M.n d + 1) / (M.axis d).DX 0),
          (c.set d 1, -((M.axis d).DX (M.n d + 1) / (M.axis d).DX 0))], 0⟩ := by
  simp [bcRowHi, h]

theorem bcRowLo_per {M : Mesh α} {bc : BCs α} {d : Dir} (h : bc.periodicDir d = true)
    (c : Idx) :
    bcRowLo M bc d c
      = ⟨[(c.set d 0, 1), (c.set d 1, 1), (c.set d (M.n d), -1), (c.set d (M.n d + 1), -1)], 0⟩ := by
  simp [bcRowLo, h]

/-- a Bool that is not `true` is `false` (to pass from `¬ periodicDir` to the rewriting form) -/
theorem periodicDir_false_of_not {bc : BCs α} {d : Dir} (h : ¬ bc.periodicDir d = true) :
    bc.periodicDir d = false := by
  simpa using h

/-! ### scaling the coefficient triples -/

/-- `(a, b, c) ↦ (l·a, l·b, l·c)` on one face; the periodic flag is kept -/
def BFace.scale (l : α) (f : BFace α) : BFace α :=
  { a := fun c => l * f.a c, b := fun c => l * f.b c, c := fun c => l * f.c c,
    periodic := f.periodic }

/-- every boundary face scaled by the same factor -/
def BCs.scale (l : α) (bc : BCs α) : BCs α :=
  { lo := fun d => (bc.lo d).scale l, hi := fun d => (bc.hi d).scale l }

@[simp] theorem BCs.periodicDir_scale (l : α) (bc : BCs α) (d : Dir) :
    (BCs.scale l bc).periodicDir d = bc.periodicDir d := rfl

theorem hiGhostCoef_scale (M : Mesh α) (l : α) (bc : BCs α) (d : Dir) (c : Idx) :
    hiGhostCoef M (BCs.scale l bc) d c = l * hiGhostCoef M bc d c := by
  simp only [hiGhostCoef, BCs.scale, BFace.scale]; ring

theorem hiCellCoef_scale (M : Mesh α) (l : α) (bc : BCs α) (d : Dir) (c : Idx) :
    hiCellCoef M (BCs.scale l bc) d c = l * hiCellCoef M bc d c := by
  simp only [hiCellCoef, BCs.scale, BFace.scale]; ring

theorem loGhostCoef_scale (M : Mesh α) (l : α) (bc : BCs α) (d : Dir) (c : Idx) :
    loGhostCoef M (BCs.scale l bc) d c = l * loGhostCoef M bc d c := by
  simp only [loGhostCoef, BCs.scale, BFace.scale]; ring

theorem loCellCoef_scale (M : Mesh α) (l : α) (bc : BCs α) (d : Dir) (c : Idx) :
    loCellCoef M (BCs.scale l bc) d c = l * loCellCoef M bc d c := by
  simp only [loCellCoef, BCs.scale, BFace.scale]; ring

theorem hi_c_scale (l : α) (bc : BCs α) (d : Dir) (c : Idx) :
    ((BCs.scale l bc).hi d).c c = l * (bc.hi d).c c := rfl

theorem lo_c_scale (l : α) (bc : BCs α) (d : Dir) (c : Idx) :
    ((BCs.scale l bc).lo d).c c = l * (bc.lo d).c c := rfl

/-! ### the maximum used for the 2-D corner rows under positive scaling -/

theorem maxOver_mul {l : α} (hl : 0 ≤ l) (f : ℕ → α) (n : ℕ) :
    maxOver (fun i => l * f i) n = l * maxOver f n := by
  induction n using Nat.strongRecOn with
  | _ n ih =>
    match n with
    | 0 => rfl
    | 1 => rfl
    | (k+2) =>
      simp only [maxOver]
      rw [ih (k+1) (by omega), mul_max_of_nonneg _ _ hl]

theorem cornerScale_scale_pos (M : Mesh α) {l : α} (hl : 0 ≤ l) (bc : BCs α) :
    cornerScale M (BCs.scale l bc) = if M.kind.dim = 2 then l * cornerScale M bc else 1 := by
  unfold cornerScale
  by_cases h : M.kind.dim = 2
  · simp only [eq_true h, if_true]
    rw [← maxOver_mul hl]
    congr 1
    funext i
    simp only [BCs.scale, BFace.scale]
    ring
  · simp only [eq_false h, if_false]

theorem cornerScale_of_dim_ne (M : Mesh α) (bc : BCs α) (h : M.kind.dim ≠ 2) :
    cornerScale M bc = 1 := by
  unfold cornerScale; simp [h]

/-! ### interior cells and the out-of-box count -/

theorem outCount_of_interior {M : Mesh α} {c : Idx} (h : M.interior c) : M.outCount c = 0 := by
  obtain ⟨a1, a2, b1, b2, c1, c2⟩ := h
  have hx : ¬ (c.1 = 0 ∨ c.1 = M.ax.n + 1) := by omega
  have hy : ¬ (c.2.1 = 0 ∨ c.2.1 = M.ay.n + 1) := by omega
  have hz : ¬ (c.2.2 = 0 ∨ c.2.2 = M.az.n + 1) := by omega
  simp [Mesh.outCount, hx, hy, hz]

/-- the ghost cell beyond the high end of an active direction, next to an interior cell, is a
    face ghost lying outside in that direction -/
theorem ghostCell_hi {M : Mesh α} {c : Idx} (h : M.interior c) {d : Dir}
    (hd : M.kind.active d = true) :
    M.outCount (c.set d (M.n d + 1)) = 1 ∧ M.outDir (c.set d (M.n d + 1)) = d := by
  obtain ⟨a1, a2, b1, b2, c1, c2⟩ := h
  have hx : ¬ (c.1 = 0 ∨ c.1 = M.ax.n + 1) := by omega
  have hy : ¬ (c.2.1 = 0 ∨ c.2.1 = M.ay.n + 1) := by omega
  have hz : ¬ (c.2.2 = 0 ∨ c.2.2 = M.az.n + 1) := by omega
  cases d <;>
    simp [Mesh.outCount, Mesh.outDir, Idx.set, Mesh.n, Mesh.axis, hx, hy, hz, hd]

theorem ghostCell_lo {M : Mesh α} {c : Idx} (h : M.interior c) {d : Dir}
    (hd : M.kind.active d = true) :
    M.outCount (c.set d 0) = 1 ∧ M.outDir (c.set d 0) = d := by
  obtain ⟨a1, a2, b1, b2, c1, c2⟩ := h
  have hx : ¬ (c.1 = 0 ∨ c.1 = M.ax.n + 1) := by omega
  have hy : ¬ (c.2.1 = 0 ∨ c.2.1 = M.ay.n + 1) := by omega
  have hz : ¬ (c.2.2 = 0 ∨ c.2.2 = M.az.n + 1) := by omega
  cases d <;>
    simp [Mesh.outCount, Mesh.outDir, Idx.set, hx, hy, hz, hd]

theorem bcRow_face (M : Mesh α) (bc : BCs α) (c : Idx) (h : M.outCount c = 1) :
    bcRow M bc c =
      if c.get (M.outDir c) = 0 then bcRowLo M bc (M.outDir c) (c.set (M.outDir c) 1)
      else bcRowHi M bc (M.outDir c) (c.set (M.outDir c) (M.n (M.outDir c))) := by
  unfold bcRow; rw [h]; rfl

/-- along `x` no grid class rescales distances -/
theorem lineM_x (M : Mesh α) (c : Idx) : lineM M .x c = 1 := by
  unfold lineM; cases M.kind <;> rfl

/-- non-negative `a`, positive `b`, positive metric and end-cell size: the high-side ghost
    coefficient is positive (so the ghost value is defined) -/
theorem hiGhostCoef_pos {M : Mesh α} {bc : BCs α} {d : Dir} {c : Idx}
    (ha : 0 ≤ (bc.hi d).a c) (hb : 0 < (bc.hi d).b c) (hm : 0 < lineM M d c)
    (hD : 0 < (M.axis d).DX (M.n d + 1)) : 0 < hiGhostCoef M bc d c := by
  unfold hiGhostCoef
  have : 0 ≤ (bc.hi d).a c / (lineM M d c * (M.axis d).DX (M.n d + 1)) := by positivity
  have : 0 < (bc.hi d).b c / 2 := by positivity
  linarith

/-- non-positive `a` (outward normal points down the axis), positive `b`: the low-side ghost
    coefficient is positive -/
theorem loGhostCoef_pos {M : Mesh α} {bc : BCs α} {d : Dir} {c : Idx}
    (ha : (bc.lo d).a c ≤ 0) (hb : 0 < (bc.lo d).b c) (hm : 0 < lineM M d c)
    (hD : 0 < (M.axis d).DX 0) : 0 < loGhostCoef M bc d c := by
  unfold loGhostCoef
  have h1 : 0 ≤ -(bc.lo d).a c / (lineM M d c * (M.axis d).DX 0) := by
    have : 0 ≤ -(bc.lo d).a c := by linarith
    positivity
  have h2 : 0 < (bc.lo d).b c / 2 := by positivity
  have e : -((bc.lo d).a c / (lineM M d c * (M.axis d).DX 0))
      = -(bc.lo d).a c / (lineM M d c * (M.axis d).DX 0) := by ring
  rw [e]; linarith

/-! ### concrete boundary conditions over ℚ for the examples -/

namespace BCEx

/-- Robin face `1·∂φ + 2·φ = 3` -/
def robinFace : BFace ℚ := ⟨fun _ => 1, fun _ => 2, fun _ => 3, false⟩
/-- Robin face with the outward normal of a low side: `−1·∂φ + 2·φ = 3` -/
def robinFaceLo : BFace ℚ := ⟨fun _ => -1, fun _ => 2, fun _ => 3, false⟩
/-- Dirichlet face `φ = v` -/
def dirichletFace (v : ℚ) : BFace ℚ := ⟨fun _ => 0, fun _ => 1, fun _ => v, false⟩
/-- a face flagged periodic -/
def periodicFace : BFace ℚ := ⟨fun _ => 1, fun _ => 0, fun _ => 0, true⟩

/-- Robin on every face, no periodic axis -/
def robin : BCs ℚ := ⟨fun _ => robinFaceLo, fun _ => robinFace⟩
/-- same triple `(1, 2, 3)` on the low sides: the low ghost coefficient vanishes on the
    example meshes along `x` (`−1/(1·1) + 2/2 = 0`) -/
def robinDegenerate : BCs ℚ := ⟨fun _ => robinFace, fun _ => robinFace⟩
/-- Dirichlet `φ = 5` on every face -/
def dirichlet : BCs ℚ := ⟨fun _ => dirichletFace 5, fun _ => dirichletFace 5⟩
/-- only the LOW side of `x` is flagged periodic; all other faces Robin -/
def periodicX : BCs ℚ :=
  ⟨fun d => if d = .x then periodicFace else robinFaceLo, fun _ => robinFace⟩

/-- the field `φ(i, j, k) = i` -/
def ramp : CellFld ℚ := fun c => (c.1 : ℚ)

/-- a field whose `x`-ghosts hold the wrapped values of the 3-cell example axis:
    `x₀ = x₃ = 3`, `x₄ = x₁ = 1` -/
def wrapped : CellFld ℚ := fun c => if c.1 = 0 then 3 else if c.1 = 4 then 1 else (c.1 : ℚ)

/-- `ramp` in the interior, with the two `x`-ghosts of the `robin` boundary conditions:
    `x₀ = 3/2`, `x₄ = 3/4` -/
def solvedRamp : CellFld ℚ :=
  fun c => if c.1 = 0 then 3 / 2 else if c.1 = 4 then 3 / 4 else (c.1 : ℚ)

/-- 1-D mesh with a uniform `x` axis (4 cells of size 1/2): equal end cells -/
def uniMesh : Mesh ℚ := { Examples.mesh .cart1 with ax := mkAxisNL 4 2 }

theorem mesh_n_x (k : Kind) : (Examples.mesh k).n .x = 3 := rfl

theorem mesh_DX_x (k : Kind) (i : ℕ) :
    ((Examples.mesh k).axis .x).DX i = Examples.ax3.DX i := rfl

theorem ax3_DX0 : Examples.ax3.DX 0 = 1 := by
  norm_num [Examples.ax3, mkAxisFaces, Examples.f3]

theorem ax3_DX4 : Examples.ax3.DX 4 = 3 := by
  norm_num [Examples.ax3, mkAxisFaces, Examples.f3]

end BCEx

end PyFV
