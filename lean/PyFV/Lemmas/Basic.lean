/-
  PyFV.Lemmas.Basic — index bookkeeping and the per-direction → seven-point lifting.
-/
import PyFV.Model.Solve
import Mathlib.Tactic.FieldSimp
import Mathlib.Tactic.Ring
import Mathlib.Tactic.Linarith
import Mathlib.Tactic.Positivity

set_option linter.unusedSectionVars false

namespace PyFV

variable {α : Type} [Field α] [LinearOrder α] [IsStrictOrderedRing α]

@[simp] theorem Idx.get_set_same (c : Idx) (d : Dir) (v : ℕ) : (c.set d v).get d = v := by
  cases d <;> rfl

theorem Idx.get_set_ne (c : Idx) {d e : Dir} (h : d ≠ e) (v : ℕ) : (c.set d v).get e = c.get e := by
  cases d <;> cases e <;> first | rfl | exact absurd rfl h

@[simp] theorem Idx.set_get (c : Idx) (d : Dir) : c.set d (c.get d) = c := by
  cases d <;> rfl

@[simp] theorem Idx.set_set (c : Idx) (d : Dir) (v w : ℕ) : (c.set d v).set d w = c.set d w := by
  cases d <;> rfl

@[simp] theorem Idx.prev_get (c : Idx) (d : Dir) : (c.prev d).get d = c.get d - 1 := by
  simp [Idx.prev]

@[simp] theorem Idx.next_get (c : Idx) (d : Dir) : (c.next d).get d = c.get d + 1 := by
  simp [Idx.next]

theorem Idx.next_prev (c : Idx) (d : Dir) (h : 1 ≤ c.get d) : (c.prev d).next d = c := by
  have : c.get d - 1 + 1 = c.get d := by omega
  simp [Idx.prev, Idx.next, this]

theorem Idx.prev_next (c : Idx) (d : Dir) : (c.next d).prev d = c := by
  simp [Idx.prev, Idx.next]

/-- the metric scale of a line depends on the cross indices only -/
@[simp] theorem lineM_set (M : Mesh α) (d : Dir) (c : Idx) (v : ℕ) :
    lineM M d (c.set d v) = lineM M d c := by
  unfold lineM
  cases M.kind <;> cases d <;> rfl

@[simp] theorem lineM_prev (M : Mesh α) (d : Dir) (c : Idx) : lineM M d (c.prev d) = lineM M d c := by
  simp [Idx.prev]

@[simp] theorem lineM_next (M : Mesh α) (d : Dir) (c : Idx) : lineM M d (c.next d) = lineM M d c := by
  simp [Idx.next]

/-- applying a seven-point row = sum over the active directions of the 3-point stencils,
    provided the per-direction stencils are what `ofDirs` was built from -/
theorem St7.ofDirs_app (k : Kind) (s : Dir → St3 α) (φ : CellFld α) (c : Idx) :
    (St7.ofDirs k s).app φ c = sumDirs k (fun d => (s d).app φ d c) := by
  unfold St7.ofDirs St7.app sumDirs St3.app Idx.prev Idx.next
  by_cases hy : k.active .y = true <;> by_cases hz : k.active .z = true <;>
    simp [hy, hz, Idx.get, Idx.set] <;> ring

theorem sumDirs_congr (k : Kind) (f g : Dir → α) (h : ∀ d, k.active d = true → f d = g d) :
    sumDirs k f = sumDirs k g := by
  unfold sumDirs
  have hx : f .x = g .x := h .x rfl
  by_cases hy : k.active .y = true <;> by_cases hz : k.active .z = true <;>
    simp [hy, hz, hx, h .y, h .z]

theorem sumDirs_zero (k : Kind) : sumDirs k (fun _ => (0 : α)) = 0 := by
  unfold sumDirs; simp

theorem sumDirs_mul (k : Kind) (a : α) (f : Dir → α) :
    sumDirs k (fun d => a * f d) = a * sumDirs k f := by
  unfold sumDirs
  by_cases hy : k.active .y = true <;> by_cases hz : k.active .z = true <;> simp [hy, hz] <;> ring

theorem sumDirs_add (k : Kind) (f g : Dir → α) :
    sumDirs k (fun d => f d + g d) = sumDirs k f + sumDirs k g := by
  unfold sumDirs
  by_cases hy : k.active .y = true <;> by_cases hz : k.active .z = true <;> simp [hy, hz] <;> ring

theorem sumDirs_neg (k : Kind) (f : Dir → α) :
    sumDirs k (fun d => -f d) = -sumDirs k f := by
  unfold sumDirs
  by_cases hy : k.active .y = true <;> by_cases hz : k.active .z = true <;> simp [hy, hz] <;> ring

/-- non-degeneracy of the line through `c` along `d`: all the divisors of the operators -/
structure LineOK (M : Mesh α) (d : Dir) (c : Idx) : Prop where
  i1 : 1 ≤ c.get d
  m0 : lineM M d c ≠ 0
  V0 : lineV M d (c.get d) ≠ 0
  DXp : ∀ i, 0 < (M.axis d).DX i

theorem LineOK.dxf_pos {M : Mesh α} {d : Dir} {c : Idx} (h : LineOK M d c) (f : ℕ) :
    0 < (M.axis d).dxf f := by
  unfold Axis.dxf
  have := h.DXp f; have := h.DXp (f+1)
  positivity

theorem LineOK.dxf_ne {M : Mesh α} {d : Dir} {c : Idx} (h : LineOK M d c) (f : ℕ) :
    (M.axis d).dxf f ≠ 0 := ne_of_gt (h.dxf_pos f)

theorem LineOK.sum_ne {M : Mesh α} {d : Dir} {c : Idx} (h : LineOK M d c) (i j : ℕ) :
    (M.axis d).DX i + (M.axis d).DX j ≠ 0 := by
  have := h.DXp i; have := h.DXp j
  positivity

end PyFV
