/-
  PyFV.Lemmas.BCUtilLemmas — helper lemmas for PyFV.Props.GenEqBCUtil: replacing one face of a `BCs` object
  (`setHi` / `setLo`), the ghost value next to a replaced face, and the Robin relation it satisfies, written with
  the face's own coefficients (so that it can be specialised to the result of `fixedValue`, `fixedGradient`,
  `newtonCooling`, `defaultNoFlux` by definitional unfolding).
-/
import PyFV.Model.BCUtil
import PyFV.Lemmas.BCLemmas
import PyFV.Lemmas.WF
import Mathlib.Tactic.Ring
import Mathlib.Tactic.FieldSimp
import Mathlib.Tactic.Linarith

set_option linter.unusedSectionVars false
set_option linter.unusedVariables false

namespace PyFV.BCUtil
open PyFV

variable {α : Type} [Field α] [LinearOrder α] [IsStrictOrderedRing α]

/-! ### `setHi` / `setLo` -/

@[simp] theorem setHi_hi (bc : BCs α) (d : Dir) (f : BFace α) : (setHi bc d f).hi d = f := by
  simp [setHi]

@[simp] theorem setHi_lo (bc : BCs α) (d e : Dir) (f : BFace α) : (setHi bc d f).lo e = bc.lo e := rfl

@[simp] theorem setLo_lo (bc : BCs α) (d : Dir) (f : BFace α) : (setLo bc d f).lo d = f := by
  simp [setLo]

@[simp] theorem setLo_hi (bc : BCs α) (d e : Dir) (f : BFace α) : (setLo bc d f).hi e = bc.hi e := rfl

theorem setHi_hi_ne (bc : BCs α) {d e : Dir} (f : BFace α) (h : e ≠ d) : (setHi bc d f).hi e = bc.hi e := by
  simp [setHi, h]

theorem setLo_lo_ne (bc : BCs α) {d e : Dir} (f : BFace α) (h : e ≠ d) : (setLo bc d f).lo e = bc.lo e := by
  simp [setLo, h]

/-- a replacement face that keeps the `periodic` flag keeps the periodicity of the axis -/
theorem periodicDir_setHi_keep (bc : BCs α) (d : Dir) (f : BFace α) (hf : f.periodic = (bc.hi d).periodic) :
    (setHi bc d f).periodicDir d = bc.periodicDir d := by
  simp [BCs.periodicDir, hf]

theorem periodicDir_setLo_keep (bc : BCs α) (d : Dir) (f : BFace α) (hf : f.periodic = (bc.lo d).periodic) :
    (setLo bc d f).periodicDir d = bc.periodicDir d := by
  simp [BCs.periodicDir, hf]

/-! ### metric distance across a boundary face of a well-formed mesh -/

theorem mdx_pos_hi {M : Mesh α} (hM : M.WF) (d : Dir) {c : Idx} (hc : M.interior c) :
    0 < lineM M d c * (M.axis d).DX (M.n d + 1) :=
  mul_pos (lineM_pos hM d hc) ((hM.axis d).pos _)

theorem mdx_pos_lo {M : Mesh α} (hM : M.WF) (d : Dir) {c : Idx} (hc : M.interior c) :
    0 < lineM M d c * (M.axis d).DX 0 :=
  mul_pos (lineM_pos hM d hc) ((hM.axis d).pos _)

/-! ### the ghost value next to a replaced face -/

theorem ghostHi_setHi (M : Mesh α) (bc : BCs α) (φ : CellFld α) (d : Dir) (c : Idx) (f : BFace α)
    (hp : (setHi bc d f).periodicDir d = false) :
    ghostHi M (setHi bc d f) φ d c
      = sdiv (f.c c - φ c * (-(f.a c / (lineM M d c * (M.axis d).DX (M.n d + 1))) + f.b c / 2))
             (f.a c / (lineM M d c * (M.axis d).DX (M.n d + 1)) + f.b c / 2) := by
  rw [ghostHi_nonper hp]
  simp only [hiCellCoef, hiGhostCoef, setHi_hi]

theorem ghostLo_setLo (M : Mesh α) (bc : BCs α) (φ : CellFld α) (d : Dir) (c : Idx) (f : BFace α)
    (hp : (setLo bc d f).periodicDir d = false) :
    ghostLo M (setLo bc d f) φ d c
      = sdiv (f.c c - φ c * (f.a c / (lineM M d c * (M.axis d).DX 0) + f.b c / 2))
             (-(f.a c / (lineM M d c * (M.axis d).DX 0)) + f.b c / 2) := by
  rw [ghostLo_nonper hp]
  simp only [loCellCoef, loGhostCoef, setLo_lo]

/-- the value `(cc − p·(−a/D + b/2)) / (a/D + b/2)` satisfies `a·(g − p)/D + b·(g + p)/2 = cc` -/
theorem robin_of_sdiv_hi (a b cc p D g : α)
    (h : sdiv (cc - p * (-(a / D) + b / 2)) (a / D + b / 2) = some g) :
    a * ((g - p) / D) + b * ((g + p) / 2) = cc := by
  rw [sdiv_eq_some] at h
  obtain ⟨hy, rfl⟩ := h
  have e : ∀ q : α, a * ((q - p) / D) + b * ((q + p) / 2)
      = q * (a / D + b / 2) + p * (-(a / D) + b / 2) := fun q => by ring
  rw [e, div_mul_cancel₀ _ hy]
  ring

/-- the value `(cc − p·(a/D + b/2)) / (−a/D + b/2)` satisfies `a·(p − g)/D + b·(g + p)/2 = cc` -/
theorem robin_of_sdiv_lo (a b cc p D g : α)
    (h : sdiv (cc - p * (a / D + b / 2)) (-(a / D) + b / 2) = some g) :
    a * ((p - g) / D) + b * ((g + p) / 2) = cc := by
  rw [sdiv_eq_some] at h
  obtain ⟨hy, rfl⟩ := h
  have e : ∀ q : α, a * ((p - q) / D) + b * ((q + p) / 2)
      = q * (-(a / D) + b / 2) + p * (a / D + b / 2) := fun q => by ring
  rw [e, div_mul_cancel₀ _ hy]
  ring

/-- HIGH side, any replacement face `f` on a non-periodic axis whose divisor `a/(m·dx) + b/2` is non-zero: the ghost
    value exists and satisfies `a·(normal difference quotient) + b·(face average) = c` with the coefficients of `f` -/
theorem ghostHi_setHi_robin (M : Mesh α) (bc : BCs α) (φ : CellFld α) (d : Dir) (c : Idx) (f : BFace α)
    (hp : (setHi bc d f).periodicDir d = false)
    (hdiv : f.a c / (lineM M d c * (M.axis d).DX (M.n d + 1)) + f.b c / 2 ≠ 0) :
    ∃ g, ghostHi M (setHi bc d f) φ d c = some g ∧
      f.a c * ((g - φ c) / (lineM M d c * (M.axis d).DX (M.n d + 1))) + f.b c * ((g + φ c) / 2) = f.c c := by
  have h := sdiv_of_ne (x := f.c c - φ c * (-(f.a c / (lineM M d c * (M.axis d).DX (M.n d + 1))) + f.b c / 2)) hdiv
  exact ⟨_, (ghostHi_setHi M bc φ d c f hp).trans h, robin_of_sdiv_hi _ _ _ _ _ _ h⟩

/-- LOW side: divisor `−a/(m·dx) + b/2`; the difference quotient is taken in the POSITIVE coordinate direction,
    `(φ_c − g)/(m·dx)` -/
theorem ghostLo_setLo_robin (M : Mesh α) (bc : BCs α) (φ : CellFld α) (d : Dir) (c : Idx) (f : BFace α)
    (hp : (setLo bc d f).periodicDir d = false)
    (hdiv : -(f.a c / (lineM M d c * (M.axis d).DX 0)) + f.b c / 2 ≠ 0) :
    ∃ g, ghostLo M (setLo bc d f) φ d c = some g ∧
      f.a c * ((φ c - g) / (lineM M d c * (M.axis d).DX 0)) + f.b c * ((g + φ c) / 2) = f.c c := by
  have h := sdiv_of_ne (x := f.c c - φ c * (f.a c / (lineM M d c * (M.axis d).DX 0) + f.b c / 2)) hdiv
  exact ⟨_, (ghostLo_setLo M bc φ d c f hp).trans h, robin_of_sdiv_lo _ _ _ _ _ _ h⟩

/-- where the divisor vanishes the model reports no value -/
theorem ghostHi_setHi_none (M : Mesh α) (bc : BCs α) (φ : CellFld α) (d : Dir) (c : Idx) (f : BFace α)
    (hp : (setHi bc d f).periodicDir d = false)
    (hdiv : f.a c / (lineM M d c * (M.axis d).DX (M.n d + 1)) + f.b c / 2 = 0) :
    ghostHi M (setHi bc d f) φ d c = none := by
  rw [ghostHi_setHi M bc φ d c f hp, sdiv_eq_none]; exact hdiv

theorem ghostLo_setLo_none (M : Mesh α) (bc : BCs α) (φ : CellFld α) (d : Dir) (c : Idx) (f : BFace α)
    (hp : (setLo bc d f).periodicDir d = false)
    (hdiv : -(f.a c / (lineM M d c * (M.axis d).DX 0)) + f.b c / 2 = 0) :
    ghostLo M (setLo bc d f) φ d c = none := by
  rw [ghostLo_setLo M bc φ d c f hp, sdiv_eq_none]; exact hdiv

/-! ### "no flux" coefficients `(1, 0, 0)`: the ghost copies the adjacent cell -/

theorem ghostHi_noflux (M : Mesh α) (bc : BCs α) (φ : CellFld α) (d : Dir) (c : Idx)
    (hp : bc.periodicDir d = false) (ha : (bc.hi d).a c = 1) (hb : (bc.hi d).b c = 0)
    (hcc : (bc.hi d).c c = 0) (hD : lineM M d c * (M.axis d).DX (M.n d + 1) ≠ 0) :
    ghostHi M bc φ d c = some (φ c) := by
  rw [ghostHi_nonper hp]
  simp only [hiCellCoef, hiGhostCoef, ha, hb, hcc]
  have hne : (1 : α) / (lineM M d c * (M.axis d).DX (M.n d + 1)) + 0 / 2 ≠ 0 := by
    rw [zero_div, add_zero]; exact one_div_ne_zero hD
  rw [sdiv_of_ne hne]
  congr 1
  rw [div_eq_iff hne]
  ring

theorem ghostLo_noflux (M : Mesh α) (bc : BCs α) (φ : CellFld α) (d : Dir) (c : Idx)
    (hp : bc.periodicDir d = false) (ha : (bc.lo d).a c = 1) (hb : (bc.lo d).b c = 0)
    (hcc : (bc.lo d).c c = 0) (hD : lineM M d c * (M.axis d).DX 0 ≠ 0) :
    ghostLo M bc φ d c = some (φ c) := by
  rw [ghostLo_nonper hp]
  simp only [loCellCoef, loGhostCoef, ha, hb, hcc]
  have hne : -((1 : α) / (lineM M d c * (M.axis d).DX 0)) + 0 / 2 ≠ 0 := by
    rw [zero_div, add_zero, neg_ne_zero]; exact one_div_ne_zero hD
  rw [sdiv_of_ne hne]
  congr 1
  rw [div_eq_iff hne]
  ring

/-- the directions of an `n`-dimensional grid are the active directions of its grid class -/
theorem dimActive_dim (k : Kind) (d : Dir) : dimActive k.dim d = k.active d := by
  cases d <;> rfl

end PyFV.BCUtil
