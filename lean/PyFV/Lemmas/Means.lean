/-
  PyFV.Lemmas.Means — helper lemmas on the two-point width-weighted means of `averaging.py`
  (`amean2 lmean2 hmean2 hmean2'`), the real geometric mean `gmean2`, and the index facts
  the mesh-level statements of C11 need.
-/
import PyFV.Lemmas.Basic
import Mathlib.Tactic.NormNum
import Mathlib.Analysis.MeanInequalities
import Mathlib.Analysis.SpecialFunctions.Log.Basic
import Mathlib.Analysis.SpecialFunctions.Exp
import Mathlib.Analysis.SpecialFunctions.Pow.Real

set_option linter.unusedSectionVars false
set_option linter.unusedVariables false

namespace PyFV

section Generic

variable {α : Type} [Field α] [LinearOrder α] [IsStrictOrderedRing α]

theorem wsum_pos {w0 w1 : α} (h0 : 0 < w0) (h1 : 0 < w1) : 0 < w1 + w0 := add_pos h1 h0

theorem wsum_ne {w0 w1 : α} (h0 : 0 < w0) (h1 : 0 < w1) : w1 + w0 ≠ 0 := ne_of_gt (wsum_pos h0 h1)

/-! ### lower / upper bounds (convex combinations) -/

theorem amean2_ge_of_le {w0 w1 p0 p1 m : α} (h0 : 0 < w0) (h1 : 0 < w1)
    (a : m ≤ p0) (b : m ≤ p1) : m ≤ amean2 w0 w1 p0 p1 := by
  unfold amean2
  rw [le_div_iff₀ (wsum_pos h0 h1)]
  have := mul_le_mul_of_nonneg_left a h0.le
  have := mul_le_mul_of_nonneg_left b h1.le
  linarith

theorem amean2_le_of_ge {w0 w1 p0 p1 m : α} (h0 : 0 < w0) (h1 : 0 < w1)
    (a : p0 ≤ m) (b : p1 ≤ m) : amean2 w0 w1 p0 p1 ≤ m := by
  unfold amean2
  rw [div_le_iff₀ (wsum_pos h0 h1)]
  have := mul_le_mul_of_nonneg_left a h0.le
  have := mul_le_mul_of_nonneg_left b h1.le
  linarith

theorem lmean2_ge_of_le {w0 w1 p0 p1 m : α} (h0 : 0 < w0) (h1 : 0 < w1)
    (a : m ≤ p0) (b : m ≤ p1) : m ≤ lmean2 w0 w1 p0 p1 := by
  unfold lmean2
  rw [le_div_iff₀ (wsum_pos h0 h1)]
  have := mul_le_mul_of_nonneg_left a h1.le
  have := mul_le_mul_of_nonneg_left b h0.le
  linarith

theorem lmean2_le_of_ge {w0 w1 p0 p1 m : α} (h0 : 0 < w0) (h1 : 0 < w1)
    (a : p0 ≤ m) (b : p1 ≤ m) : lmean2 w0 w1 p0 p1 ≤ m := by
  unfold lmean2
  rw [div_le_iff₀ (wsum_pos h0 h1)]
  have := mul_le_mul_of_nonneg_left a h1.le
  have := mul_le_mul_of_nonneg_left b h0.le
  linarith

theorem hden_pos {w0 w1 p0 p1 : α} (h0 : 0 < w0) (h1 : 0 < w1) (hp0 : 0 < p0) (hp1 : 0 < p1) :
    0 < w1 * p0 + w0 * p1 := add_pos (mul_pos h1 hp0) (mul_pos h0 hp1)

theorem hmean2_ge_of_le {w0 w1 p0 p1 m : α} (h0 : 0 < w0) (h1 : 0 < w1)
    (hp0 : 0 < p0) (hp1 : 0 < p1) (a : m ≤ p0) (b : m ≤ p1) : m ≤ hmean2 w0 w1 p0 p1 := by
  unfold hmean2
  rw [le_div_iff₀ (hden_pos h0 h1 hp0 hp1)]
  have := mul_nonneg (mul_pos h1 hp0).le (sub_nonneg.2 b)
  have := mul_nonneg (mul_pos h0 hp1).le (sub_nonneg.2 a)
  linarith

theorem hmean2_le_of_ge {w0 w1 p0 p1 m : α} (h0 : 0 < w0) (h1 : 0 < w1)
    (hp0 : 0 < p0) (hp1 : 0 < p1) (a : p0 ≤ m) (b : p1 ≤ m) : hmean2 w0 w1 p0 p1 ≤ m := by
  unfold hmean2
  rw [div_le_iff₀ (hden_pos h0 h1 hp0 hp1)]
  have := mul_nonneg (mul_pos h1 hp0).le (sub_nonneg.2 b)
  have := mul_nonneg (mul_pos h0 hp1).le (sub_nonneg.2 a)
  linarith

theorem hmean2_pos {w0 w1 p0 p1 : α} (h0 : 0 < w0) (h1 : 0 < w1) (hp0 : 0 < p0) (hp1 : 0 < p1) :
    0 < hmean2 w0 w1 p0 p1 := by
  unfold hmean2
  exact div_pos (mul_pos (mul_pos hp1 hp0) (wsum_pos h0 h1)) (hden_pos h0 h1 hp0 hp1)

/-- the harmonic mean is the inverse of the arithmetic mean of the inverses (same weights) -/
theorem hmean2_eq_inv_amean2_inv {w0 w1 p0 p1 : α} (hp0 : p0 ≠ 0) (hp1 : p1 ≠ 0) :
    hmean2 w0 w1 p0 p1 = (amean2 w0 w1 p0⁻¹ p1⁻¹)⁻¹ := by
  unfold hmean2 amean2
  rw [inv_div]
  have e : w0 * p0⁻¹ + w1 * p1⁻¹ = (w1 * p0 + w0 * p1) / (p1 * p0) := by
    field_simp
    ring
  rw [e, div_div_eq_mul_div]
  ring_nf

/-! ### index facts for `phiTmp` / `upMean` -/

theorem phiTmp_interior (M : Mesh α) (φ : CellFld α) (d : Dir) (c : Idx)
    (h1 : 1 ≤ c.get d) (hn : c.get d ≤ M.n d) : phiTmp M φ d c = φ c := by
  have a : ¬ c.get d = 0 := by omega
  have b : ¬ c.get d = M.n d + 1 := by omega
  simp [phiTmp, a, b]

theorem phiTmp_lo (M : Mesh α) (φ : CellFld α) (d : Dir) (c : Idx) (h0 : c.get d = 0) :
    phiTmp M φ d c = (φ c + φ (c.next d)) / 2 := by
  simp [phiTmp, h0]

theorem phiTmp_next_interior (M : Mesh α) (φ : CellFld α) (d : Dir) (c : Idx)
    (hn : c.get d + 1 ≤ M.n d) : phiTmp M φ d (c.next d) = φ (c.next d) := by
  have b : ¬ c.get d = M.n d := by omega
  simp [phiTmp, b]

theorem phiTmp_next_hi (M : Mesh α) (φ : CellFld α) (d : Dir) (c : Idx) (hn : c.get d = M.n d) :
    phiTmp M φ d (c.next d) = (φ c + φ (c.next d)) / 2 := by
  simp [phiTmp, hn, Idx.prev_next, add_comm]

end Generic

/-! ### the real geometric mean -/

/-- `geometricMean` on one face, over `ℝ` -/
noncomputable def gmean2 (w0 w1 p0 p1 : ℝ) : ℝ :=
  Real.exp ((w0 * Real.log p0 + w1 * Real.log p1) / (w1 + w0))

theorem gmean2_eq_exp_amean2 (w0 w1 p0 p1 : ℝ) :
    gmean2 w0 w1 p0 p1 = Real.exp (amean2 w0 w1 (Real.log p0) (Real.log p1)) := rfl

theorem gmean2_pos (w0 w1 p0 p1 : ℝ) : 0 < gmean2 w0 w1 p0 p1 := Real.exp_pos _

theorem gmean2_eq_rpow {w0 w1 p0 p1 : ℝ} (h0 : 0 < w0) (h1 : 0 < w1) (hp0 : 0 < p0)
    (hp1 : 0 < p1) :
    gmean2 w0 w1 p0 p1 = p0 ^ (w0 / (w0 + w1)) * p1 ^ (w1 / (w0 + w1)) := by
  rw [Real.rpow_def_of_pos hp0, Real.rpow_def_of_pos hp1, ← Real.exp_add]
  unfold gmean2
  congr 1
  have : w0 + w1 ≠ 0 := ne_of_gt (add_pos h0 h1)
  have : w1 + w0 ≠ 0 := wsum_ne h0 h1
  field_simp
  ring

theorem gmean2_inv {w0 w1 p0 p1 : ℝ} :
    gmean2 w0 w1 p0⁻¹ p1⁻¹ = (gmean2 w0 w1 p0 p1)⁻¹ := by
  unfold gmean2
  rw [Real.log_inv, Real.log_inv, ← Real.exp_neg]
  congr 1
  ring

end PyFV
