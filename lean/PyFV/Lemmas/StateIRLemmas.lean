/-
  PyFV.Lemmas.StateIRLemmas — helper lemmas for PyFV.Props.GenEqState: extensionality of `St` / `Cfg`
  and the projections of `setVar` / `setBC` (all by `rfl`).  Nothing here mentions a generated program.
-/
import PyFV.Model.StateIR
import PyFV.Lemmas.StateLemmas

namespace PyFV.StateIR

open PyFV.State

theorem St.ext' {s t : St} (h1 : ∀ i, s.bcs i = t.bcs i) (h2 : s.nB = t.nB) (h3 : ∀ i, s.vars i = t.vars i)
    (h4 : s.nV = t.nV) (h5 : s.next = t.next) : s = t := by
  cases s; cases t
  have := funext h1; have := funext h3
  simp_all

/-- two configurations are equal when all components are (heaps pointwise) -/
theorem Cfg.ext9 {c d : Cfg} (h1 : ∀ i, c.st.bcs i = d.st.bcs i) (h2 : c.st.nB = d.st.nB)
    (h3 : ∀ i, c.st.vars i = d.st.vars i) (h4 : c.st.nV = d.st.nV) (h5 : c.st.next = d.st.next)
    (h6 : c.regs = d.regs) (h7 : c.read = d.read) (h8 : c.ret = d.ret) : c = d := by
  cases c; cases d
  have := St.ext' h1 h2 h3 h4 h5
  simp_all

@[simp] theorem setVar_vars (s : St) (v u : Nat) (x : Var) :
    (setVar s v x).vars u = if u = v then x else s.vars u := rfl
@[simp] theorem setVar_bcs (s : St) (v : Nat) (x : Var) : (setVar s v x).bcs = s.bcs := rfl
@[simp] theorem setVar_nV (s : St) (v : Nat) (x : Var) : (setVar s v x).nV = s.nV := rfl
@[simp] theorem setVar_nB (s : St) (v : Nat) (x : Var) : (setVar s v x).nB = s.nB := rfl
@[simp] theorem setVar_next (s : St) (v : Nat) (x : Var) : (setVar s v x).next = s.next := rfl
@[simp] theorem setBC_bcs (s : St) (b i : Nat) (o : BCObj) :
    (setBC s b o).bcs i = if i = b then o else s.bcs i := rfl
@[simp] theorem setBC_vars (s : St) (b : Nat) (o : BCObj) : (setBC s b o).vars = s.vars := rfl
@[simp] theorem setBC_nV (s : St) (b : Nat) (o : BCObj) : (setBC s b o).nV = s.nV := rfl
@[simp] theorem setBC_nB (s : St) (b : Nat) (o : BCObj) : (setBC s b o).nB = s.nB := rfl
@[simp] theorem setBC_next (s : St) (b : Nat) (o : BCObj) : (setBC s b o).next = s.next := rfl

/-- the default variable of `allocVar` -/
theorem default_var : (default : Var) = ⟨0, 0, 0, 0, none, 0, false, false⟩ := rfl

/-- a method call runs the body with `self` rebound and restores the registers -/
theorem exec_call (body : Prog) (r : Ref) (c : Cfg) :
    exec (.call body r) c =
      { exec body { c with regs := { c.regs with self := c.regs.get r } } with regs := c.regs } := rfl

theorem evalB_call (s : St) (g : Regs) (body : BExp) (r : Ref) :
    evalB s g (.call body r) = evalB s { g with self := g.get r } body := rfl

/-! ### one-constructor unfolding of the interpreter (the `call` cases are left to lemmas about the callee) -/

theorem exec_skip (c : Cfg) : exec .skip c = c := rfl
theorem exec_prim (p : Prim) (c : Cfg) : exec (.prim p) c = execPrim c p := rfl
theorem exec_seq (a b : Prog) (c : Cfg) : exec (.seq a b) c = exec b (exec a c) := rfl
theorem exec_ite (t : BExp) (a b : Prog) (c : Cfg) :
    exec (.ite t a b) c = if evalB c.st c.regs t then exec a c else exec b c := rfl

theorem evalB_tt (s : St) (g : Regs) : evalB s g .tt = true := rfl
theorem evalB_ff (s : St) (g : Regs) : evalB s g .ff = false := rfl
theorem evalB_precalc (s : St) (g : Regs) (r : Ref) : evalB s g (.precalc r) = (s.vars (g.get r)).precalc := rfl
theorem evalB_bcModified (s : St) (g : Regs) (r : Ref) :
    evalB s g (.bcModified r) = (s.bcs (s.vars (g.get r)).bc).modified := rfl
theorem evalB_valModified (s : St) (g : Regs) (r : Ref) : evalB s g (.valModified r) = (s.vars (g.get r)).valMod := rfl
theorem evalB_appliedNeToken (s : St) (g : Regs) (r : Ref) :
    evalB s g (.appliedNeToken r) = ((s.vars (g.get r)).applied != (s.bcs (s.vars (g.get r)).bc).content) := rfl
theorem evalB_hasCache (s : St) (g : Regs) (r : Ref) : evalB s g (.hasCache r) = (s.vars (g.get r)).cache.isSome := rfl
theorem evalB_not (s : St) (g : Regs) (a : BExp) : evalB s g (.not a) = !(evalB s g a) := rfl
theorem evalB_and (s : St) (g : Regs) (a b : BExp) : evalB s g (.and a b) = (evalB s g a && evalB s g b) := rfl
theorem evalB_or (s : St) (g : Regs) (a b : BExp) : evalB s g (.or a b) = (evalB s g a || evalB s g b) := rfl

/-- unfold a generated program down to the primitive effects; the arguments are the definition of the program
    and the lemmas about the methods it calls -/
syntax "ir_unfold" "[" Lean.Parser.Tactic.simpLemma,* "]" : tactic
macro_rules
  | `(tactic| ir_unfold [$ls,*]) =>
    `(tactic| simp only [$ls,*, Prog.block, exec_skip, exec_prim, exec_seq, exec_ite, evalB_tt, evalB_ff, evalB_precalc,
        evalB_bcModified, evalB_valModified, evalB_appliedNeToken, evalB_hasCache, evalB_not, evalB_and, evalB_or,
        execPrim, Regs.get, modVar])

end PyFV.StateIR
