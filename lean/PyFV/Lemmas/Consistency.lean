/-
  PyFV.Lemmas.Consistency — helper lemmas for property C02: positions of cell centres (ghost
  centres included) on a well-formed axis, flux form of the line diffusion stencil, the metric
  table of the radial direction, and the discrete maximum-principle error bound.
-/
import PyFV.Lemmas.Symmetry
import Mathlib.Algebra.BigOperators.Ring.Finset
import Mathlib.Algebra.Order.BigOperators.Group.Finset
import Mathlib.Data.Fintype.BigOperators
import Mathlib.Algebra.Order.Field.Rat
import Mathlib.Tactic.NormNum

set_option linter.unusedSectionVars false

namespace PyFV

variable {α : Type} [Field α] [LinearOrder α] [IsStrictOrderedRing α]

/-! ### positions -/

/-- position of the centre of cell `j`, ghost cells included: the ghost centres lie half a ghost
    cell size outside the boundary faces (this is what `dx = 0.5*(DX[0:-1]+DX[1:])` assumes) -/
def Axis.xc (a : Axis α) (j : ℕ) : α :=
  if j = 0 then a.fc 0 - a.DX 0 / 2
  else if j = a.n + 1 then a.fc a.n + a.DX (a.n + 1) / 2
  else a.cen j

theorem Axis.WF.cen_eq_hi {a : Axis α} (h : a.WF) (i : ℕ) (h1 : 1 ≤ i) (hn : i ≤ a.n) :
    a.cen i = a.fc i - a.DX i / 2 := by
  rw [h.mid i h1 hn, h.size i h1 hn]; ring

theorem Axis.WF.cen_eq_lo {a : Axis α} (h : a.WF) (i : ℕ) (h1 : 1 ≤ i) (hn : i ≤ a.n) :
    a.cen i = a.fc (i-1) + a.DX i / 2 := by
  rw [h.mid i h1 hn, h.size i h1 hn]; ring

/-- faces of cell `i` in terms of its centre -/
theorem Axis.WF.fc_hi {a : Axis α} (h : a.WF) (i : ℕ) (h1 : 1 ≤ i) (hn : i ≤ a.n) :
    a.fc i = a.cen i + a.DX i / 2 := by
  rw [h.cen_eq_hi i h1 hn]; ring

theorem Axis.WF.fc_lo {a : Axis α} (h : a.WF) (i : ℕ) (h1 : 1 ≤ i) (hn : i ≤ a.n) :
    a.fc (i-1) = a.cen i - a.DX i / 2 := by
  rw [h.cen_eq_lo i h1 hn]; ring

theorem Axis.WF.xc_eq_hi {a : Axis α} (h : a.WF) (j : ℕ) (hj : j ≤ a.n) :
    a.xc j = a.fc j - a.DX j / 2 := by
  unfold Axis.xc
  by_cases h0 : j = 0
  · subst h0; simp
  · have h1 : ¬ j = a.n + 1 := by omega
    simp only [eq_false h0, eq_false h1, if_false]
    exact h.cen_eq_hi j (by omega) hj

theorem Axis.WF.xc_eq_lo {a : Axis α} (h : a.WF) (j : ℕ) (hj : j ≤ a.n) :
    a.xc (j+1) = a.fc j + a.DX (j+1) / 2 := by
  unfold Axis.xc
  have h0 : ¬ j + 1 = 0 := by omega
  by_cases h1 : j = a.n
  · subst h1; simp
  · have h1' : ¬ j + 1 = a.n + 1 := by omega
    simp only [eq_false h0, eq_false h1', if_false]
    have := h.cen_eq_lo (j+1) (by omega) (by omega)
    simpa using this

/-- interior neighbours: `cen (i+1) − cen i = dxf i` -/
theorem cen_succ_sub {a : Axis α} (h : a.WF) (i : ℕ) (h1 : 1 ≤ i) (hn : i < a.n) :
    a.cen (i+1) - a.cen i = a.dxf i := by
  have e1 := h.cen_eq_hi i h1 (by omega)
  have e2 := h.cen_eq_lo (i+1) (by omega) (by omega)
  simp only [Nat.add_sub_cancel] at e2
  rw [e1, e2]; unfold Axis.dxf; ring

/-- all neighbours, ghost centres included -/
theorem xc_succ_sub {a : Axis α} (h : a.WF) (j : ℕ) (hj : j ≤ a.n) :
    a.xc (j+1) - a.xc j = a.dxf j := by
  rw [h.xc_eq_hi j hj, h.xc_eq_lo j hj]; unfold Axis.dxf; ring

theorem xc_interior (a : Axis α) (i : ℕ) (h1 : 1 ≤ i) (hn : i ≤ a.n) : a.xc i = a.cen i := by
  unfold Axis.xc
  have h0 : ¬ i = 0 := by omega
  have h2 : ¬ i = a.n + 1 := by omega
  simp [h0, h2]

theorem Axis.WF.dxf_ne {a : Axis α} (h : a.WF) (f : ℕ) : a.dxf f ≠ 0 := by
  unfold Axis.dxf
  have := h.pos f; have := h.pos (f+1)
  positivity

/-! ### flux form of the line stencils -/

theorem lineDiffSt_lapp (a : Axis α) (V A : ℕ → α) (m : α) (Dl φl : ℕ → α) (i : ℕ) :
    (lineDiffSt a V A m Dl i).lapp φl i
      = (A i * Dl i * ((φl (i+1) - φl i) / a.dxf i)
          - A (i-1) * Dl (i-1) * ((φl i - φl (i-1)) / a.dxf (i-1))) / (m * m * V i) := by
  simp only [lineDiffSt, St3.lapp]; ring

theorem diffSt_app_line (M : Mesh α) (D : FaceFld α) (φ : CellFld α) (d : Dir) (c : Idx) :
    (diffSt M D d c).app φ d c
      = (lineDiffSt (M.axis d) (lineV M d) (lineA M d) (lineM M d c) (lineOf (D d) d c)
          (c.get d)).lapp (lineOf φ d c) (c.get d) := by
  rw [St3.app_eq_lapp, diffSt_eq_line]

theorem convSt_app_line (M : Mesh α) (u : FaceFld α) (φ : CellFld α) (d : Dir) (c : Idx) :
    (convSt M u d c).app φ d c
      = (lineConvSt (M.axis d) (lineV M d) (lineA M d) (lineM M d c) (lineOf (u d) d c)
          (c.get d)).lapp (lineOf φ d c) (c.get d) := by
  rw [St3.app_eq_lapp, convSt_eq_line]

theorem upwindSt_app_line (M : Mesh α) (u uUp : FaceFld α) (φ : CellFld α) (d : Dir) (c : Idx) :
    (upwindSt M u uUp d c).app φ d c
      = (lineUpwindSt (M.axis d) (lineV M d) (lineA M d) (lineM M d c) (lineOf (u d) d c)
          (lineOf (uUp d) d c) (c.get d)).lapp (lineOf φ d c) (c.get d) := by
  rw [St3.app_eq_lapp, upwindSt_eq_line]

theorem lineOf_prev (φ : Idx → α) (d : Dir) (c : Idx) :
    lineOf φ d c (c.get d - 1) = φ (c.prev d) := rfl

theorem lineOf_next (φ : Idx → α) (d : Dir) (c : Idx) :
    lineOf φ d c (c.get d + 1) = φ (c.next d) := rfl

/-! ### metric table of the radial direction -/

def Kind.cylR : Kind → Bool
  | .cyl1 | .cyl2 | .pol2 | .cyl3 => true
  | _ => false

theorem lineM_x (M : Mesh α) (c : Idx) : lineM M .x c = 1 := by
  unfold lineM; cases M.kind <;> rfl

theorem lineV_cylR {M : Mesh α} (hk : M.kind.cylR = true) (i : ℕ) :
    lineV M .x i = M.ax.cen i * M.ax.DX i := by
  unfold lineV
  cases hk' : M.kind <;> rw [hk'] at hk <;> first | rfl | exact absurd hk (by decide)

theorem lineA_cylR {M : Mesh α} (hk : M.kind.cylR = true) (f : ℕ) :
    lineA M .x f = M.ax.fc f := by
  unfold lineA
  cases hk' : M.kind <;> rw [hk'] at hk <;> first | rfl | exact absurd hk (by decide)

theorem cylR_radial {k : Kind} (hk : k.cylR = true) : k.radial = true := by
  cases k <;> first | rfl | exact absurd hk (by decide)

theorem lineV_sph3 {M : Mesh α} (hk : M.kind = .sph3) (i : ℕ) :
    lineV M .x i = M.ax.cen i ^ 2 * M.ax.DX i := by
  unfold lineV; rw [hk]

theorem lineV_sph1 {M : Mesh α} (hk : M.kind = .sph1) (i : ℕ) :
    lineV M .x i = (M.ax.fc i ^ 3 - M.ax.fc (i-1) ^ 3) / 3 := by
  unfold lineV; rw [hk]

theorem lineA_sph {M : Mesh α} (hk : M.kind = .sph1 ∨ M.kind = .sph3) (f : ℕ) :
    lineA M .x f = M.ax.fc f ^ 2 := by
  unfold lineA; rcases hk with h | h <;> rw [h]

/-! ### discrete maximum principle: error bound for M-matrix-like rows -/

/-- rows `Σ_j a_ij e_j = τ_i` with non-positive off-diagonal entries and row sums `≥ w > 0`:
    at an index `k` where `|e|` is largest, `|e_k| ≤ |τ_k| / w` -/
theorem mmatrix_error_bound {ι : Type} [Fintype ι] [Nonempty ι] (A : ι → ι → α) (e τ : ι → α) (w : α)
    (hw : 0 < w) (hrow : ∀ i, ∑ j, A i j * e j = τ i) (hoff : ∀ i j, j ≠ i → A i j ≤ 0)
    (hsum : ∀ i, w ≤ ∑ j, A i j) :
    ∃ k, ∀ i, |e i| ≤ |τ k| / w := by
  obtain ⟨k, -, hk⟩ := Finset.exists_max_image Finset.univ (fun i => |e i|) Finset.univ_nonempty
  refine ⟨k, fun i => le_trans (hk i (Finset.mem_univ i)) ?_⟩
  rw [le_div_iff₀ hw]
  obtain ⟨s, hs1, hsE⟩ : ∃ s : α, (s = 1 ∨ s = -1) ∧ s * e k = |e k| := by
    rcases le_total 0 (e k) with h | h
    · exact ⟨1, Or.inl rfl, by rw [one_mul, abs_of_nonneg h]⟩
    · exact ⟨-1, Or.inr rfl, by rw [abs_of_nonpos h]; ring⟩
  have hsx : ∀ x : α, s * x ≤ |x| := by
    intro x; rcases hs1 with rfl | rfl
    · rw [one_mul]; exact le_abs_self x
    · rw [neg_one_mul]; exact neg_le_abs x
  have key : ∀ j, A k j * |e k| ≤ A k j * (s * e j) := by
    intro j
    by_cases hj : j = k
    · rw [hj, hsE]
    · have h1 := hoff k j hj
      have h2 : s * e j ≤ |e k| := le_trans (hsx (e j)) (hk j (Finset.mem_univ j))
      exact mul_le_mul_of_nonpos_left h2 h1
  have h1 : |e k| * w ≤ |e k| * ∑ j, A k j :=
    mul_le_mul_of_nonneg_left (hsum k) (abs_nonneg _)
  have h2 : |e k| * ∑ j, A k j = ∑ j, A k j * |e k| := by
    rw [Finset.mul_sum]; apply Finset.sum_congr rfl; intros; ring
  have h3 : ∑ j, A k j * |e k| ≤ ∑ j, A k j * (s * e j) :=
    Finset.sum_le_sum (fun j _ => key j)
  have h4 : ∑ j, A k j * (s * e j) = s * τ k := by
    rw [← hrow k, Finset.mul_sum]; apply Finset.sum_congr rfl; intros; ring
  calc |e k| * w ≤ |e k| * ∑ j, A k j := h1
    _ = ∑ j, A k j * |e k| := h2
    _ ≤ ∑ j, A k j * (s * e j) := h3
    _ = s * τ k := h4
    _ ≤ |τ k| := hsx (τ k)

/-! ### a concrete uniform radial mesh over ℚ (non-vacuity examples of C02) -/

/-- uniform radial axis `r ∈ [0, 3]`, three cells, `h = 1`, centres `1/2, 3/2, 5/2` -/
def axU : Axis ℚ := mkAxisNL 3 3

theorem axU_WF : axU.WF := mkAxisNL_WF 3 3 (by norm_num) (by norm_num)

def meshU (k : Kind) : Mesh ℚ :=
  { kind := k, ax := axU, ay := unitAxis, az := unitAxis,
    sinC := fun _ => 1/2, sinF := fun _ => 1/3, cosF := fun _ => 1/4, pi := 3 }

theorem axU_cen_pos (i : ℕ) (h1 : 1 ≤ i) : 0 < axU.cen i := by
  have : (1 : ℚ) ≤ i := by exact_mod_cast h1
  simp only [axU, mkAxisNL]
  norm_num
  linarith

theorem meshU_WF (k : Kind) : (meshU k).WF where
  wx := axU_WF
  wy := unitAxis_WF'
  wz := unitAxis_WF'
  rpos := fun _ i h1 _ => axU_cen_pos i h1
  rf0 := by
    intro _ f _
    show 0 ≤ axU.fc f
    simp only [axU, mkAxisNL]
    positivity
  spos := by intro _ j _ _; norm_num [meshU]
  pipos := by norm_num [meshU]

end PyFV
