/-
  PyFV.Lemmas.Symmetry — helper definitions and lemmas for property C08:
  1-D *line forms* of every per-direction stencil (they mention only an axis, the line weights
  `V A`, the metric scale `m` and the data restricted to the grid line), transfer of stencils
  between meshes, axis permutations, mirrored axes, reductions to lower-dimensional grids and
  translation along a uniform axis.
-/
import PyFV.Lemmas.Operators
import PyFV.Lemmas.WF

set_option linter.unusedSectionVars false

namespace PyFV

variable {α : Type} [Field α] [LinearOrder α] [IsStrictOrderedRing α]

/-! ### generalities on 3-point stencils and grid lines -/

theorem St3.ext' {s t : St3 α} (hw : s.w = t.w) (hp : s.p = t.p) (he : s.e = t.e) : s = t := by
  cases s; cases t; simp_all

/-- exchange of the west and east coefficients -/
def St3.flip (s : St3 α) : St3 α := ⟨s.e, s.p, s.w⟩

/-- apply a stencil to a field given on a line (`φl j`, `j = 0..n+1`) at position `i` -/
def St3.lapp (s : St3 α) (φl : ℕ → α) (i : ℕ) : α :=
  s.w * φl (i-1) + s.p * φl i + s.e * φl (i+1)

/-- restriction of a field to the grid line through `c` along `d` -/
def lineOf (φ : Idx → α) (d : Dir) (c : Idx) : ℕ → α := fun j => φ (c.set d j)

theorem lineOf_get (φ : Idx → α) (d : Dir) (c : Idx) : lineOf φ d c (c.get d) = φ c := by
  simp [lineOf]

theorem St3.app_eq_lapp (s : St3 α) (φ : CellFld α) (d : Dir) (c : Idx) :
    s.app φ d c = s.lapp (lineOf φ d c) (c.get d) := by
  simp [St3.app, St3.lapp, lineOf]

/-- a stencil sees only the three values on its line -/
theorem St3.app_congr (s : St3 α) (φ ψ : CellFld α) (d : Dir) (c : Idx)
    (h0 : φ (c.prev d) = ψ (c.prev d)) (h1 : φ c = ψ c) (h2 : φ (c.next d) = ψ (c.next d)) :
    s.app φ d c = s.app ψ d c := by
  unfold St3.app
  rw [show c.set d (c.get d - 1) = c.prev d from rfl, show c.set d (c.get d + 1) = c.next d from rfl,
    h0, h1, h2]

theorem Idx.get_set (c : Idx) (d e : Dir) (v : ℕ) :
    (c.set d v).get e = if d = e then v else c.get e := by
  cases d <;> cases e <;> rfl

theorem Idx.ext_get {c c' : Idx} (h : ∀ e, c.get e = c'.get e) : c = c' := by
  obtain ⟨a, b, k⟩ := c
  obtain ⟨a', b', k'⟩ := c'
  have hx := h .x; have hy := h .y; have hz := h .z
  simp only [Idx.get] at hx hy hz
  subst hx hy hz; rfl

/-! ### line forms of the per-direction operators -/

def lineDiffSt (a : Axis α) (V A : ℕ → α) (m : α) (Dl : ℕ → α) (i : ℕ) : St3 α :=
  let e := A i * Dl i / (m * m * V i * a.dxf i)
  let w := A (i-1) * Dl (i-1) / (m * m * V i * a.dxf (i-1))
  ⟨w, -(e + w), e⟩

def lineConvSt (a : Axis α) (V A : ℕ → α) (m : α) (ul : ℕ → α) (i : ℕ) : St3 α :=
  let mV := m * V i
  let ue := A i * ul i / ((a.DX i + a.DX (i+1)) * mV)
  let uw := A (i-1) * ul (i-1) / ((a.DX i + a.DX (i-1)) * mV)
  ⟨-(uw * a.DX i), ue * a.DX (i+1) - uw * a.DX (i-1), ue * a.DX i⟩

def luMin (ul uUpl : ℕ → α) (f : ℕ) : α := if 0 < uUpl f then 0 else ul f
def luMax (ul uUpl : ℕ → α) (f : ℕ) : α := if uUpl f < 0 then 0 else ul f

def lineUpwindSt (a : Axis α) (V A : ℕ → α) (m : α) (ul uUpl : ℕ → α) (i : ℕ) : St3 α :=
  let n := a.n
  let mV := m * V i
  let Ae := A i; let Aw := A (i-1)
  let ueMin := luMin ul uUpl i; let ueMax := luMax ul uUpl i
  let uwMin := luMin ul uUpl (i-1); let uwMax := luMax ul uUpl (i-1)
  let e0 := Ae * ueMin / mV
  let w0 := -(Aw * uwMax) / mV
  let p0 := (Ae * ueMax - Aw * uwMin) / mV
  let p1 := if i = 1 then p0 - Aw * uwMax / (2 * mV) else p0
  let w1 := if i = 1 then w0 / 2 else w0
  let e1 := if i = n then e0 / 2 else e0
  let p2 := if i = n then p1 + Ae * ueMin / (2 * mV) else p1
  ⟨w1, p2, e1⟩

def lineDivD (V A : ℕ → α) (m : α) (Fl : ℕ → α) (i : ℕ) : α :=
  (A i * Fl i - A (i-1) * Fl (i-1)) / (m * V i)

def lineGradD (a : Axis α) (m : α) (φl : ℕ → α) (f : ℕ) : α :=
  (φl (f+1) - φl f) / (m * a.dxf f)

def lineLinMean (a : Axis α) (φl : ℕ → α) (f : ℕ) : α :=
  (a.DX (f+1) * φl f + a.DX f * φl (f+1)) / (a.DX (f+1) + a.DX f)

def ldphi (a : Axis α) (φl : ℕ → α) (f : ℕ) : α := (φl (f+1) - φl f) / a.dxf f

def lpsiP (a : Axis α) (FL : α → α) (eps1 : α) (φl : ℕ → α) (f : ℕ) : α :=
  if f = 0 then 0
  else 1 / 2 * FL (ldphi a φl (f-1) / fsign eps1 (ldphi a φl f)) * (φl (f+1) - φl f)

def lpsiM (a : Axis α) (FL : α → α) (eps1 : α) (φl : ℕ → α) (f : ℕ) : α :=
  if f = a.n then 0
  else 1 / 2 * FL (ldphi a φl (f+1) / fsign eps1 (ldphi a φl f)) * (φl f - φl (f+1))

def lineTvdFlux (a : Axis α) (ul uUpl : ℕ → α) (FL : α → α) (eps1 : α) (φl : ℕ → α) (f : ℕ) : α :=
  luMax ul uUpl f * lpsiP a FL eps1 φl f + luMin ul uUpl f * lpsiM a FL eps1 φl f

/-! ### every model stencil is its line form (all kinds, all directions) -/

theorem diffSt_eq_line (M : Mesh α) (D : FaceFld α) (d : Dir) (c : Idx) :
    diffSt M D d c = lineDiffSt (M.axis d) (lineV M d) (lineA M d) (lineM M d c)
      (lineOf (D d) d c) (c.get d) := by
  simp only [diffSt, lineDiffSt, lineOf, Idx.set_get, Idx.prev]

theorem convSt_eq_line (M : Mesh α) (u : FaceFld α) (d : Dir) (c : Idx) :
    convSt M u d c = lineConvSt (M.axis d) (lineV M d) (lineA M d) (lineM M d c)
      (lineOf (u d) d c) (c.get d) := by
  simp only [convSt, lineConvSt, lineOf, Idx.set_get, Idx.prev]

theorem lineOf_set (φ : Idx → α) (d : Dir) (c : Idx) (v : ℕ) :
    lineOf φ d (c.set d v) = lineOf φ d c := by
  funext j; simp [lineOf]

theorem uMin_eq_line (u uUp : FaceFld α) (d : Dir) (c : Idx) :
    uMin u uUp d c = luMin (lineOf (u d) d c) (lineOf (uUp d) d c) (c.get d) := by
  simp only [uMin, luMin, lineOf, Idx.set_get]

theorem uMax_eq_line (u uUp : FaceFld α) (d : Dir) (c : Idx) :
    uMax u uUp d c = luMax (lineOf (u d) d c) (lineOf (uUp d) d c) (c.get d) := by
  simp only [uMax, luMax, lineOf, Idx.set_get]

/-- the number of cells the upwind corrections test against is `(M.axis d).n = M.n d` -/
theorem upwindSt_eq_line (M : Mesh α) (u uUp : FaceFld α) (d : Dir) (c : Idx) :
    upwindSt M u uUp d c = lineUpwindSt (M.axis d) (lineV M d) (lineA M d) (lineM M d c)
      (lineOf (u d) d c) (lineOf (uUp d) d c) (c.get d) := by
  unfold upwindSt lineUpwindSt
  simp only [uMin_eq_line, uMax_eq_line, Idx.prev, lineOf_set, Idx.get_set_same, Mesh.n]

theorem divD_eq_line (M : Mesh α) (F : FaceFld α) (d : Dir) (c : Idx) :
    divD M F d c = lineDivD (lineV M d) (lineA M d) (lineM M d c) (lineOf (F d) d c) (c.get d) := by
  simp only [divD, lineDivD, lineOf, Idx.set_get, Idx.prev]

theorem gradD_eq_line (M : Mesh α) (φ : CellFld α) (d : Dir) (c : Idx) :
    gradD M φ d c = lineGradD (M.axis d) (lineM M d c) (lineOf φ d c) (c.get d) := by
  simp only [gradD, lineGradD, lineOf, Idx.set_get, Idx.next]

theorem linMean_eq_line (M : Mesh α) (φ : CellFld α) (d : Dir) (c : Idx) :
    linMean M φ d c = lineLinMean (M.axis d) (lineOf φ d c) (c.get d) := by
  simp only [linMean, lineLinMean, lineOf, Idx.set_get, Idx.next]

theorem dphi_eq_line (M : Mesh α) (φ : CellFld α) (d : Dir) (c : Idx) :
    dphi M φ d c = ldphi (M.axis d) (lineOf φ d c) (c.get d) := by
  simp only [dphi, ldphi, lineOf, Idx.set_get, Idx.next]

theorem psiP_eq_line (M : Mesh α) (FL : α → α) (e : α) (φ : CellFld α) (d : Dir) (c : Idx) :
    psiP M FL e φ d c = lpsiP (M.axis d) FL e (lineOf φ d c) (c.get d) := by
  unfold psiP lpsiP
  rw [dphi_eq_line, dphi_eq_line]
  simp only [Idx.prev, Idx.next, lineOf_set, Idx.get_set_same, lineOf, Idx.set_get]

theorem psiM_eq_line (M : Mesh α) (FL : α → α) (e : α) (φ : CellFld α) (d : Dir) (c : Idx) :
    psiM M FL e φ d c = lpsiM (M.axis d) FL e (lineOf φ d c) (c.get d) := by
  unfold psiM lpsiM
  rw [dphi_eq_line, dphi_eq_line]
  simp only [Idx.next, lineOf_set, Idx.get_set_same, lineOf, Idx.set_get, Mesh.n]

theorem tvdFlux_eq_line (M : Mesh α) (u uUp : FaceFld α) (FL : α → α) (e : α) (φ : CellFld α)
    (d : Dir) (c : Idx) :
    tvdFlux M u uUp FL e φ d c = lineTvdFlux (M.axis d) (lineOf (u d) d c) (lineOf (uUp d) d c)
      FL e (lineOf φ d c) (c.get d) := by
  unfold tvdFlux lineTvdFlux
  rw [uMax_eq_line, uMin_eq_line, psiP_eq_line, psiM_eq_line]

/-! ### transfer: the stencil along a direction depends on the mesh only through the axis, the
line weights, the metric scale and the line-restricted data -/

theorem diffSt_transfer {M M' : Mesh α} {D D' : FaceFld α} {d d' : Dir} {c c' : Idx}
    (hax : M.axis d = M'.axis d') (hV : lineV M d = lineV M' d') (hA : lineA M d = lineA M' d')
    (hm : lineM M d c = lineM M' d' c') (hi : c.get d = c'.get d')
    (hD : ∀ f, D d (c.set d f) = D' d' (c'.set d' f)) :
    diffSt M D d c = diffSt M' D' d' c' := by
  have h1 : lineOf (D d) d c = lineOf (D' d') d' c' := funext hD
  rw [diffSt_eq_line, diffSt_eq_line, hax, hV, hA, hm, hi, h1]

theorem convSt_transfer {M M' : Mesh α} {u u' : FaceFld α} {d d' : Dir} {c c' : Idx}
    (hax : M.axis d = M'.axis d') (hV : lineV M d = lineV M' d') (hA : lineA M d = lineA M' d')
    (hm : lineM M d c = lineM M' d' c') (hi : c.get d = c'.get d')
    (hu : ∀ f, u d (c.set d f) = u' d' (c'.set d' f)) :
    convSt M u d c = convSt M' u' d' c' := by
  have h1 : lineOf (u d) d c = lineOf (u' d') d' c' := funext hu
  rw [convSt_eq_line, convSt_eq_line, hax, hV, hA, hm, hi, h1]

theorem upwindSt_transfer {M M' : Mesh α} {u u' uUp uUp' : FaceFld α} {d d' : Dir} {c c' : Idx}
    (hax : M.axis d = M'.axis d') (hV : lineV M d = lineV M' d') (hA : lineA M d = lineA M' d')
    (hm : lineM M d c = lineM M' d' c') (hi : c.get d = c'.get d')
    (hu : ∀ f, u d (c.set d f) = u' d' (c'.set d' f))
    (hup : ∀ f, uUp d (c.set d f) = uUp' d' (c'.set d' f)) :
    upwindSt M u uUp d c = upwindSt M' u' uUp' d' c' := by
  have h1 : lineOf (u d) d c = lineOf (u' d') d' c' := funext hu
  have h2 : lineOf (uUp d) d c = lineOf (uUp' d') d' c' := funext hup
  rw [upwindSt_eq_line, upwindSt_eq_line, hax, hV, hA, hm, hi, h1, h2]

theorem divD_transfer {M M' : Mesh α} {F F' : FaceFld α} {d d' : Dir} {c c' : Idx}
    (hV : lineV M d = lineV M' d') (hA : lineA M d = lineA M' d')
    (hm : lineM M d c = lineM M' d' c') (hi : c.get d = c'.get d')
    (hF : ∀ f, F d (c.set d f) = F' d' (c'.set d' f)) :
    divD M F d c = divD M' F' d' c' := by
  have h1 : lineOf (F d) d c = lineOf (F' d') d' c' := funext hF
  rw [divD_eq_line, divD_eq_line, hV, hA, hm, hi, h1]

theorem gradD_transfer {M M' : Mesh α} {φ φ' : CellFld α} {d d' : Dir} {c c' : Idx}
    (hax : M.axis d = M'.axis d') (hm : lineM M d c = lineM M' d' c') (hi : c.get d = c'.get d')
    (hφ : ∀ j, φ (c.set d j) = φ' (c'.set d' j)) :
    gradD M φ d c = gradD M' φ' d' c' := by
  have h1 : lineOf φ d c = lineOf φ' d' c' := funext hφ
  rw [gradD_eq_line, gradD_eq_line, hax, hm, hi, h1]

theorem tvdFlux_transfer {M M' : Mesh α} {u u' uUp uUp' : FaceFld α} (FL : α → α) (e : α)
    {φ φ' : CellFld α} {d d' : Dir} {c c' : Idx}
    (hax : M.axis d = M'.axis d') (hi : c.get d = c'.get d')
    (hu : ∀ f, u d (c.set d f) = u' d' (c'.set d' f))
    (hup : ∀ f, uUp d (c.set d f) = uUp' d' (c'.set d' f))
    (hφ : ∀ j, φ (c.set d j) = φ' (c'.set d' j)) :
    tvdFlux M u uUp FL e φ d c = tvdFlux M' u' uUp' FL e φ' d' c' := by
  have h1 : lineOf (u d) d c = lineOf (u' d') d' c' := funext hu
  have h2 : lineOf (uUp d) d c = lineOf (uUp' d') d' c' := funext hup
  have h3 : lineOf φ d c = lineOf φ' d' c' := funext hφ
  rw [tvdFlux_eq_line, tvdFlux_eq_line, hax, hi, h1, h2, h3]

/-- a stencil applied to a field, transferred together with the field -/
theorem St3.app_transfer (s : St3 α) {φ φ' : CellFld α} {d d' : Dir} {c c' : Idx}
    (hi : c.get d = c'.get d') (hφ : ∀ j, φ (c.set d j) = φ' (c'.set d' j)) :
    s.app φ d c = s.app φ' d' c' := by
  have h1 : lineOf φ d c = lineOf φ' d' c' := funext hφ
  rw [St3.app_eq_lapp, St3.app_eq_lapp, hi, h1]

/-! ### Cartesian kinds: `V = DX`, `A = 1`, `m = 1` in every direction -/

def Kind.cartesian : Kind → Bool
  | .cart1 | .cart2 | .cart3 => true
  | _ => false

theorem lineV_cart {M : Mesh α} (hk : M.kind.cartesian = true) (d : Dir) :
    lineV M d = (M.axis d).DX := by
  funext i
  unfold lineV
  cases hk' : M.kind <;> rw [hk'] at hk <;> cases d <;>
    first | rfl | exact absurd hk (by decide)

theorem lineA_cart {M : Mesh α} (hk : M.kind.cartesian = true) (d : Dir) :
    lineA M d = fun _ => 1 := by
  funext i
  unfold lineA
  cases hk' : M.kind <;> rw [hk'] at hk <;> cases d <;>
    first | rfl | exact absurd hk (by decide)

theorem lineM_cart {M : Mesh α} (hk : M.kind.cartesian = true) (d : Dir) (c : Idx) :
    lineM M d c = 1 := by
  unfold lineM
  cases hk' : M.kind <;> rw [hk'] at hk <;> cases d <;>
    first | rfl | exact absurd hk (by decide)

/-- Cartesian line forms -/
def cartDiffSt (a : Axis α) (Dl : ℕ → α) (i : ℕ) : St3 α :=
  lineDiffSt a a.DX (fun _ => 1) 1 Dl i
def cartConvSt (a : Axis α) (ul : ℕ → α) (i : ℕ) : St3 α :=
  lineConvSt a a.DX (fun _ => 1) 1 ul i
def cartUpwindSt (a : Axis α) (ul uUpl : ℕ → α) (i : ℕ) : St3 α :=
  lineUpwindSt a a.DX (fun _ => 1) 1 ul uUpl i
def cartDivD (a : Axis α) (Fl : ℕ → α) (i : ℕ) : α :=
  lineDivD a.DX (fun _ => 1) 1 Fl i

theorem diffSt_cart {M : Mesh α} (hk : M.kind.cartesian = true) (D : FaceFld α) (d : Dir) (c : Idx) :
    diffSt M D d c = cartDiffSt (M.axis d) (lineOf (D d) d c) (c.get d) := by
  rw [diffSt_eq_line, lineV_cart hk, lineA_cart hk, lineM_cart hk]; rfl

theorem convSt_cart {M : Mesh α} (hk : M.kind.cartesian = true) (u : FaceFld α) (d : Dir) (c : Idx) :
    convSt M u d c = cartConvSt (M.axis d) (lineOf (u d) d c) (c.get d) := by
  rw [convSt_eq_line, lineV_cart hk, lineA_cart hk, lineM_cart hk]; rfl

theorem upwindSt_cart {M : Mesh α} (hk : M.kind.cartesian = true) (u uUp : FaceFld α) (d : Dir)
    (c : Idx) :
    upwindSt M u uUp d c
      = cartUpwindSt (M.axis d) (lineOf (u d) d c) (lineOf (uUp d) d c) (c.get d) := by
  rw [upwindSt_eq_line, lineV_cart hk, lineA_cart hk, lineM_cart hk]; rfl

theorem divD_cart {M : Mesh α} (hk : M.kind.cartesian = true) (F : FaceFld α) (d : Dir) (c : Idx) :
    divD M F d c = cartDivD (M.axis d) (lineOf (F d) d c) (c.get d) := by
  rw [divD_eq_line, lineV_cart hk, lineA_cart hk, lineM_cart hk]; rfl

/-! ### permutation of the axes -/

/-- relabel the axes: direction `d` of the new mesh is direction `σ d` of the old one -/
def Mesh.perm (M : Mesh α) (σ : Dir → Dir) : Mesh α :=
  { M with ax := M.axis (σ .x), ay := M.axis (σ .y), az := M.axis (σ .z) }

def Idx.perm (c : Idx) (σ : Dir → Dir) : Idx := (c.get (σ .x), c.get (σ .y), c.get (σ .z))

/-- field on the relabelled mesh (`τ` is the inverse of `σ`) -/
def CellFld.perm (φ : CellFld α) (τ : Dir → Dir) : CellFld α := fun c' => φ (c'.perm τ)
def FaceFld.perm (F : FaceFld α) (σ τ : Dir → Dir) : FaceFld α := fun d c' => F (σ d) (c'.perm τ)

theorem Mesh.perm_axis (M : Mesh α) (σ : Dir → Dir) (d : Dir) : (M.perm σ).axis d = M.axis (σ d) := by
  cases d <;> rfl

@[simp] theorem Mesh.perm_kind (M : Mesh α) (σ : Dir → Dir) : (M.perm σ).kind = M.kind := rfl

theorem Idx.perm_get (c : Idx) (σ : Dir → Dir) (d : Dir) : (c.perm σ).get d = c.get (σ d) := by
  cases d <;> rfl

theorem Idx.perm_perm (c : Idx) (σ τ : Dir → Dir) (h : ∀ d, σ (τ d) = d) :
    (c.perm σ).perm τ = c := by
  apply Idx.ext_get; intro e
  rw [Idx.perm_get, Idx.perm_get, h]

theorem Idx.perm_set (c : Idx) (σ τ : Dir → Dir) (hστ : ∀ d, σ (τ d) = d) (hτσ : ∀ d, τ (σ d) = d)
    (d : Dir) (v : ℕ) : ((c.perm σ).set d v).perm τ = c.set (σ d) v := by
  apply Idx.ext_get; intro e
  rw [Idx.perm_get, Idx.get_set, Idx.get_set, Idx.perm_get, hστ]
  by_cases h : d = τ e
  · subst h
    simp [hστ]
  · have : ¬ σ d = e := by
      intro h'; apply h; rw [← h', hτσ]
    simp [h, this]

/-- a bijection of the three directions does not change a sum over them -/
theorem sum3_perm (σ τ : Dir → Dir) (hτσ : ∀ d, τ (σ d) = d) (g : Dir → α) :
    g (σ .x) + g (σ .y) + g (σ .z) = g .x + g .y + g .z := by
  have hx := hτσ .x; have hy := hτσ .y; have hz := hτσ .z
  cases hsx : σ .x <;> cases hsy : σ .y <;> cases hsz : σ .z <;>
    rw [hsx] at hx <;> rw [hsy] at hy <;> rw [hsz] at hz <;>
    first
    | exact absurd (hx.symm.trans hy) (by decide)
    | exact absurd (hx.symm.trans hz) (by decide)
    | exact absurd (hy.symm.trans hz) (by decide)
    | ring1

/-! ### mirrored axis -/

/-- the axis seen after the reflection `x ↦ −x`: cell `i` becomes cell `n+1−i`, face `f` becomes
    face `n−f` -/
def Axis.mirror (a : Axis α) : Axis α where
  n := a.n
  fc := fun f => -(a.fc (a.n - f))
  cen := fun i => -(a.cen (a.n + 1 - i))
  DX := fun i => a.DX (a.n + 1 - i)

@[simp] theorem Axis.mirror_n (a : Axis α) : a.mirror.n = a.n := rfl
theorem Axis.mirror_DX (a : Axis α) (i : ℕ) : a.mirror.DX i = a.DX (a.n + 1 - i) := rfl
theorem Axis.mirror_fc (a : Axis α) (f : ℕ) : a.mirror.fc f = -(a.fc (a.n - f)) := rfl
theorem Axis.mirror_cen (a : Axis α) (i : ℕ) : a.mirror.cen i = -(a.cen (a.n + 1 - i)) := rfl

/-- mirrored face scalar (diffusion coefficient), face vector component (velocity: reversed),
    cell scalar -/
def mirrorD (n : ℕ) (D : ℕ → α) : ℕ → α := fun f => D (n - f)
def mirrorF (n : ℕ) (u : ℕ → α) : ℕ → α := fun f => -(u (n - f))
def mirrorC (n : ℕ) (φ : ℕ → α) : ℕ → α := fun i => φ (n + 1 - i)

/-- the mirror image of a well-formed axis is well-formed -/
theorem Axis.WF.mirror {a : Axis α} (h : a.WF) : a.mirror.WF where
  npos := h.npos
  pos := fun i => h.pos _
  mid := by
    intro i h1 hn
    have hn' : i ≤ a.n := hn
    have e1 : a.n + 1 - i - 1 = a.n - i := by omega
    have e2 : a.n - (i - 1) = a.n + 1 - i := by omega
    simp only [Axis.mirror_cen, Axis.mirror_fc, e2]
    rw [h.mid (a.n + 1 - i) (by omega) (by omega), e1]; ring
  size := by
    intro i h1 hn
    have hn' : i ≤ a.n := hn
    have e1 : a.n + 1 - i - 1 = a.n - i := by omega
    have e2 : a.n - (i - 1) = a.n + 1 - i := by omega
    simp only [Axis.mirror_DX, Axis.mirror_fc, e2]
    rw [h.size (a.n + 1 - i) (by omega) (by omega), e1]; ring
  ghost0 := by
    have := h.npos
    have e1 : a.n + 1 - 0 = a.n + 1 := by omega
    have e2 : a.n + 1 - 1 = a.n := by omega
    simp only [Axis.mirror_DX, e1, e2]; exact h.ghostN
  ghostN := by
    have := h.npos
    have e1 : a.n + 1 - (a.n + 1) = 0 := by omega
    have e2 : a.n + 1 - a.n = 1 := by omega
    simp only [Axis.mirror_DX, Axis.mirror_n, e1, e2]; exact h.ghost0

theorem dxf_mirror (a : Axis α) (f : ℕ) (hf : f ≤ a.n) : a.mirror.dxf f = a.dxf (a.n - f) := by
  have e1 : a.n + 1 - (f + 1) = a.n - f := by omega
  have e2 : a.n + 1 - f = a.n - f + 1 := by omega
  simp only [Axis.dxf, Axis.mirror_DX, e1, e2]; ring

theorem luMin_mirror (n : ℕ) (ul uUpl : ℕ → α) (f : ℕ) :
    luMin (mirrorF n ul) (mirrorF n uUpl) f = -(luMax ul uUpl (n - f)) := by
  simp only [luMin, luMax, mirrorF, neg_pos]
  by_cases h : uUpl (n - f) < 0 <;> simp [h]

theorem luMax_mirror (n : ℕ) (ul uUpl : ℕ → α) (f : ℕ) :
    luMax (mirrorF n ul) (mirrorF n uUpl) f = -(luMin ul uUpl (n - f)) := by
  simp only [luMin, luMax, mirrorF, neg_lt_zero]
  by_cases h : 0 < uUpl (n - f) <;> simp [h]

/-- mirrored diffusion stencil: west and east exchanged -/
theorem cartDiffSt_mirror (a : Axis α) (Dl : ℕ → α) (i : ℕ) (h1 : 1 ≤ i) (hn : i ≤ a.n) :
    cartDiffSt a.mirror (mirrorD a.n Dl) (a.n + 1 - i) = (cartDiffSt a Dl i).flip := by
  have E1 : a.n + 1 - i - 1 = a.n - i := by omega
  have E2 : a.n - (a.n + 1 - i) = i - 1 := by omega
  have E3 : a.n - (a.n - i) = i := by omega
  have E4 : a.n + 1 - (a.n + 1 - i) = i := by omega
  have d1 := dxf_mirror a (a.n + 1 - i) (by omega)
  have d2 := dxf_mirror a (a.n - i) (by omega)
  rw [E2] at d1; rw [E3] at d2
  simp only [cartDiffSt, lineDiffSt, St3.flip, mirrorD, E1, E2, E3, E4, d1, d2, Axis.mirror_DX]
  apply St3.ext' <;> ring

/-- mirrored central convection stencil (velocity component reversed): west and east exchanged -/
theorem cartConvSt_mirror (a : Axis α) (ul : ℕ → α) (i : ℕ) (h1 : 1 ≤ i) (hn : i ≤ a.n) :
    cartConvSt a.mirror (mirrorF a.n ul) (a.n + 1 - i) = (cartConvSt a ul i).flip := by
  have E1 : a.n + 1 - i - 1 = a.n - i := by omega
  have E2 : a.n - (a.n + 1 - i) = i - 1 := by omega
  have E3 : a.n - (a.n - i) = i := by omega
  have E4 : a.n + 1 - (a.n + 1 - i) = i := by omega
  have E5 : a.n + 1 - (a.n + 1 - i + 1) = i - 1 := by omega
  have E6 : a.n + 1 - (a.n - i) = i + 1 := by omega
  simp only [cartConvSt, lineConvSt, St3.flip, mirrorF, E1, E2, E3, E4, E5, E6, Axis.mirror_DX]
  apply St3.ext' <;> ring

/-- mirrored upwind stencil, both boundary corrections included -/
theorem cartUpwindSt_mirror (a : Axis α) (ul uUpl : ℕ → α) (i : ℕ) (h1 : 1 ≤ i) (hn : i ≤ a.n) :
    cartUpwindSt a.mirror (mirrorF a.n ul) (mirrorF a.n uUpl) (a.n + 1 - i)
      = (cartUpwindSt a ul uUpl i).flip := by
  have E1 : a.n + 1 - i - 1 = a.n - i := by omega
  have E2 : a.n - (a.n + 1 - i) = i - 1 := by omega
  have E3 : a.n - (a.n - i) = i := by omega
  have E4 : a.n + 1 - (a.n + 1 - i) = i := by omega
  have c1 : (a.n + 1 - i = 1) = (i = a.n) := by
    apply propext; constructor <;> intro <;> omega
  have c2 : (a.n + 1 - i = a.n) = (i = 1) := by
    apply propext; constructor <;> intro <;> omega
  simp only [cartUpwindSt, lineUpwindSt, St3.flip, luMin_mirror, luMax_mirror, E1, E2, E3, E4, c1,
    c2, Axis.mirror_DX, Axis.mirror_n]
  generalize luMax ul uUpl i = a1
  generalize luMin ul uUpl i = a2
  generalize luMax ul uUpl (i-1) = b1
  generalize luMin ul uUpl (i-1) = b2
  by_cases k1 : i = 1 <;> by_cases k2 : i = a.n
  · simp only [eq_true k1, eq_true k2, if_true]; apply St3.ext' <;> ring
  · simp only [eq_true k1, eq_false k2, if_true, if_false]; apply St3.ext' <;> ring
  · simp only [eq_false k1, eq_true k2, if_true, if_false]; apply St3.ext' <;> ring
  · simp only [eq_false k1, eq_false k2, if_false]; apply St3.ext' <;> ring

/-- flipped stencil on the mirrored field at the mirrored cell = stencil on the field at the cell -/
theorem St3.flip_lapp_mirror (s : St3 α) (φl : ℕ → α) (n i : ℕ) (h1 : 1 ≤ i) (hn : i ≤ n) :
    s.flip.lapp (mirrorC n φl) (n + 1 - i) = s.lapp φl i := by
  have E4 : n + 1 - (n + 1 - i) = i := by omega
  have E5 : n + 1 - (n + 1 - i + 1) = i - 1 := by omega
  have E6 : n + 1 - (n + 1 - i - 1) = i + 1 := by omega
  simp only [St3.lapp, St3.flip, mirrorC, E4, E5, E6]; ring

/-! ### `_fsign` and the TVD flux under reflection -/

theorem fsign_neg (e : α) {x : α} (hx : x ≠ 0) : fsign e (-x) = -(fsign e x) := by
  unfold fsign
  have h0 : ¬ (-x = 0) := by simpa using hx
  simp only [abs_neg, eq_false hx, eq_false h0, if_false, add_zero, neg_pos, neg_lt_zero]
  rcases lt_or_gt_of_ne hx with h | h
  · have h' : ¬ (0 < x) := not_lt.mpr (le_of_lt h)
    by_cases he : e ≤ |x|
    · have : ¬ (|x| < e) := not_lt.mpr he
      simp [he, this]
    · have : |x| < e := not_le.mp he
      simp [he, this, h, h']
  · have h' : ¬ (x < 0) := not_lt.mpr (le_of_lt h)
    by_cases he : e ≤ |x|
    · have : ¬ (|x| < e) := not_lt.mpr he
      simp [he, this]
    · have : |x| < e := not_le.mp he
      simp [he, this, h, h']

/-- at `x = 0` `_fsign` returns `eps1` for both signs of zero: it is not odd there -/
theorem fsign_zero (e : α) (he : 0 ≤ e) : fsign e 0 = e := by
  unfold fsign
  by_cases h : e ≤ 0
  · have : e = 0 := le_antisymm h he
    simp [this]
  · have : 0 < e := not_le.mp h
    simp [h, this]

theorem ldphi_mirror (a : Axis α) (φl : ℕ → α) (f : ℕ) (hf : f ≤ a.n) :
    ldphi a.mirror (mirrorC a.n φl) f = -(ldphi a φl (a.n - f)) := by
  have e1 : a.n + 1 - (f + 1) = a.n - f := by omega
  have e2 : a.n + 1 - f = a.n - f + 1 := by omega
  simp only [ldphi, dxf_mirror a f hf, mirrorC, e1, e2]; ring

theorem ldphi_eq_zero (a : Axis α) (hDX : ∀ i, 0 < a.DX i) (φl : ℕ → α) (f : ℕ)
    (h : ldphi a φl f = 0) : φl (f+1) - φl f = 0 := by
  have hd : a.dxf f ≠ 0 := by
    unfold Axis.dxf
    have := hDX f; have := hDX (f+1)
    positivity
  unfold ldphi at h
  rcases div_eq_zero_iff.mp h with h | h
  · exact h
  · exact absurd h hd

theorem lpsiP_mirror (a : Axis α) (hDX : ∀ i, 0 < a.DX i) (FL : α → α) (e : α) (φl : ℕ → α) (f : ℕ)
    (hf : f ≤ a.n) :
    lpsiP a.mirror FL e (mirrorC a.n φl) f = lpsiM a FL e φl (a.n - f) := by
  unfold lpsiP lpsiM
  by_cases h0 : f = 0
  · subst h0; simp
  · have hne : ¬ (a.n - f = a.n) := by omega
    have e0 : a.n - (f - 1) = a.n - f + 1 := by omega
    have e1 : a.n + 1 - (f + 1) = a.n - f := by omega
    have e2 : a.n + 1 - f = a.n - f + 1 := by omega
    simp only [eq_false h0, eq_false hne, if_false]
    rw [ldphi_mirror a φl (f-1) (by omega), ldphi_mirror a φl f hf, e0]
    simp only [mirrorC, e1, e2]
    by_cases hz : ldphi a φl (a.n - f) = 0
    · have := ldphi_eq_zero a hDX φl (a.n - f) hz
      have h' : φl (a.n - f) - φl (a.n - f + 1) = 0 := by
        rw [← neg_sub, this, neg_zero]
      rw [h']; ring
    · rw [fsign_neg e hz, neg_div_neg_eq]

theorem lpsiM_mirror (a : Axis α) (hDX : ∀ i, 0 < a.DX i) (FL : α → α) (e : α) (φl : ℕ → α) (f : ℕ)
    (hf : f ≤ a.n) :
    lpsiM a.mirror FL e (mirrorC a.n φl) f = lpsiP a FL e φl (a.n - f) := by
  unfold lpsiP lpsiM
  by_cases h0 : f = a.n
  · subst h0; simp
  · have hne : ¬ (a.n - f = 0) := by omega
    have hne' : ¬ (f = a.mirror.n) := h0
    have e0 : a.n - (f + 1) = a.n - f - 1 := by omega
    have e1 : a.n + 1 - (f + 1) = a.n - f := by omega
    have e2 : a.n + 1 - f = a.n - f + 1 := by omega
    simp only [eq_false hne', eq_false hne, if_false]
    rw [ldphi_mirror a φl (f+1) (by omega), ldphi_mirror a φl f hf, e0]
    simp only [mirrorC, e1, e2]
    by_cases hz : ldphi a φl (a.n - f) = 0
    · have := ldphi_eq_zero a hDX φl (a.n - f) hz
      rw [this]; ring
    · rw [fsign_neg e hz, neg_div_neg_eq]

/-- the TVD face flux changes sign under reflection, for every limiter function -/
theorem lineTvdFlux_mirror (a : Axis α) (hDX : ∀ i, 0 < a.DX i) (ul uUpl : ℕ → α) (FL : α → α) (e : α)
    (φl : ℕ → α) (f : ℕ) (hf : f ≤ a.n) :
    lineTvdFlux a.mirror (mirrorF a.n ul) (mirrorF a.n uUpl) FL e (mirrorC a.n φl) f
      = -(lineTvdFlux a ul uUpl FL e φl (a.n - f)) := by
  unfold lineTvdFlux
  rw [luMax_mirror, luMin_mirror, lpsiP_mirror a hDX FL e φl f hf, lpsiM_mirror a hDX FL e φl f hf]
  ring

/-- divergence of a sign-reversed, reflected flux at the mirrored cell = divergence at the cell -/
theorem cartDivD_mirror (a : Axis α) (F F' : ℕ → α) (i : ℕ) (h1 : 1 ≤ i) (hn : i ≤ a.n)
    (hF : ∀ f, f ≤ a.n → F' f = -(F (a.n - f))) :
    cartDivD a.mirror F' (a.n + 1 - i) = cartDivD a F i := by
  have E1 : a.n + 1 - i - 1 = a.n - i := by omega
  have E2 : a.n - (a.n + 1 - i) = i - 1 := by omega
  have E3 : a.n - (a.n - i) = i := by omega
  have E4 : a.n + 1 - (a.n + 1 - i) = i := by omega
  simp only [cartDivD, lineDivD, Axis.mirror_DX, E1, E4]
  rw [hF (a.n + 1 - i) (by omega), hF (a.n - i) (by omega), E2, E3]; ring

/-! ### fields that do not vary along a grid line -/

theorem diffSt_line_const (M : Mesh α) (D : FaceFld α) (φ : CellFld α) (d : Dir) (c : Idx)
    (h0 : φ (c.prev d) = φ c) (h1 : φ (c.next d) = φ c) : (diffSt M D d c).app φ d c = 0 := by
  rw [St3.app_congr _ φ (fun _ => φ c) d c h0 rfl h1]
  exact diffSt_const M D (φ c) d c

theorem convSt_line_const (M : Mesh α) (u : FaceFld α) (φ : CellFld α) (d : Dir) (c : Idx)
    (h : LineOK M d c) (h0 : φ (c.prev d) = φ c) (h1 : φ (c.next d) = φ c) :
    (convSt M u d c).app φ d c = φ c * divD M u d c := by
  rw [St3.app_congr _ φ (fun _ => φ c) d c h0 rfl h1]
  exact convSt_const M u (φ c) d c h

theorem upwindSt_line_const (M : Mesh α) (u uUp : FaceFld α) (φ : CellFld α) (d : Dir) (c : Idx)
    (h : LineOK M d c) (hn : c.get d ≤ M.n d) (hU : UpOK u uUp)
    (h0 : φ (c.prev d) = φ c) (h1 : φ (c.next d) = φ c) :
    (upwindSt M u uUp d c).app φ d c = φ c * divD M u d c := by
  rw [St3.app_congr _ φ (fun _ => φ c) d c h0 rfl h1]
  exact upwindSt_const M u uUp (φ c) d c h hn hU

theorem psiP_line_const (M : Mesh α) (FL : α → α) (e : α) (φ : CellFld α) (d : Dir) (c : Idx)
    (hφ : ∀ j, φ (c.set d j) = φ c) (f : ℕ) : psiP M FL e φ d (c.set d f) = 0 := by
  unfold psiP
  have a : φ ((c.set d f).next d) = φ c := by simp [Idx.next, hφ]
  rw [a, hφ]; split_ifs <;> ring

theorem psiM_line_const (M : Mesh α) (FL : α → α) (e : α) (φ : CellFld α) (d : Dir) (c : Idx)
    (hφ : ∀ j, φ (c.set d j) = φ c) (f : ℕ) : psiM M FL e φ d (c.set d f) = 0 := by
  unfold psiM
  have a : φ ((c.set d f).next d) = φ c := by simp [Idx.next, hφ]
  rw [a, hφ]; split_ifs <;> ring

theorem tvdFlux_line_const (M : Mesh α) (u uUp : FaceFld α) (FL : α → α) (e : α) (φ : CellFld α)
    (d : Dir) (c : Idx) (hφ : ∀ j, φ (c.set d j) = φ c) (f : ℕ) :
    tvdFlux M u uUp FL e φ d (c.set d f) = 0 := by
  unfold tvdFlux
  rw [psiP_line_const M FL e φ d c hφ, psiM_line_const M FL e φ d c hφ]; ring

theorem tvd_line_const (M : Mesh α) (u uUp : FaceFld α) (FL : α → α) (e : α) (φ : CellFld α)
    (d : Dir) (c : Idx) (hφ : ∀ j, φ (c.set d j) = φ c) :
    divD M (tvdFlux M u uUp FL e φ) d c = 0 := by
  have h1 := tvdFlux_line_const M u uUp FL e φ d c hφ (c.get d)
  have h0 := tvdFlux_line_const M u uUp FL e φ d c hφ (c.get d - 1)
  rw [Idx.set_get] at h1
  unfold divD
  rw [show c.prev d = c.set d (c.get d - 1) from rfl, h1, h0]; ring

/-- no divergence contribution along `d` when area factor and velocity do not vary along `d` -/
theorem divD_zero_of_const (M : Mesh α) (u : FaceFld α) (d : Dir) (c : Idx)
    (hA : lineA M d (c.get d) = lineA M d (c.get d - 1)) (hu : u d c = u d (c.prev d)) :
    divD M u d c = 0 := by
  unfold divD; rw [hA, hu, sub_self, zero_div]

/-! ### reduction to a grid with one direction less -/

/-- `M'` is `M` with the direction `dd` dropped: `ι` sends the directions of `M'` to those of `M`,
    `π` projects cell indices; axis, line weights and metric scale agree on the kept directions -/
structure Reduction (M M' : Mesh α) (ι : Dir → Dir) (π : Idx → Idx) (dd : Dir) : Prop where
  sum : ∀ g : Dir → α, sumDirs M.kind g = sumDirs M'.kind (fun e => g (ι e)) + g dd
  ax : ∀ e, M'.kind.active e = true → M.axis (ι e) = M'.axis e
  V : ∀ e, M'.kind.active e = true → lineV M (ι e) = lineV M' e
  A : ∀ e, M'.kind.active e = true → lineA M (ι e) = lineA M' e
  m : ∀ e, M'.kind.active e = true → ∀ c, lineM M (ι e) c = lineM M' e (π c)
  get : ∀ e, M'.kind.active e = true → ∀ c, (π c).get e = c.get (ι e)
  set : ∀ e, M'.kind.active e = true → ∀ c v, π (c.set (ι e) v) = (π c).set e v
  drop : ∀ c v, π (c.set dd v) = π c

section reduction
variable {M M' : Mesh α} {ι : Dir → Dir} {π : Idx → Idx} {dd : Dir}

/-- face data of the big mesh that are the lift of face data of the reduced mesh -/
def LiftF (ι : Dir → Dir) (π : Idx → Idx) (M' : Mesh α) (F F' : FaceFld α) : Prop :=
  ∀ e, M'.kind.active e = true → ∀ c, F (ι e) c = F' e (π c)

theorem Reduction.diffSt_eq (R : Reduction M M' ι π dd) {D D' : FaceFld α} (hD : LiftF ι π M' D D')
    (e : Dir) (he : M'.kind.active e = true) (c : Idx) :
    diffSt M D (ι e) c = diffSt M' D' e (π c) :=
  diffSt_transfer (R.ax e he) (R.V e he) (R.A e he) (R.m e he c) (R.get e he c).symm
    (fun f => by rw [hD e he, R.set e he])

theorem Reduction.convSt_eq (R : Reduction M M' ι π dd) {u u' : FaceFld α} (hu : LiftF ι π M' u u')
    (e : Dir) (he : M'.kind.active e = true) (c : Idx) :
    convSt M u (ι e) c = convSt M' u' e (π c) :=
  convSt_transfer (R.ax e he) (R.V e he) (R.A e he) (R.m e he c) (R.get e he c).symm
    (fun f => by rw [hu e he, R.set e he])

theorem Reduction.upwindSt_eq (R : Reduction M M' ι π dd) {u u' uUp uUp' : FaceFld α}
    (hu : LiftF ι π M' u u') (hup : LiftF ι π M' uUp uUp')
    (e : Dir) (he : M'.kind.active e = true) (c : Idx) :
    upwindSt M u uUp (ι e) c = upwindSt M' u' uUp' e (π c) :=
  upwindSt_transfer (R.ax e he) (R.V e he) (R.A e he) (R.m e he c) (R.get e he c).symm
    (fun f => by rw [hu e he, R.set e he]) (fun f => by rw [hup e he, R.set e he])

theorem Reduction.divD_eq (R : Reduction M M' ι π dd) {F F' : FaceFld α} (hF : LiftF ι π M' F F')
    (e : Dir) (he : M'.kind.active e = true) (c : Idx) :
    divD M F (ι e) c = divD M' F' e (π c) :=
  divD_transfer (R.V e he) (R.A e he) (R.m e he c) (R.get e he c).symm
    (fun f => by rw [hF e he, R.set e he])

theorem Reduction.gradD_eq (R : Reduction M M' ι π dd) (x₂ : CellFld α)
    (e : Dir) (he : M'.kind.active e = true) (c : Idx) :
    gradD M (fun c => x₂ (π c)) (ι e) c = gradD M' x₂ e (π c) :=
  gradD_transfer (R.ax e he) (R.m e he c) (R.get e he c).symm
    (fun j => by show x₂ (π (c.set (ι e) j)) = _; rw [R.set e he])

/-- the lift is constant along the dropped direction -/
theorem Reduction.lift_const (R : Reduction M M' ι π dd) (x₂ : CellFld α) (c : Idx) (j : ℕ) :
    (fun c => x₂ (π c)) (c.set dd j) = (fun c => x₂ (π c)) c := by
  show x₂ (π (c.set dd j)) = x₂ (π c)
  rw [R.drop]

theorem Reduction.app_eq (R : Reduction M M' ι π dd) (s : St3 α) (x₂ : CellFld α)
    (e : Dir) (he : M'.kind.active e = true) (c : Idx) :
    s.app (fun c => x₂ (π c)) (ι e) c = s.app x₂ e (π c) :=
  St3.app_transfer s (R.get e he c).symm
    (fun j => by show x₂ (π (c.set (ι e) j)) = _; rw [R.set e he])

/-- diffusion row of the big mesh on the lift = diffusion row of the reduced mesh -/
theorem Reduction.diffusionRow_lift (R : Reduction M M' ι π dd) {D D' : FaceFld α}
    (hD : LiftF ι π M' D D') (x₂ : CellFld α) (c : Idx) :
    (diffusionRow M D c).app (fun c => x₂ (π c)) c = (diffusionRow M' D' (π c)).app x₂ (π c) := by
  unfold diffusionRow
  rw [St7.ofDirs_app, St7.ofDirs_app, R.sum]
  have hdd : (diffSt M D dd c).app (fun c => x₂ (π c)) dd c = 0 :=
    diffSt_line_const M D _ dd c (R.lift_const x₂ c _) (R.lift_const x₂ c _)
  rw [hdd, add_zero]
  apply sumDirs_congr; intro e he
  rw [R.diffSt_eq hD e he c]
  exact R.app_eq _ x₂ e he c

theorem Reduction.convectionRow_lift (R : Reduction M M' ι π dd) {u u' : FaceFld α}
    (hu : LiftF ι π M' u u') (x₂ : CellFld α) (c : Idx)
    (hL : LineOK M dd c) (hdiv : divD M u dd c = 0) :
    (convectionRow M u c).app (fun c => x₂ (π c)) c = (convectionRow M' u' (π c)).app x₂ (π c) := by
  unfold convectionRow
  rw [St7.ofDirs_app, St7.ofDirs_app, R.sum]
  have hdd : (convSt M u dd c).app (fun c => x₂ (π c)) dd c = 0 := by
    rw [convSt_line_const M u _ dd c hL (R.lift_const x₂ c _) (R.lift_const x₂ c _), hdiv, mul_zero]
  rw [hdd, add_zero]
  apply sumDirs_congr; intro e he
  rw [R.convSt_eq hu e he c]
  exact R.app_eq _ x₂ e he c

theorem Reduction.upwindRow_lift (R : Reduction M M' ι π dd) {u u' uUp uUp' : FaceFld α}
    (hu : LiftF ι π M' u u') (hup : LiftF ι π M' uUp uUp') (x₂ : CellFld α) (c : Idx)
    (hL : LineOK M dd c) (hn : c.get dd ≤ M.n dd) (hU : UpOK u uUp) (hdiv : divD M u dd c = 0) :
    (upwindRow M u uUp c).app (fun c => x₂ (π c)) c
      = (upwindRow M' u' uUp' (π c)).app x₂ (π c) := by
  unfold upwindRow
  rw [St7.ofDirs_app, St7.ofDirs_app, R.sum]
  have hdd : (upwindSt M u uUp dd c).app (fun c => x₂ (π c)) dd c = 0 := by
    rw [upwindSt_line_const M u uUp _ dd c hL hn hU (R.lift_const x₂ c _) (R.lift_const x₂ c _),
      hdiv, mul_zero]
  rw [hdd, add_zero]
  apply sumDirs_congr; intro e he
  rw [R.upwindSt_eq hu hup e he c]
  exact R.app_eq _ x₂ e he c

theorem Reduction.tvdRHS_lift (R : Reduction M M' ι π dd) {u u' uUp uUp' : FaceFld α}
    (hu : LiftF ι π M' u u') (hup : LiftF ι π M' uUp uUp') (FL : α → α) (eps : α)
    (x₂ : CellFld α) (c : Idx) :
    tvdRHS M u uUp FL eps (fun c => x₂ (π c)) c = tvdRHS M' u' uUp' FL eps x₂ (π c) := by
  unfold tvdRHS divergence
  rw [R.sum, tvd_line_const M u uUp FL eps _ dd c (R.lift_const x₂ c), add_zero]
  congr 1
  apply sumDirs_congr; intro e he
  apply divD_transfer (R.V e he) (R.A e he) (R.m e he c) (R.get e he c).symm
  intro f
  apply tvdFlux_transfer FL eps (R.ax e he)
  · simp
  · intro f'; rw [Idx.set_set, Idx.set_set, hu e he, R.set e he]
  · intro f'; rw [Idx.set_set, Idx.set_set, hup e he, R.set e he]
  · intro j; rw [Idx.set_set, Idx.set_set]
    show x₂ (π (c.set (ι e) j)) = _
    rw [R.set e he]

end reduction

/-! ### the four reductions of `mesh.py` -/

/-- `Grid3D → Grid2D`: drop `z` -/
def Mesh.dropZ (M : Mesh α) : Mesh α := { M with kind := .cart2, az := unitAxis }
/-- `Grid2D → Grid1D`, `PolarGrid2D → CylindricalGrid1D`: drop `y` (= θ for the polar grid) -/
def Mesh.dropY (M : Mesh α) : Mesh α :=
  { M with kind := (match M.kind with | .pol2 => .cyl1 | _ => .cart1), ay := unitAxis }
/-- `CylindricalGrid3D → CylindricalGrid2D`: drop θ (= `y`); the `z` axis becomes `y` -/
def Mesh.dropTheta (M : Mesh α) : Mesh α := { M with kind := .cyl2, ay := M.az, az := unitAxis }

def Idx.dropZ (c : Idx) : Idx := (c.1, c.2.1, 1)
def Idx.dropY (c : Idx) : Idx := (c.1, 1, 1)
def Idx.dropTheta (c : Idx) : Idx := (c.1, c.2.2, 1)

/-- direction of the reduced cylindrical grid ↦ direction of the 3-D cylindrical grid -/
def dirTheta : Dir → Dir
  | .x => .x
  | .y => .z
  | .z => .y

theorem reduction_dropZ (M : Mesh α) (hk : M.kind = .cart3) :
    Reduction M M.dropZ id Idx.dropZ .z where
  sum := by intro g; simp [sumDirs, hk, Mesh.dropZ, Kind.active, Kind.dim]
  ax := by intro e he; change Kind.cart2.active e = true at he; cases e <;> first | rfl | exact absurd he (by decide)
  V := by
    intro e he; funext i; change Kind.cart2.active e = true at he
    cases e <;> first | (simp [lineV, hk, Mesh.dropZ, Mesh.axis]; done) | exact absurd he (by decide)
  A := by
    intro e he; funext i; change Kind.cart2.active e = true at he
    cases e <;> first | (simp [lineA, hk, Mesh.dropZ]; done) | exact absurd he (by decide)
  m := by
    intro e he c; change Kind.cart2.active e = true at he
    cases e <;> first | (simp [lineM, hk, Mesh.dropZ]; done) | exact absurd he (by decide)
  get := by intro e he c; change Kind.cart2.active e = true at he; cases e <;> first | rfl | exact absurd he (by decide)
  set := by intro e he c v; change Kind.cart2.active e = true at he; cases e <;> first | rfl | exact absurd he (by decide)
  drop := by intro c v; rfl

theorem reduction_dropY_cart (M : Mesh α) (hk : M.kind = .cart2) :
    Reduction M M.dropY id Idx.dropY .y where
  sum := by intro g; simp [sumDirs, hk, Mesh.dropY, Kind.active, Kind.dim]
  ax := by
    intro e he; simp only [Mesh.dropY, hk] at he
    cases e <;> first | rfl | exact absurd he (by decide)
  V := by
    intro e he; funext i; simp only [Mesh.dropY, hk] at he
    cases e <;> first | (simp [lineV, hk, Mesh.dropY, Mesh.axis]; done) | exact absurd he (by decide)
  A := by
    intro e he; funext i; simp only [Mesh.dropY, hk] at he
    cases e <;> first | (simp [lineA, hk, Mesh.dropY]; done) | exact absurd he (by decide)
  m := by
    intro e he c; simp only [Mesh.dropY, hk] at he
    cases e <;> first | (simp [lineM, hk, Mesh.dropY]; done) | exact absurd he (by decide)
  get := by
    intro e he c; simp only [Mesh.dropY, hk] at he
    cases e <;> first | rfl | exact absurd he (by decide)
  set := by
    intro e he c v; simp only [Mesh.dropY, hk] at he
    cases e <;> first | rfl | exact absurd he (by decide)
  drop := by intro c v; rfl

theorem reduction_dropY_polar (M : Mesh α) (hk : M.kind = .pol2) :
    Reduction M M.dropY id Idx.dropY .y where
  sum := by intro g; simp [sumDirs, hk, Mesh.dropY, Kind.active, Kind.dim]
  ax := by
    intro e he; simp only [Mesh.dropY, hk] at he
    cases e <;> first | rfl | exact absurd he (by decide)
  V := by
    intro e he; funext i; simp only [Mesh.dropY, hk] at he
    cases e <;> first | (simp [lineV, hk, Mesh.dropY]; done) | exact absurd he (by decide)
  A := by
    intro e he; funext i; simp only [Mesh.dropY, hk] at he
    cases e <;> first | (simp [lineA, hk, Mesh.dropY]; done) | exact absurd he (by decide)
  m := by
    intro e he c; simp only [Mesh.dropY, hk] at he
    cases e <;> first | (simp [lineM, hk, Mesh.dropY]; done) | exact absurd he (by decide)
  get := by
    intro e he c; simp only [Mesh.dropY, hk] at he
    cases e <;> first | rfl | exact absurd he (by decide)
  set := by
    intro e he c v; simp only [Mesh.dropY, hk] at he
    cases e <;> first | rfl | exact absurd he (by decide)
  drop := by intro c v; rfl

theorem reduction_dropTheta (M : Mesh α) (hk : M.kind = .cyl3) :
    Reduction M M.dropTheta dirTheta Idx.dropTheta .y where
  sum := by intro g; simp [sumDirs, hk, Mesh.dropTheta, Kind.active, Kind.dim, dirTheta]; ring
  ax := by intro e he; change Kind.cyl2.active e = true at he; cases e <;> first | rfl | exact absurd he (by decide)
  V := by
    intro e he; funext i; change Kind.cyl2.active e = true at he
    cases e <;> first
      | (simp [lineV, hk, Mesh.dropTheta, Mesh.axis, dirTheta]; done)
      | exact absurd he (by decide)
  A := by
    intro e he; funext i; change Kind.cyl2.active e = true at he
    cases e <;> first
      | (simp [lineA, hk, Mesh.dropTheta, dirTheta]; done)
      | exact absurd he (by decide)
  m := by
    intro e he c; change Kind.cyl2.active e = true at he
    cases e <;> first
      | (simp [lineM, hk, Mesh.dropTheta, dirTheta]; done)
      | exact absurd he (by decide)
  get := by intro e he c; change Kind.cyl2.active e = true at he; cases e <;> first | rfl | exact absurd he (by decide)
  set := by intro e he c v; change Kind.cyl2.active e = true at he; cases e <;> first | rfl | exact absurd he (by decide)
  drop := by intro c v; rfl

/-! ### translation along a uniform Cartesian axis -/

theorem cartDiffSt_translate (a : Axis α) (hunif : ∀ i j, a.DX i = a.DX j) (Dl Dl' : ℕ → α)
    (i j : ℕ) (h1 : Dl' i = Dl j) (h0 : Dl' (i-1) = Dl (j-1)) :
    cartDiffSt a Dl' i = cartDiffSt a Dl j := by
  have u1 := hunif i 0; have u2 := hunif (i+1) 0; have u3 := hunif (i-1) 0
  have u4 := hunif (i-1+1) 0
  have v1 := hunif j 0; have v2 := hunif (j+1) 0; have v3 := hunif (j-1) 0
  have v4 := hunif (j-1+1) 0
  simp only [cartDiffSt, lineDiffSt, Axis.dxf, h1, h0, u1, u2, u3, u4, v1, v2, v3, v4]

theorem cartConvSt_translate (a : Axis α) (hunif : ∀ i j, a.DX i = a.DX j) (ul ul' : ℕ → α)
    (i j : ℕ) (h1 : ul' i = ul j) (h0 : ul' (i-1) = ul (j-1)) :
    cartConvSt a ul' i = cartConvSt a ul j := by
  have u1 := hunif i 0; have u2 := hunif (i+1) 0; have u3 := hunif (i-1) 0
  have v1 := hunif j 0; have v2 := hunif (j+1) 0; have v3 := hunif (j-1) 0
  simp only [cartConvSt, lineConvSt, h1, h0, u1, u2, u3, v1, v2, v3]

/-- away from the two cells that carry the boundary corrections -/
theorem cartUpwindSt_translate (a : Axis α) (hunif : ∀ i j, a.DX i = a.DX j)
    (ul ul' uUpl uUpl' : ℕ → α) (i j : ℕ)
    (hi1 : i ≠ 1) (hin : i ≠ a.n) (hj1 : j ≠ 1) (hjn : j ≠ a.n)
    (h1 : ul' i = ul j) (h0 : ul' (i-1) = ul (j-1))
    (k1 : uUpl' i = uUpl j) (k0 : uUpl' (i-1) = uUpl (j-1)) :
    cartUpwindSt a ul' uUpl' i = cartUpwindSt a ul uUpl j := by
  have u1 := hunif i 0
  have v1 := hunif j 0
  simp only [cartUpwindSt, lineUpwindSt, luMin, luMax, h1, h0, k1, k0, u1, v1, eq_false hi1,
    eq_false hin, eq_false hj1, eq_false hjn, if_false]

/-! ### the reduced meshes are well-formed -/

theorem unitAxis_WF' : (unitAxis : Axis α).WF :=
  mkAxisFaces_WF 1 _ (le_refl 1) (by
    intro i hi
    have : i = 0 := by omega
    subst this; simp)

theorem Mesh.WF.dropZ {M : Mesh α} (h : M.WF) : M.dropZ.WF where
  wx := h.wx
  wy := h.wy
  wz := unitAxis_WF'
  rpos := by intro hr; exact absurd (show Kind.cart2.radial = true from hr) (by decide)
  rf0 := by intro hr; exact absurd (show Kind.cart2.radial = true from hr) (by decide)
  spos := by intro hk; exact absurd (show Kind.cart2 = Kind.sph3 from hk) (by decide)
  pipos := h.pipos

theorem Mesh.WF.dropTheta {M : Mesh α} (h : M.WF) (hk : M.kind = .cyl3) : M.dropTheta.WF where
  wx := h.wx
  wy := h.wz
  wz := unitAxis_WF'
  rpos := by intro _ i h1 hn; exact h.rpos (by rw [hk]; rfl) i h1 hn
  rf0 := by intro _ f hf; exact h.rf0 (by rw [hk]; rfl) f hf
  spos := by intro hk'; exact absurd (show Kind.cyl2 = Kind.sph3 from hk') (by decide)
  pipos := h.pipos

theorem Mesh.WF.dropY_cart {M : Mesh α} (h : M.WF) (hk : M.kind = .cart2) : M.dropY.WF where
  wx := h.wx
  wy := unitAxis_WF'
  wz := h.wz
  rpos := by
    intro hr; simp only [Mesh.dropY, hk] at hr
    exact absurd hr (by decide)
  rf0 := by
    intro hr; simp only [Mesh.dropY, hk] at hr
    exact absurd hr (by decide)
  spos := by
    intro hk'; simp only [Mesh.dropY, hk] at hk'
    exact absurd hk' (by decide)
  pipos := h.pipos

theorem Mesh.WF.dropY_polar {M : Mesh α} (h : M.WF) (hk : M.kind = .pol2) : M.dropY.WF where
  wx := h.wx
  wy := unitAxis_WF'
  wz := h.wz
  rpos := by intro _ i h1 hn; exact h.rpos (by rw [hk]; rfl) i h1 hn
  rf0 := by intro _ f hf; exact h.rf0 (by rw [hk]; rfl) f hf
  spos := by
    intro hk'; simp only [Mesh.dropY, hk] at hk'
    exact absurd hk' (by decide)
  pipos := h.pipos

/-! ### permuted stencils and rows -/

theorem St3.app_perm (s : St3 α) (φ : CellFld α) (σ τ : Dir → Dir) (hστ : ∀ d, σ (τ d) = d)
    (hτσ : ∀ d, τ (σ d) = d) (d : Dir) (c : Idx) :
    s.app (CellFld.perm φ τ) d (c.perm σ) = s.app φ (σ d) c :=
  St3.app_transfer s (Idx.perm_get c σ d) (fun j => by
    show φ (((c.perm σ).set d j).perm τ) = _
    rw [Idx.perm_set c σ τ hστ hτσ])

/-- a bijection of the directions that preserves activity does not change `sumDirs` -/
theorem sumDirs_perm (k : Kind) (σ τ : Dir → Dir) (hτσ : ∀ d, τ (σ d) = d)
    (hact : ∀ d, k.active (σ d) = k.active d) (g : Dir → α) :
    sumDirs k (fun d => g (σ d)) = sumDirs k g := by
  have hx := hτσ .x; have hy := hτσ .y; have hz := hτσ .z
  have ax := hact .x; have ay := hact .y; have az := hact .z
  have a0 : k.active .x = true := rfl
  unfold sumDirs
  cases hsx : σ .x <;> cases hsy : σ .y <;> cases hsz : σ .z <;>
    rw [hsx] at hx ax <;> rw [hsy] at hy ay <;> rw [hsz] at hz az <;>
    first
    | exact absurd (hx.symm.trans hy) (by decide)
    | exact absurd (hx.symm.trans hz) (by decide)
    | exact absurd (hy.symm.trans hz) (by decide)
    | (by_cases h1 : k.active .y = true <;> by_cases h2 : k.active .z = true <;>
        simp_all <;> ring1)

/-- the exchange `x ↔ y` -/
def swapXY : Dir → Dir
  | .x => .y
  | .y => .x
  | .z => .z

theorem swapXY_invol (d : Dir) : swapXY (swapXY d) = d := by cases d <;> rfl

/-- `x ↔ y` keeps the active directions of every grid class with at least two dimensions -/
theorem swapXY_active (k : Kind) (h2 : 2 ≤ k.dim) (d : Dir) : k.active (swapXY d) = k.active d := by
  cases d <;> simp [swapXY, Kind.active, h2]

end PyFV
