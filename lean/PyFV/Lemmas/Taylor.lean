/-
  PyFV.Lemmas.Taylor — helpers for the convergence theorems of PyFV.Props.C02Conv.

  Part 1: Taylor's theorem with Lagrange remainder for globally `C^(n+1)` real functions, with the
          Taylor polynomial written out (`taylor_lagrange`, `taylor_bound`, orders 2, 3, 4).
  Part 2: the discrete comparison principle for the 1-D second-difference operator with reflected
          (Dirichlet) ghost values (`tridiag_comparison`, `dirichlet_error_bound`), the barrier
          `T_int·x(L−x)/2 + T_bnd·h²/2` (`barrier`, `barrier_row_*`, `barrier_dominates`),
          convergence from truncation bounds (`poisson_error_of_truncation`) and one / `n`
          backward-Euler steps (`heat_step_error`, `heat_steps_error`).
  Part 3: the uniform 1-D Cartesian mesh over a field (`IsUniform1D`, `uniMesh`), the model's
          operators on it (`diffusionRow_uniform1D_app`, `gradD_uniform1D`, `linMean_uniform1D`),
          the Poisson / heat term lists, Dirichlet conditions and ghost values, positions of the
          centres, the reference values `refSol`, existence of the discrete solution by shooting
          (`discreteSol_spec`).
  Part 4: the concrete instance `u = x⁴`, `N = 2` used by the non-vacuity examples.
-/
import PyFV.Lemmas.MMatrix
import PyFV.Lemmas.Consistency
import PyFV.Lemmas.BCLemmas
import Mathlib.Analysis.Calculus.Taylor
import Mathlib.Analysis.Calculus.IteratedDeriv.Defs
import Mathlib.Analysis.Calculus.ContDiff.Basic
import Mathlib.Analysis.Calculus.Deriv.Pow
import Mathlib.Analysis.Calculus.Deriv.Mul
import Mathlib.Tactic.NormNum
import Mathlib.Tactic.Push

set_option linter.unusedSectionVars false

namespace PyFV

open Set

/-! ## Part 1 — Taylor with Lagrange remainder, polynomial written out -/

/-- Taylor's theorem (Lagrange remainder) for a globally `C^(n+1)` function, with the Taylor
    polynomial in terms of `iteratedDeriv`. -/
theorem taylor_lagrange {u : ℝ → ℝ} {n : ℕ} (hu : ContDiff ℝ (n + 1 : ℕ) u) {x₀ x : ℝ}
    (hx : x₀ ≠ x) :
    ∃ ξ ∈ uIoo x₀ x, u x = ∑ k ∈ Finset.range (n + 1), (x - x₀) ^ k / (k.factorial : ℝ)
        * iteratedDeriv k u x₀
      + iteratedDeriv (n + 1) u ξ * (x - x₀) ^ (n + 1) / ((n + 1).factorial : ℝ) := by
  have hu' : ContDiffOn ℝ (n + 1) u (uIcc x₀ x) := by
    have := hu.contDiffOn (s := uIcc x₀ x)
    exact_mod_cast this
  obtain ⟨ξ, hξ, h⟩ := taylor_mean_remainder_lagrange_iteratedDeriv hx hu'
  refine ⟨ξ, hξ, ?_⟩
  have hs : UniqueDiffOn ℝ (uIcc x₀ x) := uniqueDiffOn_uIcc hx
  have hmem : x₀ ∈ uIcc x₀ x := left_mem_uIcc
  rw [taylor_within_apply] at h
  have e : ∑ k ∈ Finset.range (n + 1),
        ((k.factorial : ℝ)⁻¹ * (x - x₀) ^ k) • iteratedDerivWithin k u (uIcc x₀ x) x₀
      = ∑ k ∈ Finset.range (n + 1), (x - x₀) ^ k / (k.factorial : ℝ) * iteratedDeriv k u x₀ := by
    refine Finset.sum_congr rfl (fun k hk => ?_)
    have hk' : k ≤ n + 1 := by
      have := Finset.mem_range.1 hk; omega
    have hc : ContDiffAt ℝ k u x₀ := (hu.of_le (by exact_mod_cast hk')).contDiffAt
    rw [iteratedDerivWithin_eq_iteratedDeriv hs hc hmem, smul_eq_mul]
    ring
  rw [e] at h
  linarith

/-- remainder bound: `|u(x+t) − Σ_{k≤n} t^k/k! u^(k)(x)| ≤ M |t|^(n+1)/(n+1)!`, any sign of `t` -/
theorem taylor_bound {u : ℝ → ℝ} {n : ℕ} (hu : ContDiff ℝ (n + 1 : ℕ) u) (x t M : ℝ)
    (hb : ∀ y ∈ uIcc x (x + t), |iteratedDeriv (n + 1) u y| ≤ M) :
    |u (x + t) - ∑ k ∈ Finset.range (n + 1), t ^ k / (k.factorial : ℝ) * iteratedDeriv k u x|
      ≤ M * |t| ^ (n + 1) / ((n + 1).factorial : ℝ) := by
  by_cases ht : t = 0
  · subst ht
    rw [Finset.sum_range_succ']
    simp [iteratedDeriv_zero]
  · have hx : x ≠ x + t := fun h => ht (by linarith)
    obtain ⟨ξ, hξ, h⟩ := taylor_lagrange hu hx
    have hξ' : ξ ∈ uIcc x (x + t) := by
      rw [uIoo] at hξ; rw [uIcc]
      exact ⟨le_of_lt hξ.1, le_of_lt hξ.2⟩
    have e : x + t - x = t := by ring
    rw [e] at h
    rw [h, add_sub_cancel_left, abs_div, abs_mul, abs_pow,
      abs_of_pos (by positivity : (0 : ℝ) < ((n + 1).factorial : ℝ))]
    have := hb ξ hξ'
    gcongr

theorem iteratedDeriv_two (u : ℝ → ℝ) : iteratedDeriv 2 u = deriv (deriv u) := by
  rw [iteratedDeriv_succ, iteratedDeriv_one]

theorem taylor2_bound {u : ℝ → ℝ} (hu : ContDiff ℝ 2 u) (x t M : ℝ)
    (hb : ∀ y ∈ uIcc x (x + t), |deriv (deriv u) y| ≤ M) :
    |u (x + t) - (u x + t * deriv u x)| ≤ M * t ^ 2 / 2 := by
  have hu' : ContDiff ℝ ((1 + 1 : ℕ)) u := by exact_mod_cast hu
  have := taylor_bound hu' x t M (by intro y hy; rw [iteratedDeriv_two]; exact hb y hy)
  simp only [Finset.sum_range_succ, Finset.sum_range_zero, iteratedDeriv_zero, iteratedDeriv_one,
    Nat.factorial] at this
  norm_num at this
  convert this using 2

theorem taylor3_bound {u : ℝ → ℝ} (hu : ContDiff ℝ 3 u) (x t M : ℝ)
    (hb : ∀ y ∈ uIcc x (x + t), |iteratedDeriv 3 u y| ≤ M) :
    |u (x + t) - (u x + t * deriv u x + t ^ 2 / 2 * deriv (deriv u) x)| ≤ M * |t| ^ 3 / 6 := by
  have hu' : ContDiff ℝ ((2 + 1 : ℕ)) u := by exact_mod_cast hu
  have := taylor_bound hu' x t M hb
  simp only [Finset.sum_range_succ, Finset.sum_range_zero, iteratedDeriv_zero, iteratedDeriv_one,
    iteratedDeriv_two, Nat.factorial] at this
  norm_num at this
  convert this using 2

theorem taylor4_bound {u : ℝ → ℝ} (hu : ContDiff ℝ 4 u) (x t M : ℝ)
    (hb : ∀ y ∈ uIcc x (x + t), |iteratedDeriv 4 u y| ≤ M) :
    |u (x + t) - (u x + t * deriv u x + t ^ 2 / 2 * deriv (deriv u) x
        + t ^ 3 / 6 * iteratedDeriv 3 u x)| ≤ M * t ^ 4 / 24 := by
  have hu' : ContDiff ℝ ((3 + 1 : ℕ)) u := by exact_mod_cast hu
  have := taylor_bound hu' x t M hb
  simp only [Finset.sum_range_succ, Finset.sum_range_zero, iteratedDeriv_zero, iteratedDeriv_one,
    iteratedDeriv_two, Nat.factorial] at this
  norm_num at this
  have e4 : |t| ^ 4 = t ^ 4 := by rw [← abs_pow, abs_of_nonneg (by positivity)]
  rw [e4] at this
  convert this using 2

/-! ## Part 2 — discrete comparison principle for the second difference with reflected ghosts -/

section Comparison

variable {α : Type} [Field α] [LinearOrder α] [IsStrictOrderedRing α]

/-- **Discrete comparison principle** (tridiagonal M-matrix of the 1-D Dirichlet problem, ghost
    form).  `d : ℕ → α` on `0..N+1` is discretely convex in every interior row `1..N`
    (`−δ²d ≤ 0`; needed only where `d > 0`, which also covers rows with a non-negative diagonal
    sink such as the `1/dt` of an implicit time step), and the two ghost values satisfy `d₀ + d₁ ≤ 0`, `d_{N+1} + d_N ≤ 0`
    (non-positive boundary-face averages).  Then `d ≤ 0` in every interior cell.
    Proof: look at the least maximiser of `d` over `1..N`. -/
theorem tridiag_comparison (N : ℕ) (d : ℕ → α)
    (hrow : ∀ i, 1 ≤ i → i ≤ N → 0 < d i → 2 * d i ≤ d (i + 1) + d (i - 1))
    (hlo : d 0 + d 1 ≤ 0) (hhi : d (N + 1) + d N ≤ 0) :
    ∀ i, 1 ≤ i → i ≤ N → d i ≤ 0 := by
  classical
  intro i hi1 hiN
  by_contra hpos
  have hpos : 0 < d i := not_le.mp hpos
  -- a maximiser over 1..N
  obtain ⟨k, hkS, hkmax⟩ := Finset.exists_max_image (Finset.Icc 1 N) d
    ⟨i, Finset.mem_Icc.2 ⟨hi1, hiN⟩⟩
  let P : ℕ → Prop := fun k => 1 ≤ k ∧ k ≤ N ∧ ∀ j, 1 ≤ j → j ≤ N → d j ≤ d k
  have hex : ∃ k, P k := ⟨k, (Finset.mem_Icc.1 hkS).1, (Finset.mem_Icc.1 hkS).2,
    fun j h1 h2 => hkmax j (Finset.mem_Icc.2 ⟨h1, h2⟩)⟩
  obtain ⟨hk1, hkN, hmax⟩ := Nat.find_spec hex
  set k0 := Nat.find hex with hk0
  have hdk : 0 < d k0 := lt_of_lt_of_le hpos (hmax i hi1 hiN)
  -- the lower neighbour is strictly smaller
  have hlow : d (k0 - 1) < d k0 := by
    by_cases h1 : k0 = 1
    · rw [h1] at hdk ⊢
      show d 0 < d 1
      linarith
    · have hnot : ¬ P (k0 - 1) := Nat.find_min hex (by omega)
      have : ∃ j, 1 ≤ j ∧ j ≤ N ∧ d (k0 - 1) < d j := by
        by_contra hcon
        apply hnot
        refine ⟨by omega, by omega, fun j h1 h2 => ?_⟩
        by_contra hlt
        exact hcon ⟨j, h1, h2, not_le.mp hlt⟩
      obtain ⟨j, hj1, hjN, hj⟩ := this
      exact lt_of_lt_of_le hj (hmax j hj1 hjN)
  -- the upper neighbour is not larger
  have hup : d (k0 + 1) ≤ d k0 := by
    by_cases hN' : k0 = N
    · rw [hN'] at hdk ⊢
      linarith
    · exact hmax (k0 + 1) (by omega) (by omega)
  have := hrow k0 hk1 hkN hdk
  linarith

/-- **Error bound by a barrier.**  Errors `e` on `0..N+1` with reflected ghosts (`e₀ = −e₁`,
    `e_{N+1} = −e_N`: homogeneous Dirichlet face averages) satisfy `−δ²e/h² = τ` in rows `1..N`;
    a barrier `w` with `−δ²w/h² ≥ |τ|` in every row and non-negative boundary-face averages
    dominates the error: `|e_i| ≤ w_i`. -/
theorem dirichlet_error_bound (N : ℕ) (h : α) (hh : 0 < h) (e w τ : ℕ → α)
    (hrow : ∀ i, 1 ≤ i → i ≤ N → -(e (i + 1) - 2 * e i + e (i - 1)) / h ^ 2 = τ i)
    (hbar : ∀ i, 1 ≤ i → i ≤ N → |τ i| ≤ -(w (i + 1) - 2 * w i + w (i - 1)) / h ^ 2)
    (he0 : e 0 = -e 1) (heN : e (N + 1) = -e N)
    (hw0 : 0 ≤ w 0 + w 1) (hwN : 0 ≤ w (N + 1) + w N) :
    ∀ i, 1 ≤ i → i ≤ N → |e i| ≤ w i := by
  have hp : 0 < h ^ 2 := pow_pos hh 2
  have key : ∀ i, 1 ≤ i → i ≤ N →
      |-(e (i + 1) - 2 * e i + e (i - 1))| ≤ -(w (i + 1) - 2 * w i + w (i - 1)) := by
    intro i h1 hN
    have h1' := hbar i h1 hN
    rw [← hrow i h1 hN, abs_div, abs_of_pos hp] at h1'
    exact (div_le_div_iff_of_pos_right hp).1 h1'
  intro i hi1 hiN
  rw [abs_le]
  constructor
  · have := tridiag_comparison N (fun j => -e j - w j)
      (fun j h1 hN _ => by have := (abs_le.1 (key j h1 hN)).1; linarith)
      (by rw [he0]; linarith) (by rw [heN]; linarith) i hi1 hiN
    linarith
  · have := tridiag_comparison N (fun j => e j - w j)
      (fun j h1 hN _ => by have := (abs_le.1 (key j h1 hN)).2; linarith)
      (by rw [he0]; linarith) (by rw [heN]; linarith) i hi1 hiN
    linarith

/-! ### the barrier `T_int · x(L−x)/2 + T_bnd · h²/2` on the uniform grid -/

/-- barrier at position `X` -/
def barrierAt (L h Ti Tb X : α) : α := Ti * (X * (L - X) / 2) + Tb * h ^ 2 / 2

/-- the barrier on `0..N+1`: at the cell centres `X_i = i h − h/2`, reflected into the ghosts -/
def barrier (N : ℕ) (L Ti Tb : α) (i : ℕ) : α :=
  if i = 0 then -barrierAt L (L / N) Ti Tb ((mkAxisNL N L).cen 1)
  else if i = N + 1 then -barrierAt L (L / N) Ti Tb ((mkAxisNL N L).cen N)
  else barrierAt L (L / N) Ti Tb ((mkAxisNL N L).cen i)

theorem barrier_interior (N : ℕ) (L Ti Tb : α) (i : ℕ) (h1 : 1 ≤ i) (hN : i ≤ N) :
    barrier N L Ti Tb i = barrierAt L (L / N) Ti Tb ((mkAxisNL N L).cen i) := by
  have a : ¬ i = 0 := by omega
  have b : ¬ i = N + 1 := by omega
  simp only [barrier, if_neg a, if_neg b]

theorem barrier_zero (N : ℕ) (L Ti Tb : α) :
    barrier N L Ti Tb 0 = -barrierAt L (L / N) Ti Tb ((mkAxisNL N L).cen 1) := by
  simp only [barrier, if_true]

theorem barrier_last (N : ℕ) (L Ti Tb : α) :
    barrier N L Ti Tb (N + 1) = -barrierAt L (L / N) Ti Tb ((mkAxisNL N L).cen N) := by
  have a : ¬ N + 1 = 0 := by omega
  simp only [barrier, if_neg a, if_true]

/-- interior rows: `−δ²w/h² = T_int` exactly -/
theorem barrier_row_mid (N : ℕ) (L Ti Tb : α) (hL : 0 < L) (i : ℕ) (h2 : 2 ≤ i) (hN : i + 1 ≤ N) :
    -(barrier N L Ti Tb (i + 1) - 2 * barrier N L Ti Tb i + barrier N L Ti Tb (i - 1)) / (L / N) ^ 2
      = Ti := by
  have hNpos : (0 : α) < N := by exact_mod_cast (by omega : 0 < N)
  have hh : L / (N : α) ≠ 0 := ne_of_gt (div_pos hL hNpos)
  rw [barrier_interior N L Ti Tb (i + 1) (by omega) (by omega),
    barrier_interior N L Ti Tb i (by omega) (by omega),
    barrier_interior N L Ti Tb (i - 1) (by omega) (by omega)]
  have c1 : ((i - 1 : ℕ) : α) = (i : α) - 1 := by rw [Nat.cast_sub (by omega)]; simp
  simp only [barrierAt, mkAxisNL, c1, Nat.cast_add, Nat.cast_one]
  generalize L / (N : α) = h at hh
  field_simp
  ring

/-- first row: `−δ²w/h² = (3/4) T_int + T_bnd` -/
theorem barrier_row_first (N : ℕ) (L Ti Tb : α) (hL : 0 < L) (hN : 2 ≤ N) :
    -(barrier N L Ti Tb (1 + 1) - 2 * barrier N L Ti Tb 1 + barrier N L Ti Tb (1 - 1)) / (L / N) ^ 2
      = 3 / 4 * Ti + Tb := by
  have hNpos : (0 : α) < N := by exact_mod_cast (by omega : 0 < N)
  have hh : L / (N : α) ≠ 0 := ne_of_gt (div_pos hL hNpos)
  rw [barrier_interior N L Ti Tb (1 + 1) (by omega) (by omega),
    barrier_interior N L Ti Tb 1 (by omega) (by omega), show 1 - 1 = 0 from rfl, barrier_zero]
  simp only [barrierAt, mkAxisNL, Nat.cast_add, Nat.cast_one]
  generalize L / (N : α) = h at hh
  field_simp
  ring

/-- last row: `−δ²w/h² = (3/4) T_int + T_bnd` -/
theorem barrier_row_last (N : ℕ) (L Ti Tb : α) (hL : 0 < L) (hN : 2 ≤ N) :
    -(barrier N L Ti Tb (N + 1) - 2 * barrier N L Ti Tb N + barrier N L Ti Tb (N - 1)) / (L / N) ^ 2
      = 3 / 4 * Ti + Tb := by
  have hNpos : (0 : α) < N := by exact_mod_cast (by omega : 0 < N)
  have hN0 : (N : α) ≠ 0 := ne_of_gt hNpos
  have hL0 : L ≠ 0 := ne_of_gt hL
  rw [barrier_last, barrier_interior N L Ti Tb N (by omega) (by omega),
    barrier_interior N L Ti Tb (N - 1) (by omega) (by omega)]
  have c1 : ((N - 1 : ℕ) : α) = (N : α) - 1 := by rw [Nat.cast_sub (by omega)]; simp
  simp only [barrierAt, mkAxisNL, c1]
  field_simp
  ring

/-- the barrier is at most `T_int L²/8 + T_bnd h²/2` -/
theorem barrierAt_le (L h Ti Tb X : α) (hTi : 0 ≤ Ti) :
    barrierAt L h Ti Tb X ≤ Ti * L ^ 2 / 8 + Tb * h ^ 2 / 2 := by
  unfold barrierAt
  have : X * (L - X) / 2 ≤ L ^ 2 / 8 := by nlinarith [sq_nonneg (L - 2 * X)]
  have := mul_le_mul_of_nonneg_left this hTi
  linarith

/-- the barrier dominates truncation errors bounded by `Ti` (rows `2..N−1`) and `Tb` (rows `1`, `N`) -/
theorem barrier_dominates (N : ℕ) (hN : 2 ≤ N) (L : α) (hL : 0 < L) (Ti Tb : α) (hTi : 0 ≤ Ti)
    (τ : ℕ → α) (hτi : ∀ i, 2 ≤ i → i + 1 ≤ N → |τ i| ≤ Ti) (hτ1 : |τ 1| ≤ Tb)
    (hτN : |τ N| ≤ Tb) :
    ∀ i, 1 ≤ i → i ≤ N → |τ i| ≤
      -(barrier N L Ti Tb (i + 1) - 2 * barrier N L Ti Tb i + barrier N L Ti Tb (i - 1))
        / (L / N) ^ 2 := by
  intro j hj1 hjN
  by_cases c1 : j = 1
  · subst c1
    rw [barrier_row_first N L Ti Tb hL hN]
    linarith
  · by_cases cN : j = N
    · subst cN
      rw [barrier_row_last j L Ti Tb hL hN]
      linarith
    · rw [barrier_row_mid N L Ti Tb hL j (by omega) (by omega)]
      exact hτi j (by omega) (by omega)

theorem barrier_ghost_lo (N : ℕ) (hN : 1 ≤ N) (L Ti Tb : α) :
    0 ≤ barrier N L Ti Tb 0 + barrier N L Ti Tb 1 := by
  rw [barrier_zero, barrier_interior N L Ti Tb 1 (by omega) (by omega)]; linarith

theorem barrier_ghost_hi (N : ℕ) (hN : 1 ≤ N) (L Ti Tb : α) :
    0 ≤ barrier N L Ti Tb (N + 1) + barrier N L Ti Tb N := by
  rw [barrier_last, barrier_interior N L Ti Tb N (by omega) (by omega)]; linarith

/-- **Convergence from truncation bounds.**  `N ≥ 2` cells of size `h = L/N`; the error `e`
    (reflected ghosts) satisfies `−δ²e/h² = τ` with `|τ| ≤ T_int` in rows `2..N−1` and
    `|τ| ≤ T_bnd` in the two rows next to the boundary.  Then
    `|e_i| ≤ T_int L²/8 + T_bnd h²/2`: the boundary rows enter with a factor `h²`. -/
theorem poisson_error_of_truncation (N : ℕ) (hN : 2 ≤ N) (L : α) (hL : 0 < L) (Ti Tb : α)
    (hTi : 0 ≤ Ti) (e τ : ℕ → α)
    (hrow : ∀ i, 1 ≤ i → i ≤ N → -(e (i + 1) - 2 * e i + e (i - 1)) / (L / N) ^ 2 = τ i)
    (he0 : e 0 = -e 1) (heN : e (N + 1) = -e N)
    (hτi : ∀ i, 2 ≤ i → i + 1 ≤ N → |τ i| ≤ Ti) (hτ1 : |τ 1| ≤ Tb) (hτN : |τ N| ≤ Tb) :
    ∀ i, 1 ≤ i → i ≤ N → |e i| ≤ Ti * L ^ 2 / 8 + Tb * (L / N) ^ 2 / 2 := by
  have hNpos : (0 : α) < N := by exact_mod_cast (by omega : 0 < N)
  have hh : 0 < L / (N : α) := div_pos hL hNpos
  intro i hi1 hiN
  have hb := dirichlet_error_bound N (L / N) hh e (barrier N L Ti Tb) τ hrow
    (barrier_dominates N hN L hL Ti Tb hTi τ hτi hτ1 hτN) he0 heN
    (barrier_ghost_lo N (by omega) L Ti Tb) (barrier_ghost_hi N (by omega) L Ti Tb) i hi1 hiN
  rw [barrier_interior N L Ti Tb i hi1 hiN] at hb
  exact le_trans hb (barrierAt_le _ _ _ _ _ hTi)

/-! ### one implicit (backward-Euler) step -/

/-- one-sided step estimate: rows `(e − e_old)/dt − δ²e/h² = τs + τt`, reflected ghosts, a barrier
    `w` with `−δ²w/h² ≥ τs`, `τt ≤ Tt`, and `e_old ≤ w + E`  ⇒  `e ≤ w + E + dt·Tt`. -/
theorem heat_step_upper (N : ℕ) (h dt : α) (hh : 0 < h) (hdt : 0 < dt) (Tt E : α)
    (hE : 0 ≤ E) (hTt : 0 ≤ Tt) (e eold w τs τt : ℕ → α)
    (hrow : ∀ i, 1 ≤ i → i ≤ N →
      (e i - eold i) / dt + -(e (i + 1) - 2 * e i + e (i - 1)) / h ^ 2 = τs i + τt i)
    (he0 : e 0 = -e 1) (heN : e (N + 1) = -e N)
    (hw0 : 0 ≤ w 0 + w 1) (hwN : 0 ≤ w (N + 1) + w N)
    (hbar : ∀ i, 1 ≤ i → i ≤ N → τs i ≤ -(w (i + 1) - 2 * w i + w (i - 1)) / h ^ 2)
    (hτt : ∀ i, 1 ≤ i → i ≤ N → τt i ≤ Tt)
    (hold : ∀ i, 1 ≤ i → i ≤ N → eold i ≤ w i + E) :
    ∀ i, 1 ≤ i → i ≤ N → e i ≤ w i + E + dt * Tt := by
  have hp : 0 < h ^ 2 := pow_pos hh 2
  have hc : 0 ≤ dt * Tt := mul_nonneg hdt.le hTt
  intro i hi1 hiN
  have := tridiag_comparison N (fun j => e j - w j - (E + dt * Tt))
    (by
      intro j h1 hN' hpos
      have hpos' : 0 < e j - w j - (E + dt * Tt) := hpos
      have r := hrow j h1 hN'
      have b := hbar j h1 hN'
      have t := hτt j h1 hN'
      have o := hold j h1 hN'
      have hq : Tt < (e j - eold j) / dt := by
        rw [lt_div_iff₀ hdt]; linarith
      have hle : -(e (j + 1) - 2 * e j + e (j - 1)) / h ^ 2
          ≤ -(w (j + 1) - 2 * w j + w (j - 1)) / h ^ 2 := by linarith
      have := (div_le_div_iff_of_pos_right hp).1 hle
      show 2 * (e j - w j - (E + dt * Tt))
        ≤ (e (j + 1) - w (j + 1) - (E + dt * Tt)) + (e (j - 1) - w (j - 1) - (E + dt * Tt))
      linarith)
    (by show e 0 - w 0 - (E + dt * Tt) + (e 1 - w 1 - (E + dt * Tt)) ≤ 0
        rw [he0]; linarith)
    (by show e (N + 1) - w (N + 1) - (E + dt * Tt) + (e N - w N - (E + dt * Tt)) ≤ 0
        rw [heN]; linarith)
    i hi1 hiN
  have : e i - w i - (E + dt * Tt) ≤ 0 := this
  linarith

/-- **One backward-Euler step.**  Errors `e` (new) and `e_old`; rows
    `(e − e_old)/dt − δ²e/h² = τs + τt` with spatial truncation `|τs| ≤ Ti` (rows `2..N−1`),
    `≤ Tb` (rows `1`, `N`) and temporal truncation `|τt| ≤ Tt`.  If the old error is within the
    barrier plus `E`, the new one is within the barrier plus `E + dt·Tt`: the (order-0) boundary
    truncation does not accumulate over the steps. -/
theorem heat_step_error (N : ℕ) (hN : 2 ≤ N) (L : α) (hL : 0 < L) (dt : α) (hdt : 0 < dt)
    (Ti Tb Tt E : α) (hTi : 0 ≤ Ti) (hE : 0 ≤ E) (hTt : 0 ≤ Tt) (e eold τs τt : ℕ → α)
    (hrow : ∀ i, 1 ≤ i → i ≤ N →
      (e i - eold i) / dt + -(e (i + 1) - 2 * e i + e (i - 1)) / (L / N) ^ 2 = τs i + τt i)
    (he0 : e 0 = -e 1) (heN : e (N + 1) = -e N)
    (hτi : ∀ i, 2 ≤ i → i + 1 ≤ N → |τs i| ≤ Ti) (hτ1 : |τs 1| ≤ Tb) (hτN : |τs N| ≤ Tb)
    (hτt : ∀ i, 1 ≤ i → i ≤ N → |τt i| ≤ Tt)
    (hold : ∀ i, 1 ≤ i → i ≤ N → |eold i| ≤ barrier N L Ti Tb i + E) :
    ∀ i, 1 ≤ i → i ≤ N → |e i| ≤ barrier N L Ti Tb i + E + dt * Tt := by
  have hNpos : (0 : α) < N := by exact_mod_cast (by omega : 0 < N)
  have hh : 0 < L / (N : α) := div_pos hL hNpos
  have hdom := barrier_dominates N hN L hL Ti Tb hTi τs hτi hτ1 hτN
  intro i hi1 hiN
  rw [abs_le]
  constructor
  · have := heat_step_upper N (L / N) dt hh hdt Tt E hE hTt (fun j => -e j) (fun j => -eold j)
      (barrier N L Ti Tb) (fun j => -τs j) (fun j => -τt j)
      (by
        intro j h1 hN'
        have r := hrow j h1 hN'
        have : (-e j - -eold j) / dt + -(-e (j + 1) - 2 * -e j + -e (j - 1)) / (L / N) ^ 2
            = -((e j - eold j) / dt + -(e (j + 1) - 2 * e j + e (j - 1)) / (L / N) ^ 2) := by ring
        rw [this, r]; ring)
      (by show -e 0 = - -e 1; rw [he0])
      (by show -e (N + 1) = - -e N; rw [heN])
      (barrier_ghost_lo N (by omega) L Ti Tb) (barrier_ghost_hi N (by omega) L Ti Tb)
      (fun j h1 hN' => le_trans (neg_le_abs _) (hdom j h1 hN'))
      (fun j h1 hN' => le_trans (neg_le_abs _) (hτt j h1 hN'))
      (fun j h1 hN' => le_trans (neg_le_abs _) (hold j h1 hN')) i hi1 hiN
    linarith
  · exact heat_step_upper N (L / N) dt hh hdt Tt E hE hTt e eold
      (barrier N L Ti Tb) τs τt hrow he0 heN
      (barrier_ghost_lo N (by omega) L Ti Tb) (barrier_ghost_hi N (by omega) L Ti Tb)
      (fun j h1 hN' => le_trans (le_abs_self _) (hdom j h1 hN'))
      (fun j h1 hN' => le_trans (le_abs_self _) (hτt j h1 hN'))
      (fun j h1 hN' => le_trans (le_abs_self _) (hold j h1 hN')) i hi1 hiN

/-- **`n` backward-Euler steps.**  `e n i` = error at time level `n`; every step satisfies the
    hypotheses of `heat_step_error`; the initial error is within the barrier plus `E0`.  Then
    `|e n i| ≤ barrier_i + E0 + n·dt·Tt`. -/
theorem heat_steps_error (N : ℕ) (hN : 2 ≤ N) (L : α) (hL : 0 < L) (dt : α) (hdt : 0 < dt)
    (Ti Tb Tt E0 : α) (hTi : 0 ≤ Ti) (hE : 0 ≤ E0) (hTt : 0 ≤ Tt) (e τs τt : ℕ → ℕ → α)
    (hrow : ∀ n i, 1 ≤ i → i ≤ N →
      (e (n + 1) i - e n i) / dt
        + -(e (n + 1) (i + 1) - 2 * e (n + 1) i + e (n + 1) (i - 1)) / (L / N) ^ 2
        = τs n i + τt n i)
    (he0 : ∀ n, e (n + 1) 0 = -e (n + 1) 1) (heN : ∀ n, e (n + 1) (N + 1) = -e (n + 1) N)
    (hτi : ∀ n i, 2 ≤ i → i + 1 ≤ N → |τs n i| ≤ Ti) (hτ1 : ∀ n, |τs n 1| ≤ Tb)
    (hτN : ∀ n, |τs n N| ≤ Tb) (hτt : ∀ n i, 1 ≤ i → i ≤ N → |τt n i| ≤ Tt)
    (h0 : ∀ i, 1 ≤ i → i ≤ N → |e 0 i| ≤ barrier N L Ti Tb i + E0) :
    ∀ n i, 1 ≤ i → i ≤ N → |e n i| ≤ barrier N L Ti Tb i + E0 + n * (dt * Tt) := by
  intro n
  induction n with
  | zero =>
    intro i h1 hN'
    have := h0 i h1 hN'
    simp only [Nat.cast_zero, zero_mul, add_zero]
    exact this
  | succ n ih =>
    intro i h1 hN'
    have hc : 0 ≤ (n : α) * (dt * Tt) :=
      mul_nonneg (Nat.cast_nonneg n) (mul_nonneg hdt.le hTt)
    have := heat_step_error N hN L hL dt hdt Ti Tb Tt (E0 + n * (dt * Tt)) hTi (by linarith) hTt
      (e (n + 1)) (e n) (τs n) (τt n) (hrow n) (he0 n) (heN n) (hτi n) (hτ1 n) (hτN n) (hτt n)
      (fun j hj1 hjN => by have := ih j hj1 hjN; linarith) i h1 hN'
    rw [Nat.cast_succ]
    linarith

end Comparison

/-! ## Part 3 — the uniform 1-D Cartesian mesh, Poisson term list, Dirichlet conditions -/

section Model

variable {α : Type} [Field α] [LinearOrder α] [IsStrictOrderedRing α]

/-- `M` is a `Grid1D` built by the `(N, L)` constructor: Cartesian, `N` cells of size `L/N` on
    `[0, L]` (the other two axes and the trigonometric parameters do not enter) -/
structure IsUniform1D (M : Mesh α) (N : ℕ) (L : α) : Prop where
  kind : M.kind = .cart1
  ax : M.ax = mkAxisNL N L

/-- a concrete such mesh (`π := 3` is a placeholder: it never enters a Cartesian operator) -/
def uniMesh (N : ℕ) (L : α) : Mesh α :=
  { kind := .cart1, ax := mkAxisNL N L, ay := unitAxis, az := unitAxis,
    sinC := fun _ => 1, sinF := fun _ => 1, cosF := fun _ => 1, pi := 3 }

theorem uniMesh_isUniform (N : ℕ) (L : α) : IsUniform1D (uniMesh N L) N L := ⟨rfl, rfl⟩

theorem uniMesh_WF (N : ℕ) (L : α) (hN : 1 ≤ N) (hL : 0 < L) : (uniMesh N L).WF where
  wx := mkAxisNL_WF N L hN hL
  wy := unitAxis_WF'
  wz := unitAxis_WF'
  rpos := fun h => by simp [uniMesh, Kind.radial] at h
  rf0 := fun h => by simp [uniMesh, Kind.radial] at h
  spos := fun h => by simp [uniMesh] at h
  pipos := by norm_num [uniMesh]

/-- the unit face coefficient `D ≡ 1` -/
def oneFace : FaceFld α := fun _ _ => 1

/-- **The model's diffusion row on the uniform mesh is the second difference** `+δ²φ/h²`
    (the model's `diffusionTerm` is `+div(D grad φ)`; the equation uses `−diffusionTerm`). -/
theorem diffusionRow_uniform1D_app {M : Mesh α} {N : ℕ} {L : α} (hM : IsUniform1D M N L)
    (hN : 1 ≤ N) (hL : 0 < L) (φ : CellFld α) (i j k : ℕ) :
    (diffusionRow M oneFace (i, j, k)).app φ (i, j, k)
      = (φ (i + 1, j, k) - 2 * φ (i, j, k) + φ (i - 1, j, k)) / (L / N) ^ 2 := by
  have hNpos : (0 : α) < N := by exact_mod_cast (by omega : 0 < N)
  have hh : L / (N : α) ≠ 0 := ne_of_gt (div_pos hL hNpos)
  unfold diffusionRow
  rw [St7.ofDirs_app]
  simp only [sumDirs, hM.kind, Kind.active, Kind.dim, diffSt, St3.app, lineM, lineV, lineA,
    Mesh.axis, hM.ax, mkAxisNL, Axis.dxf, oneFace, Idx.get, Idx.set]
  generalize L / (N : α) = h at hh
  norm_num
  field_simp
  ring

/-- the model's gradient at face `i` on the uniform mesh: `(φ_{i+1} − φ_i)/h` -/
theorem gradD_uniform1D {M : Mesh α} {N : ℕ} {L : α} (hM : IsUniform1D M N L)
    (φ : CellFld α) (i j k : ℕ) :
    gradD M φ .x (i, j, k) = (φ (i + 1, j, k) - φ (i, j, k)) / (L / N) := by
  simp only [gradD, lineM, hM.kind, Mesh.axis, hM.ax, mkAxisNL, Axis.dxf, Idx.next, Idx.get,
    Idx.set]
  congr 1
  ring

/-- the model's linear mean at face `i` on the uniform mesh: `(φ_i + φ_{i+1})/2` -/
theorem linMean_uniform1D {M : Mesh α} {N : ℕ} {L : α} (hM : IsUniform1D M N L)
    (hN : 1 ≤ N) (hL : 0 < L) (φ : CellFld α) (i j k : ℕ) :
    linMean M φ .x (i, j, k) = (φ (i + 1, j, k) + φ (i, j, k)) / 2 := by
  have hNpos : (0 : α) < N := by exact_mod_cast (by omega : 0 < N)
  have hh : L / (N : α) ≠ 0 := ne_of_gt (div_pos hL hNpos)
  simp only [linMean, Mesh.axis, hM.ax, mkAxisNL, Idx.next, Idx.get, Idx.set]
  generalize L / (N : α) = h at hh
  field_simp
  ring

/-- the term list of the Poisson problem `−u'' = f` as handed to `solvePDE`:
    `[-diffusionTerm(1), constantSourceTerm(f(x_c))]` -/
def poissonTerms (M : Mesh α) (f : α → α) : List (TermObj α) :=
  [TermObj.smul (-1) (.mat (diffusionRow M oneFace)), .vec (constSrcRHS (fun c => f (M.ax.cen c.1)))]

theorem sumRow_poissonTerms_app (M : Mesh α) (f : α → α) (x : CellFld α) (c : Idx) :
    (sumRow (poissonTerms M f) c).app x c = -((diffusionRow M oneFace c).app x c) := by
  simp only [sumRow, poissonTerms, List.foldl, TermObj.row, TermObj.smul, St7.add, St7.zero,
    St7.smul, St7.app]
  ring

theorem sumRhs_poissonTerms (M : Mesh α) (f : α → α) (c : Idx) :
    sumRhs (poissonTerms M f) c = f (M.ax.cen c.1) := by
  simp only [sumRhs, poissonTerms, List.foldl, TermObj.rhs, TermObj.smul, constSrcRHS]
  ring

/-- Dirichlet conditions `φ = uL` on the left, `φ = uR` on the right (`a = 0`, `b = 1`, `c` = value),
    nothing periodic -/
def dirichletBC (uL uR : α) : BCs α :=
  ⟨fun _ => ⟨fun _ => 0, fun _ => 1, fun _ => uL, false⟩,
   fun _ => ⟨fun _ => 0, fun _ => 1, fun _ => uR, false⟩⟩

/-- the model's low ghost value for these conditions: `2 uL − φ_c` -/
theorem ghostLo_dirichletBC (M : Mesh α) (uL uR : α) (φ : CellFld α) (d : Dir) (c : Idx) :
    ghostLo M (dirichletBC uL uR) φ d c = some (2 * uL - φ c) := by
  have h2 : (0 : α) / (lineM M d c * (M.axis d).DX 0) = 0 := zero_div _
  simp only [ghostLo, BCs.periodicDir, dirichletBC, Bool.or_self, Bool.false_eq_true, if_false,
    sdiv, loGhostCoef, loCellCoef, h2]
  norm_num
  ring

theorem ghostHi_dirichletBC (M : Mesh α) (uL uR : α) (φ : CellFld α) (d : Dir) (c : Idx) :
    ghostHi M (dirichletBC uL uR) φ d c = some (2 * uR - φ c) := by
  have h2 : (0 : α) / (lineM M d c * (M.axis d).DX (M.n d + 1)) = 0 := zero_div _
  simp only [ghostHi, BCs.periodicDir, dirichletBC, Bool.or_self, Bool.false_eq_true, if_false,
    sdiv, hiGhostCoef, hiCellCoef, h2]
  norm_num
  ring

/-! ### positions of the cell centres and faces of the `(N, L)` axis -/

theorem cenNL_eq (N : ℕ) (L : α) (i : ℕ) :
    (mkAxisNL N L).cen i = (i : α) * (L / N) - (L / N) / 2 := rfl

theorem fcNL_eq (N : ℕ) (L : α) (i : ℕ) : (mkAxisNL N L).fc i = (i : α) * (L / N) := rfl

theorem cenNL_succ (N : ℕ) (L : α) (i : ℕ) :
    (mkAxisNL N L).cen (i + 1) = (mkAxisNL N L).cen i + L / N := by
  simp only [mkAxisNL, Nat.cast_add, Nat.cast_one]; ring

theorem cenNL_pred (N : ℕ) (L : α) (i : ℕ) (h1 : 1 ≤ i) :
    (mkAxisNL N L).cen (i - 1) = (mkAxisNL N L).cen i - L / N := by
  have c1 : ((i - 1 : ℕ) : α) = (i : α) - 1 := by rw [Nat.cast_sub h1]; simp
  simp only [mkAxisNL, c1]; ring

theorem cenNL_one (N : ℕ) (L : α) : (mkAxisNL N L).cen 1 = (L / N) / 2 := by
  simp only [mkAxisNL, Nat.cast_one]; ring

theorem cenNL_last (N : ℕ) (L : α) (hN : 1 ≤ N) : (mkAxisNL N L).cen N = L - (L / N) / 2 := by
  have hN0 : (N : α) ≠ 0 := by
    have : (0 : α) < N := by exact_mod_cast (by omega : 0 < N)
    exact ne_of_gt this
  simp only [mkAxisNL]
  field_simp

theorem fcNL_eq_cen (N : ℕ) (L : α) (i : ℕ) :
    (mkAxisNL N L).fc i = (mkAxisNL N L).cen i + (L / N) / 2 := by
  simp only [mkAxisNL]; ring

/-- centres `i ≤ k ≤ N` lie in `[(i − 1/2) h, L − h/2]` -/
theorem cenNL_bounds (N : ℕ) (L : α) (hL : 0 < L) (i : ℕ) (h1 : 1 ≤ i) (hN : i ≤ N) :
    (L / N) / 2 ≤ (mkAxisNL N L).cen i ∧ (mkAxisNL N L).cen i ≤ L - (L / N) / 2 := by
  have hNpos : (0 : α) < N := by exact_mod_cast (by omega : 0 < N)
  have hh : 0 < L / (N : α) := div_pos hL hNpos
  have hNh : (N : α) * (L / N) = L := by field_simp
  have c1 : (1 : α) ≤ i := by exact_mod_cast h1
  have c2 : (i : α) ≤ N := by exact_mod_cast hN
  have a1 := mul_le_mul_of_nonneg_right c1 hh.le
  have a2 := mul_le_mul_of_nonneg_right c2 hh.le
  simp only [mkAxisNL]
  constructor <;> linarith

theorem cenNL_mem (N : ℕ) (L : α) (hL : 0 < L) (i : ℕ) (h1 : 1 ≤ i) (hN : i ≤ N) :
    (mkAxisNL N L).cen i ∈ Set.Icc (0 : α) L := by
  have hNpos : (0 : α) < N := by exact_mod_cast (by omega : 0 < N)
  have hh : 0 < L / (N : α) := div_pos hL hNpos
  obtain ⟨a, b⟩ := cenNL_bounds N L hL i h1 hN
  exact ⟨by linarith, by linarith⟩

/-- the reference values the error is measured against: `u` at the cell centres, and in the two
    ghost cells the Dirichlet reflection `2 u(boundary) − u(adjacent centre)` -/
def refSol (N : ℕ) (L : α) (u : α → α) (i : ℕ) : α :=
  if i = 0 then 2 * u 0 - u ((mkAxisNL N L).cen 1)
  else if i = N + 1 then 2 * u L - u ((mkAxisNL N L).cen N)
  else u ((mkAxisNL N L).cen i)

theorem refSol_interior (N : ℕ) (L : α) (u : α → α) (i : ℕ) (h1 : 1 ≤ i) (hN : i ≤ N) :
    refSol N L u i = u ((mkAxisNL N L).cen i) := by
  have a : ¬ i = 0 := by omega
  have b : ¬ i = N + 1 := by omega
  simp only [refSol, if_neg a, if_neg b]

theorem refSol_zero (N : ℕ) (L : α) (u : α → α) :
    refSol N L u 0 = 2 * u 0 - u ((mkAxisNL N L).cen 1) := by
  simp only [refSol, if_true]

theorem refSol_last (N : ℕ) (L : α) (u : α → α) :
    refSol N L u (N + 1) = 2 * u L - u ((mkAxisNL N L).cen N) := by
  have a : ¬ N + 1 = 0 := by omega
  simp only [refSol, if_neg a, if_true]

/-- interior cells of the line `(·, 1, 1)` are cells of a uniform 1-D mesh -/
theorem mem_cells_uniform1D {M : Mesh α} {N : ℕ} {L : α} (hM : IsUniform1D M N L) (i : ℕ)
    (h1 : 1 ≤ i) (hN : i ≤ N) : ((i, 1, 1) : Idx) ∈ M.cells := by
  rw [Mesh.mem_cells]
  intro d
  rw [Mesh.mem_rng]
  cases d <;>
    simp [Idx.get, Kind.active, hM.kind, Kind.dim, Mesh.n, Mesh.axis, hM.ax, mkAxisNL, h1, hN]

/-- the term list of one backward-Euler step of `v_t = v_xx + s`:
    `[transientTerm(old, dt, 1), -diffusionTerm(1), constantSourceTerm(s(x_c))]` -/
def heatTerms (M : Mesh α) (old : CellFld α) (dt : α) (s : α → α) : List (TermObj α) :=
  [.pair (transientRow dt (fun _ => 1)) (transientRHS old dt (fun _ => 1)),
   TermObj.smul (-1) (.mat (diffusionRow M oneFace)),
   .vec (constSrcRHS (fun c => s (M.ax.cen c.1)))]

theorem sumRow_heatTerms_app (M : Mesh α) (old : CellFld α) (dt : α) (s : α → α) (x : CellFld α)
    (c : Idx) :
    (sumRow (heatTerms M old dt s) c).app x c
      = x c / dt - (diffusionRow M oneFace c).app x c := by
  simp only [sumRow, heatTerms, List.foldl, TermObj.row, TermObj.smul, St7.add, St7.zero,
    St7.smul, St7.app, transientRow, St7.diag]
  ring

theorem sumRhs_heatTerms (M : Mesh α) (old : CellFld α) (dt : α) (s : α → α) (c : Idx) :
    sumRhs (heatTerms M old dt s) c = old c / dt + s (M.ax.cen c.1) := by
  simp only [sumRhs, heatTerms, List.foldl, TermObj.rhs, TermObj.smul, constSrcRHS, transientRHS]
  ring

end Model

/-! ### existence of the discrete solution by shooting -/

/-- particular solution of the rows `−δ²p_i/h² = rhs_i` (`i ≥ 1`) with `p₀ = 2 gL`, `p₁ = 0`
    (so that the low ghost relation `p₀ = 2 gL − p₁` holds) -/
def shoot (gL h : ℝ) (rhs : ℕ → ℝ) : ℕ → ℝ
  | 0 => 2 * gL
  | 1 => 0
  | (i + 2) => 2 * shoot gL h rhs (i + 1) - shoot gL h rhs i - h ^ 2 * rhs (i + 1)

/-- the discrete solution: particular solution plus the multiple of the homogeneous solution
    `2i − 1` (which has `x₀ = −x₁`) that fixes the high ghost relation -/
noncomputable def discreteSol (N : ℕ) (gL gR h : ℝ) (rhs : ℕ → ℝ) (i : ℕ) : ℝ :=
  shoot gL h rhs i
    + (2 * gR - shoot gL h rhs (N + 1) - shoot gL h rhs N) / (4 * N) * (2 * (i : ℝ) - 1)

theorem discreteSol_spec (N : ℕ) (hN : 1 ≤ N) (gL gR h : ℝ) (hh : 0 < h) (rhs : ℕ → ℝ) :
    (∀ i, 1 ≤ i → i ≤ N →
      -((discreteSol N gL gR h rhs (i + 1) - 2 * discreteSol N gL gR h rhs i
          + discreteSol N gL gR h rhs (i - 1)) / h ^ 2) = rhs i) ∧
    discreteSol N gL gR h rhs 0 = 2 * gL - discreteSol N gL gR h rhs 1 ∧
    discreteSol N gL gR h rhs (N + 1) = 2 * gR - discreteSol N gL gR h rhs N := by
  have hNpos : (0 : ℝ) < N := by exact_mod_cast (by omega : 0 < N)
  have hN0 : (N : ℝ) ≠ 0 := ne_of_gt hNpos
  have hh0 : h ≠ 0 := ne_of_gt hh
  refine ⟨?_, ?_, ?_⟩
  · intro i h1 _
    obtain ⟨k, rfl⟩ : ∃ k, i = k + 1 := ⟨i - 1, by omega⟩
    simp only [discreteSol, Nat.add_sub_cancel]
    rw [show k + 1 + 1 = k + 2 from rfl, shoot]
    push_cast
    field_simp
    ring
  · simp only [discreteSol, shoot]
    push_cast
    ring
  · simp only [discreteSol]
    push_cast
    field_simp
    ring

/-! ## Part 4 — a concrete instance for the non-vacuity examples: `u = x⁴` on `[0, 1]`, `N = 2` -/

theorem quartic_contDiff : ContDiff ℝ 4 (fun t : ℝ => t ^ 4) := by fun_prop

theorem quartic_d1 : deriv (fun t : ℝ => t ^ 4) = fun t => 4 * t ^ 3 := by
  funext t; simp
theorem quartic_d2 : deriv (fun t : ℝ => 4 * t ^ 3) = fun t => 12 * t ^ 2 := by
  funext t; simp; ring
theorem quartic_d3 : deriv (fun t : ℝ => 12 * t ^ 2) = fun t => 24 * t := by
  funext t; simp; ring
theorem quartic_d4 : deriv (fun t : ℝ => 24 * t) = fun _ => 24 := by
  funext t; simp

theorem quartic_deriv2 (y : ℝ) : deriv (deriv (fun t : ℝ => t ^ 4)) y = 12 * y ^ 2 := by
  rw [quartic_d1, quartic_d2]

theorem quartic_deriv4 (y : ℝ) : iteratedDeriv 4 (fun t : ℝ => t ^ 4) y = 24 := by
  rw [iteratedDeriv_succ, iteratedDeriv_succ, iteratedDeriv_succ, iteratedDeriv_one,
    quartic_d1, quartic_d2, quartic_d3, quartic_d4]

/-- the solution of the model's discrete system for `−u'' = −12x²`, `u(0) = 0`, `u(1) = 1` on two
    cells (`h = 1/2`): interior values `−1/32`, `3/32`, ghosts `1/32`, `61/32` -/
noncomputable def quarticSol : CellFld ℝ := fun c =>
  if c.1 = 0 then 1 / 32 else if c.1 = 1 then -1 / 32 else if c.1 = 2 then 3 / 32 else 61 / 32

theorem quarticSol_solves :
    Solves (uniMesh 2 (1 : ℝ)) (dirichletBC ((fun t : ℝ => t ^ 4) 0) ((fun t : ℝ => t ^ 4) 1))
      (poissonTerms (uniMesh 2 (1 : ℝ)) (fun t => -(12 * t ^ 2))) quarticSol := by
  intro c hc
  obtain ⟨i, j, k⟩ := c
  obtain ⟨h1, h2, h3⟩ := hc
  simp only [uniMesh, Kind.active, Kind.dim] at h2 h3
  norm_num at h2 h3
  subst h2 h3
  have hi : i = 0 ∨ i = 1 ∨ i = 2 ∨ i = 3 := by
    have : i ≤ 3 := h1
    omega
  have hM := uniMesh_isUniform 2 (1 : ℝ)
  rcases hi with rfl | rfl | rfl | rfl
  · simp [assembleOp, assembleRhs, Mesh.outCount, bcRow, Mesh.outDir, bcRowLo, BCs.periodicDir,
      dirichletBC, Row.app, loCellCoef, loGhostCoef, uniMesh, mkAxisNL, Idx.get, Idx.set,
      Kind.active, Kind.dim, quarticSol]
    norm_num
  · have h0 : (uniMesh 2 (1 : ℝ)).outCount (1, 1, 1) = 0 := by
      simp [Mesh.outCount, uniMesh, mkAxisNL, Kind.active, Kind.dim]
    simp only [assembleOp, assembleRhs, h0, if_true]
    rw [sumRow_poissonTerms_app, sumRhs_poissonTerms,
      diffusionRow_uniform1D_app hM (by norm_num) (by norm_num)]
    norm_num [quarticSol, uniMesh, mkAxisNL]
  · have h0 : (uniMesh 2 (1 : ℝ)).outCount (2, 1, 1) = 0 := by
      simp [Mesh.outCount, uniMesh, mkAxisNL, Kind.active, Kind.dim]
    simp only [assembleOp, assembleRhs, h0, if_true]
    rw [sumRow_poissonTerms_app, sumRhs_poissonTerms,
      diffusionRow_uniform1D_app hM (by norm_num) (by norm_num)]
    norm_num [quarticSol, uniMesh, mkAxisNL]
  · simp [assembleOp, assembleRhs, Mesh.outCount, bcRow, Mesh.outDir, bcRowHi, BCs.periodicDir,
      dirichletBC, Row.app, hiCellCoef, hiGhostCoef, uniMesh, mkAxisNL, Idx.get, Idx.set,
      Kind.active, Kind.dim, quarticSol, Mesh.n, Mesh.axis]
    norm_num

end PyFV
