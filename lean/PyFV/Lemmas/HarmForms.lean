/-
  PyFV.Lemmas.HarmForms — the two algebraic forms of the width-weighted harmonic mean of two NON-ZERO neighbours
  p = φ_i, q = φ_{i+1} with widths b = dx_i, a = dx_{i+1}:

      quotient form   (a + b) / (a / q + b / p)            (the scalar loop of the 1-D branch of `harmonicMean`)
      product form    q * p * (a + b) / (a * p + b * q)    (`_harmonic_face`, 2-D / 3-D)

  are EQUAL in every field (also when the divisors vanish: they vanish together, and `x / 0 = 0` on both sides).  The
  model `harmMean` (PyFV/Model/Avg.lean) uses the quotient form when `M.kind.dim = 1` and the product form otherwise; the
  Python source is free to use either in either branch (e.g. the 1-D loop replaced by a call of `_harmonic_face`, or
  `_harmonic_face` rewritten with the quotient), to test `φ0 == 0 | φ1 == 0` in either order and to keep or drop the
  `np.where(zero, 1.0, den)` guard of the divisor.  The "generated = model" theorems `harmonicMean_*_of_some` /
  `harmonicMean_*_eq` of PyFV/Props/GenEqAvg.lean unfold both sides (`simp only [definitions]`) and finish with

    `harm_of_some p q a b hv`   (`hv : model = some v ⊢ generated = v`)
    `harm_eq p q a b h`         (`h : p = 0 ∨ q = 0 ∨ model divisor ≠ 0 ⊢ model = some generated`)
                           p q the two neighbour values, a b the two widths AS THE MODEL (= the statement) SPELLS THEM.
        1. `by_cases` on `p = 0`, on `q = 0` — explicit cases on the model's terms, NOT `split_ifs` / `split` (which leave
           some `if`s of the unfolded definitions alone: their `Decidable` instances mention unreduced `Idx.get`) — and the
           zero tests of both sides are decided with `harm_tests` (either operand order, repeated inside the divisor);
        2. the `if divisor = 0 then none else some ..` of the MODEL is inverted (`ite_none_some_inv`) / introduced
           (`ite_none_some_intro`, with `h`): this step only involves the model and the statement, never the generated form;
        3. `harm_close p q a b` on the remaining `if`-free equation between field expressions:
             - derives `p ≠ 0`, `q ≠ 0` from the context,
             - CLEARS every other hypothesis (a hypothesis `divisor ≠ 0` in ONE of the two spellings makes `field_simp`
               cancel that spelling only and leaves the other one behind; without it `field_simp` brings both sides to
               the same normal form `numerator / (a*p + b*q)`; the identity needs no such hypothesis),
             - closes the goal with `geq_field`; failing that rewrites the quotient form into the product form (or back)
               with `harm_quot_eq_prod` / `harm_den_eq` and tries again.
  Only true identities are proved (no axioms, no `sorry`): a generated formula that is NOT the harmonic mean (widths
  swapped, a wrong neighbour in a divisor, `d0 - d1`, ...) leaves the goal open and the build fails.
-/
import PyFV.Lemmas.GenEqTac
import Mathlib.Tactic.Ring
import Mathlib.Tactic.FieldSimp
import Mathlib.Tactic.Tauto
import Mathlib.Tactic.ClearExcept

namespace PyFV

section
variable {K : Type} [Field K]

/-- the divisor of the quotient form over the common denominator -/
theorem harm_den_eq (a b p q : K) (hp : p ≠ 0) (hq : q ≠ 0) :
    a / q + b / p = (a * p + b * q) / (p * q) := by
  field_simp

/-- the two divisors vanish together -/
theorem harm_den_eq_zero_iff (a b p q : K) (hp : p ≠ 0) (hq : q ≠ 0) :
    a / q + b / p = 0 ↔ a * p + b * q = 0 := by
  rw [harm_den_eq a b p q hp hq, div_eq_zero_iff]
  constructor
  · rintro (h | h)
    · exact h
    · exact absurd h (mul_ne_zero hp hq)
  · exact Or.inl

/-- … so one is non-zero iff the other is -/
theorem harm_den_ne_iff (a b p q : K) (hp : p ≠ 0) (hq : q ≠ 0) :
    a / q + b / p ≠ 0 ↔ a * p + b * q ≠ 0 :=
  not_congr (harm_den_eq_zero_iff a b p q hp hq)

/-- quotient form = product form (no hypothesis on the divisors: both sides are 0 when they vanish) -/
theorem harm_quot_eq_prod (a b p q : K) (hp : p ≠ 0) (hq : q ≠ 0) :
    (a + b) / (a / q + b / p) = q * p * (a + b) / (a * p + b * q) := by
  rw [harm_den_eq a b p q hp hq, div_div_eq_mul_div]
  congr 1
  ring

end

/-- `sdiv`, unfolded: it has a value only when the divisor test fails, and the value is the `else` branch -/
theorem ite_none_some_inv {β : Type} {c : Prop} [Decidable c] {x v : β}
    (h : (if c then none else some x) = some v) : ¬ c ∧ x = v := by
  by_cases hc : c
  · rw [if_pos hc] at h; exact absurd h (by simp)
  · rw [if_neg hc] at h; exact ⟨hc, Option.some.inj h⟩

theorem ite_none_some_intro {β : Type} {c : Prop} [Decidable c] {x y : β}
    (hc : ¬ c) (hxy : x = y) : (if c then none else some x) = some y := by
  rw [if_neg hc, hxy]

/-- the algebraic core: closes `lhs = rhs` (or `some lhs = some rhs`) between the two forms of the harmonic mean of
    two non-zero neighbours `p q` (widths `a b`), whichever form each side uses (see the header of this file) -/
macro "harm_close" p:term:max q:term:max a:term:max b:term:max : tactic => `(tactic|
  (have hp : $p ≠ 0 := by first | assumption | tauto | (simp_all <;> done) | (intro h0; simp_all <;> done)
   have hq : $q ≠ 0 := by first | assumption | tauto | (simp_all <;> done) | (intro h0; simp_all <;> done)
   clear * - hp hq
   try simp only [Option.some.injEq]
   first
   | done
   | geq_field
   | (rw [harm_quot_eq_prod $a $b $p $q hp hq] <;> geq_field)
   | (rw [← harm_quot_eq_prod $a $b $p $q hp hq] <;> geq_field)
   | (simp only [harm_den_eq _ _ $p $q hp hq, harm_den_eq _ _ $q $p hq hp] <;> geq_field)))

/-- the zero tests `p = 0 ∨ q = 0` (either operand order, also inside the divisor guard) decided by `hp hq` -/
macro "harm_tests" hp:ident hq:ident loc:(Lean.Parser.Tactic.location)? : tactic => `(tactic|
  simp only [$hp:ident, $hq:ident, true_or, or_true, or_self, or_false, false_or, ↓reduceIte, if_true, if_false] $[$loc]?)

/-- `hv : model = some v ⊢ generated = v`, after both sides have been unfolded (`simp only [definitions] at hv ⊢`).
    Cases on the two neighbours being 0 (EXPLICIT `by_cases` on the model's terms: the zero tests of the generated
    definition may have either operand order and be repeated inside the divisor), then the algebraic core. -/
macro "harm_of_some" p:term:max q:term:max a:term:max b:term:max hv:ident : tactic => `(tactic|
  (by_cases hp0 : $p = 0
   · have e := eq_true hp0
     harm_tests e e at $hv:ident ⊢
     first | exact Option.some.inj $hv | (simp_all <;> done)
   by_cases hq0 : $q = 0
   · have e := eq_true hq0
     harm_tests e e at $hv:ident ⊢
     first | exact Option.some.inj $hv | (simp_all <;> done)
   have ep := eq_false hp0
   have eq := eq_false hq0
   harm_tests ep eq at $hv:ident ⊢
   obtain ⟨_, hv'⟩ := ite_none_some_inv $hv
   subst hv'
   harm_close $p $q $a $b))

/-- `h : p = 0 ∨ q = 0 ∨ model divisor ≠ 0 ⊢ model = some generated`, after both sides have been unfolded -/
macro "harm_eq" p:term:max q:term:max a:term:max b:term:max h:ident : tactic => `(tactic|
  (by_cases hp0 : $p = 0
   · have e := eq_true hp0
     harm_tests e e
     first | done | rfl | (simp_all <;> done)
   by_cases hq0 : $q = 0
   · have e := eq_true hq0
     harm_tests e e
     first | done | rfl | (simp_all <;> done)
   have ep := eq_false hp0
   have eq := eq_false hq0
   harm_tests ep eq at $h:ident ⊢
   refine ite_none_some_intro $h ?_
   harm_close $p $q $a $b))

end PyFV
