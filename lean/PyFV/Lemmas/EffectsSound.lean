/-
  PyFV.Lemmas.EffectsSound — the execution invariant behind the soundness of the effect /
  alias certificate checker (`PyFV.Model.Effects`), and its preservation by every instruction.

  NOTE (scoping).  `Cert.listed` only constrains `pts x` for `x < c.nvars`, and `Cert.initOK`
  only constrains `cont r` for `r ∈ c.regions`; nothing forces the variables of the program to
  be `< c.nvars`.  An earlier version of `Cert.instrOK (.load x y)` did not require
  `c.pts y ⊆ c.regions` and the checker was UNSOUND (certificate `Ex.certBad` for `Ex.progBad`
  below passed `safe` although the program overwrites and returns an input array).  The repaired
  `instrOK` checks exactly `Cert.loadsListed` below (`loadsListed_of_closed`); the natural check
  `Cert.scoped` (all body variables `< c.nvars`) is a sufficient alternative
  (`loadsListed_of_scoped`).
-/
import PyFV.Model.Effects

namespace PyFV.Eff

/-! ### list / Bool helpers -/

theorem contains_spec {a : List Region} {r : Region} : a.contains r = true ↔ r ∈ a := by
  simp

theorem subset_spec {a b : List Region} (h : subset a b = true) : ∀ r, r ∈ a → r ∈ b := by
  intro r hr
  have h' := List.all_eq_true.mp h r hr
  simpa using h'

theorem subset_refl (a : List Region) : subset a a = true := by
  unfold subset
  simp

/-! ### the missing scoping check -/

/-- variables mentioned by an instruction -/
def Instr.vars : Instr → List Var
  | .alias x ys => x :: ys
  | .fresh x _ => [x]
  | .load x y => [x, y]
  | .storeRef y x => [y, x]
  | .write x => [x]
  | .ret x => [x]

/-- every variable of the program body is one of the certificate's `0 … nvars-1`
    (decidable; sufficient for, but stronger than, what `Cert.closed` checks) -/
def Cert.scoped (c : Cert) (p : Prog) : Bool :=
  p.body.all (fun i => i.vars.all (fun v => decide (v < c.nvars)))

/-- what soundness really needs from scoping (decidable, weaker than `Cert.scoped`, part of
    `Cert.instrOK` for `load`): the container variable of every `load` denotes listed regions
    only, so that `initOK` speaks about the contents of whatever it denotes -/
def Cert.loadsListed (c : Cert) (p : Prog) : Bool :=
  p.body.all (fun i => match i with
    | .load _ y => subset (c.pts y) c.regions
    | _ => true)

/-- `Cert.loadsListed` as a proposition -/
structure Scoped (p : Prog) (c : Cert) : Prop where
  loadSrc : ∀ x y, Instr.load x y ∈ p.body → ∀ r, r ∈ c.pts y → r ∈ c.regions

/-! ### unpacking the checker -/

theorem closed_instrOK {p : Prog} {c : Cert} (hc : c.closed p = true) {i : Instr}
    (hi : i ∈ p.body) : c.instrOK i = true := by
  simp only [Cert.closed, Bool.and_eq_true] at hc
  exact List.all_eq_true.mp hc.2 i hi

theorem closed_initOK {p : Prog} {c : Cert} (hc : c.closed p = true) : c.initOK = true := by
  simp only [Cert.closed, Bool.and_eq_true] at hc
  exact hc.1.1.1

theorem closed_paramsOK {p : Prog} {c : Cert} (hc : c.closed p = true) :
    ∀ i, i < p.params.length → p.params.getD i .glob ∈ c.pts i := by
  simp only [Cert.closed, Bool.and_eq_true] at hc
  intro i hi
  have h := List.all_eq_true.mp hc.1.1.2 i (List.mem_range.mpr hi)
  simpa using h

theorem closed_pts_listed {p : Prog} {c : Cert} (hc : c.closed p = true) :
    ∀ x, x < c.nvars → ∀ r, r ∈ c.pts x → r ∈ c.regions := by
  simp only [Cert.closed, Cert.listed, Bool.and_eq_true] at hc
  intro x hx
  exact subset_spec (List.all_eq_true.mp hc.1.2.1.1 x (List.mem_range.mpr hx))

theorem scoped_vars {p : Prog} {c : Cert} (hs : c.scoped p = true) {i : Instr} (hi : i ∈ p.body) :
    ∀ v, v ∈ i.vars → v < c.nvars := by
  intro v hv
  have h := List.all_eq_true.mp (List.all_eq_true.mp hs i hi) v hv
  simpa using h

theorem closed_writes_listed {p : Prog} {c : Cert} (hc : c.closed p = true) :
    ∀ r, r ∈ c.writes → r ∈ c.regions := by
  simp only [Cert.closed, Cert.listed, Bool.and_eq_true] at hc
  exact subset_spec hc.1.2.2

theorem loadsListed_spec {p : Prog} {c : Cert} (hs : c.loadsListed p = true) : Scoped p c := by
  constructor
  intro x y hi
  have h := List.all_eq_true.mp hs _ hi
  exact subset_spec h

/-- the (repaired) checker enforces `loadsListed` -/
theorem loadsListed_of_closed {p : Prog} {c : Cert} (hc : c.closed p = true) :
    c.loadsListed p = true := by
  apply List.all_eq_true.mpr
  intro i hi
  have hok := closed_instrOK hc hi
  cases i with
  | load x y =>
    simp only [Cert.instrOK, Bool.and_eq_true] at hok
    exact hok.1
  | _ => rfl

theorem scoped_of_closed {p : Prog} {c : Cert} (hc : c.closed p = true) : Scoped p c :=
  loadsListed_spec (loadsListed_of_closed hc)

/-- the natural scoping check implies the weak one -/
theorem loadsListed_of_scoped {p : Prog} {c : Cert} (hc : c.closed p = true)
    (hs : c.scoped p = true) : c.loadsListed p = true := by
  apply List.all_eq_true.mpr
  intro i hi
  cases i with
  | load x y =>
    simp only
    apply List.all_eq_true.mpr
    intro r hr
    exact contains_spec.mpr
      (closed_pts_listed hc y (scoped_vars hs hi y (by simp [Instr.vars])) r hr)
  | _ => rfl

theorem mem_rets {p : Prog} {x : Var} (h : Instr.ret x ∈ p.body) : x ∈ p.rets := by
  unfold Prog.rets
  exact List.mem_filterMap.mpr ⟨_, h, rfl⟩

theorem mem_retRegions {p : Prog} {c : Cert} {x : Var} {r : Region}
    (h : Instr.ret x ∈ p.body) (hr : r ∈ c.pts x) : r ∈ c.retRegions p := by
  unfold Cert.retRegions
  exact List.mem_flatMap.mpr ⟨x, mem_rets h, hr⟩

/-! ### the invariant -/

/-- The execution invariant relating the initial configuration `σ₀`, the current one `σ`, and
    the certificate.

    Differences to the naive formulation: the containment clause `refs` is restricted to
    containers whose region is LISTED (`∈ c.regions`) — the initial heap may hold unrelated
    objects of regions the certificate never mentions, for which `c.cont` says nothing — and is
    split from the unconditional allocation clause `refsAlloc`; newly allocated locations are
    additionally known to lie in listed regions or to hold no references at all (`newReg`:
    storing into an object puts its region into `c.writes ⊆ c.regions`). -/
structure Inv (p : Prog) (c : Cert) (σ₀ σ : Conf) : Prop where
  /-- (a) -/
  env : ∀ x l, σ.env x = some l → l < σ.heap.next ∧ σ.heap.reg l ∈ c.pts x
  /-- (b1) -/
  refsAlloc : ∀ l l', l < σ.heap.next → l' ∈ σ.heap.refs l → l' < σ.heap.next
  /-- (b2) -/
  refs : ∀ l l', l < σ.heap.next → σ.heap.reg l ∈ c.regions → l' ∈ σ.heap.refs l →
      σ.heap.reg l' ∈ c.cont (σ.heap.reg l)
  /-- (c1) -/
  oldReg : ∀ l, l < σ₀.heap.next →
      σ.heap.reg l = σ₀.heap.reg l ∧ (σ.heap.reg l).isFresh = false
  /-- (c2) -/
  newReg : ∀ l, σ₀.heap.next ≤ l → l < σ.heap.next →
      (σ.heap.reg l).isFresh = true ∧ (σ.heap.reg l ∈ c.regions ∨ σ.heap.refs l = [])
  /-- (d) -/
  writes : ∀ l, l < σ₀.heap.next →
      (σ.heap.val l ≠ σ₀.heap.val l ∨ σ.heap.refs l ≠ σ₀.heap.refs l) → σ.heap.reg l ∈ c.writes
  /-- (e) -/
  returned : ∀ l, l ∈ σ.returned → l < σ.heap.next ∧ σ.heap.reg l ∈ c.retRegions p
  /-- (f) -/
  mono : σ₀.heap.next ≤ σ.heap.next

variable {p : Prog} {c : Cert} {σ₀ σ : Conf}

/-! ### establishment -/

theorem inv_init_aux (hc : c.closed p = true) (h0 : InitOK p σ₀) : Inv p c σ₀ σ₀ where
  env := by
    intro x l hx
    by_cases hlt : x < p.params.length
    · obtain ⟨l', he, hl', hr⟩ := h0.params x hlt
      rw [he] at hx
      cases hx
      exact ⟨hl', hr ▸ closed_paramsOK hc x hlt⟩
    · rw [h0.others x (Nat.le_of_not_lt hlt)] at hx
      cases hx
  refsAlloc := h0.refsAlloc
  refs := by
    intro l l' hl hreg hmem
    have hi := List.all_eq_true.mp (closed_initOK hc) _ hreg
    cases hr : σ₀.heap.reg l with
    | inp i =>
      rw [hr] at hi
      simp only [Bool.and_eq_true] at hi
      rcases h0.closedInp l l' i hl hr hmem with h | h
      · rw [h]; exact contains_spec.mp hi.1
      · rw [h]; exact contains_spec.mp hi.2
    | meshObj =>
      rw [hr] at hi
      rw [h0.closedMeshObj l l' hl hr hmem]; exact contains_spec.mp hi
    | meshData =>
      rw [hr] at hi
      rw [h0.closedMeshData l l' hl hr hmem]; exact contains_spec.mp hi
    | glob =>
      rw [hr] at hi
      rw [h0.closedGlob l l' hl hr hmem]; exact contains_spec.mp hi
    | fresh k =>
      have := h0.noFresh l hl
      rw [hr] at this
      simp [Region.isFresh] at this
  oldReg := fun l hl => ⟨rfl, h0.noFresh l hl⟩
  newReg := fun l h1 h2 => absurd h2 (Nat.not_lt.mpr h1)
  writes := by
    intro l _ h
    rcases h with h | h <;> exact absurd rfl h
  returned := by
    intro l hl
    rw [h0.noReturn] at hl
    cases hl
  mono := Nat.le_refl _

/-! ### preservation, one lemma per kind of state change -/

/-- rebinding a variable to an allocated location of an admissible region -/
theorem Inv.setEnv (h : Inv p c σ₀ σ) (x : Var) (l : Loc) (hl : l < σ.heap.next)
    (hr : σ.heap.reg l ∈ c.pts x) :
    Inv p c σ₀ { σ with env := fun v => if v = x then some l else σ.env v } where
  env := by
    intro v l' hv
    simp only at hv
    by_cases e : v = x
    · rw [if_pos e] at hv
      cases hv
      subst e
      exact ⟨hl, hr⟩
    · rw [if_neg e] at hv
      exact h.env v l' hv
  refsAlloc := h.refsAlloc
  refs := h.refs
  oldReg := h.oldReg
  newReg := h.newReg
  writes := h.writes
  returned := h.returned
  mono := h.mono

/-- returning an allocated location of a return region -/
theorem Inv.addRet (h : Inv p c σ₀ σ) (l : Loc) (hl : l < σ.heap.next)
    (hr : σ.heap.reg l ∈ c.retRegions p) :
    Inv p c σ₀ { σ with returned := l :: σ.returned } where
  env := h.env
  refsAlloc := h.refsAlloc
  refs := h.refs
  oldReg := h.oldReg
  newReg := h.newReg
  writes := h.writes
  returned := by
    intro l' hl'
    rcases List.mem_cons.mp hl' with e | e
    · subst e
      exact ⟨hl, hr⟩
    · exact h.returned l' e
  mono := h.mono

/-- in-place modification of a location whose region may be written -/
theorem Inv.setVal (h : Inv p c σ₀ σ) (l : Loc) (d : Nat) (hw : σ.heap.reg l ∈ c.writes) :
    Inv p c σ₀ { σ with heap := { σ.heap with
      val := fun a => if a = l then d else σ.heap.val a } } where
  env := h.env
  refsAlloc := h.refsAlloc
  refs := h.refs
  oldReg := h.oldReg
  newReg := h.newReg
  writes := by
    intro a ha hch
    simp only at hch ⊢
    by_cases e : a = l
    · exact e ▸ hw
    · rw [if_neg e] at hch
      exact h.writes a ha hch
  returned := h.returned
  mono := h.mono

/-- storing a reference into a container whose region may be written and may contain it -/
theorem Inv.addRef (h : Inv p c σ₀ σ) (ly lx : Loc) (hx : lx < σ.heap.next)
    (hw : σ.heap.reg ly ∈ c.writes) (hlist : σ.heap.reg ly ∈ c.regions)
    (hcont : σ.heap.reg lx ∈ c.cont (σ.heap.reg ly)) :
    Inv p c σ₀ { σ with heap := { σ.heap with
      refs := fun a => if a = ly then lx :: σ.heap.refs a else σ.heap.refs a } } where
  env := h.env
  refsAlloc := by
    intro a l' ha hm
    simp only at hm ⊢
    by_cases e : a = ly
    · rw [if_pos e] at hm
      rcases List.mem_cons.mp hm with e' | e'
      · exact e' ▸ hx
      · exact h.refsAlloc a l' ha e'
    · rw [if_neg e] at hm
      exact h.refsAlloc a l' ha hm
  refs := by
    intro a l' ha hreg hm
    simp only at hm hreg ⊢
    by_cases e : a = ly
    · rw [if_pos e] at hm
      rcases List.mem_cons.mp hm with e' | e'
      · rw [e', e]; exact hcont
      · exact h.refs a l' ha hreg e'
    · rw [if_neg e] at hm
      exact h.refs a l' ha hreg hm
  oldReg := h.oldReg
  newReg := by
    intro a h1 h2
    simp only at h2 ⊢
    by_cases e : a = ly
    · exact ⟨(h.newReg a h1 h2).1, Or.inl (e ▸ hlist)⟩
    · rw [if_neg e]
      exact h.newReg a h1 h2
  writes := by
    intro a ha hch
    simp only at hch ⊢
    by_cases e : a = ly
    · exact e ▸ hw
    · rw [if_neg e] at hch
      exact h.writes a ha hch
  returned := h.returned
  mono := h.mono

/-- allocation -/
theorem Inv.alloc (h : Inv p c σ₀ σ) (x : Var) (k d : Nat)
    (hp : Region.fresh k ∈ c.pts x) :
    Inv p c σ₀ { σ with
      heap := { reg := fun a => if a = σ.heap.next then .fresh k else σ.heap.reg a,
                val := fun a => if a = σ.heap.next then d else σ.heap.val a,
                refs := fun a => if a = σ.heap.next then [] else σ.heap.refs a,
                next := σ.heap.next + 1 },
      env := fun v => if v = x then some σ.heap.next else σ.env v } where
  env := by
    intro v l hv
    simp only at hv ⊢
    by_cases e : v = x
    · rw [if_pos e] at hv
      cases hv
      rw [if_pos rfl]
      exact ⟨Nat.lt_succ_self _, e ▸ hp⟩
    · rw [if_neg e] at hv
      obtain ⟨h1, h2⟩ := h.env v l hv
      rw [if_neg (Nat.ne_of_lt h1)]
      exact ⟨Nat.lt_succ_of_lt h1, h2⟩
  refsAlloc := by
    intro a l' ha hm
    simp only at hm ha ⊢
    by_cases e : a = σ.heap.next
    · rw [if_pos e] at hm
      cases hm
    · rw [if_neg e] at hm
      have ha' : a < σ.heap.next := Nat.lt_of_le_of_ne (Nat.le_of_lt_succ ha) e
      exact Nat.lt_succ_of_lt (h.refsAlloc a l' ha' hm)
  refs := by
    intro a l' ha hreg hm
    simp only at hm ha hreg ⊢
    by_cases e : a = σ.heap.next
    · rw [if_pos e] at hm
      cases hm
    · rw [if_neg e] at hm hreg ⊢
      have ha' : a < σ.heap.next := Nat.lt_of_le_of_ne (Nat.le_of_lt_succ ha) e
      have hl' := h.refsAlloc a l' ha' hm
      rw [if_neg (Nat.ne_of_lt hl')]
      exact h.refs a l' ha' hreg hm
  oldReg := by
    intro a ha
    simp only
    have : a ≠ σ.heap.next := Nat.ne_of_lt (Nat.lt_of_lt_of_le ha h.mono)
    rw [if_neg this]
    exact h.oldReg a ha
  newReg := by
    intro a h1 h2
    simp only at h2 ⊢
    by_cases e : a = σ.heap.next
    · rw [if_pos e, if_pos e]
      exact ⟨rfl, Or.inr rfl⟩
    · rw [if_neg e, if_neg e]
      exact h.newReg a h1 (Nat.lt_of_le_of_ne (Nat.le_of_lt_succ h2) e)
  writes := by
    intro a ha hch
    simp only at hch ⊢
    have : a ≠ σ.heap.next := Nat.ne_of_lt (Nat.lt_of_lt_of_le ha h.mono)
    rw [if_neg this, if_neg this] at hch
    rw [if_neg this]
    exact h.writes a ha hch
  returned := by
    intro l hl
    simp only at hl ⊢
    obtain ⟨h1, h2⟩ := h.returned l hl
    rw [if_neg (Nat.ne_of_lt h1)]
    exact ⟨Nat.lt_succ_of_lt h1, h2⟩
  mono := Nat.le_succ_of_le h.mono

/-! ### one instruction of the program preserves the invariant -/

theorem inv_step_aux (hc : c.closed p = true) (hs : Scoped p c) (h : Inv p c σ₀ σ)
    (i : Instr) (ch : Choice) (hi : i ∈ p.body) : Inv p c σ₀ (stepI σ ch i) := by
  have hok := closed_instrOK hc hi
  cases i with
  | «alias» x ys =>
    simp only [stepI]
    split
    · rename_i y hy
      split
      · rename_i l hl
        obtain ⟨h1, h2⟩ := h.env y l hl
        have hy' : y ∈ ys := List.mem_of_getElem? hy
        simp only [Cert.instrOK] at hok
        exact h.setEnv x l h1 (subset_spec (List.all_eq_true.mp hok y hy') _ h2)
      · exact h
    · exact h
  | fresh x k =>
    simp only [Cert.instrOK] at hok
    exact h.alloc x k ch.data (contains_spec.mp hok)
  | load x y =>
    simp only [stepI]
    split
    · rename_i l hl
      split
      · rename_i l' hl'
        obtain ⟨h1, h2⟩ := h.env y l hl
        have hm : l' ∈ σ.heap.refs l := List.mem_of_getElem? hl'
        simp only [Cert.instrOK, Bool.and_eq_true] at hok
        have h3 := h.refs l l' h1 (hs.loadSrc x y hi _ h2) hm
        exact h.setEnv x l' (h.refsAlloc l l' h1 hm)
          (subset_spec (List.all_eq_true.mp hok.2 _ h2) _ h3)
      · exact h
    · exact h
  | storeRef y x =>
    simp only [stepI]
    split
    · rename_i ly lx hly hlx
      obtain ⟨_, h2⟩ := h.env y ly hly
      obtain ⟨h3, h4⟩ := h.env x lx hlx
      simp only [Cert.instrOK] at hok
      have := List.all_eq_true.mp hok _ h2
      simp only [Bool.and_eq_true] at this
      exact h.addRef ly lx h3 (contains_spec.mp this.2)
        (closed_writes_listed hc _ (contains_spec.mp this.2)) (subset_spec this.1 _ h4)
    · exact h
  | write x =>
    simp only [stepI]
    split
    · rename_i l hl
      obtain ⟨_, h2⟩ := h.env x l hl
      simp only [Cert.instrOK] at hok
      exact h.setVal l ch.data (subset_spec hok _ h2)
    · exact h
  | ret x =>
    simp only [stepI]
    split
    · rename_i l hl
      obtain ⟨h1, h2⟩ := h.env x l hl
      exact h.addRet l h1 (mem_retRegions hi h2)
    · exact h

theorem inv_exec_aux (hc : c.closed p = true) (hs : Scoped p c)
    (tr : List (Instr × Choice)) : ∀ σ, Inv p c σ₀ σ → (∀ ic, ic ∈ tr → ic.1 ∈ p.body) →
      Inv p c σ₀ (exec σ tr) := by
  induction tr with
  | nil => intro σ h _; exact h
  | cons ic rest ih =>
    intro σ h hm
    obtain ⟨i, ch⟩ := ic
    simp only [exec]
    exact ih _ (inv_step_aux hc hs h i ch (hm (i, ch) (List.mem_cons_self)))
      (fun ic' h' => hm ic' (List.mem_cons_of_mem _ h'))

/-! ### reading the `safe` check -/

theorem safe_closed {mutable allowedRet : List Region} (h : safe p c mutable allowedRet = true) :
    c.closed p = true := by
  simp only [safe, Bool.and_eq_true] at h
  exact h.1.1.1

theorem safe_writes {mutable allowedRet : List Region} (h : safe p c mutable allowedRet = true) :
    ∀ r, r ∈ c.writes → r.isFresh = true ∨ r ∈ mutable := by
  simp only [safe, Bool.and_eq_true] at h
  intro r hr
  have := List.all_eq_true.mp h.1.1.2 r hr
  simpa using this

theorem safe_rets {mutable allowedRet : List Region} (h : safe p c mutable allowedRet = true) :
    ∀ r, r ∈ c.retRegions p → r.isFresh = true ∨ r ∈ allowedRet := by
  simp only [safe, Bool.and_eq_true] at h
  intro r hr
  have := List.all_eq_true.mp h.1.2 r hr
  simpa using this

theorem safe_cont {mutable allowedRet : List Region} (h : safe p c mutable allowedRet = true) :
    ∀ r, r ∈ c.regions → r.isFresh = true → ∀ q, q ∈ c.cont r →
      q.isFresh = true ∨ q = .meshObj ∨ q ∈ allowedRet := by
  simp only [safe, Bool.and_eq_true] at h
  intro r hr hf q hq
  have h1 := List.all_eq_true.mp h.2 r hr
  rw [hf] at h1
  simp only [Bool.not_true, Bool.false_or] at h1
  have h2 := List.all_eq_true.mp h1 q hq
  simpa [or_assoc] using h2

end PyFV.Eff

/-! ### worked examples (programs, certificates, heaps) used by `PyFV.Props.C15` -/

namespace PyFV.Eff.Ex

/-- `def f(m): X = FaceVariable(m, 0); X._xvalue = m.facecenters._x; return X`
    variables: 0 = `m`, 1 = `X`, 2 = `t` (the mesh array) -/
def progAlias : Prog :=
  ⟨[.meshObj], [.fresh 1 0, .load 2 0, .storeRef 1 2, .ret 1]⟩

def certAlias : Cert where
  pts := fun x => match x with
    | 0 => [.meshObj] | 1 => [.fresh 0] | 2 => [.meshData] | _ => []
  cont := fun r => match r with
    | .meshObj => [.meshData] | .meshData => [.meshData] | .fresh 0 => [.meshData] | _ => []
  writes := [.fresh 0]
  nvars := 3
  regions := [.meshObj, .meshData, .fresh 0]

/-- the repaired function `X._xvalue = m.facecenters._x.copy()`; variable 3 = the copy -/
def progCopy : Prog :=
  ⟨[.meshObj], [.fresh 1 0, .load 2 0, .fresh 3 1, .storeRef 1 3, .ret 1]⟩

def certCopy : Cert where
  pts := fun x => match x with
    | 0 => [.meshObj] | 1 => [.fresh 0] | 2 => [.meshData] | 3 => [.fresh 1] | _ => []
  cont := fun r => match r with
    | .meshObj => [.meshData] | .meshData => [.meshData] | .fresh 0 => [.fresh 1] | _ => []
  writes := [.fresh 0]
  nvars := 4
  regions := [.meshObj, .meshData, .fresh 0, .fresh 1]

/-- a caller heap for both: location 0 is the mesh object, holding the mesh array 1 -/
def σmesh : Conf where
  heap := { reg := fun a => if a = 0 then .meshObj else .meshData,
            val := fun _ => 0,
            refs := fun a => if a = 0 then [1] else [],
            next := 2 }
  env := fun v => if v = 0 then some 0 else none
  returned := []

theorem initMesh (body : List Instr) : InitOK ⟨[.meshObj], body⟩ σmesh where
  params := by
    intro i hi
    have : i = 0 := by simpa using hi
    subst this
    exact ⟨0, rfl, by decide, rfl⟩
  others := by
    intro v hv
    have : v ≠ 0 := by
      intro e; subst e; simp at hv
    simp [σmesh, this]
  noFresh := by
    intro l _
    simp only [σmesh]
    split <;> rfl
  refsAlloc := by
    intro l l' _ hm
    simp only [σmesh] at hm ⊢
    split at hm
    · have : l' = 1 := by simpa using hm
      subst this; decide
    · cases hm
  closedInp := by
    intro l l' i _ hr
    simp only [σmesh] at hr
    split at hr <;> cases hr
  closedMeshObj := by
    intro l l' _ hr hm
    simp only [σmesh] at hr hm ⊢
    split at hr
    · rename_i e
      rw [if_pos e] at hm
      have : l' = 1 := by simpa using hm
      subst this; rfl
    · cases hr
  closedMeshData := by
    intro l l' _ hr hm
    simp only [σmesh] at hr hm ⊢
    split at hr
    · cases hr
    · rename_i e
      rw [if_neg e] at hm
      cases hm
  closedGlob := by
    intro l l' _ hr
    simp only [σmesh] at hr
    split at hr <;> cases hr
  noReturn := rfl

/-- `def g(a): a[:] = 0` — an in-place write to an input array -/
def progWrite : Prog := ⟨[.inp 0], [.write 0]⟩

def certWrite : Cert where
  pts := fun x => match x with | 0 => [.inp 0] | _ => []
  cont := fun r => match r with
    | .inp 0 => [.inp 0, .meshObj] | .meshObj => [.meshData] | .meshData => [.meshData] | _ => []
  writes := [.inp 0]
  nvars := 1
  regions := [.inp 0, .meshObj, .meshData]

/-! an unscoped certificate (`nvars = 0`) that is wrong, passed the checker before `instrOK`
    for `load` required `pts y ⊆ regions`, and is rejected now:
    `def h(a): t = a.arr; t[:] = 5; Y = Obj(); Y.f = t; return t` (and also `Y`) -/

def progBad : Prog :=
  ⟨[.inp 0], [.load 1 0, .write 1, .ret 1, .fresh 2 0, .storeRef 2 1, .ret 2]⟩

def certBad : Cert where
  pts := fun x => match x with | 0 => [.inp 0] | 2 => [.fresh 0] | _ => []
  cont := fun _ => []
  writes := [.fresh 0]
  nvars := 0
  regions := [.fresh 0]

/-- location 0 is an input object holding the input array 1 -/
def σbad : Conf where
  heap := { reg := fun _ => .inp 0, val := fun _ => 0,
            refs := fun a => if a = 0 then [1] else [], next := 2 }
  env := fun v => if v = 0 then some 0 else none
  returned := []

theorem initBad : InitOK progBad σbad where
  params := by
    intro i hi
    have : i = 0 := by simpa [progBad] using hi
    subst this
    exact ⟨0, rfl, by decide, rfl⟩
  others := by
    intro v hv
    have : v ≠ 0 := by
      intro e; subst e; simp [progBad] at hv
    simp [σbad, this]
  noFresh := fun _ _ => rfl
  refsAlloc := by
    intro l l' _ hm
    simp only [σbad] at hm ⊢
    split at hm
    · have : l' = 1 := by simpa using hm
      subst this; decide
    · cases hm
  closedInp := by
    intro l l' i _ hr _
    exact Or.inl hr
  closedMeshObj := by intro l l' _ hr; cases hr
  closedMeshData := by intro l l' _ hr; cases hr
  closedGlob := by intro l l' _ hr; cases hr
  noReturn := rfl

/-- an unrelated heap: two module-level objects, the first referring to the second; the empty
    program with the empty certificate -/
def σglob : Conf where
  heap := { reg := fun _ => .glob, val := fun _ => 0,
            refs := fun a => if a = 0 then [1] else [], next := 2 }
  env := fun _ => none
  returned := []

def certEmpty : Cert where
  pts := fun _ => []
  cont := fun _ => []
  writes := []
  nvars := 0
  regions := []

theorem initGlob : InitOK ⟨[], []⟩ σglob where
  params := by intro i hi; cases hi
  others := fun _ _ => rfl
  noFresh := fun _ _ => rfl
  refsAlloc := by
    intro l l' _ hm
    simp only [σglob] at hm ⊢
    split at hm
    · have : l' = 1 := by simpa using hm
      subst this; decide
    · cases hm
  closedInp := by intro l l' i _ hr; cases hr
  closedMeshObj := by intro l l' _ hr; cases hr
  closedMeshData := by intro l l' _ hr; cases hr
  closedGlob := fun _ _ _ _ _ => rfl
  noReturn := rfl

end PyFV.Eff.Ex
