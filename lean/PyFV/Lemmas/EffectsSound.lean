/-
  PyFV.Lemmas.EffectsSound — the execution invariant behind the soundness of the effect /
  alias certificate checker (`PyFV.Model.Effects`), and its preservation by every instruction.

  NOTE (scoping).  `Cert.listed` only constrains `pts x` for `x < c.nvars`, and `Cert.initOK`
  only constrains `cont r` for `r ∈ c.regions`; `Cert.closed` does not check that the variables
  of the program are `< c.nvars`.  Without that the checker is UNSOUND (see the counterexamples
  in `PyFV.Props.C15`).  The missing decidable check is `Cert.scoped` below; it should be
  conjoined to `Cert.closed`.  Semantically only two consequences are used (`Scoped`).
-/
import PyFV.Model.Effects

namespace PyFV.Eff

/-! ### list / Bool helpers -/

theorem contains_spec {a : List Region} {r : Region} : a.contains r = true ↔ r ∈ a := by
  simp

theorem subset_spec {a b : List Region} (h : subset a b = true) : ∀ r, r ∈ a → r ∈ b := by
  intro r hr
  have h' := List.all_eq_true.mp h r hr
  simpa using h'

theorem subset_refl (a : List Region) : subset a a = true := by
  unfold subset
  simp

/-! ### the missing scoping check -/

/-- variables mentioned by an instruction -/
def Instr.vars : Instr → List Var
  | .alias x ys => x :: ys
  | .fresh x _ => [x]
  | .load x y => [x, y]
  | .storeRef y x => [y, x]
  | .write x => [x]
  | .ret x => [x]

/-- every variable of the program body is one of the certificate's `0 … nvars-1`
    (decidable; SHOULD BE PART OF `Cert.closed`) -/
def Cert.scoped (c : Cert) (p : Prog) : Bool :=
  p.body.all (fun i => i.vars.all (fun v => decide (v < c.nvars)))

/-- what soundness really needs from scoping: the container variable of every `load` denotes
    listed regions only (so `initOK` speaks about their contents), and every allocation site of
    the program is listed (so the 4th clause of `safe` speaks about its contents) -/
structure Scoped (p : Prog) (c : Cert) : Prop where
  loadSrc : ∀ x y, Instr.load x y ∈ p.body → ∀ r, r ∈ c.pts y → r ∈ c.regions
  freshSite : ∀ x k, Instr.fresh x k ∈ p.body → Region.fresh k ∈ c.regions

/-! ### unpacking the checker -/

theorem closed_instrOK {p : Prog} {c : Cert} (hc : c.closed p = true) {i : Instr}
    (hi : i ∈ p.body) : c.instrOK i = true := by
  simp only [Cert.closed, Bool.and_eq_true] at hc
  exact List.all_eq_true.mp hc.2 i hi

theorem closed_initOK {p : Prog} {c : Cert} (hc : c.closed p = true) : c.initOK = true := by
  simp only [Cert.closed, Bool.and_eq_true] at hc
  exact hc.1.1.1

theorem closed_paramsOK {p : Prog} {c : Cert} (hc : c.closed p = true) :
    ∀ i, i < p.params.length → p.params.getD i .glob ∈ c.pts i := by
  simp only [Cert.closed, Bool.and_eq_true] at hc
  intro i hi
  have h := List.all_eq_true.mp hc.1.1.2 i (List.mem_range.mpr hi)
  simpa using h

theorem closed_pts_listed {p : Prog} {c : Cert} (hc : c.closed p = true) :
    ∀ x, x < c.nvars → ∀ r, r ∈ c.pts x → r ∈ c.regions := by
  simp only [Cert.closed, Cert.listed, Bool.and_eq_true] at hc
  intro x hx
  exact subset_spec (List.all_eq_true.mp hc.1.2.1.1 x (List.mem_range.mpr hx))

theorem scoped_vars {p : Prog} {c : Cert} (hs : c.scoped p = true) {i : Instr} (hi : i ∈ p.body) :
    ∀ v, v ∈ i.vars → v < c.nvars := by
  intro v hv
  have h := List.all_eq_true.mp (List.all_eq_true.mp hs i hi) v hv
  simpa using h

theorem scoped_spec {p : Prog} {c : Cert} (hc : c.closed p = true) (hs : c.scoped p = true) :
    Scoped p c := by
  constructor
  · intro x y hi
    exact closed_pts_listed hc y (scoped_vars hs hi y (by simp [Instr.vars]))
  · intro x k hi
    have hx : x < c.nvars := scoped_vars hs hi x (by simp [Instr.vars])
    have hk : c.instrOK (.fresh x k) = true := closed_instrOK hc hi
    simp only [Cert.instrOK] at hk
    exact closed_pts_listed hc x hx _ (contains_spec.mp hk)

theorem mem_rets {p : Prog} {x : Var} (h : Instr.ret x ∈ p.body) : x ∈ p.rets := by
  unfold Prog.rets
  exact List.mem_filterMap.mpr ⟨_, h, rfl⟩

theorem mem_retRegions {p : Prog} {c : Cert} {x : Var} {r : Region}
    (h : Instr.ret x ∈ p.body) (hr : r ∈ c.pts x) : r ∈ c.retRegions p := by
  unfold Cert.retRegions
  exact List.mem_flatMap.mpr ⟨x, mem_rets h, hr⟩

/-! ### the invariant -/

/-- The execution invariant relating the initial configuration `σ₀`, the current one `σ`, and
    the certificate.

    Differences to the naive formulation: the containment clause `refs` is restricted to
    containers whose region is LISTED (`∈ c.regions`) — the initial heap may hold unrelated
    objects of regions the certificate never mentions, for which `c.cont` says nothing — and is
    split from the unconditional allocation clause `refsAlloc`; newly allocated locations are
    additionally known to lie in listed regions (`newReg`). -/
structure Inv (p : Prog) (c : Cert) (σ₀ σ : Conf) : Prop where
  /-- (a) -/
  env : ∀ x l, σ.env x = some l → l < σ.heap.next ∧ σ.heap.reg l ∈ c.pts x
  /-- (b1) -/
  refsAlloc : ∀ l l', l < σ.heap.next → l' ∈ σ.heap.refs l → l' < σ.heap.next
  /-- (b2) -/
  refs : ∀ l l', l < σ.heap.next → σ.heap.reg l ∈ c.regions → l' ∈ σ.heap.refs l →
      σ.heap.reg l' ∈ c.cont (σ.heap.reg l)
  /-- (c1) -/
  oldReg : ∀ l, l < σ₀.heap.next →
      σ.heap.reg l = σ₀.heap.reg l ∧ (σ.heap.reg l).isFresh = false
  /-- (c2) -/
  newReg : ∀ l, σ₀.heap.next ≤ l → l < σ.heap.next →
      (σ.heap.reg l).isFresh = true ∧ σ.heap.reg l ∈ c.regions
  /-- (d) -/
  writes : ∀ l, l < σ₀.heap.next →
      (σ.heap.val l ≠ σ₀.heap.val l ∨ σ.heap.refs l ≠ σ₀.heap.refs l) → σ.heap.reg l ∈ c.writes
  /-- (e) -/
  returned : ∀ l, l ∈ σ.returned → l < σ.heap.next ∧ σ.heap.reg l ∈ c.retRegions p
  /-- (f) -/
  mono : σ₀.heap.next ≤ σ.heap.next

variable {p : Prog} {c : Cert} {σ₀ σ : Conf}

/-! ### establishment -/

theorem inv_init_aux (hc : c.closed p = true) (h0 : InitOK p σ₀) : Inv p c σ₀ σ₀ where
  env := by
    intro x l hx
    by_cases hlt : x < p.params.length
    · obtain ⟨l', he, hl', hr⟩ := h0.params x hlt
      rw [he] at hx
      cases hx
      exact ⟨hl', hr ▸ closed_paramsOK hc x hlt⟩
    · rw [h0.others x (Nat.le_of_not_lt hlt)] at hx
      cases hx
  refsAlloc := h0.refsAlloc
  refs := by
    intro l l' hl hreg hmem
    have hi := List.all_eq_true.mp (closed_initOK hc) _ hreg
    cases hr : σ₀.heap.reg l with
    | inp i =>
      rw [hr] at hi
      simp only [Bool.and_eq_true] at hi
      rcases h0.closedInp l l' i hl hr hmem with h | h
      · rw [h]; exact contains_spec.mp hi.1
      · rw [h]; exact contains_spec.mp hi.2
    | meshObj =>
      rw [hr] at hi
      rw [h0.closedMeshObj l l' hl hr hmem]; exact contains_spec.mp hi
    | meshData =>
      rw [hr] at hi
      rw [h0.closedMeshData l l' hl hr hmem]; exact contains_spec.mp hi
    | glob =>
      rw [hr] at hi
      rw [h0.closedGlob l l' hl hr hmem]; exact contains_spec.mp hi
    | fresh k =>
      have := h0.noFresh l hl
      rw [hr] at this
      simp [Region.isFresh] at this
  oldReg := fun l hl => ⟨rfl, h0.noFresh l hl⟩
  newReg := fun l h1 h2 => absurd h2 (Nat.not_lt.mpr h1)
  writes := by
    intro l _ h
    rcases h with h | h <;> exact absurd rfl h
  returned := by
    intro l hl
    rw [h0.noReturn] at hl
    cases hl
  mono := Nat.le_refl _

/-! ### preservation, one lemma per kind of state change -/

/-- rebinding a variable to an allocated location of an admissible region -/
theorem Inv.setEnv (h : Inv p c σ₀ σ) (x : Var) (l : Loc) (hl : l < σ.heap.next)
    (hr : σ.heap.reg l ∈ c.pts x) :
    Inv p c σ₀ { σ with env := fun v => if v = x then some l else σ.env v } where
  env := by
    intro v l' hv
    simp only at hv
    by_cases e : v = x
    · rw [if_pos e] at hv
      cases hv
      subst e
      exact ⟨hl, hr⟩
    · rw [if_neg e] at hv
      exact h.env v l' hv
  refsAlloc := h.refsAlloc
  refs := h.refs
  oldReg := h.oldReg
  newReg := h.newReg
  writes := h.writes
  returned := h.returned
  mono := h.mono

/-- returning an allocated location of a return region -/
theorem Inv.addRet (h : Inv p c σ₀ σ) (l : Loc) (hl : l < σ.heap.next)
    (hr : σ.heap.reg l ∈ c.retRegions p) :
    Inv p c σ₀ { σ with returned := l :: σ.returned } where
  env := h.env
  refsAlloc := h.refsAlloc
  refs := h.refs
  oldReg := h.oldReg
  newReg := h.newReg
  writes := h.writes
  returned := by
    intro l' hl'
    rcases List.mem_cons.mp hl' with e | e
    · subst e
      exact ⟨hl, hr⟩
    · exact h.returned l' e
  mono := h.mono

/-- in-place modification of a location whose region may be written -/
theorem Inv.setVal (h : Inv p c σ₀ σ) (l : Loc) (d : Nat) (hw : σ.heap.reg l ∈ c.writes) :
    Inv p c σ₀ { σ with heap := { σ.heap with
      val := fun a => if a = l then d else σ.heap.val a } } where
  env := h.env
  refsAlloc := h.refsAlloc
  refs := h.refs
  oldReg := h.oldReg
  newReg := h.newReg
  writes := by
    intro a ha hch
    simp only at hch ⊢
    by_cases e : a = l
    · exact e ▸ hw
    · rw [if_neg e] at hch
      exact h.writes a ha hch
  returned := h.returned
  mono := h.mono

/-- storing a reference into a container whose region may be written and may contain it -/
theorem Inv.addRef (h : Inv p c σ₀ σ) (ly lx : Loc) (hx : lx < σ.heap.next)
    (hw : σ.heap.reg ly ∈ c.writes) (hcont : σ.heap.reg lx ∈ c.cont (σ.heap.reg ly)) :
    Inv p c σ₀ { σ with heap := { σ.heap with
      refs := fun a => if a = ly then lx :: σ.heap.refs a else σ.heap.refs a } } where
  env := h.env
  refsAlloc := by
    intro a l' ha hm
    simp only at hm ⊢
    by_cases e : a = ly
    · rw [if_pos e] at hm
      rcases List.mem_cons.mp hm with e' | e'
      · exact e' ▸ hx
      · exact h.refsAlloc a l' ha e'
    · rw [if_neg e] at hm
      exact h.refsAlloc a l' ha hm
  refs := by
    intro a l' ha hreg hm
    simp only at hm hreg ⊢
    by_cases e : a = ly
    · rw [if_pos e] at hm
      rcases List.mem_cons.mp hm with e' | e'
      · rw [e', e]; exact hcont
      · exact h.refs a l' ha hreg e'
    · rw [if_neg e] at hm
      exact h.refs a l' ha hreg hm
  oldReg := h.oldReg
  newReg := h.newReg
  writes := by
    intro a ha hch
    simp only at hch ⊢
    by_cases e : a = ly
    · exact e ▸ hw
    · rw [if_neg e] at hch
      exact h.writes a ha hch
  returned := h.returned
  mono := h.mono

/-- allocation at a listed allocation site -/
theorem Inv.alloc (h : Inv p c σ₀ σ) (x : Var) (k d : Nat)
    (hp : Region.fresh k ∈ c.pts x) (hk : Region.fresh k ∈ c.regions) :
    Inv p c σ₀ { σ with
      heap := { reg := fun a => if a = σ.heap.next then .fresh k else σ.heap.reg a,
                val := fun a => if a = σ.heap.next then d else σ.heap.val a,
                refs := fun a => if a = σ.heap.next then [] else σ.heap.refs a,
                next := σ.heap.next + 1 },
      env := fun v => if v = x then some σ.heap.next else σ.env v } where
  env := by
    intro v l hv
    simp only at hv ⊢
    by_cases e : v = x
    · rw [if_pos e] at hv
      cases hv
      rw [if_pos rfl]
      exact ⟨Nat.lt_succ_self _, e ▸ hp⟩
    · rw [if_neg e] at hv
      obtain ⟨h1, h2⟩ := h.env v l hv
      rw [if_neg (Nat.ne_of_lt h1)]
      exact ⟨Nat.lt_succ_of_lt h1, h2⟩
  refsAlloc := by
    intro a l' ha hm
    simp only at hm ha ⊢
    by_cases e : a = σ.heap.next
    · rw [if_pos e] at hm
      cases hm
    · rw [if_neg e] at hm
      have ha' : a < σ.heap.next := Nat.lt_of_le_of_ne (Nat.le_of_lt_succ ha) e
      exact Nat.lt_succ_of_lt (h.refsAlloc a l' ha' hm)
  refs := by
    intro a l' ha hreg hm
    simp only at hm ha hreg ⊢
    by_cases e : a = σ.heap.next
    · rw [if_pos e] at hm
      cases hm
    · rw [if_neg e] at hm hreg ⊢
      have ha' : a < σ.heap.next := Nat.lt_of_le_of_ne (Nat.le_of_lt_succ ha) e
      have hl' := h.refsAlloc a l' ha' hm
      rw [if_neg (Nat.ne_of_lt hl')]
      exact h.refs a l' ha' hreg hm
  oldReg := by
    intro a ha
    simp only
    have : a ≠ σ.heap.next := Nat.ne_of_lt (Nat.lt_of_lt_of_le ha h.mono)
    rw [if_neg this]
    exact h.oldReg a ha
  newReg := by
    intro a h1 h2
    simp only at h2 ⊢
    by_cases e : a = σ.heap.next
    · rw [if_pos e]
      exact ⟨rfl, hk⟩
    · rw [if_neg e]
      exact h.newReg a h1 (Nat.lt_of_le_of_ne (Nat.le_of_lt_succ h2) e)
  writes := by
    intro a ha hch
    simp only at hch ⊢
    have : a ≠ σ.heap.next := Nat.ne_of_lt (Nat.lt_of_lt_of_le ha h.mono)
    rw [if_neg this, if_neg this] at hch
    rw [if_neg this]
    exact h.writes a ha hch
  returned := by
    intro l hl
    simp only at hl ⊢
    obtain ⟨h1, h2⟩ := h.returned l hl
    rw [if_neg (Nat.ne_of_lt h1)]
    exact ⟨Nat.lt_succ_of_lt h1, h2⟩
  mono := Nat.le_succ_of_le h.mono

/-! ### one instruction of the program preserves the invariant -/

theorem inv_step_aux (hc : c.closed p = true) (hs : Scoped p c) (h : Inv p c σ₀ σ)
    (i : Instr) (ch : Choice) (hi : i ∈ p.body) : Inv p c σ₀ (stepI σ ch i) := by
  have hok := closed_instrOK hc hi
  cases i with
  | «alias» x ys =>
    simp only [stepI]
    split
    · rename_i y hy
      split
      · rename_i l hl
        obtain ⟨h1, h2⟩ := h.env y l hl
        have hy' : y ∈ ys := List.mem_of_getElem? hy
        simp only [Cert.instrOK] at hok
        exact h.setEnv x l h1 (subset_spec (List.all_eq_true.mp hok y hy') _ h2)
      · exact h
    · exact h
  | fresh x k =>
    simp only [Cert.instrOK] at hok
    exact h.alloc x k ch.data (contains_spec.mp hok) (hs.freshSite x k hi)
  | load x y =>
    simp only [stepI]
    split
    · rename_i l hl
      split
      · rename_i l' hl'
        obtain ⟨h1, h2⟩ := h.env y l hl
        have hm : l' ∈ σ.heap.refs l := List.mem_of_getElem? hl'
        simp only [Cert.instrOK] at hok
        have h3 := h.refs l l' h1 (hs.loadSrc x y hi _ h2) hm
        exact h.setEnv x l' (h.refsAlloc l l' h1 hm)
          (subset_spec (List.all_eq_true.mp hok _ h2) _ h3)
      · exact h
    · exact h
  | storeRef y x =>
    simp only [stepI]
    split
    · rename_i ly lx hly hlx
      obtain ⟨_, h2⟩ := h.env y ly hly
      obtain ⟨h3, h4⟩ := h.env x lx hlx
      simp only [Cert.instrOK] at hok
      have := List.all_eq_true.mp hok _ h2
      simp only [Bool.and_eq_true] at this
      exact h.addRef ly lx h3 (contains_spec.mp this.2) (subset_spec this.1 _ h4)
    · exact h
  | write x =>
    simp only [stepI]
    split
    · rename_i l hl
      obtain ⟨_, h2⟩ := h.env x l hl
      simp only [Cert.instrOK] at hok
      exact h.setVal l ch.data (subset_spec hok _ h2)
    · exact h
  | ret x =>
    simp only [stepI]
    split
    · rename_i l hl
      obtain ⟨h1, h2⟩ := h.env x l hl
      exact h.addRet l h1 (mem_retRegions hi h2)
    · exact h

theorem inv_exec_aux (hc : c.closed p = true) (hs : Scoped p c)
    (tr : List (Instr × Choice)) : ∀ σ, Inv p c σ₀ σ → (∀ ic, ic ∈ tr → ic.1 ∈ p.body) →
      Inv p c σ₀ (exec σ tr) := by
  induction tr with
  | nil => intro σ h _; exact h
  | cons ic rest ih =>
    intro σ h hm
    obtain ⟨i, ch⟩ := ic
    simp only [exec]
    exact ih _ (inv_step_aux hc hs h i ch (hm (i, ch) (List.mem_cons_self)))
      (fun ic' h' => hm ic' (List.mem_cons_of_mem _ h'))

/-! ### reading the `safe` check -/

theorem safe_closed {mutable allowedRet : List Region} (h : safe p c mutable allowedRet = true) :
    c.closed p = true := by
  simp only [safe, Bool.and_eq_true] at h
  exact h.1.1.1

theorem safe_writes {mutable allowedRet : List Region} (h : safe p c mutable allowedRet = true) :
    ∀ r, r ∈ c.writes → r.isFresh = true ∨ r ∈ mutable := by
  simp only [safe, Bool.and_eq_true] at h
  intro r hr
  have := List.all_eq_true.mp h.1.1.2 r hr
  simpa using this

theorem safe_rets {mutable allowedRet : List Region} (h : safe p c mutable allowedRet = true) :
    ∀ r, r ∈ c.retRegions p → r.isFresh = true ∨ r ∈ allowedRet := by
  simp only [safe, Bool.and_eq_true] at h
  intro r hr
  have := List.all_eq_true.mp h.1.2 r hr
  simpa using this

theorem safe_cont {mutable allowedRet : List Region} (h : safe p c mutable allowedRet = true) :
    ∀ r, r ∈ c.regions → r.isFresh = true → ∀ q, q ∈ c.cont r →
      q.isFresh = true ∨ q = .meshObj ∨ q ∈ allowedRet := by
  simp only [safe, Bool.and_eq_true] at h
  intro r hr hf q hq
  have h1 := List.all_eq_true.mp h.2 r hr
  rw [hf] at h1
  simp only [Bool.not_true, Bool.false_or] at h1
  have h2 := List.all_eq_true.mp h1 q hq
  simpa [or_assoc] using h2

end PyFV.Eff
