/-
  PyFV.Lemmas.VarAlgLemmas — helper lemmas for `PyFV.Props.C14Val`:
  * a successful `List.lookup` returns an entry of the list;
  * what `evalRow` / `evalFaceRow` results look like (inversion lemmas);
  * the ghosted array of ANY `CellVar` (i.e. of any constructor call with interior values) honours
    its own boundary conditions — the C03 theorems about `withGhosts`, re-packaged per face.
-/
import PyFV.Model.VarAlg
import PyFV.Props.C03

set_option linter.unusedSectionVars false

namespace PyFV
open PyFV.Gen.Ops

variable {α : Type} [Field α] [LinearOrder α] [IsStrictOrderedRing α]

/-! ### table lookup -/

theorem mem_of_lookup_eq_some {β : Type} {k : String} {v : β} :
    ∀ {l : List (String × β)}, l.lookup k = some v → (k, v) ∈ l
  | [], h => by simp [List.lookup] at h
  | (k', v') :: l, h => by
    rw [List.lookup_cons] at h
    by_cases e : k = k'
    · subst e
      simp only [beq_self_eq_true] at h
      obtain rfl := Option.some.inj h
      exact List.mem_cons_self
    · have : (k == k') = false := by simpa using e
      rw [this] at h
      exact List.mem_cons_of_mem _ (mem_of_lookup_eq_some h)

/-! ### inversion of `evalRow` -/

/-- a defined `evalRow` result: on `self.domain`, with the selected boundary conditions, and the
    interior is the row's elementwise function of the two operands -/
theorem evalRow_eq_some {powF : α → α → α} {info : OpInfo} {a : CellVar α} {o : Operand α}
    {r : CellVar α} (h : evalRow powF info a o = some r) :
    info.selfDomain = true ∧
    ∃ f bc, elem powF info = some f ∧ resultBC info a = some bc ∧
      r = ⟨a.mesh, bc, fun c => f (a.interior c) (o.val c)⟩ := by
  unfold evalRow at h
  by_cases hd : info.selfDomain = true
  · simp only [hd, if_true] at h
    cases hf : elem powF info with
    | none => rw [hf] at h; simp at h
    | some f =>
      cases hb : resultBC info a with
      | none => rw [hf, hb] at h; simp at h
      | some bc =>
        rw [hf, hb] at h
        simp only [Option.bind_some, Option.map_some, Option.some.injEq] at h
        exact ⟨hd, f, bc, rfl, rfl, h.symm⟩
  · simp only [hd] at h
    simp at h

theorem resultBC_deepcopy {info : OpInfo} {a : CellVar α} {bc : BCs α}
    (hb : info.bcs = "deepcopySelf") (h : resultBC info a = some bc) : bc = a.bc := by
  unfold resultBC at h
  rw [hb] at h
  simp only [if_true, Option.some.injEq] at h
  exact h.symm

/-- a row that says `deepcopy(self.BCs)` on `self.domain`: the result carries the mesh and the
    boundary conditions of the variable the method was called on -/
theorem evalRow_mesh_bc {powF : α → α → α} {info : OpInfo} {a : CellVar α} {o : Operand α}
    {r : CellVar α} (h : evalRow powF info a o = some r) (hb : info.bcs = "deepcopySelf") :
    r.mesh = a.mesh ∧ r.bc = a.bc := by
  obtain ⟨_, f, bc, _, hbc, rfl⟩ := evalRow_eq_some h
  exact ⟨rfl, resultBC_deepcopy hb hbc⟩

/-- whatever the row: the result lives on `self`'s mesh -/
theorem evalRow_mesh {powF : α → α → α} {info : OpInfo} {a : CellVar α} {o : Operand α}
    {r : CellVar α} (h : evalRow powF info a o = some r) : r.mesh = a.mesh := by
  obtain ⟨_, f, bc, _, _, rfl⟩ := evalRow_eq_some h
  rfl

theorem evalFaceRow_eq_some {powF : α → α → α} {info : OpInfo} {a : FaceVar α}
    {o : FaceOperand α} {r : FaceVar α} (h : evalFaceRow powF info a o = some r) :
    info.selfDomain = true ∧ info.bcs = "none" ∧
    ∃ f, elem powF info = some f ∧ r = ⟨a.mesh, fun d c => f (a.val d c) (o.val d c)⟩ := by
  unfold evalFaceRow at h
  by_cases hd : info.selfDomain = true ∧ info.bcs = "none"
  · rw [if_pos hd] at h
    cases hf : elem powF info with
    | none => rw [hf] at h; simp at h
    | some f =>
      rw [hf] at h
      simp only [Option.map_some, Option.some.injEq] at h
      exact ⟨hd.1, hd.2, f, rfl, h.symm⟩
  · rw [if_neg hd] at h
    simp at h

/-! ### the ghosted array of a constructed variable honours its boundary conditions -/

/-- index bookkeeping: the ghost cell beyond the high end of `d` next to the interior cell `c` -/
theorem CellVar.ghosted_hi_eq (v : CellVar α) (d : Dir) (c : Idx) (hint : v.mesh.interior c)
    (hd : v.mesh.kind.active d = true) (hc : c.get d = v.mesh.n d) :
    v.ghosted (c.set d (v.mesh.n d + 1)) = ghostHi v.mesh v.bc v.interior d c := by
  obtain ⟨h1, h2⟩ := ghostCell_hi hint hd
  have e : c.set d (v.mesh.n d) = c := by rw [← hc]; exact Idx.set_get c d
  have hne : ¬ v.mesh.n d + 1 = 0 := by omega
  unfold CellVar.ghosted
  rw [C03.withGhosts_face _ _ _ _ h1, h2, Idx.get_set_same]
  simp only [Idx.set_set, eq_false hne, if_false, e]

/-- … and before the low end -/
theorem CellVar.ghosted_lo_eq (v : CellVar α) (d : Dir) (c : Idx) (hint : v.mesh.interior c)
    (hd : v.mesh.kind.active d = true) (hc : c.get d = 1) :
    v.ghosted (c.set d 0) = ghostLo v.mesh v.bc v.interior d c := by
  obtain ⟨h1, h2⟩ := ghostCell_lo hint hd
  have e : c.set d 1 = c := by rw [← hc]; exact Idx.set_get c d
  unfold CellVar.ghosted
  rw [C03.withGhosts_face _ _ _ _ h1, h2, Idx.get_set_same]
  simp only [Idx.set_set, if_true, e]

/-- interior cells hold the interior values -/
theorem CellVar.ghosted_interior (v : CellVar α) (c : Idx) (hint : v.mesh.interior c) :
    v.ghosted c = some (v.interior c) :=
  C03.withGhosts_interior' v.mesh v.bc v.interior c hint

/-- high face, non-periodic axis, non-zero ghost coefficient: the ghost value exists and
    satisfies `a·(g − φ_c)/(m·dx_end) + b·(φ_c + g)/2 = c` -/
theorem CellVar.ghosted_hi_robin (v : CellVar α) (d : Dir) (c : Idx)
    (hint : v.mesh.interior c) (hd : v.mesh.kind.active d = true) (hc : c.get d = v.mesh.n d)
    (hp : ¬ v.bc.periodicDir d = true) (hg : hiGhostCoef v.mesh v.bc d c ≠ 0)
    (hD : lineM v.mesh d c * (v.mesh.axis d).DX (v.mesh.n d + 1) ≠ 0) :
    ∃ g, v.ghosted (c.set d (v.mesh.n d + 1)) = some g ∧
      (v.bc.hi d).a c * ((g - v.interior c) / (lineM v.mesh d c * (v.mesh.axis d).DX (v.mesh.n d + 1)))
        + (v.bc.hi d).b c * ((v.interior c + g) / 2) = (v.bc.hi d).c c := by
  rw [CellVar.ghosted_hi_eq v d c hint hd hc]
  have hs := (C03.ghostHi_isSome_iff v.mesh v.bc v.interior d c hp).2 hg
  obtain ⟨g, hgv⟩ := Option.isSome_iff_exists.1 hs
  exact ⟨g, hgv, C03.ghostHi_satisfies v.mesh v.bc v.interior d c g hp hg hD hgv⟩

/-- low face: `a·(φ_c − g)/(m·dx_1) + b·(φ_c + g)/2 = c` -/
theorem CellVar.ghosted_lo_robin (v : CellVar α) (d : Dir) (c : Idx)
    (hint : v.mesh.interior c) (hd : v.mesh.kind.active d = true) (hc : c.get d = 1)
    (hp : ¬ v.bc.periodicDir d = true) (hg : loGhostCoef v.mesh v.bc d c ≠ 0)
    (hD : lineM v.mesh d c * (v.mesh.axis d).DX 0 ≠ 0) :
    ∃ g, v.ghosted (c.set d 0) = some g ∧
      (v.bc.lo d).a c * ((v.interior c - g) / (lineM v.mesh d c * (v.mesh.axis d).DX 0))
        + (v.bc.lo d).b c * ((v.interior c + g) / 2) = (v.bc.lo d).c c := by
  rw [CellVar.ghosted_lo_eq v d c hint hd hc]
  have hs := (C03.ghostLo_isSome_iff v.mesh v.bc v.interior d c hp).2 hg
  obtain ⟨g, hgv⟩ := Option.isSome_iff_exists.1 hs
  exact ⟨g, hgv, C03.ghostLo_satisfies v.mesh v.bc v.interior d c g hp hg hD hgv⟩

/-- periodic axis: the two ghost cells of a grid line hold the wrapped interior values -/
theorem CellVar.ghosted_periodic (v : CellVar α) (d : Dir) (hd : v.mesh.kind.active d = true)
    (hp : v.bc.periodicDir d = true) :
    (∀ c, v.mesh.interior c → c.get d = v.mesh.n d →
        v.ghosted (c.set d (v.mesh.n d + 1)) = some (v.interior (c.set d 1))) ∧
    (∀ c, v.mesh.interior c → c.get d = 1 →
        v.ghosted (c.set d 0) = some (v.interior (c.set d (v.mesh.n d)))) := by
  constructor
  · intro c hint hc
    rw [CellVar.ghosted_hi_eq v d c hint hd hc]
    exact (C03.ghost_periodic_wraps v.mesh v.bc v.interior d c hp).1
  · intro c hint hc
    rw [CellVar.ghosted_lo_eq v d c hint hd hc]
    exact (C03.ghost_periodic_wraps v.mesh v.bc v.interior d c hp).2

/-! ### concrete variables over ℚ for the examples of `C14Val` -/

namespace VarEx

/-- `a`: the ramp `φ(i,j,k) = i` on the 3-cell example mesh with Dirichlet `φ = 5` everywhere -/
def aEx (k : Kind) : CellVar ℚ := ⟨Examples.mesh k, BCEx.dirichlet, BCEx.ramp⟩
/-- `b`: the constant 2 on the same mesh with the Robin conditions -/
def bEx (k : Kind) : CellVar ℚ := ⟨Examples.mesh k, BCEx.robin, fun _ => 2⟩

/-- the row `__rsub__` would have if `cell.py` computed `self.value - other` there -/
def rsubWrong : OpInfo := ⟨"sub", "so", true, "deepcopySelf"⟩

/-- the cell `(3,1,1)` is interior (and at the high `x` end) in every example mesh -/
theorem interior_311 (k : Kind) : (Examples.mesh k).interior (3, 1, 1) := by
  unfold Mesh.interior Examples.mesh
  refine ⟨by norm_num, by norm_num [Examples.ax3, mkAxisFaces], le_refl _, ?_, le_refl _, ?_⟩ <;>
  · simp only; split_ifs <;> norm_num [Examples.ax3, mkAxisFaces, unitAxis]

end VarEx

end PyFV
