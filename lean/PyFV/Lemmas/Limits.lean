/-
  PyFV.Lemmas.Limits — helper lemmas for the limit statements of property C12 (`Props/C12Lim`).

  Part 1: abstract M-matrix lemmas: the bound of the maximal entry by its own row (with the row
          sum of that row, not a uniform one), the matrix `a/dt·I + A` of one backward-Euler step,
          bijectivity of a strictly diagonally dominant M-matrix.
  Part 2: squeeze lemmas over ℝ (`|f dt − L| ≤ dt·C` as `dt → 0+`, `≤ C/dt` as `dt → ∞`).
  Part 3: the model: spatial term list of the C07 class, boundary-consistent ghosted fields,
          linearity of `Solves` in the old field, the absolute-value maximum principle for a step
          whose ghosts are tied by homogeneous relations (`IsStep.abs_max`).
-/
import PyFV.Lemmas.MMatrix
import PyFV.Lemmas.Assemble
import Mathlib.Tactic.LinearCombination
import Mathlib.Analysis.SpecificLimits.Basic
import Mathlib.LinearAlgebra.Matrix.ToLin
import Mathlib.LinearAlgebra.FiniteDimensional.Basic

set_option linter.unusedSectionVars false

namespace PyFV

open Filter Topology

variable {α : Type} [Field α] [LinearOrder α] [IsStrictOrderedRing α]

/-! ## Part 1 — abstract lemmas -/

/-- a sign `s = ±1` with `s·v = |v|` -/
theorem exists_sign_abs (v : α) :
    ∃ s : α, (∀ t : α, s * t ≤ |t|) ∧ s * v = |v| := by
  rcases le_total 0 v with h | h
  · exact ⟨1, fun t => by rw [one_mul]; exact le_abs_self t, by rw [one_mul, abs_of_nonneg h]⟩
  · exact ⟨-1, fun t => by rw [neg_one_mul]; exact neg_le_abs t, by rw [abs_of_nonpos h]; ring⟩

/-- rows `Σ_j B_ij e_j = τ_i` with non-positive off-diagonal entries: at an index `k` where `|e|`
    is largest, `|e_k| · (row sum of row k) ≤ |τ_k|` (no sign condition on the row sums) -/
theorem mmatrix_abs_max {ι : Type} [Fintype ι] [Nonempty ι] (B : ι → ι → α) (e τ : ι → α)
    (hrow : ∀ i, ∑ j, B i j * e j = τ i) (hoff : ∀ i j, j ≠ i → B i j ≤ 0) :
    ∃ k, (∀ i, |e i| ≤ |e k|) ∧ |e k| * ∑ j, B k j ≤ |τ k| := by
  obtain ⟨k, -, hk⟩ := Finset.exists_max_image Finset.univ (fun i => |e i|) Finset.univ_nonempty
  refine ⟨k, fun i => hk i (Finset.mem_univ i), ?_⟩
  obtain ⟨s, hsx, hsE⟩ := exists_sign_abs (e k)
  have key : ∀ j, B k j * |e k| ≤ B k j * (s * e j) := by
    intro j
    by_cases hj : j = k
    · rw [hj, hsE]
    · exact mul_le_mul_of_nonpos_left (le_trans (hsx (e j)) (hk j (Finset.mem_univ j)))
        (hoff k j hj)
  calc |e k| * ∑ j, B k j = ∑ j, B k j * |e k| := by
        rw [Finset.mul_sum]; exact Finset.sum_congr rfl (fun _ _ => by ring)
    _ ≤ ∑ j, B k j * (s * e j) := Finset.sum_le_sum (fun j _ => key j)
    _ = s * τ k := by
        rw [← hrow k, Finset.mul_sum]; exact Finset.sum_congr rfl (fun _ _ => by ring)
    _ ≤ |τ k| := hsx (τ k)

/-- the matrix of one backward-Euler step: `a_i/dt` on the diagonal plus the spatial matrix -/
def stepMat {ι : Type} [DecidableEq ι] (A : ι → ι → α) (a : ι → α) (dt : α) : ι → ι → α :=
  fun i j => (if j = i then a i / dt else 0) + A i j

theorem stepMat_off {ι : Type} [DecidableEq ι] (A : ι → ι → α) (a : ι → α) (dt : α)
    (hoff : ∀ i j, j ≠ i → A i j ≤ 0) : ∀ i j, j ≠ i → stepMat A a dt i j ≤ 0 := by
  intro i j hj
  simp only [stepMat, if_neg hj, zero_add]
  exact hoff i j hj

theorem stepMat_sum {ι : Type} [Fintype ι] [DecidableEq ι] (A : ι → ι → α) (a : ι → α) (dt : α)
    (i : ι) : ∑ j, stepMat A a dt i j = a i / dt + ∑ j, A i j := by
  simp only [stepMat, Finset.sum_add_distrib, Finset.sum_ite_eq', Finset.mem_univ, if_true]

theorem stepMat_mul {ι : Type} [Fintype ι] [DecidableEq ι] (A : ι → ι → α) (a : ι → α) (dt : α)
    (v : ι → α) (i : ι) :
    ∑ j, stepMat A a dt i j * v j = a i / dt * v i + ∑ j, A i j * v j := by
  simp only [stepMat, add_mul, Finset.sum_add_distrib, ite_mul, zero_mul, Finset.sum_ite_eq',
    Finset.mem_univ, if_true]

/-- the step relation `a (x − old)/dt + A x = s`, written for the difference to any reference
    field `y`: `(a/dt·I + A)(x − y) = s − A y + (a/dt)(old − y)` -/
theorem step_row_shift {ι : Type} [Fintype ι] [DecidableEq ι] (A : ι → ι → α)
    (a old s x y : ι → α) (dt : α) (i : ι)
    (hx : a i * (x i - old i) / dt + ∑ j, A i j * x j = s i) :
    ∑ j, stepMat A a dt i j * (x j - y j)
      = s i - ∑ j, A i j * y j + a i / dt * (old i - y i) := by
  rw [stepMat_mul]
  simp only [mul_sub, Finset.sum_sub_distrib]
  linear_combination hx

/-- **the one inequality behind all three bounds**: for a step `a (x − old)/dt + A x = s` with
    non-positive off-diagonal entries of `A` and any reference field `y`, at an index `k` where
    `|x − y|` is largest
      `|x_k − y_k| · (a_k/dt + Σ_j A_kj) ≤ |s_k − (A y)_k + (a_k/dt)(old_k − y_k)|`. -/
theorem step_abs_max {ι : Type} [Fintype ι] [Nonempty ι] (A : ι → ι → α) (a old s x y : ι → α)
    (dt : α) (hoff : ∀ i j, j ≠ i → A i j ≤ 0)
    (hx : ∀ i, a i * (x i - old i) / dt + ∑ j, A i j * x j = s i) :
    ∃ k, (∀ i, |x i - y i| ≤ |x k - y k|) ∧
      |x k - y k| * (a k / dt + ∑ j, A k j)
        ≤ |s k - ∑ j, A k j * y j + a k / dt * (old k - y k)| := by
  classical
  obtain ⟨k, hk, hb⟩ := mmatrix_abs_max (stepMat A a dt) (fun i => x i - y i)
    (fun i => s i - ∑ j, A i j * y j + a i / dt * (old i - y i))
    (fun i => step_row_shift A a old s x y dt i (hx i)) (stepMat_off A a dt hoff)
  exact ⟨k, hk, by rw [← stepMat_sum]; exact hb⟩

/-- a matrix with non-positive off-diagonal entries and strictly positive row sums is bijective:
    every right-hand side has exactly one solution (injective by the maximum principle,
    surjective because the space is finite-dimensional) -/
theorem mmatrix_bijective {ι : Type} [Fintype ι] (B : ι → ι → α)
    (hoff : ∀ i j, j ≠ i → B i j ≤ 0) (hpos : ∀ i, 0 < ∑ j, B i j) (b : ι → α) :
    ∃! x : ι → α, ∀ i, ∑ j, B i j * x j = b i := by
  classical
  have happ : ∀ v : ι → α, ∀ i, (Matrix.mulVecLin (Matrix.of B)) v i = ∑ j, B i j * v j := by
    intro v i
    simp only [Matrix.mulVecLin_apply, Matrix.mulVec, dotProduct, Matrix.of_apply]
  have hinj : Function.Injective (Matrix.mulVecLin (Matrix.of B)) := by
    intro u v huv
    refine mmatrix_unique B hoff hpos u v (fun i => ?_)
    rw [← happ u i, ← happ v i, huv]
  obtain ⟨x, hx⟩ := (LinearMap.injective_iff_surjective.1 hinj) b
  refine ⟨x, fun i => by rw [← happ x i, hx], fun y hy => ?_⟩
  exact mmatrix_unique B hoff hpos y x (fun i => by rw [hy i, ← happ x i, hx])

/-! ## Part 2 — squeeze lemmas over ℝ -/

/-- `|f dt − L| ≤ dt·C` for all `dt > 0` ⇒ `f dt → L` as `dt → 0+` -/
theorem tendsto_of_abs_le_mul {f : ℝ → ℝ} {L C : ℝ}
    (h : ∀ dt, 0 < dt → |f dt - L| ≤ dt * C) : Tendsto f (𝓝[>] 0) (𝓝 L) := by
  have h1 : Tendsto (fun dt : ℝ => L - dt * C) (𝓝[>] 0) (𝓝 L) := by
    have : Tendsto (fun dt : ℝ => L - dt * C) (𝓝 0) (𝓝 (L - 0 * C)) :=
      tendsto_const_nhds.sub (tendsto_id.mul_const C)
    simpa using this.mono_left nhdsWithin_le_nhds
  have h2 : Tendsto (fun dt : ℝ => L + dt * C) (𝓝[>] 0) (𝓝 L) := by
    have : Tendsto (fun dt : ℝ => L + dt * C) (𝓝 0) (𝓝 (L + 0 * C)) :=
      tendsto_const_nhds.add (tendsto_id.mul_const C)
    simpa using this.mono_left nhdsWithin_le_nhds
  refine tendsto_of_tendsto_of_tendsto_of_le_of_le' h1 h2 ?_ ?_
  · filter_upwards [self_mem_nhdsWithin] with dt hdt
    have := abs_le.1 (h dt hdt); linarith [this.1]
  · filter_upwards [self_mem_nhdsWithin] with dt hdt
    have := abs_le.1 (h dt hdt); linarith [this.2]

/-- `|f dt − L| ≤ C/dt` for all `dt > 0` ⇒ `f dt → L` as `dt → ∞` -/
theorem tendsto_of_abs_le_div {f : ℝ → ℝ} {L C : ℝ}
    (h : ∀ dt, 0 < dt → |f dt - L| ≤ C / dt) : Tendsto f atTop (𝓝 L) := by
  have h0 : Tendsto (fun dt : ℝ => C / dt) atTop (𝓝 0) :=
    tendsto_const_nhds.div_atTop tendsto_id
  have h1 : Tendsto (fun dt : ℝ => L - C / dt) atTop (𝓝 L) := by
    simpa using (tendsto_const_nhds (x := L)).sub h0
  have h2 : Tendsto (fun dt : ℝ => L + C / dt) atTop (𝓝 L) := by
    simpa using (tendsto_const_nhds (x := L)).add h0
  refine tendsto_of_tendsto_of_tendsto_of_le_of_le' h1 h2 ?_ ?_
  · filter_upwards [eventually_gt_atTop (0 : ℝ)] with dt hdt
    have := abs_le.1 (h dt hdt); linarith [this.1]
  · filter_upwards [eventually_gt_atTop (0 : ℝ)] with dt hdt
    have := abs_le.1 (h dt hdt); linarith [this.2]

/-! ## Part 3 — the model -/

/-- the spatial part of the C07 term list:
    `[-diffusionTerm(D), convectionUpwindTerm(u), linearSourceTerm(β)]` -/
def spatialTerms (M : Mesh α) (D u : FaceFld α) (β : CellFld α) : List (TermObj α) :=
  [ TermObj.smul (-1) (.mat (diffusionRow M D)),
    .mat (upwindRow M u u),
    .mat (linearSrcRow β) ]

/-- the step list is `transientTerm :: spatial list` -/
theorem stepTerms_eq (M : Mesh α) (D u : FaceFld α) (β old : CellFld α) (dt : α)
    (alpha : CellFld α) :
    stepTerms M D u β old dt alpha = transientObj old dt alpha :: spatialTerms M D u β := rfl

/-- the spatial operator `L` of the class at cell `c` (interior row of `spatialTerms`) -/
def spatialApp (M : Mesh α) (D u : FaceFld α) (β : CellFld α) (φ : CellFld α) (c : Idx) : α :=
  (sumRow (spatialTerms M D u β) c).app φ c

theorem sumRhs_spatialTerms (M : Mesh α) (D u : FaceFld α) (β : CellFld α) (c : Idx) :
    sumRhs (spatialTerms M D u β) c = 0 := by
  simp only [sumRhs, spatialTerms, List.foldl, TermObj.rhs, TermObj.smul]
  ring

/-- `stepRow = (alpha/dt)·I + L` -/
theorem stepRow_app (M : Mesh α) (D u : FaceFld α) (β : CellFld α) (dt : α) (alpha : CellFld α)
    (φ : CellFld α) (c : Idx) :
    (stepRow M D u β dt alpha c).app φ c = alpha c / dt * φ c + spatialApp M D u β φ c := by
  rw [← sumRow_stepTerms M D u β φ dt alpha c, stepTerms_eq, sumRow_cons_app]
  simp only [transientObj, TermObj.row, transientRow, St7.diag_app, spatialApp]

/-- a ghosted field whose non-interior entries satisfy the boundary rows (what `solvePDE` returns
    and what `createCellVariable` builds) -/
def BCConsistent (M : Mesh α) (bc : BCs α) (φ : CellFld α) : Prop :=
  ∀ c, M.inBox c → M.outCount c ≠ 0 → (bcRow M bc c).app φ = (bcRow M bc c).rhs

theorem Solves.bcConsistent {M : Mesh α} {bc : BCs α} {ts : List (TermObj α)} {x : CellFld α}
    (hx : Solves M bc ts x) : BCConsistent M bc x := by
  intro c hb h0
  have := hx c hb
  rwa [assembleOp_ghost M bc ts x c h0, assembleRhs_ghost M bc ts c h0] at this

/-- a cell of the ghosted box that carries a PDE row is an interior cell -/
theorem Mesh.mem_cells_of_inBox {M : Mesh α} {c : Idx} (hb : M.inBox c)
    (h0 : M.outCount c = 0) : c ∈ M.cells := by
  rw [Mesh.mem_cells]
  obtain ⟨i, j, k⟩ := c
  obtain ⟨hx, hy, hz⟩ := hb
  unfold Mesh.outCount at h0
  simp only at hx hy hz h0
  have hx0 : ¬ (i = 0 ∨ i = M.ax.n + 1) := by
    intro h; rw [if_pos h] at h0; omega
  intro d
  rw [Mesh.mem_rng]
  cases d
  · simp only [Idx.get, Mesh.n, Mesh.axis, Kind.active_x, true_implies]
    exact ⟨by omega, fun h => absurd h (by simp)⟩
  · by_cases ay : M.kind.active .y = true
    · have hy0 : ¬ (M.kind.active .y = true ∧ (j = 0 ∨ j = M.ay.n + 1)) := by
        intro h; rw [if_pos h] at h0; omega
      rw [if_pos ay] at hy
      simp only [Idx.get, Mesh.n, Mesh.axis, ay, true_implies]
      have hj0 : ¬ (j = 0 ∨ j = M.ay.n + 1) := fun h => hy0 ⟨ay, h⟩
      exact ⟨by omega, fun h => absurd h (by simp)⟩
    · rw [if_neg ay] at hy
      simp only [Idx.get, Mesh.n, Mesh.axis]
      exact ⟨fun h => absurd h ay, fun _ => hy⟩
  · by_cases az : M.kind.active .z = true
    · have hz0 : ¬ (M.kind.active .z = true ∧ (k = 0 ∨ k = M.az.n + 1)) := by
        intro h; rw [if_pos h] at h0; omega
      rw [if_pos az] at hz
      simp only [Idx.get, Mesh.n, Mesh.axis, az, true_implies]
      have hk0 : ¬ (k = 0 ∨ k = M.az.n + 1) := fun h => hz0 ⟨az, h⟩
      exact ⟨by omega, fun h => absurd h (by simp)⟩
    · rw [if_neg az] at hz
      simp only [Idx.get, Mesh.n, Mesh.axis]
      exact ⟨fun h => absurd h az, fun _ => hz⟩

/-- linearity of the step system in the pair (old field, solution): the difference of a solution
    of the step from `old₁` and a solution of the step from `old₂` solves the step from
    `old₁ − old₂` with homogeneous boundary data -/
theorem Solves.sub_old {M : Mesh α} {bc : BCs α} {D u : FaceFld α} {β old₁ old₂ alpha : CellFld α}
    {dt : α} {x y : CellFld α}
    (hx : Solves M bc (stepTerms M D u β old₁ dt alpha) x)
    (hy : Solves M bc (stepTerms M D u β old₂ dt alpha) y) :
    Solves M bc.homog (stepTerms M D u β (fun c => old₁ c - old₂ c) dt alpha)
      (fun c => x c - y c) := by
  intro c hb
  have h1 := hx c hb
  have h2 := hy c hb
  unfold assembleOp assembleRhs at h1 h2 ⊢
  by_cases h0 : M.outCount c = 0
  · simp only [h0, if_true, sumRow_stepTerms, sumRhs_stepTerms] at h1 h2 ⊢
    rw [St7.app_sub, h1, h2]
    simp only [stepRhs, transientRHS]
    ring
  · simp only [h0, if_false] at h1 h2 ⊢
    obtain ⟨he, hr⟩ := bcRow_homog M bc c
    rw [hr, Row.app_eq_of_entries he, Row.app_sub, h1, h2, sub_self]

/-- the old field a boundary-consistent field `φ` is one step away from: `φ + (dt/alpha)·L φ` -/
def backShift (M : Mesh α) (D u : FaceFld α) (β alpha : CellFld α) (dt : α) (φ : CellFld α) :
    CellFld α :=
  fun c => φ c + dt / alpha c * spatialApp M D u β φ c

/-- every boundary-consistent field solves the step started from its `backShift` -/
theorem BCConsistent.solves_backShift {M : Mesh α} {bc : BCs α} {φ : CellFld α}
    (hφ : BCConsistent M bc φ) (D u : FaceFld α) (β alpha : CellFld α) (dt : α) (hdt : dt ≠ 0)
    (hα : ∀ c ∈ M.cells, alpha c ≠ 0) :
    Solves M bc (stepTerms M D u β (backShift M D u β alpha dt φ) dt alpha) φ := by
  intro c hb
  by_cases h0 : M.outCount c = 0
  · rw [assembleOp_interior M bc _ φ c h0, assembleRhs_interior M bc _ c h0, sumRow_stepTerms,
      sumRhs_stepTerms, stepRow_app, stepRhs_eq]
    have ha := hα c (Mesh.mem_cells_of_inBox hb h0)
    simp only [backShift]
    field_simp
  · rw [assembleOp_ghost M bc _ φ c h0, assembleRhs_ghost M bc _ c h0]
    exact hφ c hb h0

/-- a steady solution solves the step started from itself (any `dt`, `alpha`) -/
theorem steady_solves_step {M : Mesh α} {bc : BCs α} {D u : FaceFld α} {β : CellFld α}
    {xs : CellFld α} (hs : Solves M bc (spatialTerms M D u β) xs) (dt : α) (alpha : CellFld α) :
    Solves M bc (stepTerms M D u β xs dt alpha) xs := by
  intro c hb
  have h := hs c hb
  by_cases h0 : M.outCount c = 0
  · rw [assembleOp_interior M bc _ xs c h0, assembleRhs_interior M bc _ c h0,
      sumRhs_spatialTerms] at h
    rw [assembleOp_interior M bc _ xs c h0, assembleRhs_interior M bc _ c h0, sumRow_stepTerms,
      sumRhs_stepTerms, stepRow_app, stepRhs_eq, spatialApp, h, add_zero]
  · rw [assembleOp_ghost M bc _ xs c h0, assembleRhs_ghost M bc _ c h0] at h ⊢
    exact h

/-- **Absolute-value maximum principle for a step with homogeneous ties.**  `e` satisfies the
    interior rows `(alpha/dt + L) e = (alpha/dt) g` of the C07 class on the cell set `S`, and every
    neighbour along an active direction is a cell of `S` or a ghost tied by a homogeneous no-flux
    (`e_g = e_c`), periodic or Dirichlet (`e_g = −e_c`) relation.  At a cell `k` where `|e|` is
    largest, `(alpha_k/dt + β_k)·|e_k| ≤ (alpha_k/dt)·|g_k|`. -/
theorem IsStep.abs_max {M : Mesh α} {S : Finset Idx} {D u : FaceFld α} {β alpha : CellFld α}
    {dt : α} {g e : CellFld α} (hM : M.WF) (hA : ∀ d f, 0 ≤ lineA M d f)
    (h : IsStep M S D u β alpha dt (fun v => v = 0) g e) (hS : S.Nonempty) :
    ∃ k ∈ S, (∀ c ∈ S, |e c| ≤ |e k|) ∧
      (alpha k / dt + β k) * |e k| ≤ alpha k / dt * |g k| := by
  obtain ⟨k, hk, hmax⟩ := Finset.exists_max_image S (fun c => |e c|) hS
  refine ⟨k, hk, hmax, ?_⟩
  obtain ⟨s, hsx, hsE⟩ := exists_sign_abs (e k)
  have hrow := h.row k hk
  rw [St7.app_split, stepRow_total M hM D u β dt alpha k (h.int k hk), h.div0 k hk, add_zero,
    stepRhs_eq] at hrow
  have hprod : ∀ d b,
      0 ≤ (stepRow M D u β dt alpha k).off d b * (s * e (k.nbr d b) - |e k|) := by
    intro d b
    by_cases hd : M.kind.active d = true
    · refine mul_nonneg_of_nonpos_of_nonpos
        (stepRow_off_nonpos M hM hA D u h.D0 β dt alpha k (h.int k hk) d b) (sub_nonpos.2 ?_)
      rcases h.nbr k hk d hd b with hn | hn | ⟨c', hc', θ, hθ, hn⟩ | ⟨cD, hP, hn⟩
      · exact le_trans (hsx _) (hmax _ hn)
      · rw [hn, hsE]
      · have h1 : s * e c' - |e k| ≤ 0 := sub_nonpos.2 (le_trans (hsx (e c')) (hmax c' hc'))
        have h2 : s * (e k + θ * (e c' - e k)) = |e k| + θ * (s * e c' - |e k|) := by
          rw [← hsE]; ring
        rw [hn, h2]
        nlinarith
      · have h2 : s * (2 * 0 - e k) = -|e k| := by rw [← hsE]; ring
        rw [hn, hP, h2]
        linarith [abs_nonneg (e k)]
    · rw [stepRow_off_inactive M D u β dt alpha k d (by simpa using hd) b, zero_mul]
  have key : (alpha k / dt + β k) * |e k|
      + ((stepRow M D u β dt alpha k).off .x false * (s * e (k.nbr .x false) - |e k|)
       + (stepRow M D u β dt alpha k).off .x true * (s * e (k.nbr .x true) - |e k|)
       + (stepRow M D u β dt alpha k).off .y false * (s * e (k.nbr .y false) - |e k|)
       + (stepRow M D u β dt alpha k).off .y true * (s * e (k.nbr .y true) - |e k|)
       + (stepRow M D u β dt alpha k).off .z false * (s * e (k.nbr .z false) - |e k|)
       + (stepRow M D u β dt alpha k).off .z true * (s * e (k.nbr .z true) - |e k|))
      = alpha k / dt * (s * g k) := by
    rw [← hsE]
    linear_combination s * hrow
  have hp : 0 ≤ alpha k / dt := (div_pos (h.α0 k hk) h.dt0).le
  have hg : alpha k / dt * (s * g k) ≤ alpha k / dt * |g k| :=
    mul_le_mul_of_nonneg_left (hsx (g k)) hp
  have := hprod .x false; have := hprod .x true
  have := hprod .y false; have := hprod .y true
  have := hprod .z false; have := hprod .z true
  linarith

/-- the step system reads the old field on the interior cells only -/
theorem Solves.congr_old {M : Mesh α} {bc : BCs α} {D u : FaceFld α} {β old old' alpha : CellFld α}
    {dt : α} {x : CellFld α} (hagree : ∀ c ∈ M.cells, old' c = old c)
    (hx : Solves M bc (stepTerms M D u β old dt alpha) x) :
    Solves M bc (stepTerms M D u β old' dt alpha) x := by
  intro c hb
  have h := hx c hb
  by_cases h0 : M.outCount c = 0
  · rw [assembleOp_interior M bc _ x c h0, assembleRhs_interior M bc _ c h0, sumRow_stepTerms,
      sumRhs_stepTerms] at h ⊢
    rw [h]
    simp only [stepRhs, transientRHS, hagree c (Mesh.mem_cells_of_inBox hb h0)]
  · rw [assembleOp_ghost M bc _ x c h0, assembleRhs_ghost M bc _ c h0] at h ⊢
    exact h

/-- the spatial operator of the class applied to a uniform field: `(β + div u)·r` -/
theorem spatialApp_const (M : Mesh α) (hM : M.WF) (D u : FaceFld α) (β : CellFld α) (r : α)
    (c : Idx) (hc : M.interior c) :
    spatialApp M D u β (fun _ => r) c = (β c + divergence M u c) * r := by
  have h := stepRow_app M D u β 1 (fun _ => 0) (fun _ => r) c
  rw [St7.app_const, stepRow_total M hM D u β 1 (fun _ => 0) c hc] at h
  simp only [zero_div, zero_mul, zero_add] at h
  exact h.symm

/-! ## Part 4 — concrete data for the non-vacuity examples (any ordered field) -/

/-- the 2×2 matrix `[[2, −1], [−1, 2]]` (implicit diffusion between two cells plus a unit sink) -/
def exA2 : Fin 2 → Fin 2 → α := fun i j => if i = j then 2 else -1

theorem exA2_off : ∀ i j : Fin 2, j ≠ i → (exA2 i j : α) ≤ 0 := by
  intro i j h
  have : ¬ i = j := fun h' => h h'.symm
  simp [exA2, this]

theorem exA2_sum : ∀ i : Fin 2, ∑ j, (exA2 i j : α) = 1 := by
  intro i
  fin_cases i <;> simp [exA2, Fin.sum_univ_two] <;> norm_num

/-- the step of the 2-cell system from `old = 0` with `a = 1`, `s = 1` returns `dt/(1+dt)` -/
theorem exA2_step (dt : α) (hdt : 0 < dt) : ∀ i : Fin 2,
    (1 : α) * (dt / (1 + dt) - 0) / dt + ∑ j, exA2 i j * (dt / (1 + dt)) = 1 := by
  intro i
  have h1 : (1 + dt) ≠ 0 := by positivity
  have h2 : dt ≠ 0 := hdt.ne'
  fin_cases i <;> simp [exA2, Fin.sum_univ_two] <;> field_simp <;> ring

/-- its steady solution is `1` -/
theorem exA2_steady : ∀ i : Fin 2, ∑ j, (exA2 i j : α) * 1 = 1 := by
  intro i
  simp only [mul_one]
  exact exA2_sum i

/-- a 3-cell Cartesian 1-D mesh with unit cells over any ordered field -/
def limMesh : Mesh α :=
  { kind := .cart1, ax := mkAxisFaces 3 (fun i => (i : α)), ay := unitAxis, az := unitAxis,
    sinC := fun _ => 1, sinF := fun _ => 1, cosF := fun _ => 1, pi := 1 }

theorem limMesh_WF : (limMesh : Mesh α).WF where
  wx := mkAxisFaces_WF 3 _ (by norm_num) (fun i _ => by push_cast; linarith)
  wy := mkAxisFaces_WF 1 _ (le_refl 1) (fun i _ => by push_cast; linarith)
  wz := mkAxisFaces_WF 1 _ (le_refl 1) (fun i _ => by push_cast; linarith)
  rpos := fun h => by simp [limMesh, Kind.radial] at h
  rf0 := fun h => by simp [limMesh, Kind.radial] at h
  spos := fun h => by simp [limMesh] at h
  pipos := by simp [limMesh]

theorem limMesh_lineA (d : Dir) (f : ℕ) : 0 ≤ lineA (limMesh : Mesh α) d f := by
  cases d <;> simp [lineA, limMesh]

/-- default (no-flux) boundary conditions on every face -/
def nfBC : BCs α :=
  ⟨fun _ => ⟨fun _ => 1, fun _ => 0, fun _ => 0, false⟩,
   fun _ => ⟨fun _ => 1, fun _ => 0, fun _ => 0, false⟩⟩

theorem nfBC_ok (P : α → Prop) : BCsOK (limMesh : Mesh α) nfBC P :=
  fun _ _ => Or.inr ⟨rfl, fun _ => ⟨Or.inr ⟨one_ne_zero, rfl, rfl⟩, Or.inr ⟨one_ne_zero, rfl, rfl⟩⟩⟩

/-- a uniform field satisfies every no-flux boundary row -/
theorem limMesh_bc_const (r : α) : BCConsistent (limMesh : Mesh α) nfBC (fun _ => r) := by
  intro c _ h0
  have h1 : (limMesh : Mesh α).outCount c = 1 := by
    have : (limMesh : Mesh α).outCount c ≤ 1 := by
      simp only [Mesh.outCount, Kind.active, Kind.dim, limMesh]
      by_cases h : c.1 = 0 ∨ c.1 = (mkAxisFaces 3 (fun i => (i : α))).n + 1 <;> simp [h]
    omega
  simp only [bcRow, h1]
  split_ifs <;>
    simp [bcRowLo, bcRowHi, BCs.periodicDir, nfBC, Row.app_two, loCellCoef, loGhostCoef,
      hiCellCoef, hiGhostCoef]

/-- no flux, no velocity, uniform sink `b`, `alpha = 1`, uniform old field `v`: the uniform field
    `r` with `(1/dt + b)·r = v/dt` solves the assembled step -/
theorem limMesh_const_solves (D : FaceFld α) (b dt v r : α) (h : (1 / dt + b) * r = 1 / dt * v) :
    Solves (limMesh : Mesh α) nfBC
      (stepTerms limMesh D (fun _ _ => 0) (fun _ => b) (fun _ => v) dt (fun _ => 1))
      (fun _ => r) := by
  intro c hb
  by_cases h0 : (limMesh : Mesh α).outCount c = 0
  · rw [assembleOp_interior _ _ _ _ c h0, assembleRhs_interior _ _ _ c h0, sumRow_stepTerms,
      sumRhs_stepTerms, St7.app_const, stepRhs_eq]
    simp only [stepRow, St7.total_add, St7.total_smul, transientRow, linearSrcRow,
      St7.total_diag, diffusionRow_total, upwindRow_zero_total]
    linear_combination h
  · rw [assembleOp_ghost _ _ _ _ c h0, assembleRhs_ghost _ _ _ c h0]
    exact limMesh_bc_const r c hb h0

/-- the zero field is the steady solution of that system -/
theorem limMesh_zero_steady (D : FaceFld α) (b : α) :
    Solves (limMesh : Mesh α) nfBC (spatialTerms limMesh D (fun _ _ => 0) (fun _ => b))
      (fun _ => 0) := by
  intro c hb
  by_cases h0 : (limMesh : Mesh α).outCount c = 0
  · rw [assembleOp_interior _ _ _ _ c h0, assembleRhs_interior _ _ _ c h0, St7.app_zero,
      sumRhs_spatialTerms]
  · rw [assembleOp_ghost _ _ _ _ c h0, assembleRhs_ghost _ _ _ c h0]
    exact limMesh_bc_const 0 c hb h0

theorem limMesh_mem_cells : (1, 1, 1) ∈ (limMesh : Mesh α).cells := by
  rw [Mesh.mem_cells]
  intro d
  rw [Mesh.mem_rng]
  cases d <;> simp [limMesh, Kind.active, Kind.dim, Idx.get, Mesh.n, Mesh.axis, mkAxisFaces]

end PyFV
