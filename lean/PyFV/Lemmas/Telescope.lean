/-
  PyFV.Lemmas.Telescope — interior face fluxes cancel: sums of flux-form operators along a
  grid line telescope to the two boundary faces, for every number of cells.
-/
import PyFV.Lemmas.Operators
import PyFV.Lemmas.WF
import Mathlib.Algebra.BigOperators.Intervals

set_option linter.unusedSectionVars false

namespace PyFV
open Finset

variable {α : Type} [Field α] [LinearOrder α] [IsStrictOrderedRing α]

/-- weight × divergence along `d` is a difference of face terms -/
theorem weighted_divD (M : Mesh α) (F : FaceFld α) (d : Dir) (c : Idx)
    (hm : lineM M d c ≠ 0) (hV : lineV M d (c.get d) ≠ 0) :
    lineM M d c * lineV M d (c.get d) * divD M F d c
      = lineA M d (c.get d) * F d c - lineA M d (c.get d - 1) * F d (c.prev d) := by
  unfold divD; field_simp

/-- telescoping along a line through `c` (cells `1..n` of direction `d`), any `n` -/
theorem line_telescope (M : Mesh α) (F : FaceFld α) (d : Dir) (c : Idx) (n : ℕ)
    (hm : lineM M d c ≠ 0) (hV : ∀ i, 1 ≤ i → i ≤ n → lineV M d i ≠ 0) :
    ∑ i ∈ range n, lineM M d c * lineV M d (i+1) * divD M F d (c.set d (i+1))
      = lineA M d n * F d (c.set d n) - lineA M d 0 * F d (c.set d 0) := by
  have key : ∀ i ∈ range n, lineM M d c * lineV M d (i+1) * divD M F d (c.set d (i+1))
      = (fun j => lineA M d j * F d (c.set d j)) (i+1) - (fun j => lineA M d j * F d (c.set d j)) i := by
    intro i hi
    have hi' : i < n := mem_range.mp hi
    have := weighted_divD M F d (c.set d (i+1)) (by simpa using hm)
      (by simpa using hV (i+1) (by omega) (by omega))
    simp only [lineM_set, Idx.get_set_same, Idx.prev, Idx.set_set, Nat.add_sub_cancel] at this
    exact this
  rw [Finset.sum_congr rfl key, Finset.sum_range_sub (fun j => lineA M d j * F d (c.set d j))]

end PyFV
