/-
  PyFV.Lemmas.GenEqTac — closing tactics for the "generated = model" theorems (PyFV/Props/GenEq*.lean).

  The generated definitions follow the SPELLING of the Python source.  A behaviour-preserving rewrite of the source
  (`a*b` → `b*a`, `0.5*(a+b)` → `(a+b)/2`, `a/(b*c)` → `a/b/c`, `x**2` → `x*x`, `-(a+b)` → `-a-b`, ...) changes the
  spelling of the generated formula but not its value; the theorems must keep compiling.  The tactics below close a
  goal `lhs = rhs` between two field expressions SEMANTICALLY (never by syntactic identity alone):

    `geq_ring`   `rfl`, else `ring1`, else push the inverses through products (`(a*b)⁻¹ = a⁻¹*b⁻¹` holds in every
                 field, also for 0) and `ring1`, else normalise both sides with `ring_nf` (this also normalises the
                 arguments of `|·|`, `max`, `min`, of uninterpreted functions and of the conditions / branches of
                 `if`), with and without the inverse push.
    `geq_field`  `field_simp` with the hypotheses in context, then `geq_ring` (for statements with `≠ 0` hypotheses).
    `geq_cases`  `geq_ring`, else decide closed `if` conditions / split the remaining `if`s and `geq_ring` every case.

  They prove equalities only (no axioms, no `sorry`); a goal that is not an identity of commutative-field
  expressions is NOT closed and the build fails, which is what the sensitivity of the GenEq theorems relies on.
-/
import Mathlib.Tactic.Ring
import Mathlib.Tactic.FieldSimp
import Mathlib.Tactic.NormNum
import Mathlib.Tactic.SplitIfs
import Mathlib.Tactic.Linarith

namespace PyFV

/-- semantic closing of `lhs = rhs` between field expressions (see the header of this file) -/
macro "geq_ring" : tactic => `(tactic|
  first
  | rfl
  | ring1
  | (simp only [div_eq_mul_inv, mul_inv, inv_inv, inv_neg, inv_pow, inv_one, one_mul, mul_one] <;> ring1)
  | (ring_nf <;> done)
  | (simp only [div_eq_mul_inv, mul_inv, inv_inv, inv_neg, inv_pow, inv_one, one_mul, mul_one] <;> ring_nf <;> done)
  | (ring_nf <;> simp only [div_eq_mul_inv, mul_inv, inv_inv, inv_neg, inv_pow, inv_one, one_mul, mul_one]
       <;> ring_nf <;> done))

/-- `field_simp` (using the `≠ 0` hypotheses in context), then `geq_ring` -/
macro "geq_field" : tactic => `(tactic|
  first
  | rfl
  | ring1
  | (field_simp <;> geq_ring)
  | geq_ring)

/-- `geq_ring`; if piecewise definitions (`if … then … else …`) are left in the goal: decide the closed conditions,
    else split every `if` and close each case with `geq_ring` (contradictory cases with `omega` / `linarith`) -/
macro "geq_cases" : tactic => `(tactic|
  first
  | geq_ring
  | (simp +decide only [↓reduceIte] <;> geq_ring)
  | (split_ifs <;> first | geq_ring | omega | (exfalso; omega) | (exfalso; linarith)))

end PyFV
