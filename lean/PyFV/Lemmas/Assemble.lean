/-
  PyFV.Lemmas.Assemble — algebra of the assembly loop of `solvePDE`: seven-point rows and
  boundary rows act additively, the accumulated row / right-hand side is the sum of the term
  contributions, boundary rows depend on the Robin data `c` only through their right-hand side.
  Shared by C04 and C12.
-/
import PyFV.Lemmas.Basic
import Mathlib.Algebra.BigOperators.Group.List.Basic
import Mathlib.Algebra.Order.Field.Rat
import Mathlib.Tactic.NormNum

set_option linter.unusedSectionVars false

namespace PyFV

variable {α : Type} [Field α] [LinearOrder α] [IsStrictOrderedRing α]

/-! ### seven-point rows -/

theorem St7.add_app (s t : St7 α) (x : CellFld α) (c : Idx) :
    (St7.add s t).app x c = s.app x c + t.app x c := by
  simp only [St7.add, St7.app]; ring

theorem St7.smul_app (a : α) (s : St7 α) (x : CellFld α) (c : Idx) :
    (St7.smul a s).app x c = a * s.app x c := by
  simp only [St7.smul, St7.app]; ring

theorem St7.zero_app (x : CellFld α) (c : Idx) : (St7.zero : St7 α).app x c = 0 := by
  simp only [St7.zero, St7.app]; ring

theorem St7.diag_app (a : α) (x : CellFld α) (c : Idx) : (St7.diag a).app x c = a * x c := by
  simp only [St7.diag, St7.app]; ring

/-- a row acts additively on fields -/
theorem St7.app_add (s : St7 α) (x y : CellFld α) (c : Idx) :
    s.app (fun i => x i + y i) c = s.app x c + s.app y c := by
  simp only [St7.app]; ring

theorem St7.app_smul (s : St7 α) (a : α) (x : CellFld α) (c : Idx) :
    s.app (fun i => a * x i) c = a * s.app x c := by
  simp only [St7.app]; ring

theorem St7.app_zero (s : St7 α) (c : Idx) : s.app (fun _ => (0 : α)) c = 0 := by
  simp only [St7.app]; ring

theorem St7.add_comm' (s t : St7 α) : St7.add s t = St7.add t s := by
  simp only [St7.add, add_comm]

theorem St7.add_assoc' (s t u : St7 α) : St7.add (St7.add s t) u = St7.add s (St7.add t u) := by
  simp only [St7.add, add_assoc]

theorem St7.add_right_comm' (s t u : St7 α) :
    St7.add (St7.add s t) u = St7.add (St7.add s u) t := by
  simp only [St7.add, add_right_comm]

/-! ### the accumulation loop -/

theorem foldl_row_app (ts : List (TermObj α)) (s0 : St7 α) (x : CellFld α) (c : Idx) :
    (ts.foldl (fun acc t => St7.add acc (t.row c)) s0).app x c
      = s0.app x c + (ts.map (fun t => (t.row c).app x c)).sum := by
  induction ts generalizing s0 with
  | nil => simp
  | cons t ts ih =>
    simp only [List.foldl_cons, List.map_cons, List.sum_cons]
    rw [ih, St7.add_app]; ring

theorem foldl_rhs (ts : List (TermObj α)) (a : α) (c : Idx) :
    ts.foldl (fun acc t => acc + t.rhs c) a = a + (ts.map (fun t => t.rhs c)).sum := by
  induction ts generalizing a with
  | nil => simp
  | cons t ts ih =>
    simp only [List.foldl_cons, List.map_cons, List.sum_cons]
    rw [ih]; ring

/-- the accumulated row, as a row, does not depend on the order of the term list -/
theorem sumRow_perm {ts ts' : List (TermObj α)} (h : ts.Perm ts') (c : Idx) :
    sumRow ts c = sumRow ts' c := by
  unfold sumRow
  generalize (St7.zero : St7 α) = s0
  induction h generalizing s0 with
  | nil => rfl
  | cons t _ ih => simp only [List.foldl_cons]; exact ih _
  | swap t u l => simp only [List.foldl_cons]; rw [St7.add_right_comm']
  | trans _ _ ih1 ih2 => exact (ih1 s0).trans (ih2 s0)

theorem sumRow_cons_app (t : TermObj α) (ts : List (TermObj α)) (x : CellFld α) (c : Idx) :
    (sumRow (t :: ts) c).app x c = (t.row c).app x c + (sumRow ts c).app x c := by
  unfold sumRow
  rw [foldl_row_app, foldl_row_app]
  simp only [List.map_cons, List.sum_cons, St7.zero_app]; ring

theorem sumRhs_cons (t : TermObj α) (ts : List (TermObj α)) (c : Idx) :
    sumRhs (t :: ts) c = t.rhs c + sumRhs ts c := by
  unfold sumRhs
  rw [foldl_rhs, foldl_rhs]
  simp only [List.map_cons, List.sum_cons]; ring

theorem sumRow_append_app (ts us : List (TermObj α)) (x : CellFld α) (c : Idx) :
    (sumRow (ts ++ us) c).app x c = (sumRow ts c).app x c + (sumRow us c).app x c := by
  unfold sumRow
  rw [foldl_row_app, foldl_row_app, foldl_row_app]
  simp only [List.map_append, List.sum_append, St7.zero_app]; ring

theorem sumRhs_append (ts us : List (TermObj α)) (c : Idx) :
    sumRhs (ts ++ us) c = sumRhs ts c + sumRhs us c := by
  unfold sumRhs
  rw [foldl_rhs, foldl_rhs, foldl_rhs]
  simp only [List.map_append, List.sum_append]; ring

theorem sumRow_nil_app (x : CellFld α) (c : Idx) : (sumRow ([] : List (TermObj α)) c).app x c = 0 := by
  simp only [sumRow, List.foldl_nil, St7.zero_app]

theorem sumRhs_nil (c : Idx) : sumRhs ([] : List (TermObj α)) c = 0 := rfl

/-! ### scaling / negating terms -/

theorem TermObj.smul_row (a : α) (t : TermObj α) (c : Idx) :
    (TermObj.smul a t).row c = St7.smul a (t.row c) := by
  cases t <;> simp [TermObj.smul, TermObj.row, St7.smul, St7.zero]

theorem TermObj.smul_rhs (a : α) (t : TermObj α) (c : Idx) :
    (TermObj.smul a t).rhs c = a * t.rhs c := by
  cases t <;> simp [TermObj.smul, TermObj.rhs]

theorem sumRow_map_smul_app (a : α) (ts : List (TermObj α)) (x : CellFld α) (c : Idx) :
    (sumRow (ts.map (TermObj.smul a)) c).app x c = a * (sumRow ts c).app x c := by
  induction ts with
  | nil => simp [sumRow_nil_app]
  | cons t ts ih =>
    rw [List.map_cons, sumRow_cons_app, sumRow_cons_app, ih, TermObj.smul_row, St7.smul_app]; ring

theorem sumRhs_map_smul (a : α) (ts : List (TermObj α)) (c : Idx) :
    sumRhs (ts.map (TermObj.smul a)) c = a * sumRhs ts c := by
  induction ts with
  | nil => simp [sumRhs_nil]
  | cons t ts ih =>
    rw [List.map_cons, sumRhs_cons, sumRhs_cons, ih, TermObj.smul_rhs]; ring

/-! ### boundary rows -/

theorem foldl_entries (es : List (Idx × α)) (x : CellFld α) (a : α) :
    es.foldl (fun acc e => acc + e.2 * x e.1) a = a + (es.map (fun e => e.2 * x e.1)).sum := by
  induction es generalizing a with
  | nil => simp
  | cons e es ih =>
    simp only [List.foldl_cons, List.map_cons, List.sum_cons]
    rw [ih]; ring

theorem Row.app_eq_sum (r : Row α) (x : CellFld α) :
    r.app x = (r.entries.map (fun e => e.2 * x e.1)).sum := by
  unfold Row.app; rw [foldl_entries]; ring

theorem Row.app_add (r : Row α) (x y : CellFld α) :
    r.app (fun i => x i + y i) = r.app x + r.app y := by
  rw [Row.app_eq_sum, Row.app_eq_sum, Row.app_eq_sum]
  induction r.entries with
  | nil => simp
  | cons e es ih => simp only [List.map_cons, List.sum_cons, ih]; ring

theorem Row.app_smul (r : Row α) (a : α) (x : CellFld α) :
    r.app (fun i => a * x i) = a * r.app x := by
  rw [Row.app_eq_sum, Row.app_eq_sum]
  induction r.entries with
  | nil => simp
  | cons e es ih => simp only [List.map_cons, List.sum_cons, ih]; ring

/-- two boundary-condition structures with the same coefficients `a`, `b` and periodic flags
    (they may differ in the data `c`) -/
def BCs.SameAB (bc bc' : BCs α) : Prop :=
  ∀ d, (bc.lo d).a = (bc'.lo d).a ∧ (bc.lo d).b = (bc'.lo d).b
      ∧ (bc.lo d).periodic = (bc'.lo d).periodic
      ∧ (bc.hi d).a = (bc'.hi d).a ∧ (bc.hi d).b = (bc'.hi d).b
      ∧ (bc.hi d).periodic = (bc'.hi d).periodic

theorem BCs.SameAB.refl (bc : BCs α) : BCs.SameAB bc bc := fun _ => ⟨rfl, rfl, rfl, rfl, rfl, rfl⟩

theorem BCs.SameAB.periodicDir {bc bc' : BCs α} (h : BCs.SameAB bc bc') (d : Dir) :
    bc.periodicDir d = bc'.periodicDir d := by
  obtain ⟨_, _, h3, _, _, h6⟩ := h d
  simp only [BCs.periodicDir, h3, h6]

/-- the matrix entries of every boundary row depend on `a`, `b` and the periodic flags only -/
theorem bcRow_entries_congr (M : Mesh α) {bc bc' : BCs α} (h : BCs.SameAB bc bc') (c : Idx) :
    (bcRow M bc c).entries = (bcRow M bc' c).entries := by
  have hp := fun d => h.periodicDir d
  have hcs : cornerScale M bc = cornerScale M bc' := by
    obtain ⟨_, _, _, h4, h5, _⟩ := h .y
    simp only [cornerScale, h4, h5]
  have hhi : ∀ d c, (bcRowHi M bc d c).entries = (bcRowHi M bc' d c).entries := by
    intro d c
    obtain ⟨_, _, _, h4, h5, _⟩ := h d
    simp only [bcRowHi, hp d, hiGhostCoef, hiCellCoef, h4, h5]
    split_ifs <;> rfl
  have hlo : ∀ d c, (bcRowLo M bc d c).entries = (bcRowLo M bc' d c).entries := by
    intro d c
    obtain ⟨h1, h2, _, _, _, _⟩ := h d
    simp only [bcRowLo, hp d, loGhostCoef, loCellCoef, h1, h2]
    split_ifs <;> rfl
  unfold bcRow
  split
  · rfl
  · simp only; split_ifs
    · exact hlo _ _
    · exact hhi _ _
  · simp only [hcs]

theorem bcRow_app_congr (M : Mesh α) {bc bc' : BCs α} (h : BCs.SameAB bc bc') (c : Idx)
    (x : CellFld α) : (bcRow M bc c).app x = (bcRow M bc' c).app x := by
  unfold Row.app; rw [bcRow_entries_congr M h c]

/-- the right-hand side of every boundary row is linear in the Robin data `c` -/
theorem bcRow_rhs_linear (M : Mesh α) {bc₁ bc₂ bc₃ : BCs α} (s : α)
    (h₁ : BCs.SameAB bc₁ bc₃) (h₂ : BCs.SameAB bc₂ bc₃)
    (hlo : ∀ d i, (bc₃.lo d).c i = s * (bc₁.lo d).c i + (bc₂.lo d).c i)
    (hhi : ∀ d i, (bc₃.hi d).c i = s * (bc₁.hi d).c i + (bc₂.hi d).c i) (c : Idx) :
    (bcRow M bc₃ c).rhs = s * (bcRow M bc₁ c).rhs + (bcRow M bc₂ c).rhs := by
  have hp₁ := fun d => h₁.periodicDir d
  have hp₂ := fun d => h₂.periodicDir d
  have eHi : ∀ d c, (bcRowHi M bc₃ d c).rhs = s * (bcRowHi M bc₁ d c).rhs + (bcRowHi M bc₂ d c).rhs := by
    intro d c
    simp only [bcRowHi, hp₁ d, hp₂ d]
    split_ifs
    · simp
    · simp only [hhi]
  have eLo : ∀ d c, (bcRowLo M bc₃ d c).rhs = s * (bcRowLo M bc₁ d c).rhs + (bcRowLo M bc₂ d c).rhs := by
    intro d c
    simp only [bcRowLo, hp₁ d, hp₂ d]
    split_ifs
    · simp
    · simp only [hlo]; ring
  unfold bcRow
  split
  · simp
  · simp only; split_ifs
    · exact eLo _ _
    · exact eHi _ _
  · simp

/-! ### the assembled operator -/

theorem assembleOp_interior (M : Mesh α) (bc : BCs α) (ts : List (TermObj α)) (x : CellFld α)
    (c : Idx) (h : M.outCount c = 0) : assembleOp M bc ts x c = (sumRow ts c).app x c := by
  simp only [assembleOp, h, if_true]

theorem assembleRhs_interior (M : Mesh α) (bc : BCs α) (ts : List (TermObj α))
    (c : Idx) (h : M.outCount c = 0) : assembleRhs M bc ts c = sumRhs ts c := by
  simp only [assembleRhs, h, if_true]

theorem assembleOp_ghost (M : Mesh α) (bc : BCs α) (ts : List (TermObj α)) (x : CellFld α)
    (c : Idx) (h : M.outCount c ≠ 0) : assembleOp M bc ts x c = (bcRow M bc c).app x := by
  simp only [assembleOp, h, if_false]

theorem assembleRhs_ghost (M : Mesh α) (bc : BCs α) (ts : List (TermObj α))
    (c : Idx) (h : M.outCount c ≠ 0) : assembleRhs M bc ts c = (bcRow M bc c).rhs := by
  simp only [assembleRhs, h, if_false]

theorem assembleOp_add' (M : Mesh α) (bc : BCs α) (ts : List (TermObj α)) (x y : CellFld α)
    (c : Idx) :
    assembleOp M bc ts (fun i => x i + y i) c = assembleOp M bc ts x c + assembleOp M bc ts y c := by
  unfold assembleOp
  split_ifs
  · exact St7.app_add _ _ _ _
  · exact Row.app_add _ _ _

theorem assembleOp_smul' (M : Mesh α) (bc : BCs α) (ts : List (TermObj α)) (a : α) (x : CellFld α)
    (c : Idx) :
    assembleOp M bc ts (fun i => a * x i) c = a * assembleOp M bc ts x c := by
  unfold assembleOp
  split_ifs
  · exact St7.app_smul _ _ _ _
  · exact Row.app_smul _ _ _

/-- the homogeneous assembled system has only the zero solution on the ghosted box -/
def UniqueSol (M : Mesh α) (bc : BCs α) (ts : List (TermObj α)) : Prop :=
  ∀ y : CellFld α, (∀ c, M.inBox c → assembleOp M bc ts y c = 0) → ∀ c, M.inBox c → y c = 0

/-- `solveExplicitPDE`: the update of the whole ghosted array before the ghosts are re-imposed -/
def explicitStep (old : CellFld α) (dt : α) (RHS : CellFld α) : CellFld α :=
  fun c => old c + dt * RHS c

/-- `solveExplicitPDE`: the returned ghosted array (`apply_BCs` on the updated values) -/
def explicitPDE (M : Mesh α) (bc : BCs α) (old : CellFld α) (dt : α) (RHS : CellFld α) (c : Idx) :
    Option α :=
  withGhosts M bc (explicitStep old dt RHS) c

/-- the transient term object `transientTerm(old, dt, alpha)` -/
def transientObj (old : CellFld α) (dt : α) (alpha : CellFld α) : TermObj α :=
  .pair (transientRow dt alpha) (transientRHS old dt alpha)

/-! ### face-ghost cells: the explicit Robin rows -/

/-- a face-ghost cell lies at index `0` or `n+1` of its out-direction -/
theorem Mesh.outDir_spec (M : Mesh α) (c : Idx) (h : M.outCount c = 1) :
    c.get (M.outDir c) = 0 ∨ c.get (M.outDir c) = M.n (M.outDir c) + 1 := by
  unfold Mesh.outCount at h
  unfold Mesh.outDir
  by_cases hx : c.1 = 0 ∨ c.1 = M.ax.n + 1
  · simp only [if_pos hx]; exact hx
  · simp only [if_neg hx]
    by_cases hy : M.kind.active .y = true ∧ (c.2.1 = 0 ∨ c.2.1 = M.ay.n + 1)
    · simp only [if_pos hy]; exact hy.2
    · simp only [if_neg hy]
      by_cases hz : M.kind.active .z = true ∧ (c.2.2 = 0 ∨ c.2.2 = M.az.n + 1)
      · exact hz.2
      · simp only [if_neg hx, if_neg hy, if_neg hz] at h; omega

/-- moving a face-ghost cell to an interior index along its out-direction gives an interior cell -/
theorem Mesh.outCount_set_outDir (M : Mesh α) (c : Idx) (h1 : M.outCount c = 1) (v : ℕ)
    (hv1 : 1 ≤ v) (hvn : v ≤ M.n (M.outDir c)) : M.outCount (c.set (M.outDir c) v) = 0 := by
  unfold Mesh.outCount at h1 ⊢
  unfold Mesh.outDir at hvn ⊢
  by_cases hx : c.1 = 0 ∨ c.1 = M.ax.n + 1
  · simp only [if_pos hx, Mesh.n, Mesh.axis] at h1 hvn ⊢
    have hv : ¬ (v = 0 ∨ v = M.ax.n + 1) := by omega
    simp only [Idx.set, eq_false hv, if_false]
    by_cases hy : M.kind.active .y = true ∧ (c.2.1 = 0 ∨ c.2.1 = M.ay.n + 1)
    · simp only [if_pos hy] at h1; omega
    · by_cases hz : M.kind.active .z = true ∧ (c.2.2 = 0 ∨ c.2.2 = M.az.n + 1)
      · simp only [if_pos hz] at h1; omega
      · simp only [eq_false hy, eq_false hz, if_false, add_zero]
  · simp only [if_neg hx] at h1 hvn ⊢
    by_cases hy : M.kind.active .y = true ∧ (c.2.1 = 0 ∨ c.2.1 = M.ay.n + 1)
    · simp only [if_pos hy, Mesh.n, Mesh.axis] at h1 hvn ⊢
      have hv : ¬ (M.kind.active .y = true ∧ (v = 0 ∨ v = M.ay.n + 1)) := by
        rintro ⟨_, h⟩; omega
      simp only [Idx.set, eq_false hv, eq_false hx, if_false]
      by_cases hz : M.kind.active .z = true ∧ (c.2.2 = 0 ∨ c.2.2 = M.az.n + 1)
      · simp only [if_pos hz] at h1; omega
      · simp only [eq_false hz, if_false, add_zero]
    · simp only [if_neg hy, Mesh.n, Mesh.axis] at h1 hvn ⊢
      have hv : ¬ (M.kind.active .z = true ∧ (v = 0 ∨ v = M.az.n + 1)) := by
        rintro ⟨_, h⟩; omega
      simp only [Idx.set, eq_false hv, eq_false hx, eq_false hy, if_false, add_zero]

/-- high-side face ghost, non-periodic: the row is the Robin relation
    `(a/(m·dx) + b/2)·φ_ghost + (−a/(m·dx) + b/2)·φ_cell = c` -/
theorem bcRow_hi_explicit (M : Mesh α) (bc : BCs α) (x : CellFld α) (c : Idx)
    (h1 : M.outCount c = 1) (h0 : c.get (M.outDir c) ≠ 0)
    (hnp : bc.periodicDir (M.outDir c) = false) :
    (bcRow M bc c).app x
        = hiGhostCoef M bc (M.outDir c) (c.set (M.outDir c) (M.n (M.outDir c))) * x c
          + hiCellCoef M bc (M.outDir c) (c.set (M.outDir c) (M.n (M.outDir c)))
              * x (c.set (M.outDir c) (M.n (M.outDir c)))
    ∧ (bcRow M bc c).rhs = (bc.hi (M.outDir c)).c (c.set (M.outDir c) (M.n (M.outDir c))) := by
  have hs := M.outDir_spec c h1
  have hn : c.get (M.outDir c) = M.n (M.outDir c) + 1 := by
    rcases hs with h | h
    · exact absurd h h0
    · exact h
  have hc : c.set (M.outDir c) (M.n (M.outDir c) + 1) = c := by rw [← hn]; exact Idx.set_get c _
  unfold bcRow
  rw [h1]
  simp only [if_neg h0, bcRowHi, hnp, Bool.false_eq_true, if_false, Idx.set_set, hc, Row.app,
    List.foldl_cons, List.foldl_nil, and_true]
  ring

/-- low-side face ghost, non-periodic: the row is minus the Robin relation
    `(−a/(m·dx) + b/2)·φ_ghost + (a/(m·dx) + b/2)·φ_cell = c` -/
theorem bcRow_lo_explicit (M : Mesh α) (bc : BCs α) (x : CellFld α) (c : Idx)
    (h1 : M.outCount c = 1) (h0 : c.get (M.outDir c) = 0)
    (hnp : bc.periodicDir (M.outDir c) = false) :
    (bcRow M bc c).app x
        = -(loGhostCoef M bc (M.outDir c) (c.set (M.outDir c) 1) * x c
          + loCellCoef M bc (M.outDir c) (c.set (M.outDir c) 1) * x (c.set (M.outDir c) 1))
    ∧ (bcRow M bc c).rhs = -((bc.lo (M.outDir c)).c (c.set (M.outDir c) 1)) := by
  have hc : c.set (M.outDir c) 0 = c := by rw [← h0]; exact Idx.set_get c _
  unfold bcRow
  rw [h1]
  simp only [if_pos h0, bcRowLo, hnp, Bool.false_eq_true, if_false, Idx.set_set, hc, Row.app,
    List.foldl_cons, List.foldl_nil, and_true]
  ring

/-! ### a concrete system for the non-vacuity examples (3 cells, Dirichlet 1 / 3) -/

namespace AsmEx

/-- Dirichlet `φ = 1` on the left, `φ = 3` on the right (`a = 0, b = 1`) -/
def bc (lo hi : ℚ) : BCs ℚ :=
  { lo := fun _ => ⟨fun _ => 0, fun _ => 1, fun _ => lo, false⟩,
    hi := fun _ => ⟨fun _ => 0, fun _ => 1, fun _ => hi, false⟩ }

/-- `[linearSourceTerm(β ≡ 2), constantSourceTerm(γ ≡ 4)]` -/
def terms : List (TermObj ℚ) := [.mat (linearSrcRow (fun _ => 2)), .vec (constSrcRHS (fun _ => 4))]

/-- the solution: 2 in the cells, ghosts 0 and 4 (so that the face averages are 1 and 3) -/
def sol : CellFld ℚ := fun c => if c.1 = 0 then 0 else if c.1 = 4 then 4 else 2

end AsmEx

end PyFV
