/-
  PyFV.Lemmas.BoxSum — sums over the whole 3-D index box (the interior cells), the sums over
  its three cross sections, and the bookkeeping that lifts the per-line telescoping of
  `C01.line_sum_divergence` to the box: `boxSum M f` is what `domainIntegral` adds up.
-/
import PyFV.Props.C01
import PyFV.Props.C05
import Mathlib.Algebra.BigOperators.Ring.Finset
import Mathlib.Algebra.BigOperators.Intervals
import Mathlib.Data.Finset.Prod

set_option linter.unusedSectionVars false

namespace PyFV
open Finset

variable {α : Type} [Field α] [LinearOrder α] [IsStrictOrderedRing α]

/-! ### definitions -/

/-- sum over the interior cells `(1..nx) × (1..ny) × (1..nz)` of the ghosted index box -/
def boxSum (M : Mesh α) (f : Idx → α) : α :=
  ∑ i ∈ range M.ax.n, ∑ j ∈ range M.ay.n, ∑ k ∈ range M.az.n, f (i+1, j+1, k+1)

/-- sum over the `(y,z)` cross section (positions of the lines along `x`) -/
def faceSumX (M : Mesh α) (g : ℕ → ℕ → α) : α :=
  ∑ j ∈ range M.ay.n, ∑ k ∈ range M.az.n, g (j+1) (k+1)

/-- sum over the `(x,z)` cross section (positions of the lines along `y`) -/
def faceSumY (M : Mesh α) (g : ℕ → ℕ → α) : α :=
  ∑ i ∈ range M.ax.n, ∑ k ∈ range M.az.n, g (i+1) (k+1)

/-- sum over the `(x,y)` cross section (positions of the lines along `z`) -/
def faceSumZ (M : Mesh α) (g : ℕ → ℕ → α) : α :=
  ∑ i ∈ range M.ax.n, ∑ j ∈ range M.ay.n, g (i+1) (j+1)

/-- sum over the cross section of direction `d`; the cross position is handed to `g` as the
    interior cell with `d`-index 1 on that line -/
def crossSum (M : Mesh α) (d : Dir) (g : Idx → α) : α :=
  match d with
  | .x => faceSumX M (fun j k => g (1, j, k))
  | .y => faceSumY M (fun i k => g (i, 1, k))
  | .z => faceSumZ M (fun i j => g (i, j, 1))

/-- contribution of the two boundary faces of the line through `c` along `d` to the balance:
    `cross · (A_n F_n − A_0 F_0)` -/
def bndFlux (M : Mesh α) (F : FaceFld α) (d : Dir) (c : Idx) : α :=
  C01.cross M d c * (lineA M d (M.n d) * F d (c.set d (M.n d)) - lineA M d 0 * F d (c.set d 0))

theorem bndFlux_set (M : Mesh α) (F : FaceFld α) (d : Dir) (c : Idx) (v : ℕ) :
    bndFlux M F d (c.set d v) = bndFlux M F d c := by
  simp only [bndFlux, C01.cross_set, Idx.set_set]

/-! ### the box sum is linear and only looks at interior cells -/

theorem boxSum_congr (M : Mesh α) (f g : Idx → α) (h : ∀ c, M.interior c → f c = g c) :
    boxSum M f = boxSum M g := by
  unfold boxSum
  apply sum_congr rfl; intro i hi
  apply sum_congr rfl; intro j hj
  apply sum_congr rfl; intro k hk
  have hi' := mem_range.mp hi; have hj' := mem_range.mp hj; have hk' := mem_range.mp hk
  apply h
  refine ⟨?_, ?_, ?_, ?_, ?_, ?_⟩ <;> dsimp only <;> omega

theorem boxSum_zero (M : Mesh α) : boxSum M (fun _ => (0 : α)) = 0 := by
  simp [boxSum]

theorem boxSum_add (M : Mesh α) (f g : Idx → α) :
    boxSum M (fun c => f c + g c) = boxSum M f + boxSum M g := by
  simp only [boxSum, sum_add_distrib]

theorem boxSum_neg (M : Mesh α) (f : Idx → α) : boxSum M (fun c => -f c) = -boxSum M f := by
  simp only [boxSum, sum_neg_distrib]

theorem boxSum_sub (M : Mesh α) (f g : Idx → α) :
    boxSum M (fun c => f c - g c) = boxSum M f - boxSum M g := by
  simp only [boxSum, sum_sub_distrib]

theorem boxSum_mul_left (M : Mesh α) (a : α) (f : Idx → α) :
    boxSum M (fun c => a * f c) = a * boxSum M f := by
  simp only [boxSum, mul_sum]

theorem boxSum_sumDirs (M : Mesh α) (k : Kind) (f : Dir → Idx → α) :
    boxSum M (fun c => sumDirs k (fun d => f d c)) = sumDirs k (fun d => boxSum M (f d)) := by
  unfold sumDirs
  by_cases hy : k.active .y = true <;> by_cases hz : k.active .z = true <;>
    simp only [hy, hz, if_true, if_false, boxSum_add, boxSum_zero, Bool.false_eq_true]

/-! ### the cross sums -/

theorem crossSum_congr (M : Mesh α) (d : Dir) (hn : 1 ≤ M.n d) (f g : Idx → α)
    (h : ∀ c, M.interior c → c.get d = 1 → f c = g c) : crossSum M d f = crossSum M d g := by
  cases d <;> simp only [crossSum, faceSumX, faceSumY, faceSumZ, Mesh.n, Mesh.axis] at hn ⊢
  all_goals
    apply sum_congr rfl; intro a ha
    apply sum_congr rfl; intro b hb
    have ha' := mem_range.mp ha; have hb' := mem_range.mp hb
    apply h
    · refine ⟨?_, ?_, ?_, ?_, ?_, ?_⟩ <;> dsimp only <;> omega
    · rfl

theorem crossSum_zero (M : Mesh α) (d : Dir) : crossSum M d (fun _ => (0 : α)) = 0 := by
  cases d <;> simp [crossSum, faceSumX, faceSumY, faceSumZ]

theorem crossSum_eq_zero (M : Mesh α) (d : Dir) (hn : 1 ≤ M.n d) (f : Idx → α)
    (h : ∀ c, M.interior c → c.get d = 1 → f c = 0) : crossSum M d f = 0 := by
  rw [crossSum_congr M d hn f (fun _ => 0) h, crossSum_zero]

theorem crossSum_add (M : Mesh α) (d : Dir) (f g : Idx → α) :
    crossSum M d (fun c => f c + g c) = crossSum M d f + crossSum M d g := by
  cases d <;> simp only [crossSum, faceSumX, faceSumY, faceSumZ, sum_add_distrib]

theorem crossSum_mul_left (M : Mesh α) (d : Dir) (a : α) (f : Idx → α) :
    crossSum M d (fun c => a * f c) = a * crossSum M d f := by
  cases d <;> simp only [crossSum, faceSumX, faceSumY, faceSumZ, mul_sum]

/-- **Fubini for the index box**: the box sum is the cross sum of the line sums, for each of
    the three directions (`Finset.sum_comm` brings direction `d` innermost). -/
theorem boxSum_lines (M : Mesh α) (d : Dir) (f : Idx → α) :
    boxSum M f = crossSum M d (fun c => ∑ i ∈ range (M.n d), f (c.set d (i+1))) := by
  cases d <;> simp only [boxSum, crossSum, faceSumX, faceSumY, faceSumZ, Idx.set, Mesh.n, Mesh.axis]
  · rw [sum_comm]
    apply sum_congr rfl; intro j _
    rw [sum_comm]
  · apply sum_congr rfl; intro i _
    rw [sum_comm]

/-! ### the interior cells as a `Finset Idx` (to use lemmas stated for arbitrary index sets) -/

/-- `(i,j,k) ↦ (i+1,j+1,k+1)` -/
def shiftEmb : ℕ × ℕ × ℕ ↪ Idx :=
  ⟨fun p => (p.1+1, p.2.1+1, p.2.2+1), by
    rintro ⟨a, b, c⟩ ⟨a', b', c'⟩ h
    simpa using h⟩

/-- the interior cells of the index box -/
def boxCells (M : Mesh α) : Finset Idx :=
  (range M.ax.n ×ˢ (range M.ay.n ×ˢ range M.az.n)).map shiftEmb

theorem boxSum_eq_sum_boxCells (M : Mesh α) (f : Idx → α) : boxSum M f = ∑ c ∈ boxCells M, f c := by
  unfold boxSum boxCells
  rw [sum_map, sum_product]
  apply sum_congr rfl; intro i _
  rw [sum_product]
  rfl

theorem mem_boxCells (M : Mesh α) (c : Idx) : c ∈ boxCells M ↔ M.interior c := by
  obtain ⟨i, j, k⟩ := c
  unfold boxCells
  rw [mem_map]
  constructor
  · rintro ⟨⟨a, b, c⟩, hp, he⟩
    simp only [mem_product, mem_range] at hp
    have he' : (a+1, b+1, c+1) = (i, j, k) := he
    simp only [Prod.mk.injEq] at he'
    obtain ⟨h1, h2, h3⟩ := hp
    obtain ⟨e1, e2, e3⟩ := he'
    refine ⟨?_, ?_, ?_, ?_, ?_, ?_⟩ <;> dsimp only <;> omega
  · intro h
    obtain ⟨a1, a2, b1, b2, c1, c2⟩ := h
    dsimp only at a1 a2 b1 b2 c1 c2
    refine ⟨(i-1, j-1, k-1), ?_, ?_⟩
    · simp only [mem_product, mem_range]; omega
    · show (i-1+1, j-1+1, k-1+1) = (i, j, k)
      simp only [Prod.mk.injEq]; omega

/-! ### non-degeneracy on well-formed meshes, also along inactive directions -/

/-- the line weight is positive along EVERY direction of a well-formed mesh (along an inactive
    direction it is the cell size of the carried axis) -/
theorem lineV_pos_any {M : Mesh α} (h : M.WF) (d : Dir) {i : ℕ} (h1 : 1 ≤ i) (hn : i ≤ M.n d) :
    0 < lineV M d i := by
  by_cases hd : M.kind.active d = true
  · exact lineV_pos h hd h1 hn
  · have hDX : 0 < (M.axis d).DX i := (h.axis d).pos i
    unfold lineV
    cases hk : M.kind <;> cases d <;>
      simp only [hk, Kind.active, Kind.dim, Mesh.axis, decide_eq_true_eq, not_true_eq_false,
        Nat.reduceLeDiff, le_refl] at hd hDX ⊢ <;>
      exact hDX

/-- the missing axes of lower-dimensional grids are unit axes: their single cell has weight 1 -/
theorem unitAxis_DX_one : (unitAxis : Axis α).DX 1 = 1 := by
  simp [unitAxis, mkAxisFaces]

theorem lineV_unitAxis (M : Mesh α) (d : Dir) (hd : M.kind.active d = false)
    (hax : M.axis d = unitAxis) (i : ℕ) (h1 : 1 ≤ i) (hn : i ≤ M.n d) : lineV M d i = 1 := by
  have hi : i = 1 := by
    have : M.n d = 1 := by unfold Mesh.n; rw [hax]; rfl
    omega
  subst hi
  have hDX : (M.axis d).DX 1 = 1 := by rw [hax]; exact unitAxis_DX_one
  unfold lineV
  cases hk : M.kind <;> cases d <;>
    simp only [hk, Kind.active, Kind.dim, Mesh.axis, decide_eq_false_iff_not,
      Bool.true_eq_false, Nat.reduceLeDiff, not_true_eq_false, not_false_eq_true] at hd hDX ⊢ <;>
    exact hDX

/-! ### seven-point versions of the flux-form identities not yet in C05 -/

/-- `convectionUpwindTerm(u, uUp) · φ = divergenceTerm(upFlux)`: no hypothesis on `uUp` -/
theorem upwindRow_eq_div_upFlux (M : Mesh α) (hM : M.WF) (u uUp : FaceFld α) (φ : CellFld α)
    (c : Idx) (hc : M.interior c) :
    (upwindRow M u uUp c).app φ c = divergence M (upFlux M u uUp φ) c := by
  unfold upwindRow divergence
  rw [St7.ofDirs_app]
  exact sumDirs_congr _ _ _ (fun d hd =>
    upwindSt_eq_div_upFlux M u uUp φ d c (lineOK_of_WF hM hd hc) (Mesh.interior_get hc d).2)

/-! ### boundary-face fluxes that vanish or balance -/

theorem diffFlux_wall (M : Mesh α) (D : FaceFld α) (φ : CellFld α) (d : Dir) (c : Idx) (v : ℕ)
    (h : φ (c.set d (v+1)) = φ (c.set d v)) :
    FaceFld.mul D (gradD M φ) d (c.set d v) = 0 := by
  simp only [FaceFld.mul]
  rw [C01.gradD_zero_of_eq M φ d (c.set d v) (by simpa [Idx.next] using h), mul_zero]

/-- periodic direction: wrapped ghosts, equal end-face coefficient, area factor and end-cell size
    ⇒ the diffusive fluxes through the two end faces of a line coincide -/
theorem diffFlux_periodic (M : Mesh α) (hM : M.WF) (D : FaceFld α) (φ : CellFld α) (d : Dir) (c : Idx)
    (hw0 : φ (c.set d 0) = φ (c.set d (M.n d))) (hwn : φ (c.set d (M.n d + 1)) = φ (c.set d 1))
    (hD : D d (c.set d 0) = D d (c.set d (M.n d))) (hA : lineA M d 0 = lineA M d (M.n d))
    (hDX : (M.axis d).DX 1 = (M.axis d).DX (M.n d)) :
    lineA M d (M.n d) * FaceFld.mul D (gradD M φ) d (c.set d (M.n d))
      = lineA M d 0 * FaceFld.mul D (gradD M φ) d (c.set d 0) := by
  have w := hM.axis d
  have e0 : (M.axis d).dxf 0 = (M.axis d).dxf (M.n d) := by
    unfold Axis.dxf
    have g0 := w.ghost0; have gN := w.ghostN
    simp only [Mesh.n] at hDX ⊢
    rw [g0, gN, hDX]
  simp only [FaceFld.mul, gradD, Idx.next, Idx.get_set_same, Idx.set_set, lineM_set, hw0, hwn, hD,
    hA, e0, zero_add]

theorem convFlux_wall (M : Mesh α) (u : FaceFld α) (φ : CellFld α) (d : Dir) (c : Idx)
    (h : u d c = 0) : FaceFld.mul u (linMean M φ) d c = 0 := by
  simp only [FaceFld.mul, h, zero_mul]

theorem upMeanFlux_wall (M : Mesh α) (u uUp : FaceFld α) (φ : CellFld α) (d : Dir) (c : Idx)
    (h : u d c = 0) : FaceFld.mul u (upMean M φ uUp) d c = 0 := by
  simp only [FaceFld.mul, h, zero_mul]

/-! ### hypotheses of the closed-box theorems, as predicates -/

/-- the face flux `F` vanishes on both boundary faces of every line of every active direction -/
def FluxClosed (M : Mesh α) (F : FaceFld α) : Prop :=
  ∀ d, M.kind.active d = true → ∀ c, M.interior c →
    F d (c.set d (M.n d)) = 0 ∧ F d (c.set d 0) = 0

/-- weaker: on every line of every active direction the area-weighted fluxes through the two
    end faces coincide (walls: both zero; periodic directions: what leaves re-enters) -/
def FluxBalanced (M : Mesh α) (F : FaceFld α) : Prop :=
  ∀ d, M.kind.active d = true → ∀ c, M.interior c →
    lineA M d (M.n d) * F d (c.set d (M.n d)) = lineA M d 0 * F d (c.set d 0)

/-- no-flux walls: on every boundary face of direction `d` the ghost value equals the adjacent cell value -/
def NoFluxDir (M : Mesh α) (φ : CellFld α) (d : Dir) : Prop :=
  ∀ c, M.interior c →
    φ (c.set d 1) = φ (c.set d 0) ∧ φ (c.set d (M.n d + 1)) = φ (c.set d (M.n d))

def NoFluxWalls (M : Mesh α) (φ : CellFld α) : Prop :=
  ∀ d, M.kind.active d = true → NoFluxDir M φ d

/-- periodic direction `d` for diffusion: wrapped ghost values, equal coefficient and area factor
    on the two end faces, equal end-cell sizes -/
def PeriodicDir (M : Mesh α) (D : FaceFld α) (φ : CellFld α) (d : Dir) : Prop :=
  lineA M d 0 = lineA M d (M.n d) ∧ (M.axis d).DX 1 = (M.axis d).DX (M.n d) ∧
  ∀ c, M.interior c →
    φ (c.set d 0) = φ (c.set d (M.n d)) ∧ φ (c.set d (M.n d + 1)) = φ (c.set d 1) ∧
    D d (c.set d 0) = D d (c.set d (M.n d))

/-- zero wall-normal velocity on every boundary face of every active direction -/
def WallNormalZero (M : Mesh α) (u : FaceFld α) : Prop :=
  ∀ d, M.kind.active d = true → ∀ c, M.interior c →
    u d (c.set d 0) = 0 ∧ u d (c.set d (M.n d)) = 0

/-- the inactive axes of a lower-dimensional grid are the unit axis (as the constructors build them) -/
def UnitInactive (M : Mesh α) : Prop :=
  ∀ d, M.kind.active d = false → M.axis d = unitAxis

/-- model of `CellVariable.domainIntegral()`: `(cellvolume * value).sum()` over the interior cells -/
def domainIntegral (M : Mesh α) (φ : CellFld α) : α :=
  boxSum M (fun c => cellVolume M c * φ c)

/-! ### concrete fields for the non-vacuity examples -/

namespace BoxEx

/-- index clamped into `1..n` (mirror ghost = adjacent cell) -/
def clamp (n i : ℕ) : ℕ := if i = 0 then 1 else if n < i then n else i

theorem clamp_zero (n : ℕ) : clamp n 0 = 1 := rfl
theorem clamp_one (n : ℕ) (hn : 1 ≤ n) : clamp n 1 = 1 := by
  have : ¬ n < 1 := by omega
  simp [clamp, this]
theorem clamp_succ (n : ℕ) (_hn : 1 ≤ n) : clamp n (n+1) = n := by simp [clamp]
theorem clamp_self (n : ℕ) (hn : 1 ≤ n) : clamp n n = n := by
  have : ¬ n = 0 := by omega
  simp [clamp, this]

/-- a non-constant field whose ghosts mirror the adjacent cell (no-flux walls everywhere) -/
def wallPhi (M : Mesh ℚ) : CellFld ℚ := fun c =>
  let i : ℚ := (clamp M.ax.n c.1 : ℕ); let j : ℚ := (clamp M.ay.n c.2.1 : ℕ)
  let k : ℚ := (clamp M.az.n c.2.2 : ℕ)
  i * i + 2 * j + 3 * k * i

theorem wallPhi_noFlux (M : Mesh ℚ) (hM : M.WF) : NoFluxWalls M (wallPhi M) := by
  intro d _ c _
  have hx := hM.wx.npos; have hy := hM.wy.npos; have hz := hM.wz.npos
  cases d <;>
    simp only [wallPhi, Idx.set, Mesh.n, Mesh.axis, clamp_zero, clamp_one _ hx, clamp_one _ hy,
      clamp_one _ hz, clamp_succ _ hx, clamp_succ _ hy, clamp_succ _ hz, clamp_self _ hx,
      clamp_self _ hy, clamp_self _ hz, and_self]

/-- a non-constant face field (diffusion coefficient) -/
def coefD : FaceFld ℚ := fun d c => 1 + (c.1 : ℚ) + 2 * (c.2.1 : ℚ) + (if d = .y then 3 else 0)

/-- a velocity field vanishing on the boundary faces `0` and `n_d` of every direction -/
def wallU (M : Mesh ℚ) : FaceFld ℚ := fun d c =>
  (c.get d : ℚ) * ((M.n d : ℚ) - (c.get d : ℚ)) * (1 + (c.1 : ℚ) - 2 * (c.2.1 : ℚ))

theorem wallU_zero (M : Mesh ℚ) : WallNormalZero M (wallU M) := by
  intro d _ c _
  simp [wallU]

/-- the uniform periodic 2-cell line of `C01` is well-formed, and its wrapped field is periodic -/
theorem perMesh_WF : C01.perMesh.WF where
  wx := mkAxisFaces_WF 2 _ (by norm_num) (by
    intro i hi
    have : i = 0 ∨ i = 1 := by omega
    rcases this with rfl | rfl <;> norm_num)
  wy := Examples.unitAxis_WF
  wz := Examples.unitAxis_WF
  rpos := by intro h; simp [C01.perMesh, Kind.radial] at h
  rf0 := by intro h; simp [C01.perMesh, Kind.radial] at h
  spos := by intro h; simp [C01.perMesh] at h
  pipos := by norm_num [C01.perMesh]

theorem perPhi_periodic (d : Dir) (hd : C01.perMesh.kind.active d = true) :
    PeriodicDir C01.perMesh (fun _ _ => 1) C01.perPhi d := by
  cases d
  · refine ⟨rfl, by norm_num [C01.perMesh, Mesh.axis, Mesh.n, mkAxisFaces], ?_⟩
    intro c _
    simp [C01.perPhi, Idx.set, C01.perMesh, Mesh.n, Mesh.axis, mkAxisFaces]
  · simp [C01.perMesh, Kind.active, Kind.dim] at hd
  · simp [C01.perMesh, Kind.active, Kind.dim] at hd

end BoxEx

end PyFV
