/-
  PyFV.Lemmas.StateLemmas — definitions and helper lemmas for property C09
  (state machine `PyFV.Model.State`).  Import-free apart from the model.
-/
import PyFV.Model.State

namespace PyFV.State

/-! ### running from an arbitrary state, outputs, the old machine -/

/-- run a history from an arbitrary start state (`run ops = runFrom init ops` by `rfl`) -/
def runFrom (s : St) (ops : List Op) : St := ops.foldl (fun s o => (step s o).1) s

theorem run_eq_runFrom (ops : List Op) : run ops = runFrom init ops := rfl

@[simp] theorem runFrom_nil (s : St) : runFrom s [] = s := rfl
@[simp] theorem runFrom_cons (s : St) (o : Op) (os : List Op) :
    runFrom s (o :: os) = runFrom (step s o).1 os := rfl

theorem runFrom_append (s : St) (os os' : List Op) :
    runFrom s (os ++ os') = runFrom (runFrom s os) os' := by
  simp [runFrom, List.foldl_append]

theorem run_append (os os' : List Op) : run (os ++ os') = runFrom (run os) os' := by
  simp [run_eq_runFrom, runFrom_append]

theorem run_snoc (os : List Op) (o : Op) : run (os ++ [o]) = (step (run os) o).1 := by
  simp [run_append]

/-- outputs of a history under the OLD machine -/
def runOutOld : St → List Op → St × List Out
  | s, [] => (s, [])
  | s, o :: os =>
    let r := stepOld s o
    let t := runOutOld r.1 os
    (t.1, r.2 :: t.2)

/-- which boundary-condition content a solve used (`none` when the output is not a solve) -/
def Out.usedBC : Out → Option (Option Nat)
  | .solved u _ => some u
  | _ => Option.none

/-- which interior stamp a solve started from -/
def Out.usedInterior : Out → Option Nat
  | .solved _ i => some i
  | _ => Option.none

/-! ### projections of `applyBCs` (all by `rfl`) -/

theorem applyBCs_vars (s : St) (v u : Nat) :
    (applyBCs s v).vars u =
      if u = v then
        { s.vars v with
            ghostI := (s.vars v).interior, ghostB := (s.bcs (s.vars v).bc).content,
            cache := if (s.vars v).precalc then some (s.bcs (s.vars v).bc).content else (s.vars v).cache,
            applied := (s.bcs (s.vars v).bc).content, valMod := false }
      else s.vars u := rfl

theorem applyBCs_bcs (s : St) (v b : Nat) :
    (applyBCs s v).bcs b =
      if b = (s.vars v).bc then { content := (s.bcs (s.vars v).bc).content, modified := false }
      else s.bcs b := rfl

@[simp] theorem applyBCs_nV (s : St) (v : Nat) : (applyBCs s v).nV = s.nV := rfl
@[simp] theorem applyBCs_nB (s : St) (v : Nat) : (applyBCs s v).nB = s.nB := rfl
@[simp] theorem applyBCs_next (s : St) (v : Nat) : (applyBCs s v).next = s.next := rfl

/-- `apply_BCs` never changes the *content* of any boundary-condition object -/
theorem applyBCs_content (s : St) (v b : Nat) :
    ((applyBCs s v).bcs b).content = (s.bcs b).content := by
  rw [applyBCs_bcs]; split
  · next h => subst h; rfl
  · rfl

/-- `apply_BCs` never changes which object a variable refers to -/
theorem applyBCs_bc (s : St) (v u : Nat) : ((applyBCs s v).vars u).bc = (s.vars u).bc := by
  rw [applyBCs_vars]; split
  · next h => subst h; rfl
  · rfl

/-! ### well-formedness -/

/-- every stamp stored in a variable is older than `next`, its BC object is live -/
structure WFVar (nB next : Nat) (x : Var) : Prop where
  bc : x.bc < nB
  interior : x.interior < next
  ghostI : x.ghostI < next
  ghostB : x.ghostB < next
  applied : x.applied < next
  cache : ∀ c, x.cache = some c → c < next

structure WFSt (s : St) : Prop where
  bcs : ∀ b, b < s.nB → (s.bcs b).content < s.next
  vars : ∀ v, v < s.nV → WFVar s.nB s.next (s.vars v)

theorem WFVar.mono {nB nB' next next' : Nat} {x : Var} (h : WFVar nB next x)
    (hB : nB ≤ nB') (hn : next ≤ next') : WFVar nB' next' x :=
  ⟨Nat.lt_of_lt_of_le h.bc hB, Nat.lt_of_lt_of_le h.interior hn, Nat.lt_of_lt_of_le h.ghostI hn,
   Nat.lt_of_lt_of_le h.ghostB hn, Nat.lt_of_lt_of_le h.applied hn,
   fun c hc => Nat.lt_of_lt_of_le (h.cache c hc) hn⟩

theorem wf_applyBCs {s : St} (h : WFSt s) {v : Nat} (hv : v < s.nV) : WFSt (applyBCs s v) := by
  have hx := h.vars v hv
  have hc := h.bcs _ hx.bc
  constructor
  · intro b hb
    rw [applyBCs_content]; exact h.bcs b hb
  · intro u hu
    rw [applyBCs_vars]
    split
    · refine ⟨hx.bc, hx.interior, hx.interior, hc, hc, ?_⟩
      intro c
      dsimp only
      split
      · intro e; cases e; exact hc
      · exact hx.cache c
    · exact h.vars u hu

end PyFV.State
