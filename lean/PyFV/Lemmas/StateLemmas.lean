/-
  PyFV.Lemmas.StateLemmas — definitions and helper lemmas for property C09
  (state machine `PyFV.Model.State`).  Import-free apart from the model.
-/
import PyFV.Model.State

namespace PyFV.State

/-! ### running from an arbitrary state, outputs, the old machine -/

/-- run a history from an arbitrary start state (`run ops = runFrom init ops` by `rfl`) -/
def runFrom (s : St) (ops : List Op) : St := ops.foldl (fun s o => (step s o).1) s

theorem run_eq_runFrom (ops : List Op) : run ops = runFrom init ops := rfl

@[simp] theorem runFrom_nil (s : St) : runFrom s [] = s := rfl
@[simp] theorem runFrom_cons (s : St) (o : Op) (os : List Op) :
    runFrom s (o :: os) = runFrom (step s o).1 os := rfl

theorem runFrom_append (s : St) (os os' : List Op) :
    runFrom s (os ++ os') = runFrom (runFrom s os) os' := by
  simp [runFrom, List.foldl_append]

theorem run_append (os os' : List Op) : run (os ++ os') = runFrom (run os) os' := by
  simp [run_eq_runFrom, runFrom_append]

theorem run_snoc (os : List Op) (o : Op) : run (os ++ [o]) = (step (run os) o).1 := by
  simp [run_append]

/-- outputs of a history under the OLD machine -/
def runOutOld : St → List Op → St × List Out
  | s, [] => (s, [])
  | s, o :: os =>
    let r := stepOld s o
    let t := runOutOld r.1 os
    (t.1, r.2 :: t.2)

/-- which boundary-condition content a solve used (`none` when the output is not a solve) -/
def Out.usedBC : Out → Option (Option Nat)
  | .solved u _ => some u
  | _ => Option.none

/-- which interior stamp a solve started from -/
def Out.usedInterior : Out → Option Nat
  | .solved _ i => some i
  | _ => Option.none

/-! ### projections of `applyBCs` (all by `rfl`) -/

theorem applyBCs_vars (s : St) (v u : Nat) :
    (applyBCs s v).vars u =
      if u = v then
        { s.vars v with
            ghostI := (s.vars v).interior, ghostB := (s.bcs (s.vars v).bc).content,
            cache := if (s.vars v).precalc then some (s.bcs (s.vars v).bc).content else (s.vars v).cache,
            applied := (s.bcs (s.vars v).bc).content, valMod := false }
      else s.vars u := rfl

theorem applyBCs_bcs (s : St) (v b : Nat) :
    (applyBCs s v).bcs b =
      if b = (s.vars v).bc then { content := (s.bcs (s.vars v).bc).content, modified := false }
      else s.bcs b := rfl

@[simp] theorem applyBCs_nV (s : St) (v : Nat) : (applyBCs s v).nV = s.nV := rfl
@[simp] theorem applyBCs_nB (s : St) (v : Nat) : (applyBCs s v).nB = s.nB := rfl
@[simp] theorem applyBCs_next (s : St) (v : Nat) : (applyBCs s v).next = s.next := rfl

/-- `apply_BCs` never changes the *content* of any boundary-condition object -/
theorem applyBCs_content (s : St) (v b : Nat) :
    ((applyBCs s v).bcs b).content = (s.bcs b).content := by
  rw [applyBCs_bcs]; split
  · next h => subst h; rfl
  · rfl

/-- `apply_BCs` never changes which object a variable refers to -/
theorem applyBCs_bc (s : St) (v u : Nat) : ((applyBCs s v).vars u).bc = (s.vars u).bc := by
  rw [applyBCs_vars]; split
  · next h => subst h; rfl
  · rfl

/-! ### well-formedness -/

/-- every stamp stored in a variable is older than `next`, its BC object is live -/
structure WFVar (nB next : Nat) (x : Var) : Prop where
  bc : x.bc < nB
  interior : x.interior < next
  ghostI : x.ghostI < next
  ghostB : x.ghostB < next
  applied : x.applied < next
  cache : ∀ c, x.cache = some c → c < next

structure WFSt (s : St) : Prop where
  bcs : ∀ b, b < s.nB → (s.bcs b).content < s.next
  vars : ∀ v, v < s.nV → WFVar s.nB s.next (s.vars v)

theorem WFVar.mono {nB nB' next next' : Nat} {x : Var} (h : WFVar nB next x)
    (hB : nB ≤ nB') (hn : next ≤ next') : WFVar nB' next' x :=
  ⟨Nat.lt_of_lt_of_le h.bc hB, Nat.lt_of_lt_of_le h.interior hn, Nat.lt_of_lt_of_le h.ghostI hn,
   Nat.lt_of_lt_of_le h.ghostB hn, Nat.lt_of_lt_of_le h.applied hn,
   fun c hc => Nat.lt_of_lt_of_le (h.cache c hc) hn⟩

theorem wf_applyBCs {s : St} (h : WFSt s) {v : Nat} (hv : v < s.nV) : WFSt (applyBCs s v) := by
  have hx := h.vars v hv
  have hc := h.bcs _ hx.bc
  constructor
  · intro b hb
    rw [applyBCs_content]; exact h.bcs b hb
  · intro u hu
    rw [applyBCs_vars]
    split
    · refine ⟨hx.bc, hx.interior, hx.interior, hc, hc, ?_⟩
      intro c
      dsimp only
      split
      · intro e; cases e; exact hc
      · exact hx.cache c
    · exact h.vars u hu


def applyVar (c : Nat) (x : Var) : Var :=
  { x with ghostI := x.interior, ghostB := c,
           cache := if x.precalc then some c else x.cache, applied := c, valMod := false }

theorem applyBCs_vars' (s : St) (v u : Nat) :
    (applyBCs s v).vars u =
      if u = v then applyVar (s.bcs (s.vars v).bc).content (s.vars v) else s.vars u := rfl

def preSolve (s : St) (v : Nat) : St :=
  if !(s.vars v).precalc then applyBCs (setVar s v { s.vars v with precalc := true }) v
  else if outdated s (s.vars v) then applyBCs s v else s

def postSolve (s1 : St) (v : Nat) : St :=
  applyBCs { setVar s1 v { s1.vars v with interior := s1.next } with next := s1.next + 1 } v

theorem step_solve {s : St} {v : Nat} (h : v < s.nV) :
    step s (.solve v) =
      (postSolve (preSolve s v) v,
       Out.solved ((preSolve s v).vars v).cache ((preSolve s v).vars v).interior) := by
  simp only [step, if_pos h]; rfl

def preExplicit (s : St) (v : Nat) : St :=
  if outdated s (s.vars v) then applyBCs s v else s

def postExplicit (s1 : St) (b : Nat) : St :=
  applyBCs { setVar s1 s1.nV (mkVar s1 b s1.next false) with nV := s1.nV + 1, next := s1.next + 1 } s1.nV

theorem step_solveExplicit {s : St} {v : Nat} (h : v < s.nV) :
    step s (.solveExplicit v) =
      (postExplicit (preExplicit s v) (s.vars v).bc, Out.newVar (preExplicit s v).nV) := by
  simp only [step, if_pos h]; rfl

/-- replacing a live variable by a well-formed one -/
theorem wf_setVar {s : St} (h : WFSt s) {v : Nat} {x : Var} (hx : WFVar s.nB s.next x) :
    WFSt (setVar s v x) := by
  constructor
  · exact h.bcs
  · intro u hu
    simp only [setVar] at hu ⊢
    split
    · exact hx
    · exact h.vars u hu

/-- bumping the stamp counter -/
theorem wf_bump {s : St} (h : WFSt s) : WFSt { s with next := s.next + 1 } :=
  ⟨fun b hb => Nat.lt_succ_of_lt (h.bcs b hb),
   fun v hv => (h.vars v hv).mono (Nat.le_refl _) (Nat.le_succ _)⟩

/-- appending a well-formed variable -/
theorem wf_pushVar {s : St} (h : WFSt s) {x : Var} (hx : WFVar s.nB s.next x) :
    WFSt { setVar s s.nV x with nV := s.nV + 1 } := by
  constructor
  · exact h.bcs
  · intro u hu
    simp only [setVar] at hu ⊢
    split
    · exact hx
    · exact h.vars u (by omega)

/-- appending a boundary-condition object -/
theorem wf_pushBC {s : St} (h : WFSt s) {o : BCObj} (ho : o.content < s.next) :
    WFSt { setBC s s.nB o with nB := s.nB + 1 } := by
  constructor
  · intro b hb
    simp only [setBC] at hb ⊢
    split
    · exact ho
    · exact h.bcs b (by omega)
  · intro u hu
    exact (h.vars u hu).mono (Nat.le_succ _) (Nat.le_refl _)

theorem wf_mkVar {s : St} (h : WFSt s) {b : Nat} (hb : b < s.nB) (p : Bool) :
    WFVar s.nB (s.next + 1) (mkVar s b s.next p) := by
  have hc := h.bcs b hb
  refine ⟨hb, ?_, ?_, ?_, ?_, ?_⟩ <;> simp only [mkVar]
  · omega
  · omega
  · omega
  · omega
  · intro c; split
    · intro e; cases e; omega
    · intro e; cases e

theorem preSolve_nV (s : St) (v : Nat) : (preSolve s v).nV = s.nV := by
  unfold preSolve; split
  · rfl
  · split <;> rfl

theorem wf_preSolve {s : St} (h : WFSt s) {v : Nat} (hv : v < s.nV) : WFSt (preSolve s v) := by
  unfold preSolve
  split
  · apply wf_applyBCs (wf_setVar h _) hv
    have := h.vars v hv
    exact ⟨this.bc, this.interior, this.ghostI, this.ghostB, this.applied, this.cache⟩
  · split
    · exact wf_applyBCs h hv
    · exact h

theorem wf_postSolve {s : St} (h : WFSt s) {v : Nat} (hv : v < s.nV) : WFSt (postSolve s v) := by
  unfold postSolve
  have hx := h.vars v hv
  have h1 : WFSt (setVar { s with next := s.next + 1 } v { s.vars v with interior := s.next }) := by
    apply wf_setVar (wf_bump h)
    have := (hx.mono (Nat.le_refl _) (Nat.le_succ s.next))
    exact ⟨this.bc, Nat.lt_succ_self _, this.ghostI, this.ghostB, this.applied, this.cache⟩
  exact wf_applyBCs h1 hv

theorem preExplicit_nV (s : St) (v : Nat) : (preExplicit s v).nV = s.nV := by
  unfold preExplicit; split <;> rfl
theorem preExplicit_nB (s : St) (v : Nat) : (preExplicit s v).nB = s.nB := by
  unfold preExplicit; split <;> rfl

theorem wf_preExplicit {s : St} (h : WFSt s) {v : Nat} (hv : v < s.nV) :
    WFSt (preExplicit s v) := by
  unfold preExplicit; split
  · exact wf_applyBCs h hv
  · exact h

theorem wf_postExplicit {s : St} (h : WFSt s) {b : Nat} (hb : b < s.nB) :
    WFSt (postExplicit s b) := by
  unfold postExplicit
  have h1 : WFSt { setVar { s with next := s.next + 1 } s.nV (mkVar s b s.next false) with
                   nV := s.nV + 1 } :=
    wf_pushVar (s := { s with next := s.next + 1 }) (wf_bump h) (wf_mkVar h hb false)
  exact wf_applyBCs h1 (Nat.lt_succ_self _)

theorem wf_step {s : St} (h : WFSt s) (op : Op) : WFSt (step s op).1 := by
  cases op with
  | newBC =>
    exact wf_pushBC (s := { s with next := s.next + 1 }) (o := ⟨s.next, false⟩) (wf_bump h)
      (Nat.lt_succ_self _)
  | newVar b =>
    simp only [step]; split
    · next hb =>
      exact wf_pushVar (s := { s with next := s.next + 1 }) (wf_bump h) (wf_mkVar h hb true)
    · exact h
  | newVarDefault =>
    have h1 : WFSt { setBC { s with next := s.next + 1 } s.nB ⟨s.next, false⟩ with nB := s.nB + 1 } :=
      wf_pushBC (s := { s with next := s.next + 1 }) (o := ⟨s.next, false⟩) (wf_bump h)
        (Nat.lt_succ_self _)
    have h2 := wf_pushVar (wf_bump h1) (wf_mkVar h1 (b := s.nB) (Nat.lt_succ_self _) true)
    exact h2
  | editBC b =>
    simp only [step]; split
    · constructor
      · intro b' hb'
        simp only [setBC] at hb' ⊢
        split
        · exact Nat.lt_succ_self _
        · exact Nat.lt_succ_of_lt (h.bcs b' hb')
      · intro u hu
        exact (h.vars u hu).mono (Nat.le_refl _) (Nat.le_succ _)
    · exact h
  | editBCSilent b =>
    simp only [step]; split
    · constructor
      · intro b' hb'
        simp only [setBC] at hb' ⊢
        split
        · exact Nat.lt_succ_self _
        · exact Nat.lt_succ_of_lt (h.bcs b' hb')
      · intro u hu
        exact (h.vars u hu).mono (Nat.le_refl _) (Nat.le_succ _)
    · exact h
  | editVal v =>
    simp only [step]; split
    · next hv =>
      have hx := (h.vars v hv).mono (Nat.le_refl _) (Nat.le_succ s.next)
      exact wf_setVar (s := { s with next := s.next + 1 }) (wf_bump h)
        ⟨hx.bc, Nat.lt_succ_self _, hx.ghostI, hx.ghostB, hx.applied, hx.cache⟩
    · exact h
  | updateValue v w =>
    simp only [step]; split
    · next hvw =>
      have hx := h.vars v hvw.1
      have hy := h.vars w hvw.2
      exact wf_setVar h ⟨hx.bc, hy.interior, hy.ghostI, hy.ghostB, hx.applied, hx.cache⟩
    · exact h
  | applyBCs v =>
    simp only [step]; split
    · next hv => exact wf_applyBCs h hv
    · exact h
  | solve v =>
    by_cases hv : v < s.nV
    · rw [step_solve hv]
      exact wf_postSolve (wf_preSolve h hv) (by rw [preSolve_nV]; exact hv)
    · simp only [step, if_neg hv]; exact h
  | solveExplicit v =>
    by_cases hv : v < s.nV
    · rw [step_solveExplicit hv]
      exact wf_postExplicit (wf_preExplicit h hv) (by rw [preExplicit_nB]; exact (h.vars v hv).bc)
    · simp only [step, if_neg hv]; exact h
  | copy v =>
    simp only [step]; split
    · next hv =>
      have hx := h.vars v hv
      have hc := h.bcs _ hx.bc
      have h1 : WFSt { setBC s s.nB (s.bcs (s.vars v).bc) with nB := s.nB + 1 } := wf_pushBC h hc
      refine wf_pushVar h1 ⟨Nat.lt_succ_self _, hx.interior, hx.ghostI, hx.ghostB, hc, ?_⟩
      intro c e; cases e; exact hc
    · exact h
  | arith v =>
    simp only [step]; split
    · next hv =>
      have hx := h.vars v hv
      have hc := h.bcs _ hx.bc
      have h1 : WFSt { setBC s s.nB (s.bcs (s.vars v).bc) with nB := s.nB + 1 } := wf_pushBC h hc
      have h2 := wf_pushVar (wf_bump h1) (wf_mkVar h1 (b := s.nB) (Nat.lt_succ_self _) true)
      exact h2
    · exact h

/-! ### projections of the pieces of `solve` / `solveExplicit` -/

theorem preSolve_nB (s : St) (v : Nat) : (preSolve s v).nB = s.nB := by
  unfold preSolve; split
  · rfl
  · split <;> rfl

theorem preSolve_next (s : St) (v : Nat) : (preSolve s v).next = s.next := by
  unfold preSolve; split
  · rfl
  · split <;> rfl

theorem preSolve_vars_ne (s : St) {v u : Nat} (h : u ≠ v) : (preSolve s v).vars u = s.vars u := by
  unfold preSolve; split
  · rw [applyBCs_vars', if_neg h]; simp only [setVar, if_neg h]
  · split
    · rw [applyBCs_vars', if_neg h]
    · rfl

theorem preSolve_content (s : St) (v b : Nat) :
    ((preSolve s v).bcs b).content = (s.bcs b).content := by
  unfold preSolve; split
  · rw [applyBCs_content]; rfl
  · split
    · rw [applyBCs_content]
    · rfl

theorem preSolve_bcs_ne (s : St) {v b : Nat} (h : b ≠ (s.vars v).bc) :
    (preSolve s v).bcs b = s.bcs b := by
  unfold preSolve; split
  · rw [applyBCs_bcs]; simp only [setVar, ↓reduceIte]; rw [if_neg h]
  · split
    · rw [applyBCs_bcs, if_neg h]
    · rfl

theorem preSolve_self (s : St) (v : Nat) :
    ((preSolve s v).vars v).bc = (s.vars v).bc ∧
    ((preSolve s v).vars v).interior = (s.vars v).interior ∧
    ((preSolve s v).vars v).precalc = true := by
  unfold preSolve; split
  · rw [applyBCs_vars', if_pos rfl]; simp only [setVar, ↓reduceIte, applyVar]; simp
  · next hp =>
    have hp' : (s.vars v).precalc = true := by simpa using hp
    split
    · rw [applyBCs_vars', if_pos rfl]; simp only [applyVar]; simp [hp']
    · simp [hp']



theorem postSolve_vars (s : St) (v u : Nat) :
    (postSolve s v).vars u =
      if u = v then applyVar (s.bcs (s.vars v).bc).content { s.vars v with interior := s.next }
      else s.vars u := by
  unfold postSolve
  rw [applyBCs_vars']
  simp only [setVar, ↓reduceIte]
  by_cases h : u = v
  · simp only [if_pos h]
  · simp only [if_neg h]

theorem postSolve_bcs (s : St) (v b : Nat) :
    (postSolve s v).bcs b =
      if b = (s.vars v).bc then { content := (s.bcs (s.vars v).bc).content, modified := false }
      else s.bcs b := by
  unfold postSolve
  rw [applyBCs_bcs]
  simp only [setVar, ↓reduceIte]

theorem postSolve_nV (s : St) (v : Nat) : (postSolve s v).nV = s.nV := rfl
theorem postSolve_nB (s : St) (v : Nat) : (postSolve s v).nB = s.nB := rfl
theorem postSolve_next (s : St) (v : Nat) : (postSolve s v).next = s.next + 1 := rfl

theorem preExplicit_next (s : St) (v : Nat) : (preExplicit s v).next = s.next := by
  unfold preExplicit; split <;> rfl

theorem preExplicit_vars (s : St) (v u : Nat) :
    (preExplicit s v).vars u = s.vars u ∨
    (u = v ∧ (preExplicit s v).vars u = applyVar (s.bcs (s.vars v).bc).content (s.vars v)) := by
  unfold preExplicit; split
  · rw [applyBCs_vars']; split
    · next h => exact Or.inr ⟨h, rfl⟩
    · exact Or.inl rfl
  · exact Or.inl rfl

theorem preExplicit_vars_ne (s : St) {v u : Nat} (h : u ≠ v) :
    (preExplicit s v).vars u = s.vars u := by
  rcases preExplicit_vars s v u with h1 | ⟨h1, _⟩
  · exact h1
  · exact absurd h1 h

theorem preExplicit_content (s : St) (v b : Nat) :
    ((preExplicit s v).bcs b).content = (s.bcs b).content := by
  unfold preExplicit; split
  · rw [applyBCs_content]
  · rfl

theorem preExplicit_bcs_ne (s : St) {v b : Nat} (h : b ≠ (s.vars v).bc) :
    (preExplicit s v).bcs b = s.bcs b := by
  unfold preExplicit; split
  · rw [applyBCs_bcs, if_neg h]
  · rfl

theorem postExplicit_vars (s : St) (b u : Nat) :
    (postExplicit s b).vars u =
      if u = s.nV then applyVar (s.bcs b).content (mkVar s b s.next false) else s.vars u := by
  unfold postExplicit
  rw [applyBCs_vars']
  simp only [setVar, ↓reduceIte, mkVar]
  by_cases h : u = s.nV
  · simp only [if_pos h]
  · simp only [if_neg h]

theorem postExplicit_bcs (s : St) (b b' : Nat) :
    (postExplicit s b).bcs b' =
      if b' = b then { content := (s.bcs b).content, modified := false } else s.bcs b' := by
  unfold postExplicit
  rw [applyBCs_bcs]
  simp only [setVar, ↓reduceIte, mkVar]

theorem postExplicit_nV (s : St) (b : Nat) : (postExplicit s b).nV = s.nV + 1 := rfl
theorem postExplicit_nB (s : St) (b : Nat) : (postExplicit s b).nB = s.nB := rfl


/-! ### per-variable invariants -/

/-- the variable created by `.copy v` -/
def copyVar (s : St) (v : Nat) : Var :=
  { bc := s.nB, interior := (s.vars v).interior, ghostI := (s.vars v).ghostI,
    ghostB := (s.vars v).ghostB, cache := some (s.bcs (s.vars v).bc).content,
    applied := (s.bcs (s.vars v).bc).content, valMod := false, precalc := true }

/-- the state after the BC object of `.newVarDefault` was created -/
def withDefaultBC (s : St) : St :=
  { setBC s s.nB { content := s.next, modified := false } with nB := s.nB + 1, next := s.next + 1 }

/-- the state after the BC object of `.copy v` / `.arith v` was deep-copied -/
def withCopiedBC (s : St) (v : Nat) : St :=
  { setBC s s.nB (s.bcs (s.vars v).bc) with nB := s.nB + 1 }

/-! ### `vars` / `nV` after the creating ops -/

theorem step_newVar_vars {s : St} {b : Nat} (hb : b < s.nB) (u : Nat) :
    (step s (.newVar b)).1.vars u = if u = s.nV then mkVar s b s.next true else s.vars u := by
  simp only [step, if_pos hb]; rfl
theorem step_newVar_nV {s : St} {b : Nat} (hb : b < s.nB) : (step s (.newVar b)).1.nV = s.nV + 1 := by
  simp only [step, if_pos hb]
theorem step_newVarDefault_vars (s : St) (u : Nat) :
    (step s .newVarDefault).1.vars u =
      if u = s.nV then mkVar (withDefaultBC s) s.nB (s.next + 1) true else s.vars u := rfl
theorem step_newVarDefault_nV (s : St) : (step s .newVarDefault).1.nV = s.nV + 1 := rfl
theorem step_copy_vars {s : St} {v : Nat} (hv : v < s.nV) (u : Nat) :
    (step s (.copy v)).1.vars u = if u = s.nV then copyVar s v else s.vars u := by
  simp only [step, if_pos hv]; rfl
theorem step_copy_nV {s : St} {v : Nat} (hv : v < s.nV) : (step s (.copy v)).1.nV = s.nV + 1 := by
  simp only [step, if_pos hv]; rfl
theorem step_arith_vars {s : St} {v : Nat} (hv : v < s.nV) (u : Nat) :
    (step s (.arith v)).1.vars u =
      if u = s.nV then mkVar (withCopiedBC s v) s.nB s.next true else s.vars u := by
  simp only [step, if_pos hv]; rfl
theorem step_arith_nV {s : St} {v : Nat} (hv : v < s.nV) : (step s (.arith v)).1.nV = s.nV + 1 := by
  simp only [step, if_pos hv]; rfl

theorem step_invalid_newVar {s : St} {b : Nat} (hb : ¬ b < s.nB) : step s (.newVar b) = (s, .invalid) := by
  simp only [step, if_neg hb]
theorem step_invalid_copy {s : St} {v : Nat} (hv : ¬ v < s.nV) : step s (.copy v) = (s, .invalid) := by
  simp only [step, if_neg hv]
theorem step_invalid_arith {s : St} {v : Nat} (hv : ¬ v < s.nV) : step s (.arith v) = (s, .invalid) := by
  simp only [step, if_neg hv]
theorem step_invalid_solve {s : St} {v : Nat} (hv : ¬ v < s.nV) : step s (.solve v) = (s, .invalid) := by
  simp only [step, if_neg hv]
theorem step_invalid_solveExplicit {s : St} {v : Nat} (hv : ¬ v < s.nV) :
    step s (.solveExplicit v) = (s, .invalid) := by
  simp only [step, if_neg hv]

/-- a predicate holds of every live variable -/
def VarInv (P : Var → Prop) (s : St) : Prop := ∀ v, v < s.nV → P (s.vars v)

theorem varInv_init (P : Var → Prop) : VarInv P init := fun _ hv => absurd hv (Nat.not_lt_zero _)

/-- one-step preservation of a per-variable invariant `P` that is established by `apply_BCs`
    and by the constructor and preserved by value edits; the `copy` case is left to the caller -/
theorem varInv_step {P : Var → Prop}
    (hA : ∀ c x, P (applyVar c x))
    (hM : ∀ s b i p, P (mkVar s b i p))
    (hE : ∀ x n, P x → P { x with interior := n, valMod := true })
    (hU : ∀ x (y : Var), P x →
      P { x with interior := y.interior, ghostI := y.ghostI, ghostB := y.ghostB, valMod := true })
    {s : St} (op : Op)
    (hC : ∀ v, op = .copy v → v < s.nV → P (s.vars v) → P (copyVar s v))
    (h : VarInv P s) : VarInv P (step s op).1 := by
  cases op with
  | newBC => exact h
  | newVar b =>
    by_cases hb : b < s.nB
    · intro u hu
      rw [step_newVar_nV hb] at hu
      rw [step_newVar_vars hb]; split
      · exact hM _ _ _ _
      · exact h u (by omega)
    · rw [step_invalid_newVar hb]; exact h
  | newVarDefault =>
    intro u hu
    rw [step_newVarDefault_nV] at hu
    rw [step_newVarDefault_vars]; split
    · exact hM _ _ _ _
    · exact h u (by omega)
  | editBC b =>
    simp only [step]; split
    · exact h
    · exact h
  | editBCSilent b =>
    simp only [step]; split
    · exact h
    · exact h
  | editVal v =>
    simp only [step]; split
    · next hv =>
      intro u hu
      simp only [setVar] at hu ⊢
      split
      · exact hE _ _ (h v hv)
      · exact h u hu
    · exact h
  | updateValue v w =>
    simp only [step]; split
    · next hvw =>
      intro u hu
      simp only [setVar] at hu ⊢
      split
      · exact hU _ _ (h v hvw.1)
      · exact h u hu
    · exact h
  | applyBCs v =>
    simp only [step]; split
    · intro u hu
      rw [applyBCs_vars']; split
      · exact hA _ _
      · exact h u hu
    · exact h
  | solve v =>
    by_cases hv : v < s.nV
    · rw [step_solve hv]
      intro u hu
      rw [postSolve_vars]; split
      · exact hA _ _
      · next hne => rw [preSolve_vars_ne s hne]; exact h u (by simpa [postSolve_nV, preSolve_nV] using hu)
    · simp only [step, if_neg hv]; exact h
  | solveExplicit v =>
    by_cases hv : v < s.nV
    · rw [step_solveExplicit hv]
      intro u hu
      rw [postExplicit_vars]; split
      · exact hA _ _
      · next hne =>
        rw [preExplicit_nV] at hne
        have hu' : u < s.nV := by
          have : u < s.nV + 1 := by simpa [postExplicit_nV, preExplicit_nV] using hu
          omega
        rcases preExplicit_vars s v u with e | ⟨_, e⟩
        · rw [e]; exact h u hu'
        · rw [e]; exact hA _ _
    · simp only [step, if_neg hv]; exact h
  | copy v =>
    by_cases hv : v < s.nV
    · intro u hu
      rw [step_copy_nV hv] at hu
      rw [step_copy_vars hv]; split
      · exact hC v rfl hv (h v hv)
      · exact h u (by omega)
    · rw [step_invalid_copy hv]; exact h
  | arith v =>
    by_cases hv : v < s.nV
    · intro u hu
      rw [step_arith_nV hv] at hu
      rw [step_arith_vars hv]; split
      · exact hM _ _ _ _
      · exact h u (by omega)
    · rw [step_invalid_arith hv]; exact h


end PyFV.State
