/-
  PyFV.Lemmas.StateLemmas — definitions and helper lemmas for property C09
  (state machine `PyFV.Model.State`).  Import-free apart from the model.
-/
import PyFV.Model.State

namespace PyFV.State

/-! ### running from an arbitrary state, outputs, the old machine -/

/-- run a history from an arbitrary start state (`run ops = runFrom init ops` by `rfl`) -/
def runFrom (s : St) (ops : List Op) : St := ops.foldl (fun s o => (step s o).1) s

theorem run_eq_runFrom (ops : List Op) : run ops = runFrom init ops := rfl

@[simp] theorem runFrom_nil (s : St) : runFrom s [] = s := rfl
@[simp] theorem runFrom_cons (s : St) (o : Op) (os : List Op) :
    runFrom s (o :: os) = runFrom (step s o).1 os := rfl

theorem runFrom_append (s : St) (os os' : List Op) :
    runFrom s (os ++ os') = runFrom (runFrom s os) os' := by
  simp [runFrom, List.foldl_append]

theorem run_append (os os' : List Op) : run (os ++ os') = runFrom (run os) os' := by
  simp [run_eq_runFrom, runFrom_append]

theorem run_snoc (os : List Op) (o : Op) : run (os ++ [o]) = (step (run os) o).1 := by
  simp [run_append]

/-- outputs of a history under the OLD machine -/
def runOutOld : St → List Op → St × List Out
  | s, [] => (s, [])
  | s, o :: os =>
    let r := stepOld s o
    let t := runOutOld r.1 os
    (t.1, r.2 :: t.2)

/-- which boundary-condition content a solve used (`none` when the output is not a solve) -/
def Out.usedBC : Out → Option (Option Nat)
  | .solved u _ => some u
  | _ => Option.none

/-- which interior stamp a solve started from -/
def Out.usedInterior : Out → Option Nat
  | .solved _ i => some i
  | _ => Option.none

/-! ### projections of `applyBCs` (all by `rfl`) -/

theorem applyBCs_vars (s : St) (v u : Nat) :
    (applyBCs s v).vars u =
      if u = v then
        { s.vars v with
            ghostI := (s.vars v).interior, ghostB := (s.bcs (s.vars v).bc).content,
            cache := if (s.vars v).precalc then some (s.bcs (s.vars v).bc).content else (s.vars v).cache,
            applied := (s.bcs (s.vars v).bc).content, valMod := false }
      else s.vars u := rfl

theorem applyBCs_bcs (s : St) (v b : Nat) :
    (applyBCs s v).bcs b =
      if b = (s.vars v).bc then { content := (s.bcs (s.vars v).bc).content, modified := false }
      else s.bcs b := rfl

@[simp] theorem applyBCs_nV (s : St) (v : Nat) : (applyBCs s v).nV = s.nV := rfl
@[simp] theorem applyBCs_nB (s : St) (v : Nat) : (applyBCs s v).nB = s.nB := rfl
@[simp] theorem applyBCs_next (s : St) (v : Nat) : (applyBCs s v).next = s.next := rfl

/-- `apply_BCs` never changes the *content* of any boundary-condition object -/
theorem applyBCs_content (s : St) (v b : Nat) :
    ((applyBCs s v).bcs b).content = (s.bcs b).content := by
  rw [applyBCs_bcs]; split
  · next h => subst h; rfl
  · rfl

/-- `apply_BCs` never changes which object a variable refers to -/
theorem applyBCs_bc (s : St) (v u : Nat) : ((applyBCs s v).vars u).bc = (s.vars u).bc := by
  rw [applyBCs_vars]; split
  · next h => subst h; rfl
  · rfl

/-! ### well-formedness -/

/-- every stamp stored in a variable is older than `next`, its BC object is live -/
structure WFVar (nB next : Nat) (x : Var) : Prop where
  bc : x.bc < nB
  interior : x.interior < next
  ghostI : x.ghostI < next
  ghostB : x.ghostB < next
  applied : x.applied < next
  cache : ∀ c, x.cache = some c → c < next

structure WFSt (s : St) : Prop where
  bcs : ∀ b, b < s.nB → (s.bcs b).content < s.next
  vars : ∀ v, v < s.nV → WFVar s.nB s.next (s.vars v)

theorem WFVar.mono {nB nB' next next' : Nat} {x : Var} (h : WFVar nB next x)
    (hB : nB ≤ nB') (hn : next ≤ next') : WFVar nB' next' x :=
  ⟨Nat.lt_of_lt_of_le h.bc hB, Nat.lt_of_lt_of_le h.interior hn, Nat.lt_of_lt_of_le h.ghostI hn,
   Nat.lt_of_lt_of_le h.ghostB hn, Nat.lt_of_lt_of_le h.applied hn,
   fun c hc => Nat.lt_of_lt_of_le (h.cache c hc) hn⟩

theorem wf_applyBCs {s : St} (h : WFSt s) {v : Nat} (hv : v < s.nV) : WFSt (applyBCs s v) := by
  have hx := h.vars v hv
  have hc := h.bcs _ hx.bc
  constructor
  · intro b hb
    rw [applyBCs_content]; exact h.bcs b hb
  · intro u hu
    rw [applyBCs_vars]
    split
    · refine ⟨hx.bc, hx.interior, hx.interior, hc, hc, ?_⟩
      intro c
      dsimp only
      split
      · intro e; cases e; exact hc
      · exact hx.cache c
    · exact h.vars u hu


def applyVar (c : Nat) (x : Var) : Var :=
  { x with ghostI := x.interior, ghostB := c,
           cache := if x.precalc then some c else x.cache, applied := c, valMod := false }

theorem applyBCs_vars' (s : St) (v u : Nat) :
    (applyBCs s v).vars u =
      if u = v then applyVar (s.bcs (s.vars v).bc).content (s.vars v) else s.vars u := rfl

def preSolve (s : St) (v : Nat) : St :=
  if !(s.vars v).precalc then applyBCs (setVar s v { s.vars v with precalc := true }) v
  else if outdated s (s.vars v) then applyBCs s v else s

def postSolve (s1 : St) (v : Nat) : St :=
  applyBCs { setVar s1 v { s1.vars v with interior := s1.next } with next := s1.next + 1 } v

theorem step_solve {s : St} {v : Nat} (h : v < s.nV) :
    step s (.solve v) =
      (postSolve (preSolve s v) v,
       Out.solved ((preSolve s v).vars v).cache ((preSolve s v).vars v).interior) := by
  simp only [step, if_pos h]; rfl

def preExplicit (s : St) (v : Nat) : St :=
  if outdated s (s.vars v) then applyBCs s v else s

def postExplicit (s1 : St) (b : Nat) : St :=
  applyBCs { setVar s1 s1.nV (mkVar s1 b s1.next false) with nV := s1.nV + 1, next := s1.next + 1 } s1.nV

theorem step_solveExplicit {s : St} {v : Nat} (h : v < s.nV) :
    step s (.solveExplicit v) =
      (postExplicit (preExplicit s v) (s.vars v).bc, Out.newVar (preExplicit s v).nV) := by
  simp only [step, if_pos h]; rfl

/-- replacing a live variable by a well-formed one -/
theorem wf_setVar {s : St} (h : WFSt s) {v : Nat} {x : Var} (hx : WFVar s.nB s.next x) :
    WFSt (setVar s v x) := by
  constructor
  · exact h.bcs
  · intro u hu
    simp only [setVar] at hu ⊢
    split
    · exact hx
    · exact h.vars u hu

/-- bumping the stamp counter -/
theorem wf_bump {s : St} (h : WFSt s) : WFSt { s with next := s.next + 1 } :=
  ⟨fun b hb => Nat.lt_succ_of_lt (h.bcs b hb),
   fun v hv => (h.vars v hv).mono (Nat.le_refl _) (Nat.le_succ _)⟩

/-- appending a well-formed variable -/
theorem wf_pushVar {s : St} (h : WFSt s) {x : Var} (hx : WFVar s.nB s.next x) :
    WFSt { setVar s s.nV x with nV := s.nV + 1 } := by
  constructor
  · exact h.bcs
  · intro u hu
    simp only [setVar] at hu ⊢
    split
    · exact hx
    · exact h.vars u (by omega)

/-- appending a boundary-condition object -/
theorem wf_pushBC {s : St} (h : WFSt s) {o : BCObj} (ho : o.content < s.next) :
    WFSt { setBC s s.nB o with nB := s.nB + 1 } := by
  constructor
  · intro b hb
    simp only [setBC] at hb ⊢
    split
    · exact ho
    · exact h.bcs b (by omega)
  · intro u hu
    exact (h.vars u hu).mono (Nat.le_succ _) (Nat.le_refl _)

theorem wf_mkVar {s : St} (h : WFSt s) {b : Nat} (hb : b < s.nB) (p : Bool) :
    WFVar s.nB (s.next + 1) (mkVar s b s.next p) := by
  have hc := h.bcs b hb
  refine ⟨hb, ?_, ?_, ?_, ?_, ?_⟩ <;> simp only [mkVar]
  · omega
  · omega
  · omega
  · omega
  · intro c; split
    · intro e; cases e; omega
    · intro e; cases e

theorem preSolve_nV (s : St) (v : Nat) : (preSolve s v).nV = s.nV := by
  unfold preSolve; split
  · rfl
  · split <;> rfl

theorem wf_preSolve {s : St} (h : WFSt s) {v : Nat} (hv : v < s.nV) : WFSt (preSolve s v) := by
  unfold preSolve
  split
  · apply wf_applyBCs (wf_setVar h _) hv
    have := h.vars v hv
    exact ⟨this.bc, this.interior, this.ghostI, this.ghostB, this.applied, this.cache⟩
  · split
    · exact wf_applyBCs h hv
    · exact h

theorem wf_postSolve {s : St} (h : WFSt s) {v : Nat} (hv : v < s.nV) : WFSt (postSolve s v) := by
  unfold postSolve
  have hx := h.vars v hv
  have h1 : WFSt (setVar { s with next := s.next + 1 } v { s.vars v with interior := s.next }) := by
    apply wf_setVar (wf_bump h)
    have := (hx.mono (Nat.le_refl _) (Nat.le_succ s.next))
    exact ⟨this.bc, Nat.lt_succ_self _, this.ghostI, this.ghostB, this.applied, this.cache⟩
  exact wf_applyBCs h1 hv

theorem preExplicit_nV (s : St) (v : Nat) : (preExplicit s v).nV = s.nV := by
  unfold preExplicit; split <;> rfl
theorem preExplicit_nB (s : St) (v : Nat) : (preExplicit s v).nB = s.nB := by
  unfold preExplicit; split <;> rfl

theorem wf_preExplicit {s : St} (h : WFSt s) {v : Nat} (hv : v < s.nV) :
    WFSt (preExplicit s v) := by
  unfold preExplicit; split
  · exact wf_applyBCs h hv
  · exact h

theorem wf_postExplicit {s : St} (h : WFSt s) {b : Nat} (hb : b < s.nB) :
    WFSt (postExplicit s b) := by
  unfold postExplicit
  have h1 : WFSt { setVar { s with next := s.next + 1 } s.nV (mkVar s b s.next false) with
                   nV := s.nV + 1 } :=
    wf_pushVar (s := { s with next := s.next + 1 }) (wf_bump h) (wf_mkVar h hb false)
  exact wf_applyBCs h1 (Nat.lt_succ_self _)

theorem wf_step {s : St} (h : WFSt s) (op : Op) : WFSt (step s op).1 := by
  cases op with
  | newBC =>
    exact wf_pushBC (s := { s with next := s.next + 1 }) (o := ⟨s.next, false⟩) (wf_bump h)
      (Nat.lt_succ_self _)
  | newVar b =>
    simp only [step]; split
    · next hb =>
      exact wf_pushVar (s := { s with next := s.next + 1 }) (wf_bump h) (wf_mkVar h hb true)
    · exact h
  | newVarDefault =>
    have h1 : WFSt { setBC { s with next := s.next + 1 } s.nB ⟨s.next, false⟩ with nB := s.nB + 1 } :=
      wf_pushBC (s := { s with next := s.next + 1 }) (o := ⟨s.next, false⟩) (wf_bump h)
        (Nat.lt_succ_self _)
    have h2 := wf_pushVar (wf_bump h1) (wf_mkVar h1 (b := s.nB) (Nat.lt_succ_self _) true)
    exact h2
  | editBC b =>
    simp only [step]; split
    · constructor
      · intro b' hb'
        simp only [setBC] at hb' ⊢
        split
        · exact Nat.lt_succ_self _
        · exact Nat.lt_succ_of_lt (h.bcs b' hb')
      · intro u hu
        exact (h.vars u hu).mono (Nat.le_refl _) (Nat.le_succ _)
    · exact h
  | editBCSilent b =>
    simp only [step]; split
    · constructor
      · intro b' hb'
        simp only [setBC] at hb' ⊢
        split
        · exact Nat.lt_succ_self _
        · exact Nat.lt_succ_of_lt (h.bcs b' hb')
      · intro u hu
        exact (h.vars u hu).mono (Nat.le_refl _) (Nat.le_succ _)
    · exact h
  | editVal v =>
    simp only [step]; split
    · next hv =>
      have hx := (h.vars v hv).mono (Nat.le_refl _) (Nat.le_succ s.next)
      exact wf_setVar (s := { s with next := s.next + 1 }) (wf_bump h)
        ⟨hx.bc, Nat.lt_succ_self _, hx.ghostI, hx.ghostB, hx.applied, hx.cache⟩
    · exact h
  | updateValue v w =>
    simp only [step]; split
    · next hvw =>
      have hx := h.vars v hvw.1
      have hy := h.vars w hvw.2
      exact wf_setVar h ⟨hx.bc, hy.interior, hy.ghostI, hy.ghostB, hx.applied, hx.cache⟩
    · exact h
  | applyBCs v =>
    simp only [step]; split
    · next hv => exact wf_applyBCs h hv
    · exact h
  | solve v =>
    by_cases hv : v < s.nV
    · rw [step_solve hv]
      exact wf_postSolve (wf_preSolve h hv) (by rw [preSolve_nV]; exact hv)
    · simp only [step, if_neg hv]; exact h
  | solveExplicit v =>
    by_cases hv : v < s.nV
    · rw [step_solveExplicit hv]
      exact wf_postExplicit (wf_preExplicit h hv) (by rw [preExplicit_nB]; exact (h.vars v hv).bc)
    · simp only [step, if_neg hv]; exact h
  | copy v =>
    simp only [step]; split
    · next hv =>
      have hx := h.vars v hv
      have hc := h.bcs _ hx.bc
      have h1 : WFSt { setBC s s.nB (s.bcs (s.vars v).bc) with nB := s.nB + 1 } := wf_pushBC h hc
      refine wf_pushVar h1 ⟨Nat.lt_succ_self _, hx.interior, hx.ghostI, hx.ghostB, hx.applied, ?_⟩
      intro c e; cases e; exact hc
    · exact h
  | arith v =>
    simp only [step]; split
    · next hv =>
      have hx := h.vars v hv
      have hc := h.bcs _ hx.bc
      have h1 : WFSt { setBC s s.nB (s.bcs (s.vars v).bc) with nB := s.nB + 1 } := wf_pushBC h hc
      have h2 := wf_pushVar (wf_bump h1) (wf_mkVar h1 (b := s.nB) (Nat.lt_succ_self _) true)
      exact h2
    · exact h

/-! ### projections of the pieces of `solve` / `solveExplicit` -/

theorem preSolve_nB (s : St) (v : Nat) : (preSolve s v).nB = s.nB := by
  unfold preSolve; split
  · rfl
  · split <;> rfl

theorem preSolve_next (s : St) (v : Nat) : (preSolve s v).next = s.next := by
  unfold preSolve; split
  · rfl
  · split <;> rfl

theorem preSolve_vars_ne (s : St) {v u : Nat} (h : u ≠ v) : (preSolve s v).vars u = s.vars u := by
  unfold preSolve; split
  · rw [applyBCs_vars', if_neg h]; simp only [setVar, if_neg h]
  · split
    · rw [applyBCs_vars', if_neg h]
    · rfl

theorem preSolve_content (s : St) (v b : Nat) :
    ((preSolve s v).bcs b).content = (s.bcs b).content := by
  unfold preSolve; split
  · rw [applyBCs_content]; rfl
  · split
    · rw [applyBCs_content]
    · rfl

theorem preSolve_bcs_ne (s : St) {v b : Nat} (h : b ≠ (s.vars v).bc) :
    (preSolve s v).bcs b = s.bcs b := by
  unfold preSolve; split
  · rw [applyBCs_bcs]; simp only [setVar, ↓reduceIte]; rw [if_neg h]
  · split
    · rw [applyBCs_bcs, if_neg h]
    · rfl

theorem preSolve_self (s : St) (v : Nat) :
    ((preSolve s v).vars v).bc = (s.vars v).bc ∧
    ((preSolve s v).vars v).interior = (s.vars v).interior ∧
    ((preSolve s v).vars v).precalc = true := by
  unfold preSolve; split
  · rw [applyBCs_vars', if_pos rfl]; simp only [setVar, ↓reduceIte, applyVar]; simp
  · next hp =>
    have hp' : (s.vars v).precalc = true := by simpa using hp
    split
    · rw [applyBCs_vars', if_pos rfl]; simp only [applyVar]; simp [hp']
    · simp [hp']



theorem postSolve_vars (s : St) (v u : Nat) :
    (postSolve s v).vars u =
      if u = v then applyVar (s.bcs (s.vars v).bc).content { s.vars v with interior := s.next }
      else s.vars u := by
  unfold postSolve
  rw [applyBCs_vars']
  simp only [setVar, ↓reduceIte]
  by_cases h : u = v
  · simp only [if_pos h]
  · simp only [if_neg h]

theorem postSolve_bcs (s : St) (v b : Nat) :
    (postSolve s v).bcs b =
      if b = (s.vars v).bc then { content := (s.bcs (s.vars v).bc).content, modified := false }
      else s.bcs b := by
  unfold postSolve
  rw [applyBCs_bcs]
  simp only [setVar, ↓reduceIte]

theorem postSolve_nV (s : St) (v : Nat) : (postSolve s v).nV = s.nV := rfl
theorem postSolve_nB (s : St) (v : Nat) : (postSolve s v).nB = s.nB := rfl
theorem postSolve_next (s : St) (v : Nat) : (postSolve s v).next = s.next + 1 := rfl

theorem preExplicit_next (s : St) (v : Nat) : (preExplicit s v).next = s.next := by
  unfold preExplicit; split <;> rfl

theorem preExplicit_vars (s : St) (v u : Nat) :
    (preExplicit s v).vars u = s.vars u ∨
    (u = v ∧ (preExplicit s v).vars u = applyVar (s.bcs (s.vars v).bc).content (s.vars v)) := by
  unfold preExplicit; split
  · rw [applyBCs_vars']; split
    · next h => exact Or.inr ⟨h, rfl⟩
    · exact Or.inl rfl
  · exact Or.inl rfl

theorem preExplicit_vars_ne (s : St) {v u : Nat} (h : u ≠ v) :
    (preExplicit s v).vars u = s.vars u := by
  rcases preExplicit_vars s v u with h1 | ⟨h1, _⟩
  · exact h1
  · exact absurd h1 h

theorem preExplicit_content (s : St) (v b : Nat) :
    ((preExplicit s v).bcs b).content = (s.bcs b).content := by
  unfold preExplicit; split
  · rw [applyBCs_content]
  · rfl

theorem preExplicit_bcs_ne (s : St) {v b : Nat} (h : b ≠ (s.vars v).bc) :
    (preExplicit s v).bcs b = s.bcs b := by
  unfold preExplicit; split
  · rw [applyBCs_bcs, if_neg h]
  · rfl

theorem postExplicit_vars (s : St) (b u : Nat) :
    (postExplicit s b).vars u =
      if u = s.nV then applyVar (s.bcs b).content (mkVar s b s.next false) else s.vars u := by
  unfold postExplicit
  rw [applyBCs_vars']
  simp only [setVar, ↓reduceIte, mkVar]
  by_cases h : u = s.nV
  · simp only [if_pos h]
  · simp only [if_neg h]

theorem postExplicit_bcs (s : St) (b b' : Nat) :
    (postExplicit s b).bcs b' =
      if b' = b then { content := (s.bcs b).content, modified := false } else s.bcs b' := by
  unfold postExplicit
  rw [applyBCs_bcs]
  simp only [setVar, ↓reduceIte, mkVar]

theorem postExplicit_nV (s : St) (b : Nat) : (postExplicit s b).nV = s.nV + 1 := rfl
theorem postExplicit_nB (s : St) (b : Nat) : (postExplicit s b).nB = s.nB := rfl


/-! ### per-variable invariants -/

/-- the variable created by `.copy v`: ghost stamps, snapshot and `value.modified` are carried
    over from the original, the boundary terms are built from the (deep-copied) BC object -/
def copyVar (s : St) (v : Nat) : Var :=
  { bc := s.nB, interior := (s.vars v).interior, ghostI := (s.vars v).ghostI,
    ghostB := (s.vars v).ghostB, cache := some (s.bcs (s.vars v).bc).content,
    applied := (s.vars v).applied, valMod := (s.vars v).valMod, precalc := true }

/-- the state after the BC object of `.newVarDefault` was created -/
def withDefaultBC (s : St) : St :=
  { setBC s s.nB { content := s.next, modified := false } with nB := s.nB + 1, next := s.next + 1 }

/-- the state after the BC object of `.copy v` / `.arith v` was deep-copied -/
def withCopiedBC (s : St) (v : Nat) : St :=
  { setBC s s.nB (s.bcs (s.vars v).bc) with nB := s.nB + 1 }

/-! ### `vars` / `nV` after the creating ops -/

theorem step_newVar_vars {s : St} {b : Nat} (hb : b < s.nB) (u : Nat) :
    (step s (.newVar b)).1.vars u = if u = s.nV then mkVar s b s.next true else s.vars u := by
  simp only [step, if_pos hb]; rfl
theorem step_newVar_nV {s : St} {b : Nat} (hb : b < s.nB) : (step s (.newVar b)).1.nV = s.nV + 1 := by
  simp only [step, if_pos hb]
theorem step_newVarDefault_vars (s : St) (u : Nat) :
    (step s .newVarDefault).1.vars u =
      if u = s.nV then mkVar (withDefaultBC s) s.nB (s.next + 1) true else s.vars u := rfl
theorem step_newVarDefault_nV (s : St) : (step s .newVarDefault).1.nV = s.nV + 1 := rfl
theorem step_copy_vars {s : St} {v : Nat} (hv : v < s.nV) (u : Nat) :
    (step s (.copy v)).1.vars u = if u = s.nV then copyVar s v else s.vars u := by
  simp only [step, if_pos hv]; rfl
theorem step_copy_nV {s : St} {v : Nat} (hv : v < s.nV) : (step s (.copy v)).1.nV = s.nV + 1 := by
  simp only [step, if_pos hv]; rfl
theorem step_arith_vars {s : St} {v : Nat} (hv : v < s.nV) (u : Nat) :
    (step s (.arith v)).1.vars u =
      if u = s.nV then mkVar (withCopiedBC s v) s.nB s.next true else s.vars u := by
  simp only [step, if_pos hv]; rfl
theorem step_arith_nV {s : St} {v : Nat} (hv : v < s.nV) : (step s (.arith v)).1.nV = s.nV + 1 := by
  simp only [step, if_pos hv]; rfl

theorem step_invalid_newVar {s : St} {b : Nat} (hb : ¬ b < s.nB) : step s (.newVar b) = (s, .invalid) := by
  simp only [step, if_neg hb]
theorem step_invalid_copy {s : St} {v : Nat} (hv : ¬ v < s.nV) : step s (.copy v) = (s, .invalid) := by
  simp only [step, if_neg hv]
theorem step_invalid_arith {s : St} {v : Nat} (hv : ¬ v < s.nV) : step s (.arith v) = (s, .invalid) := by
  simp only [step, if_neg hv]
theorem step_invalid_solve {s : St} {v : Nat} (hv : ¬ v < s.nV) : step s (.solve v) = (s, .invalid) := by
  simp only [step, if_neg hv]
theorem step_invalid_solveExplicit {s : St} {v : Nat} (hv : ¬ v < s.nV) :
    step s (.solveExplicit v) = (s, .invalid) := by
  simp only [step, if_neg hv]

/-- a predicate holds of every live variable -/
def VarInv (P : Var → Prop) (s : St) : Prop := ∀ v, v < s.nV → P (s.vars v)

theorem varInv_init (P : Var → Prop) : VarInv P init := fun _ hv => absurd hv (Nat.not_lt_zero _)

/-- one-step preservation of a per-variable invariant `P` that is established by `apply_BCs`
    and by the constructor and preserved by value edits; the `copy` case is left to the caller -/
theorem varInv_step {P : Var → Prop}
    (hA : ∀ c x, P (applyVar c x))
    (hM : ∀ s b i p, P (mkVar s b i p))
    (hE : ∀ x n, P x → P { x with interior := n, valMod := true })
    (hU : ∀ x (y : Var), P x →
      P { x with interior := y.interior, ghostI := y.ghostI, ghostB := y.ghostB, valMod := true })
    {s : St} (op : Op)
    (hC : ∀ v, op = .copy v → v < s.nV → P (s.vars v) → P (copyVar s v))
    (h : VarInv P s) : VarInv P (step s op).1 := by
  cases op with
  | newBC => exact h
  | newVar b =>
    by_cases hb : b < s.nB
    · intro u hu
      rw [step_newVar_nV hb] at hu
      rw [step_newVar_vars hb]; split
      · exact hM _ _ _ _
      · exact h u (by omega)
    · rw [step_invalid_newVar hb]; exact h
  | newVarDefault =>
    intro u hu
    rw [step_newVarDefault_nV] at hu
    rw [step_newVarDefault_vars]; split
    · exact hM _ _ _ _
    · exact h u (by omega)
  | editBC b =>
    simp only [step]; split
    · exact h
    · exact h
  | editBCSilent b =>
    simp only [step]; split
    · exact h
    · exact h
  | editVal v =>
    simp only [step]; split
    · next hv =>
      intro u hu
      simp only [setVar] at hu ⊢
      split
      · exact hE _ _ (h v hv)
      · exact h u hu
    · exact h
  | updateValue v w =>
    simp only [step]; split
    · next hvw =>
      intro u hu
      simp only [setVar] at hu ⊢
      split
      · exact hU _ _ (h v hvw.1)
      · exact h u hu
    · exact h
  | applyBCs v =>
    simp only [step]; split
    · intro u hu
      rw [applyBCs_vars']; split
      · exact hA _ _
      · exact h u hu
    · exact h
  | solve v =>
    by_cases hv : v < s.nV
    · rw [step_solve hv]
      intro u hu
      rw [postSolve_vars]; split
      · exact hA _ _
      · next hne => rw [preSolve_vars_ne s hne]; exact h u (by simpa [postSolve_nV, preSolve_nV] using hu)
    · simp only [step, if_neg hv]; exact h
  | solveExplicit v =>
    by_cases hv : v < s.nV
    · rw [step_solveExplicit hv]
      intro u hu
      rw [postExplicit_vars]; split
      · exact hA _ _
      · next hne =>
        rw [preExplicit_nV] at hne
        have hu' : u < s.nV := by
          have : u < s.nV + 1 := by simpa [postExplicit_nV, preExplicit_nV] using hu
          omega
        rcases preExplicit_vars s v u with e | ⟨_, e⟩
        · rw [e]; exact h u hu'
        · rw [e]; exact hA _ _
    · simp only [step, if_neg hv]; exact h
  | copy v =>
    by_cases hv : v < s.nV
    · intro u hu
      rw [step_copy_nV hv] at hu
      rw [step_copy_vars hv]; split
      · exact hC v rfl hv (h v hv)
      · exact h u (by omega)
    · rw [step_invalid_copy hv]; exact h
  | arith v =>
    by_cases hv : v < s.nV
    · intro u hu
      rw [step_arith_nV hv] at hu
      rw [step_arith_vars hv]; split
      · exact hM _ _ _ _
      · exact h u (by omega)
    · rw [step_invalid_arith hv]; exact h



/-! ### frame lemmas -/

/-- the ops that write the fields of variable `u` -/
def Op.writesVar : Op → Nat → Prop
  | .editVal v, u => v = u
  | .updateValue v _, u => v = u
  | .applyBCs v, u => v = u
  | .solve v, u => v = u
  | .solveExplicit v, u => v = u
  | _, _ => False

/-- the ops that write BC object `b` in state `s`: edits of `b`, and `apply_BCs` (directly or
    inside a solve) of a variable whose BC object is `b` (only the `modified` flag is cleared) -/
def touchesBC (s : St) : Op → Nat → Prop
  | .editBC b', b => b' = b
  | .editBCSilent b', b => b' = b
  | .applyBCs v, b => (s.vars v).bc = b
  | .solve v, b => (s.vars v).bc = b
  | .solveExplicit v, b => (s.vars v).bc = b
  | _, _ => False

theorem step_nV_mono (s : St) (op : Op) : s.nV ≤ (step s op).1.nV := by
  cases op with
  | newBC => exact Nat.le_refl _
  | newVar b =>
    by_cases hb : b < s.nB
    · rw [step_newVar_nV hb]; exact Nat.le_succ _
    · rw [step_invalid_newVar hb]; exact Nat.le_refl _
  | newVarDefault => exact Nat.le_succ _
  | editBC b => simp only [step]; split <;> exact Nat.le_refl _
  | editBCSilent b => simp only [step]; split <;> exact Nat.le_refl _
  | editVal v => simp only [step]; split <;> exact Nat.le_refl _
  | updateValue v w => simp only [step]; split <;> exact Nat.le_refl _
  | applyBCs v => simp only [step]; split <;> exact Nat.le_refl _
  | solve v =>
    by_cases hv : v < s.nV
    · rw [step_solve hv, postSolve_nV, preSolve_nV]; exact Nat.le_refl _
    · rw [step_invalid_solve hv]; exact Nat.le_refl _
  | solveExplicit v =>
    by_cases hv : v < s.nV
    · rw [step_solveExplicit hv, postExplicit_nV, preExplicit_nV]; exact Nat.le_succ _
    · rw [step_invalid_solveExplicit hv]; exact Nat.le_refl _
  | copy v =>
    by_cases hv : v < s.nV
    · rw [step_copy_nV hv]; exact Nat.le_succ _
    · rw [step_invalid_copy hv]; exact Nat.le_refl _
  | arith v =>
    by_cases hv : v < s.nV
    · rw [step_arith_nV hv]; exact Nat.le_succ _
    · rw [step_invalid_arith hv]; exact Nat.le_refl _

theorem step_nB_mono (s : St) (op : Op) : s.nB ≤ (step s op).1.nB := by
  cases op with
  | newBC => exact Nat.le_succ _
  | newVar b => simp only [step]; split <;> exact Nat.le_refl _
  | newVarDefault => exact Nat.le_succ _
  | editBC b => simp only [step]; split <;> exact Nat.le_refl _
  | editBCSilent b => simp only [step]; split <;> exact Nat.le_refl _
  | editVal v => simp only [step]; split <;> exact Nat.le_refl _
  | updateValue v w => simp only [step]; split <;> exact Nat.le_refl _
  | applyBCs v => simp only [step]; split <;> exact Nat.le_refl _
  | solve v =>
    by_cases hv : v < s.nV
    · rw [step_solve hv, postSolve_nB, preSolve_nB]; exact Nat.le_refl _
    · rw [step_invalid_solve hv]; exact Nat.le_refl _
  | solveExplicit v =>
    by_cases hv : v < s.nV
    · rw [step_solveExplicit hv, postExplicit_nB, preExplicit_nB]; exact Nat.le_refl _
    · rw [step_invalid_solveExplicit hv]; exact Nat.le_refl _
  | copy v => simp only [step]; split
              · exact Nat.le_succ _
              · exact Nat.le_refl _
  | arith v => simp only [step]; split
               · exact Nat.le_succ _
               · exact Nat.le_refl _

/-- an op that does not write variable `u` leaves every field of the live variable `u` unchanged
    (no op touches a variable other than its target: `apply_BCs` on a sharing variable only
    clears the flag on the shared BC *object*) -/
theorem step_frame_var {s : St} {op : Op} {u : Nat} (hu : u < s.nV) (h : ¬ op.writesVar u) :
    (step s op).1.vars u = s.vars u := by
  have hne : u ≠ s.nV := Nat.ne_of_lt hu
  cases op with
  | newBC => rfl
  | newVar b =>
    by_cases hb : b < s.nB
    · rw [step_newVar_vars hb, if_neg hne]
    · rw [step_invalid_newVar hb]
  | newVarDefault => rw [step_newVarDefault_vars, if_neg hne]
  | editBC b => simp only [step]; split <;> rfl
  | editBCSilent b => simp only [step]; split <;> rfl
  | editVal v =>
    have hvu : ¬ u = v := fun e => h e.symm
    simp only [step]; split
    · simp only [setVar, if_neg hvu]
    · rfl
  | updateValue v w =>
    have hvu : ¬ u = v := fun e => h e.symm
    simp only [step]; split
    · simp only [setVar, if_neg hvu]
    · rfl
  | applyBCs v =>
    have hvu : ¬ u = v := fun e => h e.symm
    simp only [step]; split
    · rw [applyBCs_vars', if_neg hvu]
    · rfl
  | solve v =>
    have hvu : ¬ u = v := fun e => h e.symm
    by_cases hv : v < s.nV
    · rw [step_solve hv, postSolve_vars, if_neg hvu, preSolve_vars_ne s hvu]
    · rw [step_invalid_solve hv]
  | solveExplicit v =>
    have hvu : ¬ u = v := fun e => h e.symm
    by_cases hv : v < s.nV
    · rw [step_solveExplicit hv, postExplicit_vars, preExplicit_nV, if_neg hne,
        preExplicit_vars_ne s hvu]
    · rw [step_invalid_solveExplicit hv]
  | copy v =>
    by_cases hv : v < s.nV
    · rw [step_copy_vars hv, if_neg hne]
    · rw [step_invalid_copy hv]
  | arith v =>
    by_cases hv : v < s.nV
    · rw [step_arith_vars hv, if_neg hne]
    · rw [step_invalid_arith hv]

/-- no op ever changes which BC object a live variable refers to -/
theorem step_bc_field {s : St} (op : Op) {u : Nat} (hu : u < s.nV) :
    ((step s op).1.vars u).bc = (s.vars u).bc := by
  have hne : u ≠ s.nV := Nat.ne_of_lt hu
  cases op with
  | editVal v =>
    simp only [step]; split
    · simp only [setVar]; split
      · next e => subst e; rfl
      · rfl
    · rfl
  | updateValue v w =>
    simp only [step]; split
    · simp only [setVar]; split
      · next e => subst e; rfl
      · rfl
    · rfl
  | applyBCs v =>
    simp only [step]; split
    · rw [applyBCs_bc]
    · rfl
  | solve v =>
    by_cases hv : v < s.nV
    · rw [step_solve hv, postSolve_vars]; split
      · next e => subst e; exact (preSolve_self s u).1
      · next e => rw [preSolve_vars_ne s e]
    · rw [step_invalid_solve hv]
  | solveExplicit v =>
    by_cases hv : v < s.nV
    · rw [step_solveExplicit hv, postExplicit_vars, preExplicit_nV, if_neg hne]
      rcases preExplicit_vars s v u with e | ⟨e1, e⟩
      · rw [e]
      · rw [e]; subst e1; rfl
    · rw [step_invalid_solveExplicit hv]
  | newBC => rw [step_frame_var (op := Op.newBC) hu (fun h => h)]
  | newVar b => rw [step_frame_var (op := (Op.newVar b)) hu (fun h => h)]
  | newVarDefault => rw [step_frame_var (op := Op.newVarDefault) hu (fun h => h)]
  | editBC b => rw [step_frame_var (op := (Op.editBC b)) hu (fun h => h)]
  | editBCSilent b => rw [step_frame_var (op := (Op.editBCSilent b)) hu (fun h => h)]
  | copy v => rw [step_frame_var (op := (Op.copy v)) hu (fun h => h)]
  | arith v => rw [step_frame_var (op := (Op.arith v)) hu (fun h => h)]

/-- an op that does not touch the live BC object `b` leaves it unchanged -/
theorem step_frame_bc {s : St} {op : Op} {b : Nat} (hb : b < s.nB) (h : ¬ touchesBC s op b) :
    (step s op).1.bcs b = s.bcs b := by
  have hne : ¬ b = s.nB := Nat.ne_of_lt hb
  cases op with
  | newBC => simp only [step, setBC, if_neg hne]
  | newVar b' => simp only [step]; split <;> rfl
  | newVarDefault => simp only [step, setBC, setVar, if_neg hne]
  | editBC b' =>
    have hbb : ¬ b = b' := fun e => h e.symm
    simp only [step]; split
    · simp only [setBC, if_neg hbb]
    · rfl
  | editBCSilent b' =>
    have hbb : ¬ b = b' := fun e => h e.symm
    simp only [step]; split
    · simp only [setBC, if_neg hbb]
    · rfl
  | editVal v => simp only [step]; split <;> rfl
  | updateValue v w => simp only [step]; split <;> rfl
  | applyBCs v =>
    have hbb : ¬ b = (s.vars v).bc := fun e => h e.symm
    simp only [step]; split
    · rw [applyBCs_bcs, if_neg hbb]
    · rfl
  | solve v =>
    have hbb : ¬ b = (s.vars v).bc := fun e => h e.symm
    by_cases hv : v < s.nV
    · rw [step_solve hv, postSolve_bcs, (preSolve_self s v).1, if_neg hbb, preSolve_bcs_ne s hbb]
    · rw [step_invalid_solve hv]
  | solveExplicit v =>
    have hbb : ¬ b = (s.vars v).bc := fun e => h e.symm
    by_cases hv : v < s.nV
    · rw [step_solveExplicit hv, postExplicit_bcs, if_neg hbb, preExplicit_bcs_ne s hbb]
    · rw [step_invalid_solveExplicit hv]
  | copy v =>
    simp only [step]; split
    · simp only [setBC, setVar, if_neg hne]
    · rfl
  | arith v =>
    simp only [step]; split
    · simp only [setBC, setVar, if_neg hne]
    · rfl



/-! ### induction along histories -/

theorem inv_runFrom {I : St → Prop} (hstep : ∀ s op, I s → I (step s op).1) :
    ∀ (ops : List Op) (s : St), I s → I (runFrom s ops)
  | [], _, h => h
  | o :: os, s, h => inv_runFrom hstep os (step s o).1 (hstep s o h)

theorem inv_run {I : St → Prop} (h0 : I init) (hstep : ∀ s op, I s → I (step s op).1)
    (ops : List Op) : I (run ops) := inv_runFrom hstep ops init h0

theorem wf_init : WFSt init :=
  ⟨fun _ hb => absurd hb (Nat.not_lt_zero _), fun _ hv => absurd hv (Nat.not_lt_zero _)⟩

/-! ### more projections -/

theorem step_newVar_bcs {s : St} {b : Nat} (hb : b < s.nB) : (step s (.newVar b)).1.bcs = s.bcs := by
  simp only [step, if_pos hb]; rfl

theorem step_copy_nB {s : St} {v : Nat} (hv : v < s.nV) : (step s (.copy v)).1.nB = s.nB + 1 := by
  simp only [step, if_pos hv]; rfl

theorem step_copy_bcs {s : St} {v : Nat} (hv : v < s.nV) (b : Nat) :
    (step s (.copy v)).1.bcs b = if b = s.nB then s.bcs (s.vars v).bc else s.bcs b := by
  simp only [step, if_pos hv]; rfl


/-! ### contents of BC objects only ever change to a fresh stamp -/

theorem postSolve_content (s : St) (v b : Nat) :
    ((postSolve s v).bcs b).content = (s.bcs b).content := by
  rw [postSolve_bcs]; split
  · next h => subst h; rfl
  · rfl

theorem postExplicit_content (s : St) (b b' : Nat) :
    ((postExplicit s b).bcs b').content = (s.bcs b').content := by
  rw [postExplicit_bcs]; split
  · next h => subst h; rfl
  · rfl

/-- the content of a live BC object after one op is the old content or the fresh stamp -/
theorem step_content {s : St} (op : Op) {b : Nat} (hb : b < s.nB) :
    ((step s op).1.bcs b).content = (s.bcs b).content ∨
    ((step s op).1.bcs b).content = s.next := by
  have hne : ¬ b = s.nB := Nat.ne_of_lt hb
  cases op with
  | newBC => left; simp only [step, setBC, if_neg hne]
  | newVar b' => left; simp only [step]; split <;> rfl
  | newVarDefault => left; simp only [step, setBC, setVar, if_neg hne]
  | editBC b' =>
    simp only [step]; split
    · simp only [setBC]; split
      · exact Or.inr rfl
      · exact Or.inl rfl
    · exact Or.inl rfl
  | editBCSilent b' =>
    simp only [step]; split
    · simp only [setBC]; split
      · exact Or.inr rfl
      · exact Or.inl rfl
    · exact Or.inl rfl
  | editVal v => left; simp only [step]; split <;> rfl
  | updateValue v w => left; simp only [step]; split <;> rfl
  | applyBCs v =>
    left; simp only [step]; split
    · exact applyBCs_content s v b
    · rfl
  | solve v =>
    left
    by_cases hv : v < s.nV
    · rw [step_solve hv, postSolve_content, preSolve_content]
    · rw [step_invalid_solve hv]
  | solveExplicit v =>
    left
    by_cases hv : v < s.nV
    · rw [step_solveExplicit hv, postExplicit_content, preExplicit_content]
    · rw [step_invalid_solveExplicit hv]
  | copy v =>
    left
    by_cases hv : v < s.nV
    · rw [step_copy_bcs hv, if_neg hne]
    · rw [step_invalid_copy hv]
  | arith v =>
    left; simp only [step]; split
    · simp only [setBC, setVar, if_neg hne]
    · rfl

/-! ### the invariants of property C09 -/

/-- the cached boundary terms were built from the snapshot `_BCs_applied` (true of every
    variable that was just constructed or just applied its BCs) -/
def CacheV (x : Var) : Prop := x.precalc = true → x.cache = some x.applied

/-- the cached boundary terms were built from the snapshot `_BCs_applied`, or the snapshot is
    not the current content of the BC object (so the variable is flagged outdated and the cache
    will be rebuilt before it is used).  The second alternative arises for a `copy()` of an
    outdated variable: its cache is built from the current BC copy, its snapshot is carried over
    from the original. -/
def CacheS (s : St) (x : Var) : Prop :=
  x.precalc = true → x.cache = some x.applied ∨ x.applied ≠ (s.bcs x.bc).content

/-- unless the values were edited, the ghost layer was computed from the current interior and
    the snapshot `_BCs_applied` -/
def GhostV (x : Var) : Prop := x.valMod = false → x.ghostI = x.interior ∧ x.ghostB = x.applied

def CacheInv (s : St) : Prop := ∀ v, v < s.nV → CacheS s (s.vars v)
def GhostInv (s : St) : Prop := VarInv GhostV s

/-- cached boundary terms of a variable that is not flagged outdated reflect the CURRENT content
    of its (possibly shared) BC object -/
def CacheOK (s : St) : Prop :=
  ∀ v, v < s.nV → (s.vars v).precalc = true → outdated s (s.vars v) = false →
    (s.vars v).cache = some (s.bcs (s.vars v).bc).content

/-- the ghost layer of a variable that is not flagged outdated reflects its current interior and
    the current content of its BC object -/
def GhostOK (s : St) : Prop :=
  ∀ v, v < s.nV → outdated s (s.vars v) = false →
    (s.vars v).ghostI = (s.vars v).interior ∧ (s.vars v).ghostB = (s.bcs (s.vars v).bc).content

instance (s : St) : Decidable (CacheOK s) := by unfold CacheOK; infer_instance
instance (s : St) : Decidable (GhostOK s) := by unfold GhostOK; infer_instance

theorem outdated_eq_false {s : St} {x : Var} (h : outdated s x = false) :
    (s.bcs x.bc).modified = false ∧ x.valMod = false ∧ x.applied = (s.bcs x.bc).content := by
  unfold outdated at h
  have h' : ((s.bcs x.bc).modified = false ∧ x.valMod = false) ∧ x.applied = (s.bcs x.bc).content := by
    simpa [Bool.or_eq_false_iff] using h
  exact ⟨h'.1.1, h'.1.2, h'.2⟩

theorem outdated_of_applied_ne {s : St} {x : Var} (h : x.applied ≠ (s.bcs x.bc).content) :
    outdated s x = true := by
  cases hh : outdated s x
  · exact absurd (outdated_eq_false hh).2.2 h
  · rfl

theorem cacheS_of_cacheV {x : Var} (h : CacheV x) (s : St) : CacheS s x := fun hp => Or.inl (h hp)

/-- `CacheS` of a variable that is not outdated gives the current content -/
theorem cacheS_current {s : St} {x : Var} (h : CacheS s x) (hp : x.precalc = true)
    (ha : x.applied = (s.bcs x.bc).content) : x.cache = some (s.bcs x.bc).content := by
  rcases h hp with e | e
  · rw [e, ha]
  · exact absurd ha e

theorem cacheOK_of_cacheInv {s : St} (h : CacheInv s) : CacheOK s := by
  intro v hv hp ho
  exact cacheS_current (h v hv) hp (outdated_eq_false ho).2.2

theorem ghostOK_of_ghostInv {s : St} (h : GhostInv s) : GhostOK s := by
  intro v hv ho
  have ho := outdated_eq_false ho
  have := h v hv ho.2.1
  exact ⟨this.1, this.2.trans ho.2.2⟩

theorem cacheV_applyVar (c : Nat) (x : Var) : CacheV (applyVar c x) := by
  intro hp
  have hp' : x.precalc = true := hp
  simp only [applyVar, hp', if_true]

theorem cacheV_mkVar (s : St) (b i : Nat) (p : Bool) : CacheV (mkVar s b i p) := by
  intro hp
  have hp' : p = true := hp
  simp only [mkVar, hp', if_true]

/-- the four fields `CacheS` looks at -/
structure Same4 (x y : Var) : Prop where
  precalc : x.precalc = y.precalc
  cache : x.cache = y.cache
  applied : x.applied = y.applied
  bc : x.bc = y.bc

/-- classification of the live variables after one op from `s` (by `varInv_step`): freshly
    applied / constructed, or agreeing on the four cache fields with a live variable of `s`, or
    with the copy just made -/
def CacheQ (s : St) (op : Op) (x : Var) : Prop :=
  CacheV x ∨ (∃ u, u < s.nV ∧ Same4 x (s.vars u)) ∨
    (∃ v, v < s.nV ∧ op = .copy v ∧ Same4 x (copyVar s v))

theorem cacheQ_step (s : St) (op : Op) : VarInv (CacheQ s op) (step s op).1 := by
  refine varInv_step (P := CacheQ s op) ?_ ?_ ?_ ?_ op ?_ ?_
  · exact fun c x => Or.inl (cacheV_applyVar c x)
  · exact fun s' b i p => Or.inl (cacheV_mkVar s' b i p)
  · intro x n hx
    rcases hx with h | ⟨u, hu, h⟩ | ⟨v, hv, e, h⟩
    · exact Or.inl h
    · exact Or.inr (Or.inl ⟨u, hu, ⟨h.precalc, h.cache, h.applied, h.bc⟩⟩)
    · exact Or.inr (Or.inr ⟨v, hv, e, ⟨h.precalc, h.cache, h.applied, h.bc⟩⟩)
  · intro x y hx
    rcases hx with h | ⟨u, hu, h⟩ | ⟨v, hv, e, h⟩
    · exact Or.inl h
    · exact Or.inr (Or.inl ⟨u, hu, ⟨h.precalc, h.cache, h.applied, h.bc⟩⟩)
    · exact Or.inr (Or.inr ⟨v, hv, e, ⟨h.precalc, h.cache, h.applied, h.bc⟩⟩)
  · intro v e hv _
    exact Or.inr (Or.inr ⟨v, hv, e, ⟨rfl, rfl, rfl, rfl⟩⟩)
  · intro u hu
    exact Or.inr (Or.inl ⟨u, hu, ⟨rfl, rfl, rfl, rfl⟩⟩)

/-- one-step preservation of `CacheInv`; well-formedness supplies the freshness argument (an
    edit creates a stamp different from every stored snapshot) -/
theorem cacheInv_step {s : St} (hwf : WFSt s) (op : Op) (h : CacheInv s) :
    CacheInv (step s op).1 := by
  intro w hw
  rcases cacheQ_step s op w hw with hq | ⟨u, hu, hq⟩ | ⟨v, hv, e, hq⟩
  · exact cacheS_of_cacheV hq _
  · intro hp
    have hx := hwf.vars u hu
    rw [hq.cache, hq.applied, hq.bc]
    rcases h u hu (hq.precalc ▸ hp) with e | e
    · exact Or.inl e
    · right
      rcases step_content op hx.bc with c | c
      · rw [c]; exact e
      · rw [c]; exact Nat.ne_of_lt hx.applied
  · subst e
    intro _
    rw [hq.cache, hq.applied, hq.bc]
    have hb : (step s (.copy v)).1.bcs (copyVar s v).bc = s.bcs (s.vars v).bc := by
      rw [step_copy_bcs hv]; exact if_pos rfl
    rw [hb]
    by_cases ha : (s.vars v).applied = (s.bcs (s.vars v).bc).content
    · left
      show some (s.bcs (s.vars v).bc).content = some (s.vars v).applied
      rw [ha]
    · exact Or.inr ha

theorem ghostV_applyVar (c : Nat) (x : Var) : GhostV (applyVar c x) := fun _ => ⟨rfl, rfl⟩
theorem ghostV_mkVar (s : St) (b i : Nat) (p : Bool) : GhostV (mkVar s b i p) := fun _ => ⟨rfl, rfl⟩

/-- one-step preservation of the ghost-layer invariant, for EVERY op -/
theorem ghostInv_step {s : St} (op : Op) (h : GhostInv s) : GhostInv (step s op).1 := by
  refine varInv_step ghostV_applyVar ghostV_mkVar ?_ ?_ op ?_ h
  · intro x n _ hv; cases hv
  · intro x y _ hv; cases hv
  · intro v _ _ hx hm
    exact hx hm

theorem preSolve_cache {s : St} {v : Nat} (h : CacheS s (s.vars v)) :
    ((preSolve s v).vars v).cache = some (s.bcs (s.vars v).bc).content := by
  unfold preSolve; split
  · rw [applyBCs_vars', if_pos rfl]; simp only [setVar, ↓reduceIte, applyVar]
  · next hp =>
    have hp' : (s.vars v).precalc = true := by simpa using hp
    split
    · rw [applyBCs_vars', if_pos rfl]; simp only [applyVar, hp', ↓reduceIte]
    · next ho =>
      have ho' : outdated s (s.vars v) = false := by simpa using ho
      exact cacheS_current h hp' (outdated_eq_false ho').2.2

/-- the output of a solve, given only the cache invariant of `v` -/
theorem solve_out_of_cacheS {s : St} {v : Nat} (hv : v < s.nV) (h : CacheS s (s.vars v)) :
    (step s (.solve v)).2 = Out.solved (some (s.bcs (s.vars v).bc).content) (s.vars v).interior := by
  rw [step_solve hv]
  simp only [preSolve_cache h, (preSolve_self s v).2.1]

/-! ### independence -/

/-- the ops that write only variable `w` / BC object `bw` (pure constructions write nothing
    that already exists) -/
def Targets (w bw : Nat) : Op → Prop
  | .editBC b => b = bw
  | .editBCSilent b => b = bw
  | .editVal x => x = w
  | .updateValue x _ => x = w
  | .applyBCs x => x = w
  | .solve x => x = w
  | .solveExplicit x => x = w
  | _ => True

instance (w bw : Nat) (o : Op) : Decidable (Targets w bw o) := by
  cases o <;> unfold Targets <;> infer_instance

theorem step_independent {s : St} {o : Op} {w bw v bv : Nat} (ht : Targets w bw o)
    (hv : v < s.nV) (hb : bv < s.nB) (hwb : (s.vars w).bc = bw) (hvw : v ≠ w) (hbb : bv ≠ bw) :
    (step s o).1.vars v = s.vars v ∧ (step s o).1.bcs bv = s.bcs bv := by
  constructor
  · apply step_frame_var hv
    cases o <;> simp only [Op.writesVar, Targets] at ht ⊢
    all_goals first | exact (fun h => h) | (intro e; exact hvw (e.symm.trans ht))
  · apply step_frame_bc hb
    cases o <;> simp only [touchesBC, Targets] at ht ⊢
    all_goals first
      | exact (fun h => h)
      | (intro e; exact hbb (e.symm.trans ht))
      | (intro e; subst ht; exact hbb (e.symm.trans hwb))

theorem runFrom_independent {w bw v bv : Nat} : ∀ (ops : List Op) (s : St),
    (∀ o, o ∈ ops → Targets w bw o) → v < s.nV → w < s.nV → bv < s.nB →
    (s.vars w).bc = bw → v ≠ w → bv ≠ bw →
    (runFrom s ops).vars v = s.vars v ∧ (runFrom s ops).bcs bv = s.bcs bv
  | [], _, _, _, _, _, _, _, _ => ⟨rfl, rfl⟩
  | o :: os, s, ht, hv, hw, hb, hwb, hvw, hbb => by
    have h1 := step_independent (ht o (List.mem_cons_self ..)) hv hb hwb hvw hbb
    have ih := runFrom_independent os (step s o).1 (fun o' ho' => ht o' (List.mem_cons_of_mem _ ho'))
      (Nat.lt_of_lt_of_le hv (step_nV_mono s o)) (Nat.lt_of_lt_of_le hw (step_nV_mono s o))
      (Nat.lt_of_lt_of_le hb (step_nB_mono s o)) ((step_bc_field o hw).trans hwb) hvw hbb
    rw [runFrom_cons]
    exact ⟨ih.1.trans h1.1, ih.2.trans h1.2⟩

/-! ### a well-formed (but unreachable) state showing that `CacheOK` / `GhostOK` alone are not
    one-step inductive: variable 1 shares BC object 0 with variable 0, its snapshot equals the
    current content, the object is flagged modified, but cache and ghost layer are old -/
def ceState : St :=
  { bcs := fun _ => ⟨5, true⟩, nB := 1,
    vars := fun i => if i = 0 then ⟨0, 2, 2, 5, some 5, 5, false, true⟩
                     else ⟨0, 3, 3, 4, some 4, 5, false, true⟩,
    nV := 2, next := 6 }

theorem wf_ceState : WFSt ceState := by
  constructor
  · intro b _; show 5 < 6; decide
  · intro v hv
    have hv' : v < 2 := hv
    have : v = 0 ∨ v = 1 := by omega
    rcases this with rfl | rfl
    · refine ⟨?_, ?_, ?_, ?_, ?_, ?_⟩ <;> simp [ceState]
    · refine ⟨?_, ?_, ?_, ?_, ?_, ?_⟩ <;> simp [ceState]



/-! ### the `.copy` BEFORE its repair: the constructor reset `_BCs_applied` and `value.modified`
    while the ghosted array was copied as it was -/

def stepOldCopy (s : St) : Op → St × Out
  | .copy v =>
    if v < s.nV then
      let x := s.vars v
      let b := s.bcs x.bc
      let s1 : St := { setBC s s.nB b with nB := s.nB + 1 }
      let w : Var := { bc := s.nB, interior := x.interior, ghostI := x.ghostI, ghostB := x.ghostB,
                       cache := some b.content, applied := b.content, valMod := false, precalc := true }
      ({ setVar s1 s1.nV w with nV := s1.nV + 1 }, .newVar s1.nV)
    else (s, .invalid)
  | o => step s o

def runOldCopy (ops : List Op) : St := ops.foldl (fun s o => (stepOldCopy s o).1) init

/-- a mixed history used by the non-vacuity examples of C09 -/
def demoHistory : List Op :=
  [.newBC, .newVar 0, .newVar 0, .editBC 0, .solve 0, .editBCSilent 0, .solveExplicit 1, .solve 2,
   .editVal 1, .applyBCs 1, .copy 1, .arith 3, .updateValue 0 1, .newVarDefault, .solve 0]

end PyFV.State
