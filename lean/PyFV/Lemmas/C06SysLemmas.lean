/-
  PyFV.Lemmas.C06SysLemmas — helpers for the whole-system form of property C06
  (`Props/C06Sys.lean`): the ghosted uniform field, the out-of-box count of the neighbours of a
  cell, the boundary rows applied to the uniform field, "balanced" terms (terms whose interior
  equation is satisfied by the uniform field), and concrete boundary data for the examples.
-/
import PyFV.Lemmas.MMatrix
import PyFV.Lemmas.Assemble
import PyFV.Props.C06
import Mathlib.Tactic.LinearCombination

set_option linter.unusedSectionVars false

namespace PyFV.C06Sys
open PyFV

variable {α : Type} [Field α] [LinearOrder α] [IsStrictOrderedRing α]

/-! ### the ghosted uniform field -/

/-- the ghosted array of a uniform field: `k` in interior cells and face-ghost cells, `0` in the
    edge / corner cells (whose decoupled rows read `cornerScale · x = 0`) -/
def uniformField (M : Mesh α) (k : α) : CellFld α := fun c => if M.outCount c ≤ 1 then k else 0

theorem uniformField_of_le {M : Mesh α} {k : α} {c : Idx} (h : M.outCount c ≤ 1) :
    uniformField M k c = k := by
  simp only [uniformField, if_pos h]

theorem uniformField_of_ge {M : Mesh α} {k : α} {c : Idx} (h : 2 ≤ M.outCount c) :
    uniformField M k c = 0 := by
  have : ¬ M.outCount c ≤ 1 := by omega
  simp only [uniformField, if_neg this]

/-! ### out-of-box counts -/

/-- counting lemmas for the three out-of-box indicators (generic in the `Decidable` instances) -/
theorem cnt_zero {p q r : Prop} [Decidable p] [Decidable q] [Decidable r]
    (h : ((if p then 1 else 0) + (if q then 1 else 0) + (if r then 1 else 0) : ℕ) = 0) :
    ¬p ∧ ¬q ∧ ¬r := by
  by_cases hp : p <;> by_cases hq : q <;> by_cases hr : r <;> simp [hp, hq, hr] at h ⊢

theorem cnt_one {p q r : Prop} [Decidable p] [Decidable q] [Decidable r]
    (h : ((if p then 1 else 0) + (if q then 1 else 0) + (if r then 1 else 0) : ℕ) = 1) :
    (p ∧ ¬q ∧ ¬r) ∨ (¬p ∧ q ∧ ¬r) ∨ (¬p ∧ ¬q ∧ r) := by
  by_cases hp : p <;> by_cases hq : q <;> by_cases hr : r <;> simp [hp, hq, hr] at h ⊢

theorem cnt_le_x {p q r : Prop} [Decidable p] [Decidable q] [Decidable r] (hq : ¬q) (hr : ¬r) :
    ((if p then 1 else 0) + (if q then 1 else 0) + (if r then 1 else 0) : ℕ) ≤ 1 := by
  by_cases hp : p <;> simp [hp, hq, hr]

theorem cnt_le_y {p q r : Prop} [Decidable p] [Decidable q] [Decidable r] (hp : ¬p) (hr : ¬r) :
    ((if p then 1 else 0) + (if q then 1 else 0) + (if r then 1 else 0) : ℕ) ≤ 1 := by
  by_cases hq : q <;> simp [hp, hq, hr]

theorem cnt_le_z {p q r : Prop} [Decidable p] [Decidable q] [Decidable r] (hp : ¬p) (hq : ¬q) :
    ((if p then 1 else 0) + (if q then 1 else 0) + (if r then 1 else 0) : ℕ) ≤ 1 := by
  by_cases hr : r <;> simp [hp, hq, hr]

/-- changing one coordinate of an interior cell gives an interior or a face-ghost cell -/
theorem outCount_set_le_one (M : Mesh α) (c : Idx) (h0 : M.outCount c = 0) (d : Dir) (v : ℕ) :
    M.outCount (c.set d v) ≤ 1 := by
  unfold Mesh.outCount at h0 ⊢
  obtain ⟨hx, hy, hz⟩ := cnt_zero h0
  cases d
  · exact cnt_le_x hy hz
  · exact cnt_le_y hx hz
  · exact cnt_le_z hx hy

/-- moving a face-ghost cell along its own out-direction never produces an edge / corner cell -/
theorem outCount_set_outDir_le (M : Mesh α) (g : Idx) (h1 : M.outCount g = 1) (v : ℕ) :
    M.outCount (g.set (M.outDir g) v) ≤ 1 := by
  unfold Mesh.outCount at h1
  unfold Mesh.outDir
  rcases cnt_one h1 with ⟨hx, hy, hz⟩ | ⟨hx, hy, hz⟩ | ⟨hx, hy, hz⟩
  · rw [if_pos hx]; unfold Mesh.outCount; exact cnt_le_x hy hz
  · rw [if_neg hx, if_pos hy]; unfold Mesh.outCount; exact cnt_le_y hx hz
  · rw [if_neg hx, if_neg hy]; unfold Mesh.outCount; exact cnt_le_z hx hy

/-- the out-direction of a face-ghost cell is an active direction -/
theorem outDir_active (M : Mesh α) (g : Idx) (h1 : M.outCount g = 1) :
    M.kind.active (M.outDir g) = true := by
  unfold Mesh.outCount at h1
  unfold Mesh.outDir
  by_cases hx : g.1 = 0 ∨ g.1 = M.ax.n + 1
  · rw [if_pos hx]; rfl
  · rw [if_neg hx]
    by_cases hy : M.kind.active .y = true ∧ (g.2.1 = 0 ∨ g.2.1 = M.ay.n + 1)
    · rw [if_pos hy]; exact hy.1
    · rw [if_neg hy]
      by_cases hz : M.kind.active .z = true ∧ (g.2.2 = 0 ∨ g.2.2 = M.az.n + 1)
      · exact hz.1
      · simp only [if_neg hx, if_neg hy, if_neg hz] at h1; omega

/-- a cell of the ghosted box that lies outside in no direction is one of the unknowns `M.cells`
    (no well-formedness needed) -/
theorem mem_cells_of_inBox {M : Mesh α} {c : Idx} (hb : M.inBox c) (h0 : M.outCount c = 0) :
    c ∈ M.cells := by
  obtain ⟨i, j, l⟩ := c
  obtain ⟨bx, bY, bz⟩ := hb
  unfold Mesh.outCount at h0
  dsimp only at bx bY bz h0
  have hx : ¬ (i = 0 ∨ i = M.ax.n + 1) := by
    intro h; rw [if_pos h] at h0; omega
  have hy : ¬ (M.kind.active .y = true ∧ (j = 0 ∨ j = M.ay.n + 1)) := by
    intro h; rw [if_pos h] at h0; omega
  have hz : ¬ (M.kind.active .z = true ∧ (l = 0 ∨ l = M.az.n + 1)) := by
    intro h; rw [if_pos h] at h0; omega
  rw [Mesh.mem_cells]
  intro d
  rw [Mesh.mem_rng]
  cases d
  · refine ⟨fun _ => ?_, fun h => absurd h (by simp [Kind.active_x])⟩
    show 1 ≤ i ∧ i ≤ M.ax.n
    omega
  · by_cases ay : M.kind.active .y = true
    · rw [if_pos ay] at bY
      refine ⟨fun _ => ?_, fun h => absurd ay (by simp [h])⟩
      show 1 ≤ j ∧ j ≤ M.ay.n
      have : ¬ (j = 0 ∨ j = M.ay.n + 1) := fun h => hy ⟨ay, h⟩
      omega
    · rw [if_neg ay] at bY
      exact ⟨fun h => absurd h ay, fun _ => bY⟩
  · by_cases az : M.kind.active .z = true
    · rw [if_pos az] at bz
      refine ⟨fun _ => ?_, fun h => absurd az (by simp [h])⟩
      show 1 ≤ l ∧ l ≤ M.az.n
      have : ¬ (l = 0 ∨ l = M.az.n + 1) := fun h => hz ⟨az, h⟩
      omega
    · rw [if_neg az] at bz
      exact ⟨fun h => absurd h az, fun _ => bz⟩

theorem mem_cells_iff_inBox (M : Mesh α) (c : Idx) :
    c ∈ M.cells ↔ M.inBox c ∧ M.outCount c = 0 :=
  ⟨fun h => Mesh.cell_facts h, fun h => mem_cells_of_inBox h.1 h.2⟩

/-! ### interior rows see a constant -/

/-- in an interior row the uniform field is indistinguishable from the constant function: the
    centre and its six neighbours are interior or face-ghost cells -/
theorem St7_app_uniform (M : Mesh α) (k : α) (R : St7 α) (c : Idx) (h0 : M.outCount c = 0) :
    R.app (uniformField M k) c = R.app (fun _ => k) c := by
  have hc : uniformField M k c = k := uniformField_of_le (by omega)
  have hs : ∀ d v, uniformField M k (c.set d v) = k := fun d v =>
    uniformField_of_le (outCount_set_le_one M c h0 d v)
  simp only [St7.app, Idx.prev, Idx.next, hc, hs]

/-- the TVD face-flux correction vanishes on a face whose two cells carry the same value -/
theorem tvdFlux_flat (M : Mesh α) (u uUp : FaceFld α) (FL : α → α) (e : α) (φ : CellFld α)
    (d : Dir) (c : Idx) (h : φ (c.next d) = φ c) : tvdFlux M u uUp FL e φ d c = 0 := by
  have hP : psiP M FL e φ d c = 0 := by
    unfold psiP; split_ifs
    · rfl
    · rw [h, sub_self, mul_zero]
  have hM : psiM M FL e φ d c = 0 := by
    unfold psiM; split_ifs
    · rfl
    · rw [h, sub_self, mul_zero]
  simp only [tvdFlux, hP, hM, mul_zero, add_zero]

/-- the TVD right-hand side computed from a field that is `k` on all interior and face-ghost
    cells vanishes in every interior cell (any limiter, any velocity) -/
theorem tvdRHS_flat (M : Mesh α) (u uUp : FaceFld α) (FL : α → α) (e : α) (ψ : CellFld α) (k : α)
    (c : Idx) (h0 : M.outCount c = 0) (hψ : ∀ c', M.outCount c' ≤ 1 → ψ c' = k) :
    tvdRHS M u uUp FL e ψ c = 0 := by
  have hs : ∀ d v, ψ (c.set d v) = k := fun d v => hψ _ (outCount_set_le_one M c h0 d v)
  have hc : ψ c = k := hψ c (by omega)
  have f1 : ∀ d, tvdFlux M u uUp FL e ψ d c = 0 := fun d =>
    tvdFlux_flat M u uUp FL e ψ d c (by rw [Idx.next, hs, hc])
  have f0 : ∀ d, tvdFlux M u uUp FL e ψ d (c.prev d) = 0 := fun d =>
    tvdFlux_flat M u uUp FL e ψ d (c.prev d) (by simp only [Idx.next, Idx.prev, Idx.set_set, hs])
  unfold tvdRHS divergence divD
  simp only [f1, f0, mul_zero, sub_self, zero_div, sumDirs, ite_self, add_zero, neg_zero]

/-! ### boundary rows applied to the uniform field -/

theorem bcRow_of_face (M : Mesh α) (bc : BCs α) (g : Idx) (h : M.outCount g = 1) :
    bcRow M bc g =
      if g.get (M.outDir g) = 0 then bcRowLo M bc (M.outDir g) (g.set (M.outDir g) 1)
      else bcRowHi M bc (M.outDir g) (g.set (M.outDir g) (M.n (M.outDir g))) := by
  unfold bcRow; rw [h]; rfl

theorem bcRow_of_corner (M : Mesh α) (bc : BCs α) (g : Idx) (h : 2 ≤ M.outCount g) :
    bcRow M bc g = ⟨[(g, cornerScale M bc)], 0⟩ := by
  unfold bcRow
  split
  · omega
  · omega
  · rfl

/-- "matching boundary value" on the boundary face owned by the face-ghost cell `g`:
    the Robin data of that face satisfy `b · k = c` -/
def faceMatch (M : Mesh α) (bc : BCs α) (k : α) (g : Idx) : Prop :=
  if g.get (M.outDir g) = 0 then
    (bc.lo (M.outDir g)).b (g.set (M.outDir g) 1) * k = (bc.lo (M.outDir g)).c (g.set (M.outDir g) 1)
  else
    (bc.hi (M.outDir g)).b (g.set (M.outDir g) (M.n (M.outDir g))) * k
      = (bc.hi (M.outDir g)).c (g.set (M.outDir g) (M.n (M.outDir g)))

/-- the boundary data match the constant `k`: `b · k = c` on every non-periodic boundary face
    of the ghosted box (exactly the faces that own a boundary row) -/
def MatchesBC (M : Mesh α) (bc : BCs α) (k : α) : Prop :=
  ∀ g, M.inBox g → M.outCount g = 1 → bc.periodicDir (M.outDir g) = false → faceMatch M bc k g

/-- **one face-ghost row.**  Applied to the uniform field the row holds iff the axis is periodic
    or `b · k = c` on that face (the `a`-parts of the two coefficients cancel identically, also
    for degenerate spacings). -/
theorem bcRow_uniform_face_iff (M : Mesh α) (bc : BCs α) (k : α) (g : Idx)
    (h1 : M.outCount g = 1) :
    (bcRow M bc g).app (uniformField M k) = (bcRow M bc g).rhs
      ↔ (bc.periodicDir (M.outDir g) = true ∨ faceMatch M bc k g) := by
  have hs : ∀ v, uniformField M k (g.set (M.outDir g) v) = k := fun v =>
    uniformField_of_le (outCount_set_outDir_le M g h1 v)
  rw [bcRow_of_face M bc g h1]
  unfold faceMatch
  by_cases hper : bc.periodicDir (M.outDir g) = true
  · simp only [hper, true_or, iff_true]
    split_ifs
    · simp only [bcRowLo, hper, if_true, Row.app_four, Idx.set_set, hs]; ring
    · simp only [bcRowHi, hper, if_true, Row.app_four, Idx.set_set, hs]; ring
  · have hper' : bc.periodicDir (M.outDir g) = false := by simpa using hper
    simp only [hper', Bool.false_eq_true, false_or]
    split_ifs with h0
    · simp only [bcRowLo, hper', Bool.false_eq_true, if_false, Row.app_two, Idx.set_set, hs,
        loCellCoef, loGhostCoef]
      constructor <;> intro h <;> linear_combination (-1 : α) * h
    · simp only [bcRowHi, hper', Bool.false_eq_true, if_false, Row.app_two, Idx.set_set, hs,
        hiCellCoef, hiGhostCoef]
      constructor <;> intro h <;> linear_combination h

/-- edge / corner rows `cornerScale · x = 0` hold by construction (the uniform field is `0` there) -/
theorem bcRow_uniform_corner (M : Mesh α) (bc : BCs α) (k : α) (g : Idx) (h2 : 2 ≤ M.outCount g) :
    (bcRow M bc g).app (uniformField M k) = (bcRow M bc g).rhs := by
  rw [bcRow_of_corner M bc g h2]
  simp [Row.app, uniformField_of_ge h2]

/-- face-wise sufficient condition: `b · k = c` on all low and high faces of every active,
    non-periodic direction -/
theorem matchesBC_of_faces (M : Mesh α) (bc : BCs α) (k : α)
    (h : ∀ d, M.kind.active d = true → bc.periodicDir d = false →
      ∀ c, (bc.lo d).b c * k = (bc.lo d).c c ∧ (bc.hi d).b c * k = (bc.hi d).c c) :
    MatchesBC M bc k := by
  intro g _ h1 hper
  have ha := outDir_active M g h1
  unfold faceMatch
  split_ifs
  · exact (h _ ha hper _).1
  · exact (h _ ha hper _).2

theorem bcsOK_mono {M : Mesh α} {bc : BCs α} {P Q : α → Prop} (hPQ : ∀ v, P v → Q v)
    (h : BCsOK M bc P) : BCsOK M bc Q := by
  intro d hd
  rcases h d hd with hp | ⟨hp, hk⟩
  · exact Or.inl hp
  · refine Or.inr ⟨hp, fun c => ⟨?_, ?_⟩⟩
    · rcases (hk c).1 with ⟨hdir, hv⟩ | hnf
      · exact Or.inl ⟨hdir, hPQ _ hv⟩
      · exact Or.inr hnf
    · rcases (hk c).2 with ⟨hdir, hv⟩ | hnf
      · exact Or.inl ⟨hdir, hPQ _ hv⟩
      · exact Or.inr hnf

/-- the boundary classes of the maximum principle (periodic, Dirichlet with value `k`, no-flux)
    match the constant `k` -/
theorem matchesBC_of_BCsOK (M : Mesh α) (bc : BCs α) (k : α) (h : BCsOK M bc (fun v => v = k)) :
    MatchesBC M bc k := by
  refine matchesBC_of_faces M bc k (fun d hd hper c => ?_)
  rcases h d hd with hp | ⟨_, hk⟩
  · rw [hp] at hper; exact absurd hper (by simp)
  · constructor
    · rcases (hk c).1 with ⟨⟨_, hb⟩, hv⟩ | ⟨_, hb, hc0⟩
      · rw [hb, one_mul]; exact hv.symm
      · rw [hb, zero_mul, hc0]
    · rcases (hk c).2 with ⟨⟨_, hb⟩, hv⟩ | ⟨_, hb, hc0⟩
      · rw [hb, one_mul]; exact hv.symm
      · rw [hb, zero_mul, hc0]

/-! ### balanced terms -/

/-- a term whose interior equation is satisfied by the uniform field in every cell -/
def Balanced (M : Mesh α) (k : α) (t : TermObj α) : Prop :=
  ∀ c ∈ M.cells, (t.row c).app (uniformField M k) c = t.rhs c

/-- the accumulation loop of `solvePDE` preserves cell-wise balance -/
theorem sum_balanced (ts : List (TermObj α)) (x : CellFld α) (c : Idx)
    (h : ∀ t ∈ ts, (t.row c).app x c = t.rhs c) : (sumRow ts c).app x c = sumRhs ts c := by
  induction ts with
  | nil => rw [sumRow_nil_app, sumRhs_nil]
  | cons t ts ih =>
    rw [sumRow_cons_app, sumRhs_cons, h t (List.mem_cons_self ..),
      ih (fun t' ht' => h t' (List.mem_cons_of_mem _ ht'))]

theorem balanced_diffusion (M : Mesh α) (D : FaceFld α) (k : α) :
    Balanced M k (.mat (diffusionRow M D)) := by
  intro c hc
  show (diffusionRow M D c).app (uniformField M k) c = 0
  rw [St7_app_uniform M k _ c (Mesh.cell_facts hc).2]
  exact C06.diffusion_const M D k c

theorem balanced_convection (M : Mesh α) (hM : M.WF) (u : FaceFld α) (k : α)
    (hdiv : ∀ c ∈ M.cells, divergence M u c = 0) : Balanced M k (.mat (convectionRow M u)) := by
  intro c hc
  show (convectionRow M u c).app (uniformField M k) c = 0
  rw [St7_app_uniform M k _ c (Mesh.cell_facts hc).2,
    C06.convection_const M hM u k c (Mesh.interior_of_mem_cells hM hc), hdiv c hc, mul_zero]

theorem balanced_upwind (M : Mesh α) (hM : M.WF) (u uUp : FaceFld α) (hU : UpOK u uUp) (k : α)
    (hdiv : ∀ c ∈ M.cells, divergence M u c = 0) : Balanced M k (.mat (upwindRow M u uUp)) := by
  intro c hc
  show (upwindRow M u uUp c).app (uniformField M k) c = 0
  rw [St7_app_uniform M k _ c (Mesh.cell_facts hc).2,
    C06.upwind_const M hM u uUp hU k c (Mesh.interior_of_mem_cells hM hc), hdiv c hc, mul_zero]

theorem balanced_tvd (M : Mesh α) (u uUp : FaceFld α) (FL : α → α) (e : α) (ψ : CellFld α) (k : α)
    (hψ : ∀ c', M.outCount c' ≤ 1 → ψ c' = k) : Balanced M k (.vec (tvdRHS M u uUp FL e ψ)) := by
  intro c hc
  show (St7.zero : St7 α).app (uniformField M k) c = tvdRHS M u uUp FL e ψ c
  rw [St7.zero_app, tvdRHS_flat M u uUp FL e ψ k c (Mesh.cell_facts hc).2 hψ]

/-- `transientTerm(old, dt, alpha)` with old interior values `k` (any `dt`, any `alpha`) -/
theorem balanced_transient (M : Mesh α) (old : CellFld α) (dt : α) (alpha : CellFld α) (k : α)
    (hold : ∀ c ∈ M.cells, old c = k) : Balanced M k (transientObj old dt alpha) := by
  intro c hc
  show (transientRow dt alpha c).app (uniformField M k) c = transientRHS old dt alpha c
  rw [St7_app_uniform M k _ c (Mesh.cell_facts hc).2]
  simp only [transientRow, transientRHS, St7.diag_app, hold c hc]
  ring

/-- `linearSourceTerm(β)` with `β · k = 0` in every cell (no sink, or `k = 0`) -/
theorem balanced_linearSrc (M : Mesh α) (β : CellFld α) (k : α)
    (hβ : ∀ c ∈ M.cells, β c * k = 0) : Balanced M k (.mat (linearSrcRow β)) := by
  intro c hc
  show (linearSrcRow β c).app (uniformField M k) c = 0
  rw [St7_app_uniform M k _ c (Mesh.cell_facts hc).2]
  simp only [linearSrcRow, St7.diag_app, hβ c hc]

theorem balanced_smul (M : Mesh α) (k a : α) (t : TermObj α) (h : Balanced M k t) :
    Balanced M k (TermObj.smul a t) := by
  intro c hc
  rw [TermObj.smul_row, TermObj.smul_rhs, St7.smul_app, h c hc]

/-- the syntactic family of terms of property C06: diffusion, central / upwind advection in a
    discretely divergence-free velocity field, the TVD right-hand side of a uniform iterate, the
    transient term with uniform old values, a linear source with `β·k = 0`, and every scalar
    multiple (in particular the negation `-term`) of such a term -/
inductive SteadyTerm (M : Mesh α) (k : α) : TermObj α → Prop
  | diffusion (D : FaceFld α) : SteadyTerm M k (.mat (diffusionRow M D))
  | convection (u : FaceFld α) (hdiv : ∀ c ∈ M.cells, divergence M u c = 0) :
      SteadyTerm M k (.mat (convectionRow M u))
  | upwind (u uUp : FaceFld α) (hU : UpOK u uUp) (hdiv : ∀ c ∈ M.cells, divergence M u c = 0) :
      SteadyTerm M k (.mat (upwindRow M u uUp))
  | tvd (u uUp : FaceFld α) (FL : α → α) (e : α) (ψ : CellFld α)
      (hψ : ∀ c', M.outCount c' ≤ 1 → ψ c' = k) :
      SteadyTerm M k (.vec (tvdRHS M u uUp FL e ψ))
  | transient (old : CellFld α) (dt : α) (alpha : CellFld α) (hold : ∀ c ∈ M.cells, old c = k) :
      SteadyTerm M k (transientObj old dt alpha)
  | linearSrc (β : CellFld α) (hβ : ∀ c ∈ M.cells, β c * k = 0) :
      SteadyTerm M k (.mat (linearSrcRow β))
  | smul (a : α) (t : TermObj α) (h : SteadyTerm M k t) : SteadyTerm M k (TermObj.smul a t)

theorem SteadyTerm.balanced {M : Mesh α} (hM : M.WF) {k : α} {t : TermObj α}
    (h : SteadyTerm M k t) : Balanced M k t := by
  induction h with
  | diffusion D => exact balanced_diffusion M D k
  | convection u hdiv => exact balanced_convection M hM u k hdiv
  | upwind u uUp hU hdiv => exact balanced_upwind M hM u uUp hU k hdiv
  | tvd u uUp FL e ψ hψ => exact balanced_tvd M u uUp FL e ψ k hψ
  | transient old dt alpha hold => exact balanced_transient M old dt alpha k hold
  | linearSrc β hβ => exact balanced_linearSrc M β k hβ
  | smul a t _ ih => exact balanced_smul M k a t ih

/-! ### the whole system -/

/-- **exact characterisation**: the uniform field solves the assembled system iff every interior
    row balances on it and the boundary data match -/
theorem solves_uniform_iff (M : Mesh α) (bc : BCs α) (ts : List (TermObj α)) (k : α) :
    Solves M bc ts (uniformField M k) ↔
      (∀ c ∈ M.cells, (sumRow ts c).app (uniformField M k) c = sumRhs ts c) ∧ MatchesBC M bc k := by
  constructor
  · intro h
    refine ⟨fun c hc => h.interior_row hc, fun g hb h1 hper => ?_⟩
    have hg := h g hb
    rw [assembleOp_ghost M bc ts _ g (by omega), assembleRhs_ghost M bc ts g (by omega)] at hg
    rcases (bcRow_uniform_face_iff M bc k g h1).1 hg with hp | hm
    · rw [hp] at hper; exact absurd hper (by simp)
    · exact hm
  · rintro ⟨hi, hb⟩ c hc
    by_cases h0 : M.outCount c = 0
    · rw [assembleOp_interior M bc ts _ c h0, assembleRhs_interior M bc ts c h0]
      exact hi c (mem_cells_of_inBox hc h0)
    · rw [assembleOp_ghost M bc ts _ c h0, assembleRhs_ghost M bc ts c h0]
      by_cases h1 : M.outCount c = 1
      · refine (bcRow_uniform_face_iff M bc k c h1).2 ?_
        by_cases hper : bc.periodicDir (M.outDir c) = true
        · exact Or.inl hper
        · exact Or.inr (hb c hc h1 (by simpa using hper))
      · exact bcRow_uniform_corner M bc k c (by omega)

theorem solves_of_balanced (M : Mesh α) (bc : BCs α) (ts : List (TermObj α)) (k : α)
    (hts : ∀ t ∈ ts, Balanced M k t) (hbc : MatchesBC M bc k) :
    Solves M bc ts (uniformField M k) :=
  (solves_uniform_iff M bc ts k).2
    ⟨fun c hc => sum_balanced ts _ c (fun t ht => hts t ht c hc), hbc⟩

/-! ### concrete data for the non-vacuity examples -/

namespace Ex

/-- Dirichlet value `v` on the low `x` face, no-flux (`a = 1, b = 0, c = 0`) on all other faces -/
def bcDirNoFlux (v : ℚ) : BCs ℚ :=
  { lo := fun d => match d with
      | .x => ⟨fun _ => 0, fun _ => 1, fun _ => v, false⟩
      | _ => ⟨fun _ => 1, fun _ => 0, fun _ => 0, false⟩,
    hi := fun _ => ⟨fun _ => 1, fun _ => 0, fun _ => 0, false⟩ }

/-- Robin data consistent with the constant `v` on every face: `1·∂φ + 2·φ = 2 v` -/
def bcRobin (v : ℚ) : BCs ℚ :=
  { lo := fun _ => ⟨fun _ => 1, fun _ => 2, fun _ => 2 * v, false⟩,
    hi := fun _ => ⟨fun _ => 1, fun _ => 2, fun _ => 2 * v, false⟩ }

/-- periodic along `x`, no-flux along the other directions -/
def bcPerX : BCs ℚ :=
  { lo := fun d => match d with
      | .x => ⟨fun _ => 1, fun _ => 0, fun _ => 0, true⟩
      | _ => ⟨fun _ => 1, fun _ => 0, fun _ => 0, false⟩,
    hi := fun _ => ⟨fun _ => 1, fun _ => 0, fun _ => 0, false⟩ }

theorem bcDirNoFlux_ok (M : Mesh ℚ) (v : ℚ) : BCsOK M (bcDirNoFlux v) (fun w => w = v) := by
  intro d _
  refine Or.inr ⟨by cases d <;> rfl, fun c => ⟨?_, Or.inr ⟨one_ne_zero, rfl, rfl⟩⟩⟩
  cases d
  · exact Or.inl ⟨⟨rfl, rfl⟩, rfl⟩
  · exact Or.inr ⟨one_ne_zero, rfl, rfl⟩
  · exact Or.inr ⟨one_ne_zero, rfl, rfl⟩

theorem bcPerX_ok (M : Mesh ℚ) (v : ℚ) : BCsOK M bcPerX (fun w => w = v) := by
  intro d _
  cases d
  · exact Or.inl rfl
  · exact Or.inr ⟨rfl, fun c => ⟨Or.inr ⟨one_ne_zero, rfl, rfl⟩, Or.inr ⟨one_ne_zero, rfl, rfl⟩⟩⟩
  · exact Or.inr ⟨rfl, fun c => ⟨Or.inr ⟨one_ne_zero, rfl, rfl⟩, Or.inr ⟨one_ne_zero, rfl, rfl⟩⟩⟩

theorem bcRobin_matches (M : Mesh ℚ) (v : ℚ) : MatchesBC M (bcRobin v) v :=
  matchesBC_of_faces M _ v (fun _ _ _ _ => ⟨rfl, rfl⟩)

/-- on a 1-D Cartesian grid every constant velocity is discretely divergence-free -/
theorem divergence_const_cart1 (M : Mesh α) (hk : M.kind = .cart1) (v : α) (c : Idx) :
    divergence M (fun _ _ => v) c = 0 := by
  simp [divergence, sumDirs, divD, lineA, hk, Kind.active, Kind.dim]

end Ex

end PyFV.C06Sys
