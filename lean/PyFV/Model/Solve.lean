/-
  PyFV.Model.Solve — model of `pdesolver.py`: term objects, assembly of the linear
  system `solvePDE` hands to the sparse solver, and the solver as a relation.
-/
import PyFV.Model.Avg

namespace PyFV

variable {α : Type} [Field α] [LinearOrder α] [IsStrictOrderedRing α]

/-- what a term builder returns: a matrix, a right-hand-side vector, or a pair -/
inductive TermObj (α : Type)
  | mat (r : Idx → St7 α)
  | vec (v : Idx → α)
  | pair (r : Idx → St7 α) (v : Idx → α)

def TermObj.row : TermObj α → Idx → St7 α
  | .mat r, c => r c
  | .vec _, _ => St7.zero
  | .pair r _, c => r c

def TermObj.rhs : TermObj α → Idx → α
  | .mat _, _ => 0
  | .vec v, c => v c
  | .pair _ v, c => v c

/-- unary minus on a term (`-M`, `-RHS`) and scaling -/
def TermObj.smul (a : α) : TermObj α → TermObj α
  | .mat r => .mat (fun c => St7.smul a (r c))
  | .vec v => .vec (fun c => a * v c)
  | .pair r v => .pair (fun c => St7.smul a (r c)) (fun c => a * v c)

/-- summed interior row / right-hand side of a term list (the accumulation loop of `solvePDE`) -/
def sumRow (ts : List (TermObj α)) (c : Idx) : St7 α :=
  ts.foldl (fun acc t => St7.add acc (t.row c)) St7.zero
def sumRhs (ts : List (TermObj α)) (c : Idx) : α :=
  ts.foldl (fun acc t => acc + t.rhs c) 0

/-- apply a boundary row to a field -/
def Row.app (r : Row α) (x : CellFld α) : α :=
  r.entries.foldl (fun acc e => acc + e.2 * x e.1) 0

/-- the assembled linear system as an operator on ghosted fields -/
def assembleOp (M : Mesh α) (bc : BCs α) (ts : List (TermObj α)) (x : CellFld α) (c : Idx) : α :=
  if M.outCount c = 0 then (sumRow ts c).app x c else (bcRow M bc c).app x
def assembleRhs (M : Mesh α) (bc : BCs α) (ts : List (TermObj α)) (c : Idx) : α :=
  if M.outCount c = 0 then sumRhs ts c else (bcRow M bc c).rhs

/-- cells of the ghosted index box -/
def Mesh.inBox (M : Mesh α) (c : Idx) : Prop :=
  c.1 ≤ M.ax.n + 1 ∧
  (if M.kind.active .y then c.2.1 ≤ M.ay.n + 1 else c.2.1 = 1) ∧
  (if M.kind.active .z then c.2.2 ≤ M.az.n + 1 else c.2.2 = 1)

/-- The sparse solver is an external call; the model only says what a solution is. -/
def Solves (M : Mesh α) (bc : BCs α) (ts : List (TermObj α)) (x : CellFld α) : Prop :=
  ∀ c, M.inBox c → assembleOp M bc ts x c = assembleRhs M bc ts c

end PyFV
