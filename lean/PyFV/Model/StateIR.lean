/-
  PyFV.Model.StateIR — a small instruction set over the fields of `State.Var` / `State.BCObj`
  and its interpreter.  The translator T-state (harness/translate/tstate.py) regenerates one
  program of this language per Python function of cell.py / pdesolver.py on every run
  (PyFV/Gen/StateGen.lean); PyFV/Props/GenEqState.lean proves the interpreted programs equal to
  the hand-written state machine `State.step`.

  Everything here is hand-written ONCE and does not mention any particular Python function.

  Objects.  A program runs on behalf of variable `self` (`Ref.self`); `Ref.other` is a second
  CellVariable parameter (`new_cell` of `update_value`), `Ref.new` the variable created by the last
  `allocVar` (the local name bound to a `CellVariable(...)` call).  `Regs.bc` is the BC object
  designated by the last `bc*` instruction (the BC argument of a constructor call), `Regs.argBC` a
  BC object handed in by the user (`CellVariable(mesh, values, bc)`).

  Content stamps as in `State`: `next` is the next fresh stamp.  A Python LITERAL constant array
  (`CellVariable(mesh, 0.0, …)`) carries the reserved stamp `0` (`State.init` starts at `next = 1`,
  so `0` is never issued): all such arrays have the same content history.
-/
import PyFV.Model.State

namespace PyFV.StateIR

open PyFV.State

inductive Ref
  | self | other | new
  deriving DecidableEq, Repr

structure Regs where
  self : Nat
  other : Nat
  new : Nat
  bc : Nat
  argBC : Nat
  deriving DecidableEq, Repr

def Regs.get (g : Regs) : Ref → Nat
  | .self => g.self
  | .other => g.other
  | .new => g.new

/-- boolean expressions (tests of `if`, return value of `_BCs_outdated`) -/
inductive BExp
  | tt
  | ff
  | precalc (r : Ref)          -- `r.BCsTerm_precalc`
  | bcModified (r : Ref)       -- `r.BCs.modified`
  | valModified (r : Ref)      -- `r.value.modified`
  | appliedNeToken (r : Ref)   -- `r._BCs_applied != r.BCs._state_token()`
  | hasCache (r : Ref)         -- `hasattr(r, '_BCsTerm')`
  | not (a : BExp)
  | and (a b : BExp)
  | or (a b : BExp)
  | call (body : BExp) (r : Ref)   -- `r.f()` for a translated boolean method `f` with body `body`
  deriving Repr

/-- primitive statements; the comment gives the Python statement form -/
inductive Prim
  | ghostFromCurrent (r : Ref)     -- `r._value = TrackedArray(cellValuesWithBoundaries(r.value, r.BCs))` (content part)
  | initFresh (r : Ref)            -- `r._value = TrackedArray(cellValuesWithBoundaries(<interior array argument>, r.BCs))`
  | initConst (r : Ref)            -- the same with a literal constant as initial value
  | valueFrom (dst src : Ref)      -- `np.copyto(dst._value, src._value)`, `dst._value = TrackedArray(np.copy(src._value))`
  | newInterior (r : Ref)          -- `r._value[1:-1] = values`, `r._value = TrackedArray(<computed ghosted array>)`
  | cacheFromCurrent (r : Ref)     -- `r._BCsTerm = boundaryConditionsTerm(r.BCs)`
  | setApplied (r : Ref)           -- `r._BCs_applied = r.BCs._state_token()`
  | copyApplied (dst src : Ref)    -- `dst._BCs_applied = src._BCs_applied`
  | setValMod (r : Ref) (b : Bool) -- `r.value.modified = b`, `r._value.modified = b`, flag of a new `TrackedArray`
  | copyValMod (dst src : Ref)     -- `dst.value.modified = src.value.modified`
  | setBCMod (r : Ref) (b : Bool)  -- `r.BCs.modified = b`
  | setPrecalc (r : Ref) (b : Bool)-- `r.BCsTerm_precalc = b`
  | bcDeepcopy (r : Ref)           -- evaluate `deepcopy(r.BCs)`
  | bcDefault                      -- evaluate `BoundaryConditions(domain)`
  | bcOf (r : Ref)                 -- evaluate `r.BCs` (a shared reference)
  | bcArg                          -- the user's BC argument
  | allocVar                       -- object creation by `CellVariable(...)`, before `__init__` runs
  | bindBC (r : Ref)               -- `r.BCs = <the BC object just evaluated>`
  | readCache (r : Ref)            -- `Mbc, RHSbc = r._BCsTerm` (observation)
  | ret (r : Ref)                  -- `return r`
  deriving Repr

inductive Prog
  | skip
  | prim (p : Prim)
  | seq (a b : Prog)
  | ite (c : BExp) (t e : Prog)
  | call (body : Prog) (r : Ref)   -- `r.f()` for a translated method `f` with body `body`
  deriving Repr

/-- a statement list -/
def Prog.block : List Prog → Prog
  | [] => .skip
  | p :: ps => .seq p (Prog.block ps)

/-- interpreter configuration: state, registers, the two observations -/
structure Cfg where
  st : St
  regs : Regs
  read : Option (Option Nat × Nat)   -- cache and interior stamp at the last `readCache`
  ret : Option Nat                   -- returned variable

def modVar (s : St) (v : Nat) (f : Var → Var) : St := setVar s v (f (s.vars v))

def evalB (s : St) (g : Regs) : BExp → Bool
  | .tt => true
  | .ff => false
  | .precalc r => (s.vars (g.get r)).precalc
  | .bcModified r => (s.bcs (s.vars (g.get r)).bc).modified
  | .valModified r => (s.vars (g.get r)).valMod
  | .appliedNeToken r => (s.vars (g.get r)).applied != (s.bcs (s.vars (g.get r)).bc).content
  | .hasCache r => (s.vars (g.get r)).cache.isSome
  | .not a => !(evalB s g a)
  | .and a b => evalB s g a && evalB s g b
  | .or a b => evalB s g a || evalB s g b
  | .call body r => evalB s { g with self := g.get r } body

def execPrim (c : Cfg) : Prim → Cfg
  | .ghostFromCurrent r =>
    let s := c.st
    { c with st := modVar s (c.regs.get r) fun x =>
        { x with ghostI := x.interior, ghostB := (s.bcs x.bc).content } }
  | .initFresh r =>
    let s := c.st
    let x := s.vars (c.regs.get r)
    { c with st := { setVar s (c.regs.get r)
        { x with interior := s.next, ghostI := s.next, ghostB := (s.bcs x.bc).content } with next := s.next + 1 } }
  | .initConst r =>
    let s := c.st
    { c with st := modVar s (c.regs.get r) fun x =>
        { x with interior := 0, ghostI := 0, ghostB := (s.bcs x.bc).content } }
  | .valueFrom dst src =>
    let s := c.st
    let y := s.vars (c.regs.get src)
    { c with st := modVar s (c.regs.get dst) fun x =>
        { x with interior := y.interior, ghostI := y.ghostI, ghostB := y.ghostB } }
  | .newInterior r =>
    let s := c.st
    { c with st := { setVar s (c.regs.get r) { s.vars (c.regs.get r) with interior := s.next } with next := s.next + 1 } }
  | .cacheFromCurrent r =>
    let s := c.st
    { c with st := modVar s (c.regs.get r) fun x => { x with cache := some (s.bcs x.bc).content } }
  | .setApplied r =>
    let s := c.st
    { c with st := modVar s (c.regs.get r) fun x => { x with applied := (s.bcs x.bc).content } }
  | .copyApplied dst src =>
    let s := c.st
    { c with st := modVar s (c.regs.get dst) fun x => { x with applied := (s.vars (c.regs.get src)).applied } }
  | .setValMod r b =>
    { c with st := modVar c.st (c.regs.get r) fun x => { x with valMod := b } }
  | .copyValMod dst src =>
    let s := c.st
    { c with st := modVar s (c.regs.get dst) fun x => { x with valMod := (s.vars (c.regs.get src)).valMod } }
  | .setBCMod r b =>
    let s := c.st
    let o := (s.vars (c.regs.get r)).bc
    { c with st := setBC s o { content := (s.bcs o).content, modified := b } }
  | .setPrecalc r b =>
    { c with st := modVar c.st (c.regs.get r) fun x => { x with precalc := b } }
  | .bcDeepcopy r =>
    let s := c.st
    { c with st := { setBC s s.nB (s.bcs (s.vars (c.regs.get r)).bc) with nB := s.nB + 1 },
             regs := { c.regs with bc := s.nB } }
  | .bcDefault =>
    let s := c.st
    { c with st := { setBC s s.nB { content := s.next, modified := false } with nB := s.nB + 1, next := s.next + 1 },
             regs := { c.regs with bc := s.nB } }
  | .bcOf r =>
    { c with regs := { c.regs with bc := (c.st.vars (c.regs.get r)).bc } }
  | .bcArg =>
    { c with regs := { c.regs with bc := c.regs.argBC } }
  | .allocVar =>
    let s := c.st
    { c with st := { setVar s s.nV default with nV := s.nV + 1 }, regs := { c.regs with new := s.nV } }
  | .bindBC r =>
    { c with st := modVar c.st (c.regs.get r) fun x => { x with bc := c.regs.bc } }
  | .readCache r =>
    let x := c.st.vars (c.regs.get r)
    { c with read := some (x.cache, x.interior) }
  | .ret r =>
    { c with ret := some (c.regs.get r) }

def exec : Prog → Cfg → Cfg
  | .skip, c => c
  | .prim p, c => execPrim c p
  | .seq a b, c => exec b (exec a c)
  | .ite t a b, c => if evalB c.st c.regs t then exec a c else exec b c
  | .call body r, c =>
    let c' := exec body { c with regs := { c.regs with self := c.regs.get r } }
    { c' with regs := c.regs }

/-- run program `p` on behalf of variable `v` (second variable `w`, user BC object `b`) -/
def runProg (s : St) (v : Nat) (p : Prog) (w : Nat := 0) (b : Nat := 0) : Cfg :=
  exec p { st := s, regs := { self := v, other := w, new := 0, bc := 0, argBC := b }, read := none, ret := none }

/-- the state after running `p` on behalf of `v` -/
def interp (s : St) (v : Nat) (p : Prog) (w : Nat := 0) (b : Nat := 0) : St := (runProg s v p w b).st

/-- value of a boolean method of variable `v` -/
def eval (s : St) (v : Nat) (e : BExp) : Bool :=
  evalB s { self := v, other := 0, new := 0, bc := 0, argBC := 0 } e

/-- the `Out` of the model, from the two observations -/
def Cfg.solved (c : Cfg) : Out :=
  match c.read with
  | some (u, i) => .solved u i
  | none => .invalid

def Cfg.created (c : Cfg) : Out :=
  match c.ret with
  | some v => .newVar v
  | none => .invalid

/-! ### the `modified` flags below the abstraction of `BCObj.modified`

  `BCObj.modified` is "the OR of the `modified` flags of its `TrackedArray`s".  The getters and
  setters of boundary.py are translated into functions on these flags. -/

inductive Side
  | left | right | bottom | top | back | front
  deriving DecidableEq, Repr

inductive Coef
  | a | b | c | periodic
  deriving DecidableEq, Repr

/-- `_a.modified`, `_b.modified`, `_c.modified` of one `BoundaryFace` -/
structure FaceFlags where
  a : Bool
  b : Bool
  c : Bool
  deriving DecidableEq, Repr

def FaceFlags.any (f : FaceFlags) : Bool := f.a || f.b || f.c

structure BCFlags where
  left : FaceFlags
  right : FaceFlags
  bottom : FaceFlags
  top : FaceFlags
  back : FaceFlags
  front : FaceFlags
  deriving DecidableEq, Repr

def BCFlags.get (F : BCFlags) : Side → FaceFlags
  | .left => F.left | .right => F.right | .bottom => F.bottom
  | .top => F.top | .back => F.back | .front => F.front

def BCFlags.set (F : BCFlags) (sd : Side) (f : FaceFlags) : BCFlags :=
  match sd with
  | .left => { F with left := f } | .right => { F with right := f } | .bottom => { F with bottom := f }
  | .top => { F with top := f } | .back => { F with back := f } | .front => { F with front := f }

/-- the abstraction: `BCObj.modified` of a BC object with flags `F` -/
def BCFlags.any (F : BCFlags) : Bool :=
  F.left.any || F.right.any || F.bottom.any || F.top.any || F.back.any || F.front.any

def allSides : List Side := [.left, .right, .bottom, .top, .back, .front]
def allCoefs : List Coef := [.a, .b, .c, .periodic]

end PyFV.StateIR
