/-
  PyFV.Model.ErrorSpec — property C16 (rejection of malformed input).

  Two kinds of definitions live here, both hand-written:

  * SPEC tables (`specCoord`, `specComp`, `specCtor`, `specShape`, `specTerm`, `specBFace`,
    `specRadialPeriodic`): what the documentation of PyFVTool promises — which exception
    type a malformed input raises and which documented inputs are accepted.
  * decision MODELS that mirror the cascades of the code *as it is*
    (`ctorOutcome` ← the nine `__init__`/`_mesh_*d_param` of mesh.py, `shapeOutcome` ← the shape
    cascade of `CellVariable.__init__`, `termOutcome` ← the loop of `solvePDE`,
    `bfaceOutcome` ← `BoundaryFace.__init__`, `radialPeriodicOutcome` ← the periodic branch of
    the six `boundaryConditionsTerm*`).  They are tied to the code by the exhaustive
    correspondence `harness/c16.py` (every table entry is executed on the real classes).

  The label tables of the code are not written by hand: `PyFV.Gen.coordLabelGet` … are
  generated from mesh.py / face.py by `harness/translate/terr.py` (file `PyFV/Gen/Errors.lean`)
  and share the type `LabelOutcome` below.

  Scope of the constructor property: the NUMBER of arguments.  Calls with the right number of
  arguments of the wrong types (`Grid1D(3)`, `PolarGrid2D(a, a, a, a)`; `ctorTypeConfusion`) are
  type confusions: the model says what the code does with them, the spec comparison excludes them.

  Likewise a size-1 initial value of rank above the mesh rank on a single-cell 2-D/3-D mesh
  (`shapeOutOfScope`) is excluded: the code happens to accept it, the documentation allows either
  outcome.  No deviation from the documentation remains after the repairs of the repo.
-/
import PyFV.Model.Geom

namespace PyFV

/-- result of reading / writing a coordinate or vector-component label:
    `ok a` = the internal array of axis `a` (`_x/_y/_z`, `_xvalue/_yvalue/_zvalue`) is
    returned / replaced -/
inductive LabelOutcome
  | ok (a : Dir) | attrError | notImplemented | other (name : String)
  deriving DecidableEq, Repr, Inhabited

/-- result of a constructor / solver call: accepted, or the class of the exception raised -/
inductive Outcome
  | accept | typeError | valueError | attrError | indexError | other (name : String)
  deriving DecidableEq, Repr, Inhabited

/-- an internal array was returned / replaced -/
def LabelOutcome.isOk : LabelOutcome → Bool
  | .ok _ => true
  | _ => false

def LabelOutcome.name : LabelOutcome → String
  | .ok .x => "ok:x" | .ok .y => "ok:y" | .ok .z => "ok:z"
  | .attrError => "AttributeError" | .notImplemented => "NotImplementedError"
  | .other n => "other:" ++ n

def Outcome.name : Outcome → String
  | .accept => "ok" | .typeError => "TypeError" | .valueError => "ValueError"
  | .attrError => "AttributeError" | .indexError => "IndexError" | .other n => n

namespace ErrSpec

/-! ## Enumerations -/

def allKinds : List Kind :=
  [.cart1, .cyl1, .sph1, .cart2, .cyl2, .pol2, .cart3, .cyl3, .sph3]

def allCoordLabels : List String := ["x", "y", "z", "r", "theta", "phi"]

def allCompLabels : List String :=
  ["xvalue", "yvalue", "zvalue", "rvalue", "thetavalue", "phivalue"]

/-! ## Documented label tables -/

/-- the documented coordinate labels of each grid class with the internal axis they name
    (`z` of `CylindricalGrid2D` is the second axis) -/
def ownCoords : Kind → List (String × Dir)
  | .cart1 => [("x", .x)]
  | .cyl1  => [("r", .x)]
  | .sph1  => [("r", .x)]
  | .cart2 => [("x", .x), ("y", .y)]
  | .cyl2  => [("r", .x), ("z", .y)]
  | .pol2  => [("r", .x), ("theta", .y)]
  | .cart3 => [("x", .x), ("y", .y), ("z", .z)]
  | .cyl3  => [("r", .x), ("theta", .y), ("z", .z)]
  | .sph3  => [("r", .x), ("theta", .y), ("phi", .z)]

/-- the documented vector-component labels: the coordinate labels with suffix `value` -/
def ownComps (k : Kind) : List (String × Dir) :=
  (ownCoords k).map (fun p => (p.1 ++ "value", p.2))

/-- reading `mesh.cellsize.<l>` / `cellcenters` / `facecenters` -/
def specCoord (k : Kind) (l : String) : LabelOutcome :=
  match (ownCoords k).lookup l with
  | some a => .ok a
  | none => .attrError

/-- the coordinate labels are read-only properties: assignment always raises AttributeError -/
def specCoordSet (_k : Kind) (_l : String) : LabelOutcome := .attrError

/-- reading `FaceVariable.<l>` -/
def specComp (k : Kind) (l : String) : LabelOutcome :=
  match (ownComps k).lookup l with
  | some a => .ok a
  | none => .attrError

/-- assigning `FaceVariable.<l> = …`: own labels replace the internal array, foreign raise -/
def specCompSet (k : Kind) (l : String) : LabelOutcome := specComp k l

/-! ## Constructor forms -/

/-- what a positional constructor argument is, as far as the code looks at it -/
inductive ArgKind | arr | int | flt
  deriving DecidableEq, Repr

/-- `arrays n`: n face-location arrays (≥ 2 entries each);
    `scalars n`: ⌈n/2⌉ ints followed by ⌊n/2⌋ floats (for even n: n/2 cell counts, n/2 lengths) -/
inductive CtorForm
  | arrays (n : ℕ) | scalars (n : ℕ)
  deriving DecidableEq, Repr

def CtorForm.args : CtorForm → List ArgKind
  | .arrays n => List.replicate n .arr
  | .scalars n => List.replicate ((n + 1) / 2) .int ++ List.replicate (n / 2) .flt

def arities : List ℕ := [0, 1, 2, 3, 4, 5, 6, 7]

def allForms : List CtorForm := arities.map .arrays ++ arities.map .scalars

/-- DOCUMENTED (arity level): `dim` face arrays, `dim` ints followed by `dim` floats, or the
    internal direct-init overload (6 positional arguments whose first is an ndarray) are accepted;
    every other NUMBER of arguments raises TypeError. -/
def specCtor (k : Kind) (f : CtorForm) : Outcome :=
  if f = .arrays k.dim ∨ f = .scalars (2 * k.dim) ∨ f = .arrays 6 then .accept else .typeError

/-- right number of arguments, wrong types (`dim` numbers where face arrays are expected,
    `2·dim` arrays where counts and lengths are expected — unless that is the 6-ndarray
    direct init): out of the scope of the arity property, excluded from the spec comparison -/
def ctorTypeConfusion (k : Kind) (f : CtorForm) : Bool :=
  decide (f = .scalars k.dim ∨ (f = .arrays (2 * k.dim) ∧ 2 * k.dim ≠ 6))

/-! ### Model of the code -/

/-- `_check_mesh_nargs(args, dim)`: TypeError unless `len(args) in (dim, 2*dim)` -/
def checkNargs (dim : ℕ) (args : List ArgKind) : Except Outcome Unit :=
  if args.length = dim ∨ args.length = 2 * dim then pure () else throw .typeError

/-- `_mesh_{dim}d_param(*args)`:
    `len(args) == dim`   → face locations: `.size` of every argument is read
                           (a Python number has no attribute `size`);
    `len(args) == 2 dim` → counts and lengths: `np.ones(N+2)` needs integer counts
                           (numpy raises TypeError for an array or a float);
    otherwise            → `raise TypeError('Incorrect number of arguments …')`. -/
def meshParam (dim : ℕ) (args : List ArgKind) : Outcome :=
  if args.length = dim then
    if args.all (· = .arr) then .accept else .attrError
  else if args.length = 2 * dim then
    if (args.take dim).all (· = .int) then .accept else .typeError
  else .typeError

/-- `args[i]`: IndexError past the end of the tuple -/
def argAt (args : List ArgKind) (i : ℕ) : Except Outcome ArgKind :=
  match args[i]? with
  | some a => .ok a
  | none => .error .indexError

/-- `args[i][-1]`: last entry of a face array; a Python number is not subscriptable (TypeError) -/
def argLast (args : List ArgKind) (i : ℕ) : Except Outcome ArgKind := do
  match ← argAt args i with
  | .arr => pure .flt
  | _ => throw .typeError

/-- `if bound > 2*np.pi:` — the truth value of an array with more than one entry is
    ambiguous (ValueError); numbers compare fine (at most a warning is issued) -/
def boundCheck : ArgKind → Except Outcome Unit
  | .arr => throw .valueError
  | _ => pure ()

/-- every class takes the direct-init path only for 6 arguments whose first is an ndarray -/
def directInit (args : List ArgKind) : Bool :=
  args.length = 6 && args.head? = some .arr

/-- the nine `__init__`: direct init, else `_check_mesh_nargs`, then (polar / cylindrical-3D /
    spherical-3D) the bound warnings, then `_mesh_{dim}d_param` -/
def ctorRun (k : Kind) (a : List ArgKind) : Except Outcome Outcome :=
  if directInit a then pure .accept else do
    checkNargs k.dim a
    match k with
    | .cart1 | .cyl1 | .sph1 => pure (meshParam 1 a)
    | .cart2 | .cyl2 => pure (meshParam 2 a)
    -- PolarGrid2D: theta_max = args[1][-1] if len(args)==2 else args[3]
    | .pol2 =>
      let t ← if a.length = 2 then argLast a 1 else argAt a 3
      boundCheck t
      pure (meshParam 2 a)
    | .cart3 => pure (meshParam 3 a)
    -- CylindricalGrid3D: theta_max = args[1][-1] if len(args)==3 else args[4]
    | .cyl3 =>
      let t ← if a.length = 3 then argLast a 1 else argAt a 4
      boundCheck t
      pure (meshParam 3 a)
    -- SphericalGrid3D: theta_max, phi_max assigned for 3 or 6 arguments (no `else`)
    | .sph3 =>
      let (t, p) ←
        if a.length = 3 then do
          let t ← argLast a 1
          let p ← argLast a 2
          pure (t, p)
        else if a.length = 6 then do
          let t ← argAt a 4
          let p ← argAt a 5
          pure (t, p)
        else throw (.other "UnboundLocalError")
      boundCheck t
      boundCheck p
      pure (meshParam 3 a)

/-- MODEL: outcome of `Class(*args)` for the given form -/
def ctorOutcome (k : Kind) (f : CtorForm) : Outcome :=
  match ctorRun k f.args with
  | .ok o => o
  | .error e => e

/-! ## Initial-value shapes -/

/-- A size-1 value of rank above the mesh rank: `cell_value*np.ones(dims)` keeps the leading
    unit axes, so `cellValuesWithBoundaries*` receives an array of too high a rank.  numpy then
    fails with ValueError (`hstack` of arrays of different rank in 1-D, shape mismatch of the
    ghost-cell assignment in 2-D/3-D) unless the mesh is 2-D/3-D with a single cell.
    This stage is NOT derived from numpy semantics: it is characterised empirically and checked
    by the correspondence for all extents 1..4. -/
def size1Downstream (dims : List ℕ) : Outcome :=
  if 2 ≤ dims.length ∧ dims.all (· == 1) then .accept else .valueError

/-- MODEL of `CellVariable(mesh, value)` as far as the shape of `value` goes (`dims` =
    `mesh.dims`, `shape` = shape of the initial value; a Python scalar has shape `[]`):
    `np.isscalar` / `size == 1` → broadcast; `shape == tuple(dims)` → interior values;
    `shape == tuple(dims+2)` → values with ghost cells; else `raise ValueError`. -/
def shapeOutcome (dims shape : List ℕ) : Outcome :=
  if shape.prod = 1 then
    if shape.length ≤ dims.length then .accept else size1Downstream dims
  else if shape = dims then .accept
  else if shape = dims.map (· + 2) then .accept
  else .valueError

/-- DOCUMENTED: the mesh shape, the mesh shape with ghost cells, and scalar-like values (scalars
    and size-1 arrays whose rank does not exceed the mesh rank, which are broadcast) are accepted;
    everything else — including a size-1 array of rank above the mesh rank, which fits neither the
    grid nor the grid with ghosts — raises ValueError -/
def specShape (dims shape : List ℕ) : Outcome :=
  if shape = dims ∨ shape = dims.map (· + 2) ∨ (shape.prod = 1 ∧ shape.length ≤ dims.length)
  then .accept else .valueError

/-- The one configuration excluded from the spec comparison (like the constructor type confusions):
    a size-1 array of rank above the mesh rank on a 2-D/3-D mesh with a SINGLE cell.  There numpy
    happens to broadcast the value into the one cell and the code accepts it (the model says so:
    `size1Downstream`); the documentation allows either outcome. -/
def shapeOutOfScope (dims shape : List ℕ) : Bool :=
  decide (shape.prod = 1 ∧ dims.length < shape.length ∧ 2 ≤ dims.length) && dims.all (· == 1)

/-! ## Equation terms handed to `solvePDE` -/

inductive TermShape
  | mat | vec | pair | pairBad | tuple3 | scalar | str | list | none
  deriving DecidableEq, Repr

def allTerms : List TermShape :=
  [.mat, .vec, .pair, .pairBad, .tuple3, .scalar, .str, .list, .none]

/-- the Python objects standing for the term shapes -/
inductive Atom | sparse2 | nd (ndim : ℕ) | float | str | none
  deriving DecidableEq, Repr

inductive PyObj | atom (a : Atom) | tuple (items : List Atom) | list (items : List Atom)
  deriving DecidableEq, Repr

/-- attribute `ndim` (absent on Python floats, strings, lists, None) -/
def Atom.ndim? : Atom → Option ℕ
  | .sparse2 => some 2
  | .nd n => some n
  | _ => Option.none

def termObj : TermShape → PyObj
  | .mat => .atom .sparse2
  | .vec => .atom (.nd 1)
  | .pair => .tuple [.sparse2, .nd 1]
  | .pairBad => .tuple [.nd 1, .sparse2]
  | .tuple3 => .tuple [.sparse2, .nd 1, .nd 1]
  | .scalar => .atom .float
  | .str => .atom .str
  | .list => .list [.sparse2, .nd 1]
  | .none => .atom .none

/-- the loop body of `solvePDE`:
    `if isinstance(term, tuple): if len(term) != 2: raise TypeError; Mterm, RHSterm = term;`
    `   if getattr(Mterm,'ndim',None) != 2 or getattr(RHSterm,'ndim',None) != 1: raise TypeError`
    `elif getattr(term,'ndim',None) == 1 … elif … == 2 … else: raise TypeError('Unknown term')` -/
def termCascade : PyObj → Outcome
  | .tuple items =>
    if items.length ≠ 2 then .typeError
    else match items with
      | [m, r] => if m.ndim? ≠ some 2 ∨ r.ndim? ≠ some 1 then .typeError else .accept
      | _ => .typeError
  | .list _ => .typeError                        -- a list has no attribute `ndim`
  | .atom a =>
    match a.ndim? with
    | some 1 => .accept
    | some 2 => .accept
    | _ => .typeError

/-- MODEL -/
def termOutcome (t : TermShape) : Outcome := termCascade (termObj t)

/-- DOCUMENTED: a 2-D sparse matrix, a 1-D ndarray or a pair (matrix, vector) is accepted,
    anything else raises TypeError("Unknown term") -/
def specTerm : TermShape → Outcome
  | .mat | .vec | .pair => .accept
  | _ => .typeError

/-! ## Boundary coefficients of `BoundaryFace(a, b, c)` -/

inductive CoefType | ndarray | float | list | str | none
  deriving DecidableEq, Repr

def allCoefTypes : List CoefType := [.ndarray, .float, .list, .str, .none]

/-- MODEL: `if (type(a) is not np.ndarray) or (type(b) is not np.ndarray) or (type(c) is not np.ndarray): raise TypeError` -/
def bfaceOutcome (a b c : CoefType) : Outcome :=
  if a ≠ .ndarray ∨ b ≠ .ndarray ∨ c ≠ .ndarray then .typeError else .accept

/-- DOCUMENTED: three ndarrays are accepted, anything else raises TypeError -/
def specBFace (a b c : CoefType) : Outcome :=
  if [a, b, c].all (· == .ndarray) then .accept else .typeError

/-! ## Periodic flags on a radial boundary -/

/-- the function `boundaryConditionsTerm` dispatches to -/
inductive BCBuilder | t1D | t2D | polar2D | t3D | cyl3D | sph3D
  deriving DecidableEq, Repr

def bcBuilder : Kind → BCBuilder
  | .cart1 | .cyl1 | .sph1 => .t1D
  | .cart2 | .cyl2 => .t2D
  | .pol2 => .polar2D
  | .cart3 => .t3D
  | .cyl3 => .cyl3D
  | .sph3 => .sph3D

/-- all subsets of flags, sides in the order left right bottom top back front -/
def allFlags : List (List Bool) :=
  let b := [false, true]
  b.flatMap fun l => b.flatMap fun r => b.flatMap fun bo => b.flatMap fun t =>
    b.flatMap fun ba => b.map fun f => [l, r, bo, t, ba, f]

/-- MODEL: in each `boundaryConditionsTerm*` the branch
    `elif BC.right.periodic or BC.left.periodic:` raises ValueError
    — for the listed types in the shared 1-D/2-D builders, unconditionally in the polar,
    cylindrical-3D and spherical-3D builders; the Cartesian 3-D builder has no check.
    `flags` = periodic flags in the order left right bottom top back front. -/
def radialPeriodicOutcome (k : Kind) (flags : List Bool) : Outcome :=
  let lr := flags.getD 1 false || flags.getD 0 false
  if !lr then .accept
  else match bcBuilder k with
    | .t1D => if k = .sph1 ∨ k = .cyl1 then .valueError else .accept
    | .t2D => if k = .cyl2 then .valueError else .accept
    | .polar2D | .cyl3D | .sph3D => .valueError
    | .t3D => .accept

/-- DOCUMENTED: ValueError iff the first axis is a radius and its left or right side is flagged -/
def specRadialPeriodic (k : Kind) (flags : List Bool) : Outcome :=
  if k.radial = true ∧ (flags.getD 0 false = true ∨ flags.getD 1 false = true) then .valueError
  else .accept

end ErrSpec
end PyFV
