/-
  PyFV.Model.ErrorSpec — property C16 (rejection of malformed input).

  Two kinds of definitions live here, both hand-written:

  * SPEC tables (`specCoord`, `specComp`, `specCtor`, `specShape`, `specTerm`, `specBFace`,
    `specRadialPeriodic`): what the documentation of PyFVTool promises — which exception
    type a malformed input raises and which documented inputs are accepted.
  * decision MODELS that mirror the cascades of the code *as it is*
    (`ctorOutcome` ← the nine `__init__`/`_mesh_*d_param` of mesh.py, `shapeOutcome` ← the shape
    cascade of `CellVariable.__init__`, `termOutcome` ← the loop of `solvePDE`,
    `bfaceOutcome` ← `BoundaryFace.__init__`, `radialPeriodicOutcome` ← the periodic branch of
    the six `boundaryConditionsTerm*`).  They are tied to the code by the exhaustive
    correspondence `harness/c16.py` (every table entry is executed on the real classes).

  The label tables of the code are not written by hand: `PyFV.Gen.coordLabelGet` … are
  generated from mesh.py / face.py by `harness/translate/terr.py` (file `PyFV/Gen/Errors.lean`)
  and share the type `LabelOutcome` below.

  Where code and documentation disagree the disagreeing entries are listed in
  `ctorDeviations`, `termDeviations`, `compGetDeviations`, `compSetDeviations`;
  `PyFV.Props.C16` proves that these lists are exact.
-/
import PyFV.Model.Geom

namespace PyFV

/-- result of reading / writing a coordinate or vector-component label:
    `ok a` = the internal array of axis `a` (`_x/_y/_z`, `_xvalue/_yvalue/_zvalue`) is
    returned / replaced -/
inductive LabelOutcome
  | ok (a : Dir) | attrError | notImplemented | other (name : String)
  deriving DecidableEq, Repr, Inhabited

/-- result of a constructor / solver call: accepted, or the class of the exception raised -/
inductive Outcome
  | accept | typeError | valueError | attrError | indexError | other (name : String)
  deriving DecidableEq, Repr, Inhabited

/-- an internal array was returned / replaced -/
def LabelOutcome.isOk : LabelOutcome → Bool
  | .ok _ => true
  | _ => false

def LabelOutcome.name : LabelOutcome → String
  | .ok .x => "ok:x" | .ok .y => "ok:y" | .ok .z => "ok:z"
  | .attrError => "AttributeError" | .notImplemented => "NotImplementedError"
  | .other n => "other:" ++ n

def Outcome.name : Outcome → String
  | .accept => "ok" | .typeError => "TypeError" | .valueError => "ValueError"
  | .attrError => "AttributeError" | .indexError => "IndexError" | .other n => n

namespace ErrSpec

/-! ## Enumerations -/

def allKinds : List Kind :=
  [.cart1, .cyl1, .sph1, .cart2, .cyl2, .pol2, .cart3, .cyl3, .sph3]

def allCoordLabels : List String := ["x", "y", "z", "r", "theta", "phi"]

def allCompLabels : List String :=
  ["xvalue", "yvalue", "zvalue", "rvalue", "thetavalue", "phivalue"]

/-! ## Documented label tables -/

/-- the documented coordinate labels of each grid class with the internal axis they name
    (`z` of `CylindricalGrid2D` is the second axis) -/
def ownCoords : Kind → List (String × Dir)
  | .cart1 => [("x", .x)]
  | .cyl1  => [("r", .x)]
  | .sph1  => [("r", .x)]
  | .cart2 => [("x", .x), ("y", .y)]
  | .cyl2  => [("r", .x), ("z", .y)]
  | .pol2  => [("r", .x), ("theta", .y)]
  | .cart3 => [("x", .x), ("y", .y), ("z", .z)]
  | .cyl3  => [("r", .x), ("theta", .y), ("z", .z)]
  | .sph3  => [("r", .x), ("theta", .y), ("phi", .z)]

/-- the documented vector-component labels: the coordinate labels with suffix `value` -/
def ownComps (k : Kind) : List (String × Dir) :=
  (ownCoords k).map (fun p => (p.1 ++ "value", p.2))

/-- reading `mesh.cellsize.<l>` / `cellcenters` / `facecenters` -/
def specCoord (k : Kind) (l : String) : LabelOutcome :=
  match (ownCoords k).lookup l with
  | some a => .ok a
  | none => .attrError

/-- the coordinate labels are read-only properties: assignment always raises AttributeError -/
def specCoordSet (_k : Kind) (_l : String) : LabelOutcome := .attrError

/-- reading `FaceVariable.<l>` -/
def specComp (k : Kind) (l : String) : LabelOutcome :=
  match (ownComps k).lookup l with
  | some a => .ok a
  | none => .attrError

/-- assigning `FaceVariable.<l> = …`: own labels replace the internal array, foreign raise -/
def specCompSet (k : Kind) (l : String) : LabelOutcome := specComp k l

/-! ## Constructor forms -/

/-- what a positional constructor argument is, as far as the code looks at it -/
inductive ArgKind | arr | int | flt
  deriving DecidableEq, Repr

/-- `arrays n`: n face-location arrays (≥ 2 entries each);
    `scalars n`: ⌈n/2⌉ ints followed by ⌊n/2⌋ floats (for even n: n/2 cell counts, n/2 lengths) -/
inductive CtorForm
  | arrays (n : ℕ) | scalars (n : ℕ)
  deriving DecidableEq, Repr

def CtorForm.args : CtorForm → List ArgKind
  | .arrays n => List.replicate n .arr
  | .scalars n => List.replicate ((n + 1) / 2) .int ++ List.replicate (n / 2) .flt

def arities : List ℕ := [0, 1, 2, 3, 4, 5, 6, 7]

def allForms : List CtorForm := arities.map .arrays ++ arities.map .scalars

/-- DOCUMENTED: `dim` face arrays, `dim` ints followed by `dim` floats, or the internal
    direct-init overload (6 positional arguments whose first is an ndarray) are accepted;
    every other arity raises TypeError. -/
def specCtor (k : Kind) (f : CtorForm) : Outcome :=
  if f = .arrays k.dim ∨ f = .scalars (2 * k.dim) ∨ f = .arrays 6 then .accept else .typeError

/-! ### Model of the code -/

/-- `_mesh_{dim}d_param(*args)`:
    `len(args) == dim`   → face locations: `.size` of every argument is read
                           (a Python number has no attribute `size`);
    `len(args) == 2 dim` → counts and lengths: `np.ones(N+2)` needs integer counts
                           (numpy raises TypeError for an array or a float);
    otherwise            → `raise TypeError('Incorrect number of arguments …')`. -/
def meshParam (dim : ℕ) (args : List ArgKind) : Outcome :=
  if args.length = dim then
    if args.all (· = .arr) then .accept else .attrError
  else if args.length = 2 * dim then
    if (args.take dim).all (· = .int) then .accept else .typeError
  else .typeError

/-- `args[i]`: IndexError past the end of the tuple -/
def argAt (args : List ArgKind) (i : ℕ) : Except Outcome ArgKind :=
  match args[i]? with
  | some a => .ok a
  | none => .error .indexError

/-- `args[i][-1]`: last entry of a face array; a Python number is not subscriptable (TypeError) -/
def argLast (args : List ArgKind) (i : ℕ) : Except Outcome ArgKind := do
  match ← argAt args i with
  | .arr => pure .flt
  | _ => throw .typeError

/-- `if bound > 2*np.pi:` — the truth value of an array with more than one entry is
    ambiguous (ValueError); numbers compare fine (at most a warning is issued) -/
def boundCheck : ArgKind → Except Outcome Unit
  | .arr => throw .valueError
  | _ => pure ()

/-- the 3-D classes take the direct-init path only for 6 arguments whose first is an ndarray -/
def directInit3 (args : List ArgKind) : Bool :=
  args.length = 6 && args.head? = some .arr

def ctorRun : Kind → List ArgKind → Except Outcome Outcome
  -- Grid1D, CylindricalGrid1D, SphericalGrid1D, Grid2D, CylindricalGrid2D:
  -- any 6 arguments are taken as (dims, cellsize, cellcenters, facecenters, corners, edges)
  | .cart1, a | .cyl1, a | .sph1, a =>
    if a.length = 6 then pure .accept else pure (meshParam 1 a)
  | .cart2, a | .cyl2, a =>
    if a.length = 6 then pure .accept else pure (meshParam 2 a)
  -- PolarGrid2D: theta_max = args[1][-1] if len(args)==2 else args[3], before the arity check
  | .pol2, a =>
    if a.length = 6 then pure .accept else do
      let t ← if a.length = 2 then argLast a 1 else argAt a 3
      boundCheck t
      pure (meshParam 2 a)
  | .cart3, a =>
    if directInit3 a then pure .accept else pure (meshParam 3 a)
  -- CylindricalGrid3D: theta_max = args[1][-1] if len(args)==3 else args[4]
  | .cyl3, a =>
    if directInit3 a then pure .accept else do
      let t ← if a.length = 3 then argLast a 1 else argAt a 4
      boundCheck t
      pure (meshParam 3 a)
  -- SphericalGrid3D: theta_max, phi_max assigned only for 3 or 6 arguments; otherwise the
  -- comparison reads an unbound local
  | .sph3, a =>
    if directInit3 a then pure .accept else do
      let (t, p) ←
        if a.length = 3 then do
          let t ← argLast a 1
          let p ← argLast a 2
          pure (t, p)
        else if a.length = 6 then do
          let t ← argAt a 4
          let p ← argAt a 5
          pure (t, p)
        else throw (.other "UnboundLocalError")
      boundCheck t
      boundCheck p
      pure (meshParam 3 a)

/-- MODEL: outcome of `Class(*args)` for the given form -/
def ctorOutcome (k : Kind) (f : CtorForm) : Outcome :=
  match ctorRun k f.args with
  | .ok o => o
  | .error e => e

/-- entries where the code as it is deviates from `specCtor` (proved exact in C16) -/
def ctorDeviations : List (Kind × CtorForm) :=
  [ (.cart1, .scalars 1), (.cart1, .scalars 6),
    (.cyl1, .scalars 1), (.cyl1, .scalars 6),
    (.sph1, .scalars 1), (.sph1, .scalars 6),
    (.cart2, .scalars 2), (.cart2, .scalars 6),
    (.cyl2, .scalars 2), (.cyl2, .scalars 6),
    (.pol2, .arrays 0), (.pol2, .arrays 1), (.pol2, .arrays 3), (.pol2, .arrays 4),
    (.pol2, .arrays 5), (.pol2, .arrays 7),
    (.pol2, .scalars 0), (.pol2, .scalars 1), (.pol2, .scalars 3), (.pol2, .scalars 6),
    (.cart3, .scalars 3),
    (.cyl3, .arrays 0), (.cyl3, .arrays 1), (.cyl3, .arrays 2), (.cyl3, .arrays 4),
    (.cyl3, .arrays 5), (.cyl3, .arrays 7),
    (.cyl3, .scalars 0), (.cyl3, .scalars 1), (.cyl3, .scalars 2), (.cyl3, .scalars 4),
    (.sph3, .arrays 0), (.sph3, .arrays 1), (.sph3, .arrays 2), (.sph3, .arrays 4),
    (.sph3, .arrays 5), (.sph3, .arrays 7),
    (.sph3, .scalars 0), (.sph3, .scalars 1), (.sph3, .scalars 2), (.sph3, .scalars 4),
    (.sph3, .scalars 5), (.sph3, .scalars 7) ]

/-! ## Initial-value shapes -/

/-- numpy's `np.all(np.array(a) == np.array(b))` on two 1-D integer arrays:
    equal lengths compare elementwise; a length-1 operand is broadcast against the other;
    any other pair of lengths cannot be broadcast (`==` raises ValueError since numpy 1.25). -/
def bcastAllEq (a b : List ℕ) : Option Bool :=
  if a.length = b.length then some (decide (a = b))
  else if a.length = 1 then some (b.all (· == a.headD 0))
  else if b.length = 1 then some (a.all (· == b.headD 0))
  else none

/-- MODEL of the cascade in `CellVariable.__init__` (`dims` = `mesh.dims`, `shape` = shape of
    the initial value; a Python scalar has shape `[]`):
    `np.isscalar` / `size == 1` → broadcast; `shape == dims` → interior values;
    `shape == dims+2` → values with ghost cells; else `raise ValueError`.
    `accept` means: the cascade lets the value through. -/
def shapeOutcome (dims shape : List ℕ) : Outcome :=
  if shape.prod = 1 then .accept
  else match bcastAllEq shape dims with
    | none => .valueError
    | some true => .accept
    | some false =>
      match bcastAllEq shape (dims.map (· + 2)) with
      | some true => .accept
      | _ => .valueError

/-- DOCUMENTED: the mesh shape, the mesh shape with ghost cells, size-1 arrays and scalars are
    accepted; everything else raises ValueError -/
def specShape (dims shape : List ℕ) : Outcome :=
  if shape = dims ∨ shape = dims.map (· + 2) ∨ shape.prod = 1 then .accept else .valueError

/-! ## Equation terms handed to `solvePDE` -/

inductive TermShape
  | mat | vec | pair | pairBad | tuple3 | scalar | str | list | none
  deriving DecidableEq, Repr

def allTerms : List TermShape :=
  [.mat, .vec, .pair, .pairBad, .tuple3, .scalar, .str, .list, .none]

/-- the Python objects standing for the term shapes -/
inductive Atom | sparse2 | nd (ndim : ℕ) | float | str | none
  deriving DecidableEq, Repr

inductive PyObj | atom (a : Atom) | tuple (items : List Atom) | list (items : List Atom)
  deriving DecidableEq, Repr

/-- attribute `ndim` (absent on Python floats, strings, lists, None) -/
def Atom.ndim? : Atom → Option ℕ
  | .sparse2 => some 2
  | .nd n => some n
  | _ => Option.none

def termObj : TermShape → PyObj
  | .mat => .atom .sparse2
  | .vec => .atom (.nd 1)
  | .pair => .tuple [.sparse2, .nd 1]
  | .pairBad => .tuple [.nd 1, .sparse2]
  | .tuple3 => .tuple [.sparse2, .nd 1, .nd 1]
  | .scalar => .atom .float
  | .str => .atom .str
  | .list => .list [.sparse2, .nd 1]
  | .none => .atom .none

/-- the loop body of `solvePDE`:
    `if isinstance(term, tuple): Mterm, RHSterm = term; if Mterm.ndim != 2 or RHSterm.ndim != 1: raise TypeError`
    `elif term.ndim == 1 … elif term.ndim == 2 … else: raise TypeError('Unknown term')` -/
def termCascade : PyObj → Outcome
  | .tuple [m, r] =>
    match m.ndim? with
    | Option.none => .attrError
    | some a =>
      if a ≠ 2 then .typeError
      else match r.ndim? with
        | Option.none => .attrError
        | some b => if b ≠ 1 then .typeError else .accept
  | .tuple _ => .valueError                      -- tuple unpacking
  | .list _ => .attrError                        -- a list has no attribute `ndim`
  | .atom a =>
    match a.ndim? with
    | Option.none => .attrError
    | some 1 => .accept
    | some 2 => .accept
    | some _ => .typeError

/-- MODEL -/
def termOutcome (t : TermShape) : Outcome := termCascade (termObj t)

/-- DOCUMENTED: a 2-D sparse matrix, a 1-D ndarray or a pair (matrix, vector) is accepted,
    anything else raises TypeError("Unknown term") -/
def specTerm : TermShape → Outcome
  | .mat | .vec | .pair => .accept
  | _ => .typeError

def termDeviations : List TermShape := [.tuple3, .scalar, .str, .list, .none]

/-! ## Boundary coefficients of `BoundaryFace(a, b, c)` -/

inductive CoefType | ndarray | float | list | str | none
  deriving DecidableEq, Repr

def allCoefTypes : List CoefType := [.ndarray, .float, .list, .str, .none]

/-- MODEL: `if (type(a) is not np.ndarray) or (type(b) is not np.ndarray) or (type(c) is not np.ndarray): raise TypeError` -/
def bfaceOutcome (a b c : CoefType) : Outcome :=
  if a ≠ .ndarray ∨ b ≠ .ndarray ∨ c ≠ .ndarray then .typeError else .accept

/-- DOCUMENTED: three ndarrays are accepted, anything else raises TypeError -/
def specBFace (a b c : CoefType) : Outcome :=
  if [a, b, c].all (· == .ndarray) then .accept else .typeError

/-! ## Periodic flags on a radial boundary -/

/-- the function `boundaryConditionsTerm` dispatches to -/
inductive BCBuilder | t1D | t2D | polar2D | t3D | cyl3D | sph3D
  deriving DecidableEq, Repr

def bcBuilder : Kind → BCBuilder
  | .cart1 | .cyl1 | .sph1 => .t1D
  | .cart2 | .cyl2 => .t2D
  | .pol2 => .polar2D
  | .cart3 => .t3D
  | .cyl3 => .cyl3D
  | .sph3 => .sph3D

/-- all subsets of flags, sides in the order left right bottom top back front -/
def allFlags : List (List Bool) :=
  let b := [false, true]
  b.flatMap fun l => b.flatMap fun r => b.flatMap fun bo => b.flatMap fun t =>
    b.flatMap fun ba => b.map fun f => [l, r, bo, t, ba, f]

/-- MODEL: in each `boundaryConditionsTerm*` the branch
    `elif BC.right.periodic or BC.left.periodic:` raises ValueError
    — for the listed types in the shared 1-D/2-D builders, unconditionally in the polar,
    cylindrical-3D and spherical-3D builders; the Cartesian 3-D builder has no check.
    `flags` = periodic flags in the order left right bottom top back front. -/
def radialPeriodicOutcome (k : Kind) (flags : List Bool) : Outcome :=
  let lr := flags.getD 1 false || flags.getD 0 false
  if !lr then .accept
  else match bcBuilder k with
    | .t1D => if k = .sph1 ∨ k = .cyl1 then .valueError else .accept
    | .t2D => if k = .cyl2 then .valueError else .accept
    | .polar2D | .cyl3D | .sph3D => .valueError
    | .t3D => .accept

/-- DOCUMENTED: ValueError iff the first axis is a radius and its left or right side is flagged -/
def specRadialPeriodic (k : Kind) (flags : List Bool) : Outcome :=
  if k.radial = true ∧ (flags.getD 0 false = true ∨ flags.getD 1 false = true) then .valueError
  else .accept

/-! ## Deviations of the generated label tables from the documented ones -/

/-- `FaceVariable.thetavalue` / `.phivalue` on `SphericalGrid1D` fall through to NotImplementedError -/
def compGetDeviations : List (Kind × String) := [(.sph1, "thetavalue"), (.sph1, "phivalue")]

/-- … and `FaceVariable.rvalue = …` is accepted on the three Cartesian classes -/
def compSetDeviations : List (Kind × String) :=
  [(.sph1, "thetavalue"), (.sph1, "phivalue"),
   (.cart1, "rvalue"), (.cart2, "rvalue"), (.cart3, "rvalue")]

end ErrSpec
end PyFV
