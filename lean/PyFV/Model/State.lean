/-
  PyFV.Model.State — the object graph of `cell.py`, `boundary.py`, `utilities.TrackedArray`
  and `pdesolver.py` as a state machine (properties C09, C12, C14).

  Numbers are abstracted to *content stamps* (naturals): two arrays have the same stamp iff
  they have the same content history, every edit produces a fresh stamp.  "Stale" is then
  literally "the stamp recorded in the cache / ghost layer is not the stamp of the current
  boundary coefficients / interior values".

  Heaps are total functions with a size counter (ids below the counter are live).
-/

namespace PyFV.State

/-- a `BoundaryConditions` object: content stamp of all coefficient arrays and periodic flags,
    and the OR of the `modified` flags of its `TrackedArray`s -/
structure BCObj where
  content : Nat
  modified : Bool
  deriving DecidableEq, Repr

/-- a `CellVariable` -/
structure Var where
  bc : Nat                 -- id of the BoundaryConditions object (`self.BCs`) — may be shared
  interior : Nat           -- stamp of the interior cell values
  ghostI : Nat             -- the ghost layer was computed from this interior stamp …
  ghostB : Nat             -- … and this boundary-condition content
  cache : Option Nat       -- boundary-condition content the cached `_BCsTerm` was built from
  applied : Nat            -- `_BCs_applied`: snapshot of the BC state last applied by this variable
  valMod : Bool            -- `self.value.modified`
  precalc : Bool           -- `BCsTerm_precalc`
  deriving DecidableEq, Repr

structure St where
  bcs : Nat → BCObj
  nB : Nat
  vars : Nat → Var
  nV : Nat
  next : Nat               -- next fresh content stamp

instance : Inhabited BCObj := ⟨⟨0, false⟩⟩
instance : Inhabited Var := ⟨⟨0, 0, 0, 0, none, 0, false, false⟩⟩

def init : St := { bcs := fun _ => default, nB := 0, vars := fun _ => default, nV := 0, next := 1 }

def setBC (s : St) (b : Nat) (o : BCObj) : St := { s with bcs := fun i => if i = b then o else s.bcs i }
def setVar (s : St) (v : Nat) (x : Var) : St := { s with vars := fun i => if i = v then x else s.vars i }

/-- the edit / solve alphabet of property C09 -/
inductive Op
  | newBC                        -- `BoundaryConditions(mesh)`
  | newVar (b : Nat)             -- `CellVariable(mesh, values, bc)` on an existing (possibly shared) BC object
  | newVarDefault                -- `CellVariable(mesh, values)`: creates its own BC object
  | editBC (b : Nat)             -- assign / slice-assign a, b, c; fixedValue, fixedGradient, newtonCooling, defaultNoFlux; toggle periodic
  | editBCSilent (b : Nat)       -- in-place change that bypasses `TrackedArray.__setitem__` (e.g. `np.copyto`)
  | editVal (v : Nat)            -- assign / slice-assign `.value`
  | updateValue (v w : Nat)      -- `v.update_value(w)`
  | applyBCs (v : Nat)
  | solve (v : Nat)              -- `solvePDE(v, terms)`
  | solveExplicit (v : Nat)      -- `solveExplicitPDE(v, dt, RHS)` (returns a new variable)
  | copy (v : Nat)               -- `v.copy()`
  | arith (v : Nat)              -- any operator / funceval producing a new variable from `v`
  deriving DecidableEq, Repr

inductive Out
  | none
  | newBC (b : Nat)
  | newVar (v : Nat)
  /-- a solve happened: which BC content the boundary terms it used were built from, and which
      interior stamp it started from -/
  | solved (usedBC : Option Nat) (usedInterior : Nat)
  | invalid
  deriving DecidableEq, Repr

/-- `CellVariable._BCs_outdated()` -/
def outdated (s : St) (x : Var) : Bool :=
  (s.bcs x.bc).modified || x.valMod || (x.applied != (s.bcs x.bc).content)

/-- `CellVariable.apply_BCs()` on variable `v` -/
def applyBCs (s : St) (v : Nat) : St :=
  let x := s.vars v
  let c := (s.bcs x.bc).content
  let x' : Var := { x with ghostI := x.interior, ghostB := c,
                           cache := if x.precalc then some c else x.cache,
                           applied := c, valMod := false }
  setBC (setVar s v x') x.bc { content := c, modified := false }

/-- constructor `CellVariable(mesh, interior values, bc)` with `BCsTerm_precalc` as given -/
def mkVar (s : St) (b : Nat) (interior : Nat) (precalc : Bool) : Var :=
  let c := (s.bcs b).content
  { bc := b, interior := interior, ghostI := interior, ghostB := c,
    cache := if precalc then some c else none, applied := c, valMod := false, precalc := precalc }

def step (s : St) : Op → St × Out
  | .newBC =>
    ({ setBC s s.nB { content := s.next, modified := false } with nB := s.nB + 1, next := s.next + 1 }, .newBC s.nB)
  | .newVar b =>
    if b < s.nB then
      ({ setVar s s.nV (mkVar s b s.next true) with nV := s.nV + 1, next := s.next + 1 }, .newVar s.nV)
    else (s, .invalid)
  | .newVarDefault =>
    let s1 : St := { setBC s s.nB { content := s.next, modified := false } with nB := s.nB + 1, next := s.next + 1 }
    ({ setVar s1 s1.nV (mkVar s1 s.nB s1.next true) with nV := s1.nV + 1, next := s1.next + 1 }, .newVar s1.nV)
  | .editBC b =>
    if b < s.nB then ({ setBC s b { content := s.next, modified := true } with next := s.next + 1 }, .none)
    else (s, .invalid)
  | .editBCSilent b =>
    if b < s.nB then ({ setBC s b { content := s.next, modified := (s.bcs b).modified } with next := s.next + 1 }, .none)
    else (s, .invalid)
  | .editVal v =>
    if v < s.nV then
      ({ setVar s v { s.vars v with interior := s.next, valMod := true } with next := s.next + 1 }, .none)
    else (s, .invalid)
  | .updateValue v w =>
    if v < s.nV ∧ w < s.nV then
      let y := s.vars w
      (setVar s v { s.vars v with interior := y.interior, ghostI := y.ghostI, ghostB := y.ghostB, valMod := true }, .none)
    else (s, .invalid)
  | .applyBCs v =>
    if v < s.nV then (applyBCs s v, .none) else (s, .invalid)
  | .solve v =>
    if v < s.nV then
      let x := s.vars v
      -- re-apply when the boundary terms were never built or anything is outdated
      let s1 := if !x.precalc then applyBCs (setVar s v { x with precalc := true }) v
                else if outdated s x then applyBCs s v else s
      let x1 := s1.vars v
      let out := Out.solved x1.cache x1.interior
      -- the solver result replaces `_value`, then `apply_BCs()`
      let s2 : St := { setVar s1 v { x1 with interior := s1.next } with next := s1.next + 1 }
      (applyBCs s2 v, out)
    else (s, .invalid)
  | .solveExplicit v =>
    if v < s.nV then
      let x := s.vars v
      let s1 := if outdated s x then applyBCs s v else s
      let w := mkVar s1 x.bc s1.next false
      let s2 : St := { setVar s1 s1.nV w with nV := s1.nV + 1, next := s1.next + 1 }
      (applyBCs s2 s1.nV, .newVar s1.nV)
    else (s, .invalid)
  | .copy v =>
    if v < s.nV then
      let x := s.vars v
      let b := s.bcs x.bc
      -- deepcopy of the BCs (content and flags), ghosted array copied as it is; the boundary terms
      -- are built from the BC copy, while `_BCs_applied` and `value.modified` are carried over from
      -- the original (the copy's ghost layer is outdated iff the original's is)
      let s1 : St := { setBC s s.nB b with nB := s.nB + 1 }
      let w : Var := { bc := s.nB, interior := x.interior, ghostI := x.ghostI, ghostB := x.ghostB,
                       cache := some b.content, applied := x.applied, valMod := x.valMod, precalc := true }
      ({ setVar s1 s1.nV w with nV := s1.nV + 1 }, .newVar s1.nV)
    else (s, .invalid)
  | .arith v =>
    if v < s.nV then
      let x := s.vars v
      let b := s.bcs x.bc
      let s1 : St := { setBC s s.nB b with nB := s.nB + 1 }
      ({ setVar s1 s1.nV (mkVar s1 s.nB s1.next true) with nV := s1.nV + 1, next := s1.next + 1 }, .newVar s1.nV)
    else (s, .invalid)

/-- run a history -/
def run (ops : List Op) : St := ops.foldl (fun s o => (step s o).1) init

/-- run and collect the outputs -/
def runOut : St → List Op → St × List Out
  | s, [] => (s, [])
  | s, o :: os =>
    let r := step s o
    let t := runOut r.1 os
    (t.1, r.2 :: t.2)

/-! ### the state machine of the code BEFORE the two repairs (for the counterexample theorems):
    `solve` looked at the `modified` flags only and never built missing boundary terms -/

def outdatedOld (s : St) (x : Var) : Bool := (s.bcs x.bc).modified || x.valMod

def stepOld (s : St) : Op → St × Out
  | .solve v =>
    if v < s.nV then
      let x := s.vars v
      let s1 := if outdatedOld s x then applyBCs s v else s
      let x1 := s1.vars v
      let out := Out.solved x1.cache x1.interior
      let s2 : St := { setVar s1 v { x1 with interior := s1.next } with next := s1.next + 1 }
      (applyBCs s2 v, out)
    else (s, .invalid)
  | o => step s o

def runOld (ops : List Op) : St := ops.foldl (fun s o => (stepOld s o).1) init

end PyFV.State
