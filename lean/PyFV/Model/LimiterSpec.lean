/-
  PyFV.Model.LimiterSpec — hand-written *published closed forms* of the sixteen flux limiters
  offered by `pyfvtool.utilities.fluxLimiter`.

  These definitions are written from the literature (Sweby 1984, Roe 1986, van Leer 1974/1979,
  van Albada et al. 1982, Waterson & Deconinck 1995/2007, Zhou 1995, Gaskell & Lau 1988,
  Koren 1993, Leonard 1988, Lien & Leschziner 1994, Chatkravathy & Osher 1983) in their textbook
  shape, *without* the `eps` guards of the Python code and independently of the generated term
  in `PyFV.Gen`.  Property C13 proves `Gen.X eps r = Spec.X r` for every `r` and every `eps > 0`.

  Removable singularities.  Three of the rational limiters have a pole of the *denominator*
  at a negative `r` where the *numerator* vanishes identically on a whole neighbourhood
  (`r ≤ 0`), so the limiter is identically `0` around the pole and the limit value is `0`:

    CHARM   r = -1   (handled by the textbook case distinction `r > 0` / `r ≤ 0`)
    HCUS    r = -2   (numerator `r + |r| = 0` for `r ≤ 0`)
    HQUICK  r = -3   (numerator `r + |r| = 0` for `r ≤ 0`)

  Lean's division is total with `x / 0 = 0`; in order NOT to rely on that convention the
  definitions below give the value at the pole by an explicit `if`.  (`Spec.HCUS_of_ne`,
  `Spec.HQUICK_of_ne` recover the bare textbook quotient away from the pole.)
  `ospre` has no real pole: `r² + r + 1 > 0`.
-/
import Mathlib.Algebra.Order.Field.Basic

set_option linter.unusedSectionVars false

namespace PyFV.Spec

variable {α : Type} [Field α] [LinearOrder α] [IsStrictOrderedRing α]

/-- CHARM (Zhou 1995): `r (3r+1) / (r+1)²` for `r > 0`, `0` otherwise.
    The pole `r = -1` lies in the `else` branch: the value there is the limit value `0`. -/
def CHARM (r : α) : α := if 0 < r then r * (3 * r + 1) / (r + 1) ^ 2 else 0

/-- HCUS (Waterson & Deconinck): `3 (r + |r|) / (2 (r + 2))`; at the removable singularity
    `r = -2` the value is the limit value `0` (stated explicitly, not via `x / 0 = 0`). -/
def HCUS (r : α) : α := if r = -2 then 0 else 3 * (r + |r|) / (2 * (r + 2))

/-- HQUICK (Waterson & Deconinck): `2 (r + |r|) / (r + 3)`; at the removable singularity
    `r = -3` the value is the limit value `0` (stated explicitly, not via `x / 0 = 0`). -/
def HQUICK (r : α) : α := if r = -3 then 0 else 2 * (r + |r|) / (r + 3)

/-- ospre (Waterson & Deconinck): `3 (r² + r) / (2 (r² + r + 1))`; the denominator is positive. -/
def ospre (r : α) : α := 3 * (r ^ 2 + r) / (2 * (r ^ 2 + r + 1))

/-- van Leer: `(r + |r|) / (1 + |r|)` -/
def VanLeer (r : α) : α := (r + |r|) / (1 + |r|)

/-- van Albada 1: `(r² + r) / (r² + 1)` -/
def VanAlbada1 (r : α) : α := (r ^ 2 + r) / (r ^ 2 + 1)

/-- van Albada 2: `2 r / (r² + 1)` -/
def VanAlbada2 (r : α) : α := 2 * r / (r ^ 2 + 1)

/-- minmod (Roe): `max(0, min(1, r))` -/
def MinMod (r : α) : α := max 0 (min 1 r)

/-- superbee (Roe): `max(0, min(2r, 1), min(r, 2))` -/
def SUPERBEE (r : α) : α := max 0 (max (min (2 * r) 1) (min r 2))

/-- Osher (Chatkravathy–Osher) with `β = 3/2`: `max(0, min(r, β))` -/
def Osher (r : α) : α := max 0 (min r (3 / 2))

/-- Sweby with `β = 3/2`: `max(0, min(β r, 1), min(r, β))` -/
def Sweby (r : α) : α := max 0 (max (min (3 / 2 * r) 1) (min r (3 / 2)))

/-- SMART (Gaskell & Lau): `max(0, min(2r, 1/4 + 3/4 r, 4))` -/
def smart (r : α) : α := max 0 (min (2 * r) (min (1 / 4 + 3 / 4 * r) 4))

/-- Koren: `max(0, min(2r, (1 + 2r)/3, 2))` -/
def Koren (r : α) : α := max 0 (min (2 * r) (min ((1 + 2 * r) / 3) 2))

/-- MUSCL / monotonized central (van Leer): `max(0, min(2r, (1 + r)/2, 2))` -/
def MUSCL (r : α) : α := max 0 (min (2 * r) (min ((1 + r) / 2) 2))

/-- QUICK (Leonard): `max(0, min(2r, (3 + r)/4, 2))` -/
def QUICK (r : α) : α := max 0 (min (2 * r) (min ((3 + r) / 4) 2))

/-- UMIST (Lien & Leschziner): `max(0, min(2r, (1 + 3r)/4, (3 + r)/4, 2))` -/
def UMIST (r : α) : α := max 0 (min (2 * r) (min ((1 + 3 * r) / 4) (min ((3 + r) / 4) 2)))

/-- away from the pole `Spec.HCUS` is the bare textbook quotient -/
theorem HCUS_of_ne {r : α} (h : r ≠ -2) : HCUS r = 3 * (r + |r|) / (2 * (r + 2)) := if_neg h

/-- away from the pole `Spec.HQUICK` is the bare textbook quotient -/
theorem HQUICK_of_ne {r : α} (h : r ≠ -3) : HQUICK r = 2 * (r + |r|) / (r + 3) := if_neg h

end PyFV.Spec
