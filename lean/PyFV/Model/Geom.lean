/-
  PyFV.Model.Geom — model of `mesh.py`: axes, the nine grid classes, cell volumes.

  Index conventions (DESIGN.md, Appendix C): along an axis with `n` cells the cell
  index `i ∈ 0..n+1` is the index into the ghosted arrays (`cellsize[i]`, `_value[i]`);
  interior cells are `1..n`; `cen i` is the centre of cell `i` (`cellcenters[i-1]`);
  face `f ∈ 0..n` lies between cells `f` and `f+1` (`facecenters[f]`).
  Grids of lower dimension carry a *unit axis* (one cell, faces 0 and 1) in the
  missing directions; no term acts along it.
-/
import Mathlib.Algebra.Order.Field.Basic

namespace PyFV

inductive Kind
  | cart1 | cyl1 | sph1 | cart2 | cyl2 | pol2 | cart3 | cyl3 | sph3
  deriving DecidableEq, Repr, Inhabited

inductive Dir | x | y | z
  deriving DecidableEq, Repr, Inhabited

abbrev Idx := ℕ × ℕ × ℕ

def Idx.get (c : Idx) : Dir → ℕ
  | .x => c.1
  | .y => c.2.1
  | .z => c.2.2

def Idx.set (c : Idx) (d : Dir) (v : ℕ) : Idx :=
  match d with
  | .x => (v, c.2.1, c.2.2)
  | .y => (c.1, v, c.2.2)
  | .z => (c.1, c.2.1, v)

/-- number of coordinate directions of a grid class -/
def Kind.dim : Kind → ℕ
  | .cart1 | .cyl1 | .sph1 => 1
  | .cart2 | .cyl2 | .pol2 => 2
  | .cart3 | .cyl3 | .sph3 => 3

/-- the directions along which terms act -/
def Kind.dirs (k : Kind) : List Dir :=
  match k.dim with
  | 1 => [.x]
  | 2 => [.x, .y]
  | _ => [.x, .y, .z]

def Kind.active (k : Kind) (d : Dir) : Bool :=
  match d with
  | .x => true
  | .y => decide (2 ≤ k.dim)
  | .z => decide (3 ≤ k.dim)

/-- the first axis is a radius -/
def Kind.radial : Kind → Bool
  | .cart1 | .cart2 | .cart3 => false
  | _ => true

variable {α : Type} [Field α] [LinearOrder α] [IsStrictOrderedRing α]

/-- One coordinate axis: `n` cells, faces `0..n`, centres `1..n`, sizes `0..n+1`. -/
structure Axis (α : Type) where
  n : ℕ
  fc : ℕ → α
  cen : ℕ → α
  DX : ℕ → α

/-- Model of the face-array constructors (`_mesh_*d_param` with face locations,
    `_facelocation_to_cellsize`). -/
def mkAxisFaces (n : ℕ) (f : ℕ → α) : Axis α where
  n := n
  fc := f
  cen := fun i => (f i + f (i-1)) / 2
  DX := fun i =>
    if i = 0 then f 1 - f 0
    else if i ≤ n then f i - f (i-1)
    else f n - f (n-1)

/-- Model of the `(N, L)` constructors: `dx = L/N`, sizes `dx*ones(N+2)`,
    centres `i*dx - dx/2`, faces `i*dx`. -/
def mkAxisNL (n : ℕ) (L : α) : Axis α where
  n := n
  fc := fun i => (i : α) * (L / (n : α))
  cen := fun i => (i : α) * (L / (n : α)) - (L / (n : α)) / 2
  DX := fun _ => L / (n : α)

/-- The unit axis used for the missing directions of 1-D and 2-D grids. -/
def unitAxis : Axis α := mkAxisFaces 1 (fun i => (i : α))

/-- distance between the centres of cells `f` and `f+1` (`dx = 0.5*(DX[0:-1]+DX[1:])`) -/
def Axis.dxf (a : Axis α) (f : ℕ) : α := (a.DX f + a.DX (f+1)) / 2

/-- Well-formedness of an axis: what every operator lemma needs. -/
structure Axis.WF (a : Axis α) : Prop where
  npos : 1 ≤ a.n
  pos : ∀ i, 0 < a.DX i
  mid : ∀ i, 1 ≤ i → i ≤ a.n → a.cen i = (a.fc i + a.fc (i-1)) / 2
  size : ∀ i, 1 ≤ i → i ≤ a.n → a.DX i = a.fc i - a.fc (i-1)
  ghost0 : a.DX 0 = a.DX 1
  ghostN : a.DX (a.n+1) = a.DX a.n

/-- A mesh: grid class, three axes and the trigonometric parameters of the polar
    angle (values of `sin` at θ-centres and θ-faces, `cos` at θ-faces) and `π`,
    which enter the model as numbers (see DESIGN.md §3.1). -/
structure Mesh (α : Type) where
  kind : Kind
  ax : Axis α
  ay : Axis α
  az : Axis α
  sinC : ℕ → α
  sinF : ℕ → α
  cosF : ℕ → α
  pi : α

def Mesh.axis (M : Mesh α) : Dir → Axis α
  | .x => M.ax
  | .y => M.ay
  | .z => M.az

def Mesh.n (M : Mesh α) (d : Dir) : ℕ := (M.axis d).n

/-- interior cells of the index box -/
def Mesh.interior (M : Mesh α) (c : Idx) : Prop :=
  1 ≤ c.1 ∧ c.1 ≤ M.ax.n ∧ 1 ≤ c.2.1 ∧ c.2.1 ≤ M.ay.n ∧ 1 ≤ c.2.2 ∧ c.2.2 ≤ M.az.n

/-- Model of the nine `_getCellVolumes` (as written in `mesh.py`). -/
def cellVolume (M : Mesh α) (c : Idx) : α :=
  let i := c.1; let j := c.2.1; let k := c.2.2
  let r2 := |M.ax.fc i ^ 2 - M.ax.fc (i-1) ^ 2|
  let r3 := |M.ax.fc i ^ 3 - M.ax.fc (i-1) ^ 3|
  let dth := |M.ay.fc j - M.ay.fc (j-1)|
  let dph := |M.az.fc k - M.az.fc (k-1)|
  match M.kind with
  | .cart1 => M.ax.DX i
  | .cyl1  => M.pi * r2
  | .sph1  => 4 / 3 * M.pi * r3
  | .cart2 => M.ax.DX i * M.ay.DX j
  | .cyl2  => M.pi * r2 * M.ay.DX j
  | .pol2  => dth / (2 * M.pi) * (M.pi * r2)
  | .cart3 => M.ax.DX i * M.ay.DX j * M.az.DX k
  | .cyl3  => dth / (2 * M.pi) * (M.pi * r2 * M.az.DX k)
  | .sph3  => 4 / 3 * M.pi * r3 * (dth / M.pi) * (dph / (2 * M.pi))

/-! ### The metric table (DESIGN.md §3.3)

`lineV M d i` is the volume weight of cell index `i` along direction `d`,
`lineA M d f` the area factor of face `f`, `lineM M d c` the metric scale of
distances along the line through `c` (it depends on the cross indices only). -/

def lineV (M : Mesh α) (d : Dir) (i : ℕ) : α :=
  match M.kind, d with
  | .cyl1, .x | .cyl2, .x | .pol2, .x | .cyl3, .x => M.ax.cen i * M.ax.DX i
  | .sph1, .x => (M.ax.fc i ^ 3 - M.ax.fc (i-1) ^ 3) / 3
  | .sph3, .x => M.ax.cen i ^ 2 * M.ax.DX i
  | .sph3, .y => M.sinC i * M.ay.DX i
  | _, d => (M.axis d).DX i

def lineA (M : Mesh α) (d : Dir) (f : ℕ) : α :=
  match M.kind, d with
  | .cyl1, .x | .cyl2, .x | .pol2, .x | .cyl3, .x => M.ax.fc f
  | .sph1, .x | .sph3, .x => M.ax.fc f ^ 2
  | .sph3, .y => M.sinF f
  | _, _ => 1

def lineM (M : Mesh α) (d : Dir) (c : Idx) : α :=
  match M.kind, d with
  | .pol2, .y | .cyl3, .y | .sph3, .y => M.ax.cen c.1
  | .sph3, .z => M.ax.cen c.1 * M.sinC c.2.1
  | _, _ => 1

/-- the cell volume the discrete operators are consistent with (product of the line weights) -/
def Vcons (M : Mesh α) (c : Idx) : α :=
  lineV M .x c.1 * lineV M .y c.2.1 * lineV M .z c.2.2

/-- Well-formed mesh: well-formed axes, positive radii / sines where they divide. -/
structure Mesh.WF (M : Mesh α) : Prop where
  wx : M.ax.WF
  wy : M.ay.WF
  wz : M.az.WF
  rpos : M.kind.radial = true → ∀ i, 1 ≤ i → i ≤ M.ax.n → 0 < M.ax.cen i
  rf0 : M.kind.radial = true → ∀ f, f ≤ M.ax.n → 0 ≤ M.ax.fc f
  spos : M.kind = .sph3 → ∀ j, 1 ≤ j → j ≤ M.ay.n → 0 < M.sinC j
  pipos : 0 < M.pi

end PyFV
