/-
  PyFV.Model.BC — model of `boundary.py`: Robin boundary faces `a ∂φ + b φ = c`,
  ghost values (`cellValuesWithBoundaries*`) and boundary rows
  (`boundaryConditionsTerm*`).
-/
import PyFV.Model.Terms

namespace PyFV

variable {α : Type} [Field α] [LinearOrder α] [IsStrictOrderedRing α]

/-- partial division: `none` iff the divisor is zero (the code returns `inf`/`nan` there) -/
def sdiv (x y : α) : Option α := if y = 0 then none else some (x / y)

/-- One boundary face.  Coefficients are indexed by the full cell index of the
    adjacent interior cell; only its cross components are used. -/
structure BFace (α : Type) where
  a : Idx → α
  b : Idx → α
  c : Idx → α
  periodic : Bool

/-- `lo .x = left`, `hi .x = right`, `lo .y = bottom`, `hi .y = top`, `lo .z = back`, `hi .z = front` -/
structure BCs (α : Type) where
  lo : Dir → BFace α
  hi : Dir → BFace α

/-- an axis is treated as periodic iff one of its two sides is flagged -/
def BCs.periodicDir (bc : BCs α) (d : Dir) : Bool := (bc.lo d).periodic || (bc.hi d).periodic

/-- coefficient of the ghost unknown in the Robin relation on the high side:
    `a/(m·dx_end) + b/2`; `c` is the adjacent interior cell (index `n` along `d`). -/
def hiGhostCoef (M : Mesh α) (bc : BCs α) (d : Dir) (c : Idx) : α :=
  (bc.hi d).a c / (lineM M d c * (M.axis d).DX (M.n d + 1)) + (bc.hi d).b c / 2
def hiCellCoef (M : Mesh α) (bc : BCs α) (d : Dir) (c : Idx) : α :=
  -((bc.hi d).a c / (lineM M d c * (M.axis d).DX (M.n d + 1))) + (bc.hi d).b c / 2
/-- low side: ghost coefficient `−a/(m·dx_1) + b/2`, cell coefficient `a/(m·dx_1) + b/2` -/
def loGhostCoef (M : Mesh α) (bc : BCs α) (d : Dir) (c : Idx) : α :=
  -((bc.lo d).a c / (lineM M d c * (M.axis d).DX 0)) + (bc.lo d).b c / 2
def loCellCoef (M : Mesh α) (bc : BCs α) (d : Dir) (c : Idx) : α :=
  (bc.lo d).a c / (lineM M d c * (M.axis d).DX 0) + (bc.lo d).b c / 2

/-- ghost value beyond the high end of direction `d`; `c` = adjacent interior cell -/
def ghostHi (M : Mesh α) (bc : BCs α) (φ : CellFld α) (d : Dir) (c : Idx) : Option α :=
  if bc.periodicDir d then some (φ (c.set d 1))
  else sdiv ((bc.hi d).c c - φ c * hiCellCoef M bc d c) (hiGhostCoef M bc d c)

/-- ghost value before the low end of direction `d`; `c` = adjacent interior cell -/
def ghostLo (M : Mesh α) (bc : BCs α) (φ : CellFld α) (d : Dir) (c : Idx) : Option α :=
  if bc.periodicDir d then some (φ (c.set d (M.n d)))
  else sdiv ((bc.lo d).c c - φ c * loCellCoef M bc d c) (loGhostCoef M bc d c)

/-- how many coordinates of `c` are outside the interior box (0 interior, 1 face ghost, ≥2 edge/corner) -/
def Mesh.outCount (M : Mesh α) (c : Idx) : ℕ :=
  (if c.1 = 0 ∨ c.1 = M.ax.n + 1 then 1 else 0)
  + (if M.kind.active .y ∧ (c.2.1 = 0 ∨ c.2.1 = M.ay.n + 1) then 1 else 0)
  + (if M.kind.active .z ∧ (c.2.2 = 0 ∨ c.2.2 = M.az.n + 1) then 1 else 0)

/-- the direction in which a face-ghost cell lies outside the box -/
def Mesh.outDir (M : Mesh α) (c : Idx) : Dir :=
  if c.1 = 0 ∨ c.1 = M.ax.n + 1 then .x
  else if M.kind.active .y ∧ (c.2.1 = 0 ∨ c.2.1 = M.ay.n + 1) then .y
  else .z

/-- Model of `cellValuesWithBoundaries`: the ghosted array built from interior values.
    Edge and corner cells of 2-D/3-D arrays are left at zero by the code. -/
def withGhosts (M : Mesh α) (bc : BCs α) (φ : CellFld α) (c : Idx) : Option α :=
  match M.outCount c with
  | 0 => some (φ c)
  | 1 =>
    let d := M.outDir c
    if c.get d = 0 then ghostLo M bc φ d (c.set d 1)
    else ghostHi M bc φ d (c.set d (M.n d))
  | _ => some 0

/-- the code rejects periodic flags on a radial axis when the boundary term is built -/
def radialPeriodicRejected (k : Kind) (bc : BCs α) : Bool :=
  k.radial && bc.periodicDir .x

/-- One row of the boundary system: list of (column, coefficient) and a right-hand side. -/
structure Row (α : Type) where
  entries : List (Idx × α)
  rhs : α

/-- boundary row of the ghost cell beyond the high end of `d`; `c` = adjacent interior cell -/
def bcRowHi (M : Mesh α) (bc : BCs α) (d : Dir) (c : Idx) : Row α :=
  let n := M.n d
  let a := M.axis d
  if bc.periodicDir d then
    ⟨[(c.set d (n+1), 1), (c.set d n, -1),
      (c.set d 0, a.DX (n+1) / a.DX 0), (c.set d 1, -(a.DX (n+1) / a.DX 0))], 0⟩
  else
    ⟨[(c.set d (n+1), hiGhostCoef M bc d c), (c.set d n, hiCellCoef M bc d c)], (bc.hi d).c c⟩

/-- boundary row of the ghost cell before the low end of `d`; `c` = adjacent interior cell -/
def bcRowLo (M : Mesh α) (bc : BCs α) (d : Dir) (c : Idx) : Row α :=
  let n := M.n d
  if bc.periodicDir d then
    ⟨[(c.set d 0, 1), (c.set d 1, 1), (c.set d n, -1), (c.set d (n+1), -1)], 0⟩
  else
    ⟨[(c.set d 1, -(loCellCoef M bc d c)), (c.set d 0, -(loGhostCoef M bc d c))], -((bc.lo d).c c)⟩

/-- maximum of a function over `1..n` (for the 2-D corner scale) -/
def maxOver (f : ℕ → α) : ℕ → α
  | 0 => f 1
  | 1 => f 1
  | (n+2) => max (maxOver f (n+1)) (f (n+2))

/-- diagonal of the decoupled corner / edge rows: 1 in 3-D, `max(top.b/2 + top.a/dy_end)` in 2-D -/
def cornerScale (M : Mesh α) (bc : BCs α) : α :=
  if M.kind.dim = 2 then
    maxOver (fun i => (bc.hi .y).b (i, M.ay.n, 1) / 2 + (bc.hi .y).a (i, M.ay.n, 1) / M.ay.DX (M.ay.n + 1)) M.ax.n
  else 1

/-- Model of `boundaryConditionsTerm`: the row of every non-interior cell
    (interior rows of the boundary matrix are empty). -/
def bcRow (M : Mesh α) (bc : BCs α) (c : Idx) : Row α :=
  match M.outCount c with
  | 0 => ⟨[], 0⟩
  | 1 =>
    let d := M.outDir c
    if c.get d = 0 then bcRowLo M bc d (c.set d 1) else bcRowHi M bc d (c.set d (M.n d))
  | _ => ⟨[(c, cornerScale M bc)], 0⟩

end PyFV
