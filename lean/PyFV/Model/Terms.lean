/-
  PyFV.Model.Terms — model of `diffusion.py`, `advection.py`, `calculus.py`, `source.py`.

  Every operator acts along grid lines.  Along direction `d` through cell `c`
  (`i = c.get d`) with `V = lineV M d i`, `A = lineA M d ·`, `m = lineM M d c`:

    divergence   (A_i F_i − A_{i−1} F_{i−1}) / (m V)
    gradient     (φ_{i+1} − φ_i) / (m · dxf i)                       (at face i)
    linear mean  (DX_{i+1} φ_i + DX_i φ_{i+1}) / (DX_i + DX_{i+1})   (at face i)

  A matrix row is a 3-point stencil `(w, p, e)` per direction.
-/
import PyFV.Model.Geom

namespace PyFV

variable {α : Type} [Field α] [LinearOrder α] [IsStrictOrderedRing α]

/-- ghosted cell field -/
abbrev CellFld (α : Type) := Idx → α
/-- face field: `F d c` is the value on face `c.get d` (`0..n_d`) of direction `d`,
    at the cross position given by the other two entries of `c`. -/
abbrev FaceFld (α : Type) := Dir → Idx → α

structure St3 (α : Type) where
  w : α
  p : α
  e : α

/-- apply a 3-point stencil along direction `d` at cell `c` -/
def St3.app (s : St3 α) (φ : CellFld α) (d : Dir) (c : Idx) : α :=
  s.w * φ (c.set d (c.get d - 1)) + s.p * φ c + s.e * φ (c.set d (c.get d + 1))

/-- west neighbour position of `c` along `d` (also: the west face of cell `c`) -/
def Idx.prev (c : Idx) (d : Dir) : Idx := c.set d (c.get d - 1)
def Idx.next (c : Idx) (d : Dir) : Idx := c.set d (c.get d + 1)

/-! ### calculus.py -/

/-- `divergenceTerm`, contribution of direction `d` at interior cell `c` -/
def divD (M : Mesh α) (F : FaceFld α) (d : Dir) (c : Idx) : α :=
  (lineA M d (c.get d) * F d c - lineA M d (c.get d - 1) * F d (c.prev d))
    / (lineM M d c * lineV M d (c.get d))

/-- `gradientTerm`, component `d` at face `c.get d` -/
def gradD (M : Mesh α) (φ : CellFld α) (d : Dir) (c : Idx) : α :=
  (φ (c.next d) - φ c) / (lineM M d c * (M.axis d).dxf (c.get d))

/-- sum over the active directions of a grid class -/
def sumDirs (k : Kind) (f : Dir → α) : α :=
  f .x + (if k.active .y then f .y else 0) + (if k.active .z then f .z else 0)

def divergence (M : Mesh α) (F : FaceFld α) (c : Idx) : α :=
  sumDirs M.kind (fun d => divD M F d c)

/-! ### averaging.py (the two means the operator identities need; the rest is in Avg.lean) -/

/-- `linearMean` at face `c.get d` -/
def linMean (M : Mesh α) (φ : CellFld α) (d : Dir) (c : Idx) : α :=
  let a := M.axis d; let f := c.get d
  (a.DX (f+1) * φ c + a.DX f * φ (c.next d)) / (a.DX (f+1) + a.DX f)

/-- `phi_tmp` of `upwindMean`: the ghost value replaced by the boundary-face average -/
def phiTmp (M : Mesh α) (φ : CellFld α) (d : Dir) (c : Idx) : α :=
  let i := c.get d
  if i = 0 then (φ c + φ (c.next d)) / 2
  else if i = M.n d + 1 then (φ c + φ (c.prev d)) / 2
  else φ c

/-- `upwindMean` at face `c.get d` -/
def upMean (M : Mesh α) (φ : CellFld α) (u : FaceFld α) (d : Dir) (c : Idx) : α :=
  (if 0 < u d c then phiTmp M φ d c else 0)
  + (if u d c < 0 then phiTmp M φ d (c.next d) else 0)
  + (if u d c = 0 then (φ c + φ (c.next d)) / 2 else 0)

/-! ### diffusion.py -/

def diffSt (M : Mesh α) (D : FaceFld α) (d : Dir) (c : Idx) : St3 α :=
  let a := M.axis d; let i := c.get d
  let m := lineM M d c; let V := lineV M d i
  let e := lineA M d i * D d c / (m * m * V * a.dxf i)
  let w := lineA M d (i-1) * D d (c.prev d) / (m * m * V * a.dxf (i-1))
  ⟨w, -(e + w), e⟩

/-! ### advection.py -/

/-- `convectionTerm` (central) -/
def convSt (M : Mesh α) (u : FaceFld α) (d : Dir) (c : Idx) : St3 α :=
  let a := M.axis d; let i := c.get d
  let mV := lineM M d c * lineV M d i
  let ue := lineA M d i * u d c / ((a.DX i + a.DX (i+1)) * mV)
  let uw := lineA M d (i-1) * u d (c.prev d) / ((a.DX i + a.DX (i-1)) * mV)
  ⟨-(uw * a.DX i), ue * a.DX (i+1) - uw * a.DX (i-1), ue * a.DX i⟩

/-- `_upwind_min_max` -/
def uMin (u uUp : FaceFld α) (d : Dir) (c : Idx) : α := if 0 < uUp d c then 0 else u d c
def uMax (u uUp : FaceFld α) (d : Dir) (c : Idx) : α := if uUp d c < 0 then 0 else u d c

/-- `convectionUpwindTerm`, including the corrections in the cells next to the boundary -/
def upwindSt (M : Mesh α) (u uUp : FaceFld α) (d : Dir) (c : Idx) : St3 α :=
  let i := c.get d; let n := M.n d
  let mV := lineM M d c * lineV M d i
  let Ae := lineA M d i; let Aw := lineA M d (i-1)
  let ueMin := uMin u uUp d c; let ueMax := uMax u uUp d c
  let uwMin := uMin u uUp d (c.prev d); let uwMax := uMax u uUp d (c.prev d)
  let e0 := Ae * ueMin / mV
  let w0 := -(Aw * uwMax) / mV
  let p0 := (Ae * ueMax - Aw * uwMin) / mV
  let p1 := if i = 1 then p0 - Aw * uwMax / (2 * mV) else p0
  let w1 := if i = 1 then w0 / 2 else w0
  let e1 := if i = n then e0 / 2 else e0
  let p2 := if i = n then p1 + Ae * ueMin / (2 * mV) else p1
  ⟨w1, p2, e1⟩

/-- `_fsign` -/
def fsign (eps1 : α) (x : α) : α :=
  (if eps1 ≤ |x| then x else 0) + (if x = 0 then eps1 else 0)
  + (if |x| < eps1 then eps1 * (if 0 < x then 1 else if x < 0 then -1 else 0) else 0)

/-- difference quotient used by the TVD ratios (no metric factor, as in the code) -/
def dphi (M : Mesh α) (φ : CellFld α) (d : Dir) (c : Idx) : α :=
  (φ (c.next d) - φ c) / (M.axis d).dxf (c.get d)

/-- `psi_p` at face `c.get d` (zero on the first face) -/
def psiP (M : Mesh α) (FL : α → α) (eps1 : α) (φ : CellFld α) (d : Dir) (c : Idx) : α :=
  if c.get d = 0 then 0
  else 1 / 2 * FL (dphi M φ d (c.prev d) / fsign eps1 (dphi M φ d c)) * (φ (c.next d) - φ c)

/-- `psi_m` at face `c.get d` (zero on the last face) -/
def psiM (M : Mesh α) (FL : α → α) (eps1 : α) (φ : CellFld α) (d : Dir) (c : Idx) : α :=
  if c.get d = M.n d then 0
  else 1 / 2 * FL (dphi M φ d (c.next d) / fsign eps1 (dphi M φ d c)) * (φ c - φ (c.next d))

/-- TVD face flux correction `u_max ψ⁺ + u_min ψ⁻` -/
def tvdFlux (M : Mesh α) (u uUp : FaceFld α) (FL : α → α) (eps1 : α) (φ : CellFld α) :
    FaceFld α := fun d c =>
  uMax u uUp d c * psiP M FL eps1 φ d c + uMin u uUp d c * psiM M FL eps1 φ d c

/-- `convectionTVDupwindRHSTerm` (a right-hand-side entry) -/
def tvdRHS (M : Mesh α) (u uUp : FaceFld α) (FL : α → α) (eps1 : α) (φ : CellFld α)
    (c : Idx) : α :=
  -(divergence M (tvdFlux M u uUp FL eps1 φ) c)

/-! ### Seven-point rows -/

structure St7 (α : Type) where
  p : α
  xm : α
  xp : α
  ym : α
  yp : α
  zm : α
  zp : α

def St7.ofDirs (k : Kind) (s : Dir → St3 α) : St7 α :=
  let sy : St3 α := if k.active .y then s .y else ⟨0, 0, 0⟩
  let sz : St3 α := if k.active .z then s .z else ⟨0, 0, 0⟩
  ⟨(s .x).p + sy.p + sz.p, (s .x).w, (s .x).e, sy.w, sy.e, sz.w, sz.e⟩

def St7.app (s : St7 α) (φ : CellFld α) (c : Idx) : α :=
  s.p * φ c + s.xm * φ (c.prev .x) + s.xp * φ (c.next .x)
  + s.ym * φ (c.prev .y) + s.yp * φ (c.next .y)
  + s.zm * φ (c.prev .z) + s.zp * φ (c.next .z)

def St7.add (s t : St7 α) : St7 α :=
  ⟨s.p + t.p, s.xm + t.xm, s.xp + t.xp, s.ym + t.ym, s.yp + t.yp, s.zm + t.zm, s.zp + t.zp⟩

def St7.smul (a : α) (s : St7 α) : St7 α :=
  ⟨a * s.p, a * s.xm, a * s.xp, a * s.ym, a * s.yp, a * s.zm, a * s.zp⟩

def St7.zero : St7 α := ⟨0, 0, 0, 0, 0, 0, 0⟩
def St7.diag (a : α) : St7 α := ⟨a, 0, 0, 0, 0, 0, 0⟩

def diffusionRow (M : Mesh α) (D : FaceFld α) (c : Idx) : St7 α :=
  St7.ofDirs M.kind (fun d => diffSt M D d c)
def convectionRow (M : Mesh α) (u : FaceFld α) (c : Idx) : St7 α :=
  St7.ofDirs M.kind (fun d => convSt M u d c)
def upwindRow (M : Mesh α) (u uUp : FaceFld α) (c : Idx) : St7 α :=
  St7.ofDirs M.kind (fun d => upwindSt M u uUp d c)

/-! ### source.py -/

/-- `linearSourceTerm`: diagonal entry -/
def linearSrcRow (β : CellFld α) (c : Idx) : St7 α := St7.diag (β c)
/-- `constantSourceTerm`: RHS entry -/
def constSrcRHS (γ : CellFld α) (c : Idx) : α := γ c
/-- `transientTerm`: `(linearSourceTerm(a/dt), constantSourceTerm(a*phi/dt))` -/
def transientRow (dt : α) (alpha : CellFld α) (c : Idx) : St7 α := St7.diag (alpha c / dt)
def transientRHS (old : CellFld α) (dt : α) (alpha : CellFld α) (c : Idx) : α :=
  alpha c * old c / dt

end PyFV
