/-
  PyFV.Model.BCUtil — hand-written SPECIFICATION of the boundary-condition convenience API of `boundary.py`,
  written from the docstrings of the methods (not from their bodies):

    defaultNoFlux()                                  "Equivalent to a = 1.0; b = 0.0; c = 0.0"
    fixedValue(value)                                "Equivalent to a = 0.0; b = 1.0; c = value"
    fixedGradient(gradientvalue, scale_coeffs=1.0)   "a = scale_coeffs; b = 0.0; c = scale_coeffs*gradientvalue"
    newtonCooling(k, h, T_ext, reverse_direction=False)
                                                     "a = k; b = h_eff; c = h_eff*T_ext, where
                                                      h_eff = -h if reverse_direction else h"
    BoundaryConditions(mesh)                         every side the grid has: a = 1, b = 0, c = 0, not periodic
                                                     ("no flux"), arrays of the cross-section shape of the side;
                                                     the sides a lower-dimensional grid does not have: empty arrays

  The assignments go through the property setters (`self._a[:] = val`): a BROADCAST store into the existing array, so
  a scalar and an array of the cross-section shape are both accepted; here every value argument is a field
  `Idx → α` (a scalar is the constant field), and a coefficient array is the function of the adjacent interior cell
  index, as in `PyFV.Model.BC.BFace`.  The `periodic` flag is not touched by any of the four methods.
-/
import PyFV.Model.BC

namespace PyFV.BCUtil
open PyFV

variable {α : Type} [Field α] [LinearOrder α] [IsStrictOrderedRing α]

/-! ### vocabulary shared with the generated file -/

/-- the six attributes of `BoundaryConditionsBase` -/
inductive Side
  | left | right | bottom | top | back | front
  deriving DecidableEq, Repr

/-- the three coefficient arrays of a `BoundaryFace` -/
inductive Coef3
  | a | b | c
  deriving DecidableEq, Repr

/-- one extent of a symbolic array shape: a literal, or the number of cells `Nx`, `Ny`, `Nz` (`mesh.dims[0..2]`) -/
inductive SDim
  | lit (n : ℕ) | nx | ny | nz
  deriving DecidableEq, Repr

/-- the direction a side is normal to (`left/right ↦ x`, `bottom/top ↦ y`, `back/front ↦ z`) -/
def Side.dir : Side → Dir
  | .left | .right => .x
  | .bottom | .top => .y
  | .back | .front => .z

/-- the high-index sides (`right`, `top`, `front`) -/
def Side.isHi : Side → Bool
  | .right | .top | .front => true
  | _ => false

/-- the face of a `BCs` object stored under a side attribute (convention of `PyFV.Model.BC.BCs`) -/
def face (bc : BCs α) (s : Side) : BFace α :=
  if s.isHi then bc.hi s.dir else bc.lo s.dir

/-- the coefficient "function" of an array of shape `(0,)` (`np.array([])`): it has NO entries; the value is a
    placeholder that no statement about an active direction reads -/
def noEntries : Idx → α := fun _ => 0

/-- replace the face on the high / low side of direction `d` (what `bc.right.fixedValue(…)` etc. do to `bc`) -/
def setHi (bc : BCs α) (d : Dir) (f : BFace α) : BCs α :=
  ⟨bc.lo, fun e => if e = d then f else bc.hi e⟩
def setLo (bc : BCs α) (d : Dir) (f : BFace α) : BCs α :=
  ⟨fun e => if e = d then f else bc.lo e, bc.hi⟩

/-! ### the four utility methods (docstrings) -/

/-- "Equivalent to a = 1.0; b = 0.0; c = 0.0" -/
def noFluxSpec (f : BFace α) : BFace α :=
  ⟨fun _ => 1, fun _ => 0, fun _ => 0, f.periodic⟩

/-- "Equivalent to a = 0.0; b = 1.0; c = value" -/
def fixedValueSpec (f : BFace α) (value : Idx → α) : BFace α :=
  ⟨fun _ => 0, fun _ => 1, value, f.periodic⟩

/-- "a = scale_coeffs; b = 0.0; c = scale_coeffs*gradientvalue" -/
def fixedGradientSpec (f : BFace α) (gradientvalue scale_coeffs : Idx → α) : BFace α :=
  ⟨scale_coeffs, fun _ => 0, fun i => scale_coeffs i * gradientvalue i, f.periodic⟩

/-- "h_eff = -h if reverse_direction else h" -/
def hEff (reverse_direction : Bool) (h : Idx → α) : Idx → α :=
  fun i => if reverse_direction then -(h i) else h i

/-- "a = k; b = h_eff; c = h_eff*T_ext" -/
def newtonCoolingSpec (f : BFace α) (k h T_ext : Idx → α) (reverse_direction : Bool) : BFace α :=
  ⟨k, hEff reverse_direction h, fun i => hEff reverse_direction h i * T_ext i, f.periodic⟩

/-- the documented defaults of the optional arguments -/
def scaleCoeffsDefaultSpec : Idx → α := fun _ => 1
def reverseDirectionDefaultSpec : Bool := false

/-! ### the default boundary conditions -/

/-- the face every existing side starts with: "no flux", not periodic -/
def noFluxFace : BFace α := ⟨fun _ => 1, fun _ => 0, fun _ => 0, false⟩

/-- the face of a side the grid does not have: three empty arrays, not periodic -/
def emptyFace : BFace α := ⟨noEntries, noEntries, noEntries, false⟩

/-- directions of an `n`-dimensional grid (`Kind.active` in terms of the dimension) -/
def dimActive (n : ℕ) : Dir → Bool
  | .x => true
  | .y => decide (2 ≤ n)
  | .z => decide (3 ≤ n)

/-- default boundary conditions of an `n`-dimensional grid -/
def defaultBCsSpec (n : ℕ) : BCs α :=
  ⟨fun d => if dimActive n d then noFluxFace else emptyFace,
   fun d => if dimActive n d then noFluxFace else emptyFace⟩

/-- the factory dispatches on the dimension of the grid class only -/
def ctorNameSpec (k : Kind) : String :=
  match k.dim with
  | 1 => "BoundaryConditions1D"
  | 2 => "BoundaryConditions2D"
  | _ => "BoundaryConditions3D"

/-- cross-section shape of a side of an `n`-dimensional grid: the extents of the OTHER directions, in axis order;
    a single entry in 1-D (`(1,)`: the code reads it with `.item()`); `(0,)` for a side the grid does not have -/
def crossShape (n : ℕ) (s : Side) : List SDim :=
  match n, s.dir with
  | 1, .x => [.lit 1]
  | 2, .x => [.ny]
  | 2, .y => [.nx]
  | 3, .x => [.ny, .nz]
  | 3, .y => [.nx, .nz]
  | 3, .z => [.nx, .ny]
  | _, _ => [.lit 0]

/-- the ONE recorded deviation: `BoundaryConditions2D` creates `left.c` as `np.zeros((1, Ny))` — the cross-section
    shape with one extra leading axis of length 1 (broadcast-compatible with `(Ny,)`) -/
def defaultShapeSpec (n : ℕ) (s : Side) (k : Coef3) : List SDim :=
  if n = 2 ∧ s = .left ∧ k = .c then .lit 1 :: crossShape n s else crossShape n s

/-- every side attribute is fed by the constructor's local variable of the same name -/
def wiringSpec : List (Side × String) :=
  [(.left, "left"), (.right, "right"), (.bottom, "bottom"), (.top, "top"), (.back, "back"), (.front, "front")]

end PyFV.BCUtil
