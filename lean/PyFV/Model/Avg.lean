/-
  PyFV.Model.Avg — model of `averaging.py` (width-weighted means of the two cells
  adjacent to a face).  `linMean` and `upMean` live in Terms.lean because the operator
  identities use them.
-/
import PyFV.Model.BC

namespace PyFV

variable {α : Type} [Field α] [LinearOrder α] [IsStrictOrderedRing α]

/-- two-point width-weighted means on one face; `w0 w1` are the sizes of the two cells,
    `p0 p1` their values -/
def amean2 (w0 w1 p0 p1 : α) : α := (w0 * p0 + w1 * p1) / (w1 + w0)
def lmean2 (w0 w1 p0 p1 : α) : α := (w1 * p0 + w0 * p1) / (w1 + w0)
/-- 2-D/3-D formula of `harmonicMean` -/
def hmean2 (w0 w1 p0 p1 : α) : α := p1 * p0 * (w1 + w0) / (w1 * p0 + w0 * p1)
/-- 1-D loop formula of `harmonicMean` -/
def hmean2' (w0 w1 p0 p1 : α) : α := (w1 + w0) / (w1 / p1 + w0 / p0)

/-- `arithmeticMean` at face `c.get d` -/
def arithMean (M : Mesh α) (φ : CellFld α) (d : Dir) (c : Idx) : α :=
  let a := M.axis d; let f := c.get d
  amean2 (a.DX f) (a.DX (f+1)) (φ c) (φ (c.next d))

/-- `harmonicMean` at face `c.get d`.  A zero neighbour gives 0 in every dimension (explicit
    branch in the 1-D loop and in `_harmonic_face`); otherwise 1-D grids use the loop formula and
    2-D/3-D grids the closed form (the two divisors vanish together). -/
def harmMean (M : Mesh α) (φ : CellFld α) (d : Dir) (c : Idx) : Option α :=
  let a := M.axis d; let f := c.get d
  let p0 := φ c; let p1 := φ (c.next d)
  if p0 = 0 ∨ p1 = 0 then some 0
  else if M.kind.dim = 1 then
    sdiv (a.DX (f+1) + a.DX f) (a.DX (f+1) / p1 + a.DX f / p0)
  else
    sdiv (p1 * p0 * (a.DX (f+1) + a.DX f)) (a.DX (f+1) * p0 + a.DX f * p1)

/-- `geometricMean` at face `c.get d`, over an abstract `exp`/`log` pair.  The 1-D loop
    returns 0 when a neighbour is 0; the N-D code reaches the same 0 through
    `log 0 = −∞` (for non-negative data), which the model writes as the same branch. -/
def geoMean (exp log : α → α) (M : Mesh α) (φ : CellFld α) (d : Dir) (c : Idx) : α :=
  let a := M.axis d; let f := c.get d
  let p0 := φ c; let p1 := φ (c.next d)
  if p0 = 0 ∨ p1 = 0 then 0
  else exp ((a.DX f * log p0 + a.DX (f+1) * log p1) / (a.DX (f+1) + a.DX f))

end PyFV
