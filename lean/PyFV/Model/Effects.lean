/-
  PyFV.Model.Effects — a small effect / alias IR for Python function bodies, a certificate
  format for a flow-insensitive may-alias + may-write analysis, its decidable checker, and a
  concrete heap semantics (properties C14, C15).

  The translator T-eff (harness/translate/teff.py) turns every public builder / solver /
  operator of PyFVTool into a `Prog` and a `Cert` (GENERATED on every run).  `Cert.check`
  is decidable, so "this function is pure" is `by decide`; the soundness theorem
  (PyFV.Props.C15) is proved ONCE for all programs: if the certificate checks, then on every
  heap, for every order and repetition of the program's instructions and every oracle,
  protected input regions are never modified and what is returned is freshly allocated.
-/

namespace PyFV.Eff

/-- abstract memory regions -/
inductive Region
  | inp (i : Nat)      -- everything reachable from parameter `i` that is not part of the mesh
  | meshObj            -- mesh objects (`phi.domain`, a `MeshStructure` parameter): shared by design
  | meshData           -- arrays and sub-objects owned by a mesh (`cellsize._x`, `facecenters._y`, `dims`, …)
  | fresh (k : Nat)    -- allocation site `k` of the function
  | glob               -- module-level state
  deriving DecidableEq, Repr

abbrev Var := Nat

/-- flow-insensitive instruction set -/
inductive Instr
  | alias (x : Var) (ys : List Var)   -- `x` may denote what any of `ys` denotes (rebinding, views, slices, `.ravel()`, `.reshape`, `.T`)
  | fresh (x : Var) (k : Nat)         -- `x := ` newly allocated object / array of allocation site `k`
  | load (x : Var) (y : Var)          -- `x := y.attr` / `y[i]` of an object container: `x` may denote anything contained in `y`
  | storeRef (y : Var) (x : Var)      -- `y.attr := x`: what `y` denotes now contains what `x` denotes (a mutation of `y`)
  | write (x : Var)                   -- in-place modification of the array(s) `x` denotes (`x[...] = …`, `x op= …`, `np.copyto(x, …)`, `.fill`, `out=x`)
  | ret (x : Var)                     -- `x` is (part of) the returned value
  deriving DecidableEq, Repr

structure Prog where
  /-- region of each parameter variable `0 … params.length-1` -/
  params : List Region
  body : List Instr
  deriving Repr

/-- analysis result shipped with the program -/
structure Cert where
  pts : Var → List Region          -- what a variable may denote
  cont : Region → List Region      -- what objects of a region may contain (references stored inside them)
  writes : List Region             -- regions that may be modified
  nvars : Nat                      -- variables are `0 … nvars-1`
  regions : List Region            -- all regions mentioned

def subset (a b : List Region) : Bool := a.all (fun r => b.contains r)

/-- the input heap is region-closed: an input object contains input objects of its own parameter
    and mesh objects; a mesh object contains mesh data; mesh data contains mesh data -/
def Cert.initOK (c : Cert) : Bool :=
  c.regions.all (fun r =>
    match r with
    | .inp i => (c.cont (.inp i)).contains (.inp i) && (c.cont (.inp i)).contains .meshObj
    | .meshObj => (c.cont .meshObj).contains .meshData
    | .meshData => (c.cont .meshData).contains .meshData
    | .glob => (c.cont .glob).contains .glob
    | .fresh _ => true)

def Cert.instrOK (c : Cert) : Instr → Bool
  | .alias x ys => ys.all (fun y => subset (c.pts y) (c.pts x))
  | .fresh x k => (c.pts x).contains (.fresh k)
  | .load x y => subset (c.pts y) c.regions && (c.pts y).all (fun r => subset (c.cont r) (c.pts x))
  | .storeRef y x => (c.pts y).all (fun r => subset (c.pts x) (c.cont r) && c.writes.contains r)
  | .write x => subset (c.pts x) c.writes
  | .ret _ => true

def Cert.paramsOK (c : Cert) (p : Prog) : Bool :=
  (List.range p.params.length).all (fun i => (c.pts i).contains (p.params.getD i .glob))

/-- all regions occurring in `pts`, `cont`, `writes` are listed in `regions` (so `initOK` covers them) -/
def Cert.listed (c : Cert) : Bool :=
  (List.range c.nvars).all (fun x => subset (c.pts x) c.regions)
  && c.regions.all (fun r => subset (c.cont r) c.regions)
  && subset c.writes c.regions

/-- the certificate is a post-fixpoint of the analysis constraints of the program -/
def Cert.closed (c : Cert) (p : Prog) : Bool :=
  c.initOK && c.paramsOK p && c.listed && p.body.all c.instrOK

/-- is a region an input of the caller (anything but a fresh allocation)? -/
def Region.isFresh : Region → Bool
  | .fresh _ => true
  | _ => false

/-- returned variables -/
def Prog.rets (p : Prog) : List Var := p.body.filterMap (fun i => match i with | .ret x => some x | _ => none)

/-- regions a returned value may denote -/
def Cert.retRegions (c : Cert) (p : Prog) : List Region := p.rets.flatMap c.pts

/-- The purity check: the certificate is closed, nothing but fresh regions and the explicitly
    `mutable` regions may be written, every returned value is freshly allocated (or one of the
    explicitly allowed regions, e.g. the solution variable of `solvePDE`), and a freshly
    allocated object that can be returned contains only fresh objects or mesh *objects*
    (never mesh data or input arrays). -/
def safe (p : Prog) (c : Cert) (mutable allowedRet : List Region) : Bool :=
  c.closed p
  && c.writes.all (fun r => r.isFresh || mutable.contains r)
  && (c.retRegions p).all (fun r => r.isFresh || allowedRet.contains r)
  && c.regions.all (fun r => !r.isFresh || (c.cont r).all (fun q => q.isFresh || q == .meshObj || allowedRet.contains q))

/-! ### concrete semantics -/

abbrev Loc := Nat

structure Heap where
  reg : Loc → Region        -- instrumentation: the region a location was allocated in
  val : Loc → Nat           -- abstract content of the array / scalar payload of an object
  refs : Loc → List Loc     -- references stored in the object
  next : Loc                -- locations `< next` are allocated

structure Conf where
  heap : Heap
  env : Var → Option Loc
  returned : List Loc

/-- one executed instruction together with the oracle choices it needs -/
structure Choice where
  pick : Nat      -- which alternative (index into `ys` / into `refs`)
  data : Nat      -- the value written by a `write`

def stepI (σ : Conf) (ch : Choice) : Instr → Conf
  | .alias x ys =>
    match ys[ch.pick]? with
    | some y => (match σ.env y with
        | some l => { σ with env := fun v => if v = x then some l else σ.env v }
        | none => σ)
    | none => σ
  | .fresh x k =>
    let l := σ.heap.next
    { σ with heap := { reg := fun a => if a = l then .fresh k else σ.heap.reg a,
                       val := fun a => if a = l then ch.data else σ.heap.val a,
                       refs := fun a => if a = l then [] else σ.heap.refs a,
                       next := l + 1 },
             env := fun v => if v = x then some l else σ.env v }
  | .load x y =>
    match σ.env y with
    | some l => (match (σ.heap.refs l)[ch.pick]? with
        | some l' => { σ with env := fun v => if v = x then some l' else σ.env v }
        | none => σ)
    | none => σ
  | .storeRef y x =>
    match σ.env y, σ.env x with
    | some ly, some lx => { σ with heap := { σ.heap with refs := fun a => if a = ly then lx :: σ.heap.refs a else σ.heap.refs a } }
    | _, _ => σ
  | .write x =>
    match σ.env x with
    | some l => { σ with heap := { σ.heap with val := fun a => if a = l then ch.data else σ.heap.val a } }
    | none => σ
  | .ret x =>
    match σ.env x with
    | some l => { σ with returned := l :: σ.returned }
    | none => σ

/-- an execution: any sequence of instructions OF THE PROGRAM, in any order, any number of times
    (this over-approximates every control flow of the Python function) -/
def exec (σ : Conf) : List (Instr × Choice) → Conf
  | [] => σ
  | (i, ch) :: rest => exec (stepI σ ch i) rest

/-- well-formed initial configuration for a program: parameter `i` is bound to an allocated
    location of its declared region, other variables are unbound, the heap is region-closed,
    nothing has been returned, no location is in a fresh region yet -/
structure InitOK (p : Prog) (σ : Conf) : Prop where
  params : ∀ i, i < p.params.length → ∃ l, σ.env i = some l ∧ l < σ.heap.next ∧ σ.heap.reg l = p.params.getD i .glob
  others : ∀ v, p.params.length ≤ v → σ.env v = none
  noFresh : ∀ l, l < σ.heap.next → (σ.heap.reg l).isFresh = false
  refsAlloc : ∀ l l', l < σ.heap.next → l' ∈ σ.heap.refs l → l' < σ.heap.next
  closedInp : ∀ l l' i, l < σ.heap.next → σ.heap.reg l = .inp i → l' ∈ σ.heap.refs l →
      σ.heap.reg l' = .inp i ∨ σ.heap.reg l' = .meshObj
  closedMeshObj : ∀ l l', l < σ.heap.next → σ.heap.reg l = .meshObj → l' ∈ σ.heap.refs l → σ.heap.reg l' = .meshData
  closedMeshData : ∀ l l', l < σ.heap.next → σ.heap.reg l = .meshData → l' ∈ σ.heap.refs l → σ.heap.reg l' = .meshData
  closedGlob : ∀ l l', l < σ.heap.next → σ.heap.reg l = .glob → l' ∈ σ.heap.refs l → σ.heap.reg l' = .glob
  noReturn : σ.returned = []

end PyFV.Eff
