/-
  PyFV.Model.Obs — hand model of the OBSERVER functions of `cell.py` / `face.py`:
  `CellVariable.plotprofile()`, `cellLocations(m)`, `faceLocations(m)`.
  (`CellVariable.value` is the restriction of the ghosted field to the interior cells,
  `CellVariable.cellvolume` is `cellVolume` of Geom.lean, `CellVariable.domainIntegral()` is
  `domainIntegral` of Lemmas/BoxSum.lean: no new definitions are needed for them.)

  Index conventions as in Geom.lean / BC.lean: a position of the GHOSTED array of a cell
  variable is the model index `c : Idx` itself (`0` and `n+1` are the ghost layers; the
  missing directions of 1-D / 2-D grids carry the index `1` of the unit axis).

  `plotprofile()` returns, besides the coordinate arrays, the ghosted array in which every
  BOUNDARY-FACE entry (exactly one coordinate at `0` or `n+1`) is replaced by the average of
  the ghost cell and its interior neighbour — the value of the variable ON the boundary face,
  i.e. the "face average" of the Robin relation `a·∂φ + b·φ = c` (BC.lean, C03).  Interior
  entries are the cell values.  About edge / corner entries (two or three coordinates on the
  boundary) the model says NOTHING (`none`): they are not part of the property.
-/
import PyFV.Model.BC

namespace PyFV.Obs
open PyFV

variable {α : Type} [Field α] [LinearOrder α] [IsStrictOrderedRing α]

/-- interior neighbour, along an axis with `n` cells, of the ghosted position `p`:
    `1` for the low ghost `0`, `n` for the high ghost `n+1`, `p` itself for an interior cell -/
def nb (n p : ℕ) : ℕ := if p = 0 then 1 else if p = n + 1 then n else p

/-- model of the value array `phi0` of `plotprofile()` at the ghosted position `c`:
    interior positions: the cell value; boundary-face positions (exactly one coordinate at
    `0` / `n+1`): the average of the ghost cell and its interior neighbour; edges and
    corners: unspecified -/
def profileVal (M : Mesh α) (φg : CellFld α) (c : Idx) : Option α :=
  match M.outCount c with
  | 0 => some (φg c)
  | 1 =>
    let d := M.outDir c
    some ((φg c + φg (c.set d (nb (M.n d) (c.get d)))) / 2)
  | _ => none

/-- model of the coordinate arrays `x`, `y`, `z` of `plotprofile()` (length `n+2`): the two
    boundary faces at the ends, the cell centres in between -/
def profileCoord (M : Mesh α) (d : Dir) (p : ℕ) : α :=
  if p = 0 then (M.axis d).fc 0
  else if p ≤ M.n d then (M.axis d).cen p
  else (M.axis d).fc (M.n d)

/-- model of `cellLocations(m)`: coordinate `a` of the centre of the cell `c` -/
def cellLoc (M : Mesh α) (a : Dir) (c : Idx) : α := (M.axis a).cen (c.get a)

/-- model of `faceLocations(m)`: coordinate `a` of the centre of the face `c` of direction `D`
    (`c.get D ∈ 0..n_D` is the face number, the other entries are cell numbers): the face
    position along `D`, the cell centre along the other directions -/
def faceLoc (M : Mesh α) (D a : Dir) (c : Idx) : α :=
  if a = D then (M.axis a).fc (c.get a) else (M.axis a).cen (c.get a)

end PyFV.Obs
