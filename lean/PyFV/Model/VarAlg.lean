/-
  PyFV.Model.VarAlg — a SEMANTICS for the generated operator table `PyFV.Gen.Ops`
  (property C14, variable algebra).

  `PyFV.Gen.Ops.cellVar / cellOther / faceVar / faceOther` are regenerated on every run from the
  dunder methods of `CellVariable` (cell.py) and `FaceVariable` (face.py): per method the numpy
  operation, the operand order (`so` = self∘other, `os` = other∘self, `s` = unary), whether the
  result lives on `self.domain`, and which boundary conditions the result is constructed with.
  This file says what such a row MEANS as a function on variables:

    every dunder is  `CellVariable(self.domain, self.value ∘ other[.value], deepcopy(self.BCs))`,
    and the constructor computes the ghosted array `cellValuesWithBoundaries(values, BCs)`,

  so a row `⟨op, order, selfDomain, bcs⟩` is evaluated (`evalRow`) to the variable with
  mesh `self.mesh`, interior `c ↦ ⟦op⟧(self c, other c)` in the order given by `order`, and the
  boundary conditions selected by `bcs`; its ghosted array is `withGhosts` of these (the model of
  `cellValuesWithBoundaries`, `PyFV.Model.BC`).  A method call (`callCell`, `callFace`) is the
  lookup of the method name in the GENERATED table followed by `evalRow`; `binop` adds Python's
  dispatch rule for `x ∘ y`.

  Modelling choices
  * values in a generic ordered field `α`; `**` is an abstract parameter `powF : α → α → α`;
  * truth values are numbers: comparisons and logical operators give `1`/`0` in `α` (`truth`),
    because both constructors store `np.asarray(..., dtype=float)`; `logical_and/or` treat every
    non-zero value as true;
  * `Option`: `none` = the model does not say (row with an unknown operation / order, a result not
    on `self.domain`, boundary conditions that are neither `deepcopy(self.BCs)` nor absent, or a
    method missing from the table — Python raises `TypeError` for a missing reflected method);
  * a CellVariable row with `bcs = "none"` would mean a constructor call without the `BC` argument:
    the default `BoundaryConditions(mesh)` (homogeneous Neumann, `BCs.neumann`);
  * an `array` operand is an interior-shaped field (for FaceVariables: one array used against every
    component, as in `self._xvalue + other`, `self._yvalue + other`, …).
-/
import PyFV.Model.BC
import PyFV.Gen.Operators

namespace PyFV
open PyFV.Gen.Ops

variable {α : Type} [Field α] [LinearOrder α] [IsStrictOrderedRing α]

/-! ### values -/

/-- a truth value as stored in a variable (`dtype=float`): `1` or `0` -/
def truth (p : Prop) [Decidable p] : α := if p then 1 else 0

/-- the numpy operation named in a table row, as a function of (first operand, second operand) -/
def denoteOp (powF : α → α → α) (op : String) : Option (α → α → α) :=
  if op = "add" then some (fun x y => x + y)
  else if op = "sub" then some (fun x y => x - y)
  else if op = "mul" then some (fun x y => x * y)
  else if op = "div" then some (fun x y => x / y)
  else if op = "pow" then some powF
  else if op = "gt" then some (fun x y => truth (y < x))
  else if op = "ge" then some (fun x y => truth (y ≤ x))
  else if op = "lt" then some (fun x y => truth (x < y))
  else if op = "le" then some (fun x y => truth (x ≤ y))
  else if op = "land" then some (fun x y => truth (x ≠ 0 ∧ y ≠ 0))
  else if op = "lor" then some (fun x y => truth (x ≠ 0 ∨ y ≠ 0))
  else none

/-- the unary numpy operations -/
def denoteUn (op : String) : Option (α → α) :=
  if op = "neg" then some (fun x => -x)
  else if op = "abs" then some (fun x => |x|)
  else none

/-- A table row as an elementwise function of (value of the variable the method is called on,
    value of the other operand): `so` applies the operation as `self ∘ other`, `os` as
    `other ∘ self`, `s` ignores the other operand. -/
def elem (powF : α → α → α) (info : OpInfo) : Option (α → α → α) :=
  if info.order = "s" then (denoteUn info.op).map (fun f x _ => f x)
  else if info.order = "so" then denoteOp powF info.op
  else if info.order = "os" then (denoteOp powF info.op).map (fun f x y => f y x)
  else none

/-! ### CellVariable -/

/-- a CellVariable as the constructor `CellVariable(mesh, interior_values, BC)` sees it -/
structure CellVar (α : Type) where
  mesh : Mesh α
  bc : BCs α
  interior : CellFld α

/-- the ghosted array `_value` the constructor computes: `cellValuesWithBoundaries(values, BCs)` -/
def CellVar.ghosted (v : CellVar α) : Idx → Option α := withGhosts v.mesh v.bc v.interior

/-- the second operand of a method: a variable of the same class, a scalar, or an array -/
inductive Operand (α : Type) where
  | var (v : CellVar α)
  | scalar (s : α)
  | array (a : CellFld α)

/-- what the method body reads from the operand at cell `c`: `other.value`, resp. `other` itself
    (numpy broadcasts a scalar) -/
def Operand.val : Operand α → Idx → α
  | .var v, c => v.interior c
  | .scalar s, _ => s
  | .array a, c => a c

def Operand.isVar : Operand α → Bool
  | .var _ => true
  | _ => false

/-- default `BoundaryConditions(mesh)`: homogeneous Neumann `1·∂φ + 0·φ = 0`, nothing periodic -/
def BCs.neumann : BCs α :=
  ⟨fun _ => ⟨fun _ => 1, fun _ => 0, fun _ => 0, false⟩,
   fun _ => ⟨fun _ => 1, fun _ => 0, fun _ => 0, false⟩⟩

/-- the boundary conditions the result is constructed with -/
def resultBC (info : OpInfo) (self : CellVar α) : Option (BCs α) :=
  if info.bcs = "deepcopySelf" then some self.bc
  else if info.bcs = "none" then some BCs.neumann
  else none

/-- Meaning of one row for a CellVariable `self` and an operand `other`. -/
def evalRow (powF : α → α → α) (info : OpInfo) (self : CellVar α) (other : Operand α) :
    Option (CellVar α) :=
  if info.selfDomain = true then
    (elem powF info).bind fun f =>
      (resultBC info self).map fun bc =>
        { mesh := self.mesh, bc := bc, interior := fun c => f (self.interior c) (other.val c) }
  else none

/-- the row of a method in a pair of tables (`type(other) is CellVariable` selects the table) -/
def methodIn (tVar tOther : List (String × OpInfo)) (name : String) (otherIsVar : Bool) :
    Option OpInfo :=
  (if otherIsVar then tVar else tOther).lookup name

/-- the row of a CellVariable method in the GENERATED table -/
def cellMethod (name : String) (otherIsVar : Bool) : Option OpInfo :=
  methodIn cellVar cellOther name otherIsVar

/-- `self.<name>(other)` with respect to an arbitrary pair of tables (used with the generated
    tables below, and with hand-altered tables in the sensitivity witnesses of `C14Val`) -/
def callCellIn (tVar tOther : List (String × OpInfo)) (powF : α → α → α) (name : String)
    (self : CellVar α) (other : Operand α) : Option (CellVar α) :=
  (methodIn tVar tOther name other.isVar).bind fun info => evalRow powF info self other

/-- `self.<name>(other)`: lookup in the GENERATED tables, then `evalRow` -/
def callCell (powF : α → α → α) (name : String) (self : CellVar α) (other : Operand α) :
    Option (CellVar α) :=
  callCellIn cellVar cellOther powF name self other

/-- the method Python tries on the RIGHT operand when the left one does not implement the
    operator: `__rsub__` for `-`, the mirrored comparison for comparisons, `__rand__`/`__ror__`
    for `&`/`|` -/
def reflectedName (name : String) : Option String :=
  if name = "__add__" then some "__radd__"
  else if name = "__sub__" then some "__rsub__"
  else if name = "__mul__" then some "__rmul__"
  else if name = "__truediv__" then some "__rtruediv__"
  else if name = "__pow__" then some "__rpow__"
  else if name = "__gt__" then some "__lt__"
  else if name = "__ge__" then some "__le__"
  else if name = "__lt__" then some "__gt__"
  else if name = "__le__" then some "__ge__"
  else if name = "__and__" then some "__rand__"
  else if name = "__or__" then some "__ror__"
  else none

/-- Python's dispatch of `x ∘ y` (`name` is the forward method of `∘`): a variable on the left
    handles the operation with its forward method (the dunders never return `NotImplemented`);
    a scalar or array on the left defers to the reflected method of the variable on the right
    (built-in numbers return `NotImplemented`, NumPy defers because of `__array_priority__`);
    without any variable the operation is none of our business. -/
def binop (powF : α → α → α) (name : String) (x y : Operand α) : Option (CellVar α) :=
  match x, y with
  | .var a, _ => callCell powF name a y
  | _, .var b => (reflectedName name).bind fun r => callCell powF r b x
  | _, _ => none

/-- the left-most variable among the operands of `x ∘ y` -/
def leftmostVar : Operand α → Operand α → Option (CellVar α)
  | .var a, _ => some a
  | _, .var b => some b
  | _, _ => none

/-! ### the stored object and `copy()` -/

/-- what is stored in the Python object: mesh, boundary conditions and the full array `_value`
    (interior and ghost layer; `none` = the `inf`/`nan` of a vanishing ghost coefficient) -/
structure CellObj (α : Type) where
  mesh : Mesh α
  bc : BCs α
  arr : Idx → Option α

/-- the two array shapes the constructor accepts: interior-shaped values (the ghost layer is
    then computed from the boundary conditions) or an array that already has the ghost layer
    (`cell_value.shape == dims+2`: "simply fill") -/
inductive CtorArg (α : Type) where
  | interior (φ : CellFld α)
  | ghosted (g : Idx → Option α)

/-- `CellVariable(mesh, cell_value, BC)` -/
def construct (M : Mesh α) (x : CtorArg α) (bc : BCs α) : CellObj α :=
  match x with
  | .interior φ => ⟨M, bc, withGhosts M bc φ⟩
  | .ghosted g => ⟨M, bc, g⟩

/-- the object an operator result is: constructed from interior values -/
def CellVar.obj (v : CellVar α) : CellObj α := construct v.mesh (.interior v.interior) v.bc

/-- `copy()`: `CellVariable(self.domain, np.copy(self._value), deepcopy(self.BCs))` — the ghosted
    array is adopted as it is -/
def CellObj.copy (o : CellObj α) : CellObj α := construct o.mesh (.ghosted o.arr) o.bc

/-! ### FaceVariable -/

/-- a FaceVariable: three component arrays (`_xvalue`, `_yvalue`, `_zvalue`), no boundary
    conditions -/
structure FaceVar (α : Type) where
  mesh : Mesh α
  val : FaceFld α

inductive FaceOperand (α : Type) where
  | var (v : FaceVar α)
  | scalar (s : α)
  | array (a : Idx → α)

/-- what the method body reads for component `d` at face `c`: `other._xvalue` …, resp. `other` -/
def FaceOperand.val : FaceOperand α → Dir → Idx → α
  | .var v, d, c => v.val d c
  | .scalar s, _, _ => s
  | .array a, _, c => a c

def FaceOperand.isVar : FaceOperand α → Bool
  | .var _ => true
  | _ => false

/-- Meaning of one row for a FaceVariable: the same operation on each of the three components;
    a FaceVariable is constructed without boundary conditions. -/
def evalFaceRow (powF : α → α → α) (info : OpInfo) (self : FaceVar α) (other : FaceOperand α) :
    Option (FaceVar α) :=
  if info.selfDomain = true ∧ info.bcs = "none" then
    (elem powF info).map fun f =>
      { mesh := self.mesh, val := fun d c => f (self.val d c) (other.val d c) }
  else none

/-- the row of a FaceVariable method in the GENERATED table -/
def faceMethod (name : String) (otherIsVar : Bool) : Option OpInfo :=
  methodIn faceVar faceOther name otherIsVar

def callFaceIn (tVar tOther : List (String × OpInfo)) (powF : α → α → α) (name : String)
    (self : FaceVar α) (other : FaceOperand α) : Option (FaceVar α) :=
  (methodIn tVar tOther name other.isVar).bind fun info => evalFaceRow powF info self other

/-- `self.<name>(other)`: lookup in the GENERATED tables, then `evalFaceRow` -/
def callFace (powF : α → α → α) (name : String) (self : FaceVar α) (other : FaceOperand α) :
    Option (FaceVar α) :=
  callFaceIn faceVar faceOther powF name self other

def faceBinop (powF : α → α → α) (name : String) (x y : FaceOperand α) : Option (FaceVar α) :=
  match x, y with
  | .var a, _ => callFace powF name a y
  | _, .var b => (reflectedName name).bind fun r => callFace powF r b x
  | _, _ => none

def leftmostFaceVar : FaceOperand α → FaceOperand α → Option (FaceVar α)
  | .var a, _ => some a
  | _, .var b => some b
  | _, _ => none

/-! ### the specification, as functions -/

/-- What each method is SUPPOSED to compute, as a function of (value of the variable the method
    is called on, value of the other operand): the reflected methods `__r…__` are called as
    `other ∘ self`.  (`PyFV.Props.C14Val.cell_methods_elementwise` / `face_methods_elementwise`
    prove that the generated tables, evaluated by `evalRow`, compute exactly this.) -/
def methodSem (powF : α → α → α) : List (String × (α → α → α)) :=
  [("__add__", fun x y => x + y), ("__radd__", fun x y => y + x),
   ("__sub__", fun x y => x - y), ("__rsub__", fun x y => y - x),
   ("__mul__", fun x y => x * y), ("__rmul__", fun x y => y * x),
   ("__truediv__", fun x y => x / y), ("__rtruediv__", fun x y => y / x),
   ("__neg__", fun x _ => -x),
   ("__pow__", fun x y => powF x y), ("__rpow__", fun x y => powF y x),
   ("__gt__", fun x y => truth (x > y)), ("__ge__", fun x y => truth (x ≥ y)),
   ("__lt__", fun x y => truth (x < y)), ("__le__", fun x y => truth (x ≤ y)),
   ("__and__", fun x y => truth (x ≠ 0 ∧ y ≠ 0)), ("__or__", fun x y => truth (x ≠ 0 ∨ y ≠ 0)),
   ("__abs__", fun x _ => |x|)]

end PyFV
