/-
  DriverState.lean — line-protocol driver of the state-machine model (PyFV.Model.State).
  One history per line: ops separated by `;`, e.g. `newBC; newVar 0; editBC 0; solve 1`.
  Reply: per step `out | v:bc,bcmod,valmod,cacheFresh,ghostFresh,outdated,precalc …` joined by ` ;; `.
  `cacheFresh`: n = no cached terms, 1 = built from the current BC content, 0 = stale.
-/
import PyFV.Model.State

open PyFV.State

def parseOp (s : String) : Option Op :=
  match (s.trimAscii.toString.splitOn " ").filter (· ≠ "") with
  | ["newBC"] => some .newBC
  | ["newVar", b] => b.toNat?.map .newVar
  | ["newVarDefault"] => some .newVarDefault
  | ["editBC", b] => b.toNat?.map .editBC
  | ["editBCSilent", b] => b.toNat?.map .editBCSilent
  | ["editVal", v] => v.toNat?.map .editVal
  | ["updateValue", v, w] => do some (.updateValue (← v.toNat?) (← w.toNat?))
  | ["applyBCs", v] => v.toNat?.map .applyBCs
  | ["solve", v] => v.toNat?.map .solve
  | ["solveExplicit", v] => v.toNat?.map .solveExplicit
  | ["copy", v] => v.toNat?.map .copy
  | ["arith", v] => v.toNat?.map .arith
  | _ => none

def b2s (b : Bool) : String := if b then "1" else "0"

def fmtOut (_s : St) : Out → String
  | .none => "none"
  | .newBC b => s!"newBC {b}"
  | .newVar v => s!"newVar {v}"
  | .solved u _ =>
    -- report whether the boundary terms used were built from the content current at solve time
    "solved " ++ (match u with | none => "n" | some _ => "some")
  | .invalid => "invalid"

def fmtVars (s : St) : String :=
  " ".intercalate ((List.range s.nV).map (fun v =>
    let x := s.vars v
    let c := (s.bcs x.bc).content
    let cf := match x.cache with | none => "n" | some k => b2s (k == c)
    let gf := b2s (x.ghostI == x.interior && x.ghostB == c)
    s!"{v}:{x.bc},{b2s (s.bcs x.bc).modified},{b2s x.valMod},{cf},{gf},{b2s (outdated s x)},{b2s x.precalc}"))

def handle (line : String) : String := Id.run do
  let mut s := init
  let mut outs : Array String := #[]
  for tok in line.splitOn ";" do
    if tok.trimAscii.toString.isEmpty then continue
    match parseOp tok with
    | none => return "bad-op"
    | some op =>
      -- for solves also report whether the terms used were current
      let pre := s
      let r := step s op
      s := r.1
      let extra := match op, r.2 with
        | .solve v, .solved (some k) _ =>
          -- content of the BC object at solve time (edits never happen inside a solve)
          " " ++ b2s (k == (pre.bcs (pre.vars v).bc).content)
        | _, _ => ""
      outs := outs.push (fmtOut s r.2 ++ extra ++ " | " ++ fmtVars s)
  return " ;; ".intercalate outs.toList

partial def loop (h : IO.FS.Stream) (out : IO.FS.Stream) : IO Unit := do
  let line ← h.getLine
  if line.isEmpty then return ()
  out.putStrLn (handle line.trimAscii.toString)
  loop h out

def main : IO Unit := do loop (← IO.getStdin) (← IO.getStdout)
