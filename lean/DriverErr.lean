/-
  DriverErr.lean — line-protocol driver of the C16 decision tables.
  Run as `lake env lean --run DriverErr.lean < requests.txt`.

  One request per line, one reply per line (the outcome name).  A leading token `spec` selects
  the DOCUMENTED table instead of the model of the code.  Unknown or malformed requests are
  answered with `bad-op` (never a default).

    coordget K L | coordset K L | compget K L | compset K L      (K grid class, L label)
    ctor K arrays N | ctor K scalars N
    shape d1,d2,… | s1,s2,…          (mesh extents | value shape; empty shape = scalar)
    term T                           (mat vec pair pairBad tuple3 scalar str list none)
    bface A B C                      (ndarray float list str none)
    radper K f0 f1 f2 f3 f4 f5       (flags left right bottom top back front, 0/1)
-/
import PyFV.Gen.Errors

open PyFV PyFV.ErrSpec

def kindOf : String → Option Kind
  | "cart1" => some .cart1 | "cyl1" => some .cyl1 | "sph1" => some .sph1
  | "cart2" => some .cart2 | "cyl2" => some .cyl2 | "pol2" => some .pol2
  | "cart3" => some .cart3 | "cyl3" => some .cyl3 | "sph3" => some .sph3
  | _ => none

def termOf : String → Option TermShape
  | "mat" => some .mat | "vec" => some .vec | "pair" => some .pair | "pairBad" => some .pairBad
  | "tuple3" => some .tuple3 | "scalar" => some .scalar | "str" => some .str
  | "list" => some .list | "none" => some .none
  | _ => none

def coefOf : String → Option CoefType
  | "ndarray" => some .ndarray | "float" => some .float | "list" => some .list
  | "str" => some .str | "none" => some .none
  | _ => none

def flagOf : String → Option Bool
  | "0" => some false | "1" => some true | _ => none

def toks (s : String) : List String := (s.splitOn " ").filter (· ≠ "")

def natList (s : String) : Option (List ℕ) :=
  ((s.splitOn ",").map (fun t => t.trimAscii.toString)).filter (· ≠ "") |>.mapM String.toNat?

def labelReq (spec : Bool) (op : String) (k : Kind) (l : String) : Option LabelOutcome :=
  match op, spec with
  | "coordget", false => some (Gen.coordLabelGet k l)
  | "coordset", false => some (Gen.coordLabelSet k l)
  | "compget", false => some (Gen.compLabelGet k l)
  | "compset", false => some (Gen.compLabelSet k l)
  | "coordget", true => if l ∈ allCoordLabels then some (specCoord k l) else none
  | "coordset", true => if l ∈ allCoordLabels then some (specCoordSet k l) else none
  | "compget", true => if l ∈ allCompLabels then some (specComp k l) else none
  | "compset", true => if l ∈ allCompLabels then some (specCompSet k l) else none
  | _, _ => none

def handleToks (spec : Bool) : List String → Option String
  | [op, k, l] =>
    if op = "term" ∨ op = "shape" then none else do
      let k ← kindOf k
      let o ← labelReq spec op k l
      -- the generated tables answer `other:not-a-label` for strings that are no label
      if o = .other "not-a-label" then none else pure o.name
  | ["ctor", k, form, n] => do
    let k ← kindOf k
    let n ← n.toNat?
    let f ← match form with
      | "arrays" => some (CtorForm.arrays n)
      | "scalars" => some (CtorForm.scalars n)
      | _ => none
    -- right arity, wrong types: outside the arity property, excluded from the spec comparison
    if spec && ctorTypeConfusion k f then pure "out-of-scope"
    else pure (if spec then specCtor k f else ctorOutcome k f).name
  | ["term", t] => do
    let t ← termOf t
    pure (if spec then specTerm t else termOutcome t).name
  | ["bface", a, b, c] => do
    let a ← coefOf a
    let b ← coefOf b
    let c ← coefOf c
    pure (if spec then specBFace a b c else bfaceOutcome a b c).name
  | "radper" :: k :: fl => do
    let k ← kindOf k
    if fl.length ≠ 6 then none
    let f ← fl.mapM flagOf
    pure (if spec then specRadialPeriodic k f else radialPeriodicOutcome k f).name
  | _ => none

def handleShape (spec : Bool) (rest : String) : Option String :=
  match rest.splitOn "|" with
  | [d, s] => do
    let d ← natList d
    let s ← natList s
    if d.isEmpty then none
    -- single-cell 2-D/3-D mesh with a size-1 value of too high a rank: either outcome is allowed
    if spec && shapeOutOfScope d s then pure "out-of-scope"
    else pure (if spec then specShape d s else shapeOutcome d s).name
  | _ => none

def handle (line : String) : String :=
  let (spec, body) :=
    if line.startsWith "spec " then (true, (line.drop 5).trimAscii.toString) else (false, line)
  let r :=
    if body.startsWith "shape " then handleShape spec (body.drop 6).toString
    else handleToks spec (toks body)
  r.getD "bad-op"

partial def loop (h : IO.FS.Stream) (out : IO.FS.Stream) : IO Unit := do
  let line ← h.getLine
  if line.isEmpty then return ()
  out.putStrLn (handle line.trimAscii.toString)
  loop h out

def main : IO Unit := do
  let i ← IO.getStdin
  let o ← IO.getStdout
  loop i o
