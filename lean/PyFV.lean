import PyFV.Model.Geom
import PyFV.Model.Terms
import PyFV.Model.BC
import PyFV.Model.Avg
import PyFV.Model.Solve
